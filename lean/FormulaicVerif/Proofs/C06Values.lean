import FormulaicVerif.Spec.Nulls
import Mathlib.Data.List.Basic
import Mathlib.Data.List.Nodup
import Mathlib.Data.List.Perm.Basic
/-! Helper lemmas for C06, part 1: the drop set, positional removal, and the value level
(`find_nulls`, `drop_rows`, `as_columns` over every shape of evaluated factor). -/
namespace FormulaicVerif.Proofs.C06
open FormulaicVerif.Model.Nulls FormulaicVerif.Spec.Nulls

variable {ρ L : Type}

/-! ### the drop set -/
theorem mem_setAdd (s : DropSet) (x y : Nat) : y ∈ setAdd s x ↔ y ∈ s ∨ y = x := by
  unfold setAdd
  split
  · constructor
    · exact Or.inl
    · rintro (h | rfl) <;> assumption
  · simp

theorem nodup_setAdd (s : DropSet) (x : Nat) (h : s.Nodup) : (setAdd s x).Nodup := by
  unfold setAdd
  split
  · exact h
  · rename_i hx
    rw [List.nodup_append]
    refine ⟨h, by simp, ?_⟩
    intro a ha b hb
    simp at hb
    subst hb
    exact fun e => hx (e ▸ ha)

theorem mem_setUpdate (xs : List Nat) (s : DropSet) (y : Nat) : y ∈ setUpdate s xs ↔ y ∈ s ∨ y ∈ xs := by
  unfold setUpdate
  induction xs generalizing s with
  | nil => simp
  | cons x r ih =>
    simp only [List.foldl_cons, ih, mem_setAdd, List.mem_cons]
    tauto

theorem nodup_setUpdate (xs : List Nat) (s : DropSet) (h : s.Nodup) : (setUpdate s xs).Nodup := by
  unfold setUpdate
  induction xs generalizing s with
  | nil => simpa
  | cons x r ih => exact ih _ (nodup_setAdd s x h)

theorem setUpdate_append (s : DropSet) (xs ys : List Nat) :
    setUpdate (setUpdate s xs) ys = setUpdate s (xs ++ ys) := by
  simp [setUpdate, List.foldl_append]

theorem setUpdate_of_subset (xs : List Nat) (d : DropSet) (h : ∀ i ∈ xs, i ∈ d) :
    setUpdate d xs = d := by
  unfold setUpdate
  induction xs with
  | nil => rfl
  | cons x r ih =>
    have hx : setAdd d x = d := by
      unfold setAdd
      rw [if_pos (h x (by simp))]
    simp only [List.foldl_cons, hx]
    exact ih (fun i hi => h i (by simp [hi]))

theorem subset_of_setUpdate_eq (xs : List Nat) (d : DropSet) (h : setUpdate d xs = d) :
    ∀ i ∈ xs, i ∈ d := by
  intro i hi
  rw [← h, mem_setUpdate]
  exact Or.inr hi

theorem setUpdate_prefix (xs : List Nat) (s : DropSet) : ∃ t, setUpdate s xs = s ++ t := by
  unfold setUpdate
  induction xs generalizing s with
  | nil => exact ⟨[], by simp⟩
  | cons x r ih =>
    simp only [List.foldl_cons]
    obtain ⟨t, ht⟩ := ih (setAdd s x)
    unfold setAdd at ht ⊢
    split
    · rename_i hx
      rw [if_pos hx] at ht
      exact ⟨t, ht⟩
    · rename_i hx
      rw [if_neg hx] at ht
      exact ⟨x :: t, by rw [ht]; simp⟩

/-- a `set.update` that does not make the set longer leaves it as it is -/
theorem setUpdate_eq_of_length (xs : List Nat) (s : DropSet)
    (h : (setUpdate s xs).length = s.length) : setUpdate s xs = s := by
  obtain ⟨t, ht⟩ := setUpdate_prefix xs s
  rw [ht] at h ⊢
  have : t = [] := by
    cases t with
    | nil => rfl
    | cons a r => simp at h
  rw [this, List.append_nil]

theorem mem_insertSorted (x y : Nat) (l : List Nat) : y ∈ insertSorted x l ↔ y = x ∨ y ∈ l := by
  induction l with
  | nil => simp [insertSorted]
  | cons a r ih =>
    unfold insertSorted
    split
    · simp
    · simp only [List.mem_cons, ih]; tauto

theorem length_insertSorted (x : Nat) (l : List Nat) : (insertSorted x l).length = l.length + 1 := by
  induction l with
  | nil => rfl
  | cons a r ih =>
    unfold insertSorted
    split <;> simp [ih]

theorem mem_sorted (s : DropSet) (y : Nat) : y ∈ sorted s ↔ y ∈ s := by
  unfold sorted
  induction s with
  | nil => simp
  | cons a r ih => simp only [List.foldr_cons, mem_insertSorted, ih, List.mem_cons]

theorem length_sorted (s : DropSet) : (sorted s).length = s.length := by
  unfold sorted
  induction s with
  | nil => rfl
  | cons a r ih => simp only [List.foldr_cons, length_insertSorted, ih, List.length_cons]

/-! ### positional removal is "the rows at the kept positions" -/
theorem dropFrom_eq (d : List Nat) (xs pre : List ρ) :
    dropFrom d pre.length xs =
      ((List.range' pre.length xs.length).filter (fun i => !d.contains i)).filterMap
        (fun i => (pre ++ xs)[i]?) := by
  induction xs generalizing pre with
  | nil => simp [dropFrom]
  | cons x r ih =>
    have h := ih (pre ++ [x])
    simp only [List.length_append, List.length_cons, List.length_nil, Nat.zero_add, List.append_assoc,
      List.singleton_append] at h
    simp only [dropFrom, List.length_cons, List.range'_succ, List.filter_cons]
    by_cases hm : pre.length ∈ d
    · simp [hm, h]
    · simp [hm, h]

theorem dropFilter_eq (xs : List ρ) (d : List Nat) :
    dropFilter xs d = rowsAt xs (keptPositions xs.length d) := by
  have := dropFrom_eq d xs []
  simpa [dropFilter, rowsAt, keptPositions, List.range_eq_range'] using this

theorem dropPositional_eq (xs : List ρ) (d : List Nat) (h : ∀ i ∈ d, i < xs.length) :
    dropPositional xs d = .ok (rowsAt xs (keptPositions xs.length d)) := by
  unfold dropPositional
  rw [if_pos (by simpa using h), ← dropFilter_eq]
  rfl

theorem keptPositions_congr (n : Nat) (d d' : List Nat) (h : ∀ i, i ∈ d ↔ i ∈ d') :
    keptPositions n d = keptPositions n d' := by
  unfold keptPositions
  apply List.filter_congr
  intro i _
  simp [h i]

theorem mem_keptPositions (n : Nat) (d : List Nat) (i : Nat) :
    i ∈ keptPositions n d ↔ i < n ∧ i ∉ d := by
  simp [keptPositions]

theorem keptPositions_nil (n : Nat) : keptPositions n [] = List.range n := by
  simp [keptPositions]

theorem rowsAt_range (xs : List ρ) : rowsAt xs (List.range xs.length) = xs := by
  have := dropFilter_eq xs []
  rw [keptPositions_nil] at this
  rw [← this]
  have h : ∀ (i : Nat) (ys : List ρ), dropFrom [] i ys = ys := by
    intro i ys
    induction ys generalizing i with
    | nil => rfl
    | cons y r ih => simp [dropFrom, ih]
  exact h 0 xs

theorem length_rowsAt (xs : List ρ) (ps : List Nat) (h : ∀ i ∈ ps, i < xs.length) :
    (rowsAt xs ps).length = ps.length := by
  unfold rowsAt
  induction ps with
  | nil => rfl
  | cons p r ih =>
    have hp : p < xs.length := h p (by simp)
    simp [List.getElem?_eq_getElem hp, ih (fun i hi => h i (by simp [hi]))]

theorem length_rowsAt_kept (xs : List ρ) (n : Nat) (d : List Nat) (h : xs.length = n) :
    (rowsAt xs (keptPositions n d)).length = (keptPositions n d).length := by
  apply length_rowsAt
  intro i hi
  rw [mem_keptPositions] at hi
  omega

theorem length_le_of_nodup (n : Nat) (d : List Nat) (hn : d.Nodup) (hd : ∀ i ∈ d, i < n) :
    d.length ≤ n := by
  have h1 : ((List.range n).filter (fun i => d.contains i)).Perm d := by
    apply (List.perm_ext_iff_of_nodup ((List.nodup_range).filter _) hn).2
    intro a
    simp only [List.mem_filter, List.mem_range, List.contains_iff_mem]
    exact ⟨fun h => h.2, fun h => ⟨hd a h, h⟩⟩
  have h2 := List.length_filter_le (fun i => d.contains i) (List.range n)
  have h3 := h1.length_eq
  simp only [List.length_range] at h2
  omega

theorem length_keptPositions (n : Nat) (d : List Nat) (hn : d.Nodup) (hd : ∀ i ∈ d, i < n) :
    (keptPositions n d).length = n - d.length := by
  have h1 : ((List.range n).filter (fun i => d.contains i)).Perm d := by
    apply (List.perm_ext_iff_of_nodup ((List.nodup_range).filter _) hn).2
    intro a
    simp only [List.mem_filter, List.mem_range, List.contains_iff_mem]
    exact ⟨fun h => h.2, fun h => ⟨hd a h, h⟩⟩
  have h2 := List.length_eq_length_filter_add (l := List.range n) (fun i => d.contains i)
  have h3 := h1.length_eq
  unfold keptPositions
  simp only [List.length_range] at h2
  omega

/-! ### the ordering of `sorted(drop_rows)` -/

theorem pairwise_insertSorted (x : Nat) (l : List Nat) (h : l.Pairwise (· ≤ ·)) :
    (insertSorted x l).Pairwise (· ≤ ·) := by
  induction l with
  | nil => simp [insertSorted]
  | cons a r ih =>
    rw [List.pairwise_cons] at h
    unfold insertSorted
    split
    · rename_i hxa
      rw [List.pairwise_cons]
      refine ⟨?_, List.pairwise_cons.mpr h⟩
      intro b hb
      rcases List.mem_cons.mp hb with rfl | hb
      · exact hxa
      · exact Nat.le_trans hxa (h.1 b hb)
    · rename_i hxa
      rw [List.pairwise_cons]
      refine ⟨?_, ih h.2⟩
      intro b hb
      rw [mem_insertSorted] at hb
      rcases hb with rfl | hb
      · omega
      · exact h.1 b hb

theorem pairwise_sorted (s : DropSet) : (sorted s).Pairwise (· ≤ ·) := by
  unfold sorted
  induction s with
  | nil => simp
  | cons a r ih => exact pairwise_insertSorted a _ ih

theorem perm_insertSorted (x : Nat) (l : List Nat) : (insertSorted x l).Perm (x :: l) := by
  induction l with
  | nil => simp [insertSorted]
  | cons a r ih =>
    unfold insertSorted
    split
    · exact List.Perm.refl _
    · exact (List.Perm.cons a ih).trans (List.Perm.swap x a r)

theorem perm_sorted (s : DropSet) : (sorted s).Perm s := by
  unfold sorted
  induction s with
  | nil => simp
  | cons a r ih => exact (perm_insertSorted a _).trans (List.Perm.cons a ih)

theorem nodup_sorted (s : DropSet) (h : s.Nodup) : (sorted s).Nodup :=
  (perm_sorted s).nodup_iff.mpr h

/-! ### removal only looks at membership in the index collection -/

theorem dropFrom_congr (d d' : List Nat) (h : ∀ i, i ∈ d ↔ i ∈ d') (i : Nat) (xs : List ρ) :
    dropFrom d i xs = dropFrom d' i xs := by
  induction xs generalizing i with
  | nil => rfl
  | cons x r ih =>
    simp only [dropFrom, ih]
    by_cases hi : i ∈ d
    · simp [hi, (h i).1 hi]
    · have : i ∉ d' := fun h' => hi ((h i).2 h')
      simp [hi, this]

theorem all_lt_congr (d d' : List Nat) (h : ∀ i, i ∈ d ↔ i ∈ d') (n : Nat) :
    d.all (fun i => decide (i < n)) = d'.all (fun i => decide (i < n)) := by
  rw [Bool.eq_iff_iff]
  simp only [List.all_eq_true, decide_eq_true_eq]
  exact ⟨fun hh i hi => hh i ((h i).2 hi), fun hh i hi => hh i ((h i).1 hi)⟩

theorem dropPositional_congr (xs : List ρ) (d d' : List Nat) (h : ∀ i, i ∈ d ↔ i ∈ d') :
    dropPositional xs d = dropPositional xs d' := by
  unfold dropPositional
  rw [all_lt_congr d d' h, dropFrom_congr d d' h]

theorem dropTable_congr (n : Nat) (cols : List (List ρ)) (d d' : List Nat)
    (h : ∀ i, i ∈ d ↔ i ∈ d') : dropTable n cols d = dropTable n cols d' := by
  unfold dropTable
  have hm : cols.map (fun c => dropFrom d 0 c) = cols.map (fun c => dropFrom d' 0 c) :=
    List.map_congr_left (fun c _ => dropFrom_congr d d' h 0 c)
  rw [all_lt_congr d d' h, dropFrom_congr d d' h, hm]

/-! ### `find_nulls` -/

theorem mem_nullFrom (cells : List (Cell ρ)) (i j : Nat) :
    j ∈ nullFrom i cells ↔ ∃ k c, cells[k]? = some c ∧ c.null = true ∧ j = i + k := by
  induction cells generalizing i with
  | nil => simp [nullFrom]
  | cons c r ih =>
    unfold nullFrom
    constructor
    · intro h
      split at h
      · rename_i hc
        rcases List.mem_cons.mp h with rfl | h
        · exact ⟨0, c, by simp, hc, by simp⟩
        · obtain ⟨k, c', h1, h2, h3⟩ := (ih (i + 1)).1 h
          exact ⟨k + 1, c', by simpa using h1, h2, by omega⟩
      · obtain ⟨k, c', h1, h2, h3⟩ := (ih (i + 1)).1 h
        exact ⟨k + 1, c', by simpa using h1, h2, by omega⟩
    · rintro ⟨k, c', h1, h2, h3⟩
      cases k with
      | zero =>
        simp only [List.getElem?_cons_zero, Option.some.injEq] at h1
        subst h1
        simp [h2, h3]
      | succ k =>
        have : j ∈ nullFrom (i + 1) r :=
          (ih (i + 1)).2 ⟨k, c', by simpa using h1, h2, by omega⟩
        split
        · exact List.mem_cons_of_mem _ this
        · exact this

theorem mem_nullPositions (cells : List (Cell ρ)) (i : Nat) :
    i ∈ nullPositions cells ↔ cellNull cells i = true := by
  unfold nullPositions cellNull
  rw [mem_nullFrom]
  constructor
  · rintro ⟨k, c, h1, h2, rfl⟩
    simp [h1, h2]
  · intro h
    cases hc : cells[i]? with
    | none => simp [hc] at h
    | some c => exact ⟨i, c, hc, by simpa [hc] using h, by simp⟩

theorem mem_nullRows2 (n : Nat) (cols : List (List (Cell ρ))) (i : Nat) :
    i ∈ nullRows2 n cols ↔ tableNull n cols i = true := by
  unfold nullRows2 tableNull rowAny cellNull
  simp only [List.mem_filter, List.mem_range, Bool.and_eq_true, decide_eq_true_eq]
  exact Iff.rfl

theorem nullPositions_lt (cells : List (Cell ρ)) (i : Nat) (h : i ∈ nullPositions cells) :
    i < cells.length := by
  rw [mem_nullPositions] at h
  unfold cellNull at h
  cases hc : cells[i]? with
  | none => simp [hc] at h
  | some c =>
    by_contra hge
    rw [List.getElem?_eq_none (by omega)] at hc
    cases hc

mutual
/-- `find_nulls` flags exactly the rows that contain a null cell — for every shape of value,
nested dicts and hidden members included, in every variant of the tree. -/
theorem findNulls_rows (v : Variant) (x : Value ρ) (ns : List Nat) (h : findNulls v x = .ok ns)
    (i : Nat) : i ∈ ns ↔ rowNull x i = true := by
  cases x with
  | none =>
    simp only [findNulls, Except.ok.injEq] at h
    subst h
    simp [rowNull]
  | scalar k c =>
    cases k with
    | pyNum =>
      simp only [findNulls, scalarNulls] at h
      split at h
      · cases h
      · simp only [Except.ok.injEq] at h
        subst h
        simp [rowNull]
    | pyStr =>
      simp only [findNulls, Except.ok.injEq] at h
      subst h
      simp [rowNull]
    | npNum =>
      simp only [findNulls, scalarNulls] at h
      split at h
      · split at h
        · cases h
        · simp only [Except.ok.injEq] at h
          subst h
          simp [rowNull]
      · cases h
  | pylist cells =>
    simp only [findNulls, Except.ok.injEq] at h
    subst h
    simp only [rowNull, mem_nullPositions]
  | nwSeries cells =>
    simp only [findNulls, Except.ok.injEq] at h
    subst h
    simp only [rowNull, mem_nullPositions]
  | series cells =>
    simp only [findNulls, Except.ok.injEq] at h
    subst h
    simp only [rowNull, mem_nullPositions]
  | array0 c =>
    simp only [findNulls, scalarNulls] at h
    split at h
    · cases h
    · simp only [Except.ok.injEq] at h
      subst h
      simp [rowNull]
  | array1 cells =>
    simp only [findNulls, Except.ok.injEq] at h
    subst h
    simp only [rowNull, mem_nullPositions]
  | array2 n cols =>
    simp only [findNulls, Except.ok.injEq] at h
    subst h
    simp only [rowNull, mem_nullRows2]
  | arrayN n => simp [findNulls] at h
  | frame n cols =>
    simp only [findNulls] at h
    split at h
    · simp only [Except.ok.injEq] at h
      subst h
      simp only [rowNull, mem_nullRows2]
    · cases h
  | sparse csc n cols =>
    simp only [findNulls, Except.ok.injEq] at h
    subst h
    simp only [rowNull, mem_nullRows2]
  | dict items =>
    simp only [findNulls] at h
    simp only [rowNull]
    exact findNullsItems_rows v items ns h i
  | other => simp [findNulls] at h
theorem findNullsItems_rows (v : Variant) (items : List (Bool × Value ρ)) (ns : List Nat)
    (h : findNullsItems v items = .ok ns) (i : Nat) : i ∈ ns ↔ rowNullItems items i = true := by
  cases items with
  | nil =>
    simp only [findNullsItems, Except.ok.injEq] at h
    subst h
    simp [rowNullItems]
  | cons it r =>
    obtain ⟨hid, x⟩ := it
    simp only [findNullsItems] at h
    cases h1 : findNulls v x with
    | error e => simp [h1] at h
    | ok a =>
      cases h2 : findNullsItems v r with
      | error e => simp [h1, h2] at h
      | ok b =>
        simp only [h1, h2, Except.ok.injEq] at h
        subst h
        simp only [rowNullItems, List.mem_append, Bool.or_eq_true]
        rw [findNulls_rows v x a h1 i, findNullsItems_rows v r b h2 i]
end

mutual
/-- `find_nulls` of the tree under test answers exactly for the checkable values. -/
theorem findNulls_ok_iff (x : Value ρ) : (∃ ns, findNulls current x = .ok ns) ↔ Checkable x := by
  cases x with
  | none => simp [findNulls, Checkable]
  | scalar k c =>
    cases k <;> cases hc : c.null <;> simp [findNulls, Checkable, scalarNulls, current, hc]
  | pylist cells => simp [findNulls, Checkable]
  | nwSeries cells => simp [findNulls, Checkable]
  | series cells => simp [findNulls, Checkable]
  | array0 c => cases hc : c.null <;> simp [findNulls, Checkable, scalarNulls, hc]
  | array1 cells => simp [findNulls, Checkable]
  | array2 n cols => simp [findNulls, Checkable]
  | arrayN n => simp [findNulls, Checkable]
  | frame n cols => simp [findNulls, Checkable, current]
  | sparse csc n cols => simp [findNulls, Checkable]
  | dict items =>
    simp only [findNulls, Checkable]
    exact findNullsItems_ok_iff items
  | other => simp [findNulls, Checkable]
theorem findNullsItems_ok_iff (items : List (Bool × Value ρ)) :
    (∃ ns, findNullsItems current items = .ok ns) ↔ CheckableItems items := by
  cases items with
  | nil => simp [findNullsItems, CheckableItems]
  | cons it r =>
    obtain ⟨hid, x⟩ := it
    simp only [findNullsItems, CheckableItems]
    rw [← findNulls_ok_iff x, ← findNullsItems_ok_iff r]
    constructor
    · rintro ⟨ns, h⟩
      cases h1 : findNulls current x with
      | error e => simp [h1] at h
      | ok a =>
        cases h2 : findNullsItems current r with
        | error e => simp [h1, h2] at h
        | ok b => exact ⟨⟨a, rfl⟩, ⟨b, rfl⟩⟩
    · rintro ⟨⟨a, h1⟩, ⟨b, h2⟩⟩
      exact ⟨a ++ b, by simp [h1, h2]⟩
end

mutual
/-- when `find_nulls` of the tree under test raises, it is one of its three `ValueError`s -/
theorem findNulls_error_kind (x : Value ρ) (e : Err) (h : findNulls current x = .error e) :
    e = .constantNull ∨ e = .tooManyDims ∨ e = .noFindNulls := by
  cases x with
  | none => simp [findNulls] at h
  | scalar k c =>
    cases k <;> simp only [findNulls, scalarNulls, current, if_true] at h
    · split at h
      · cases h; exact Or.inl rfl
      · cases h
    · cases h
    · split at h
      · cases h; exact Or.inl rfl
      · cases h
  | pylist cells => simp [findNulls] at h
  | nwSeries cells => simp [findNulls] at h
  | series cells => simp [findNulls] at h
  | array0 c =>
    simp only [findNulls, scalarNulls] at h
    split at h
    · cases h; exact Or.inl rfl
    · cases h
  | array1 cells => simp [findNulls] at h
  | array2 n cols => simp [findNulls] at h
  | arrayN n =>
    simp only [findNulls] at h
    cases h
    exact Or.inr (Or.inl rfl)
  | frame n cols => simp [findNulls, current] at h
  | sparse csc n cols => simp [findNulls] at h
  | dict items =>
    simp only [findNulls] at h
    exact findNullsItems_error_kind items e h
  | other =>
    simp only [findNulls] at h
    cases h
    exact Or.inr (Or.inr rfl)
theorem findNullsItems_error_kind (items : List (Bool × Value ρ)) (e : Err)
    (h : findNullsItems current items = .error e) :
    e = .constantNull ∨ e = .tooManyDims ∨ e = .noFindNulls := by
  cases items with
  | nil => simp [findNullsItems] at h
  | cons it r =>
    obtain ⟨hid, x⟩ := it
    simp only [findNullsItems] at h
    cases h1 : findNulls current x with
    | error e1 =>
      simp only [h1] at h
      cases h
      exact findNulls_error_kind x e h1
    | ok a =>
      cases h2 : findNullsItems current r with
      | error e2 =>
        simp only [h1, h2] at h
        cases h
        exact findNullsItems_error_kind r e h2
      | ok b => simp [h1, h2] at h
end

/-! ### `drop_rows`, value by value -/

theorem length_dropFrom_range (n : Nat) (d : List Nat) :
    (dropFrom d 0 (List.range n)).length = (keptPositions n d).length := by
  have h := dropFilter_eq (List.range n) d
  unfold dropFilter at h
  rw [h, List.length_range]
  exact length_rowsAt_kept (List.range n) n d List.length_range

theorem dropTable_eq (n : Nat) (cols : List (List ρ)) (d : List Nat) (hc : ∀ c ∈ cols, c.length = n)
    (hd : ∀ i ∈ d, i < n) :
    dropTable n cols d =
      .ok ((keptPositions n d).length, cols.map (fun c => rowsAt c (keptPositions n d))) := by
  unfold dropTable
  rw [if_pos (by simpa using hd), length_dropFrom_range]
  congr 2
  apply List.map_congr_left
  intro c hcm
  have := dropFilter_eq c d
  unfold dropFilter at this
  rw [this, hc c hcm]

theorem dropRows_current' [DecidableEq L] (labels : List L) (s : Store) (xs : List ρ) (d : List Nat)
    (h : ∀ i ∈ d, i < xs.length) :
    dropRows current labels s xs d = .ok (rowsAt xs (keptPositions xs.length d)) := by
  cases s <;> simp [dropRows, dropSeries, current, dropPositional_eq xs d h, dropFilter_eq]

/-- Every row-removing overload of `drop_rows` is positional: on a value with `n` rows and index
positions inside the frame it returns the value restricted to the positions not listed. -/
theorem dropRowsV_positional [DecidableEq L] (labels : List L) (n : Nat) (x : Value ρ)
    (d : List Nat) (hx : HasRows n x) (hd : ∀ i ∈ d, i < n) :
    dropRowsV current labels x d = .ok (keepRows (keptPositions n d) x) := by
  cases x with
  | pylist cells =>
    have hx' : cells.length = n := hx
    simp only [dropRowsV, dropRows_current' labels _ cells d (by rw [hx']; exact hd), hx', keepRows]
  | nwSeries cells =>
    have hx' : cells.length = n := hx
    simp only [dropRowsV, dropRows_current' labels _ cells d (by rw [hx']; exact hd), hx', keepRows]
  | series cells =>
    have hx' : cells.length = n := hx
    simp only [dropRowsV, dropRows_current' labels _ cells d (by rw [hx']; exact hd), hx', keepRows]
  | array1 cells =>
    have hx' : cells.length = n := hx
    simp only [dropRowsV, dropRows_current' labels _ cells d (by rw [hx']; exact hd), hx', keepRows]
  | array2 k cols =>
    obtain ⟨hk, hc⟩ : k = n ∧ ∀ c ∈ cols, c.length = n := hx
    subst hk
    simp only [dropRowsV, dropTable_eq k cols d hc hd, keepRows]
  | arrayN k =>
    have hk : k = n := hx
    subst hk
    simp only [dropRowsV, dropTable_eq k [] d (by simp) hd, keepRows]
  | sparse csc k cols =>
    obtain ⟨hk, hc⟩ : k = n ∧ ∀ c ∈ cols, c.length = n := hx
    subst hk
    simp only [dropRowsV, dropTable_eq k cols d hc hd, keepRows]
  | none => exact absurd hx (by simp [HasRows])
  | scalar k c => exact absurd hx (by simp [HasRows])
  | array0 c => exact absurd hx (by simp [HasRows])
  | frame k cols => exact absurd hx (by simp [HasRows])
  | dict items => exact absurd hx (by simp [HasRows])
  | other => exact absurd hx (by simp [HasRows])

/-- The list and narwhals overloads never fail: positions that are not rows are ignored. -/
theorem dropRowsV_filter [DecidableEq L] (v : Variant) (labels : List L) (cells : List (Cell ρ))
    (d : List Nat) :
    dropRowsV v labels (.pylist cells) d = .ok (.pylist (rowsAt cells (keptPositions cells.length d))) ∧
    dropRowsV v labels (.nwSeries cells) d =
      .ok (.nwSeries (rowsAt cells (keptPositions cells.length d))) := by
  simp [dropRowsV, dropRows, dropFilter_eq]

/-- A position that is not a row makes the mask / `numpy.delete` overloads raise `IndexError`. -/
theorem dropRowsV_out_of_range [DecidableEq L] (labels : List L) (n : Nat) (x : Value ρ)
    (d : List Nat) (hx : HasRows n x) (hd : ∃ i ∈ d, n ≤ i) :
    (∃ cells, x = .pylist cells ∨ x = .nwSeries cells) ∨
    dropRowsV current labels x d = .error .indexError := by
  have hall : d.all (fun i => decide (i < n)) = false := by
    obtain ⟨i, hi, hn⟩ := hd
    rw [Bool.eq_false_iff]
    intro h
    rw [List.all_eq_true] at h
    have := h i hi
    simp at this
    omega
  cases x with
  | pylist cells => exact Or.inl ⟨cells, Or.inl rfl⟩
  | nwSeries cells => exact Or.inl ⟨cells, Or.inr rfl⟩
  | series cells =>
    have hx' : cells.length = n := hx
    right
    simp [dropRowsV, dropRows, dropSeries, current, dropPositional, hx', hall]
  | array1 cells =>
    have hx' : cells.length = n := hx
    right
    simp [dropRowsV, dropRows, dropPositional, hx', hall]
  | array2 k cols =>
    obtain ⟨hk, _⟩ : k = n ∧ ∀ c ∈ cols, c.length = n := hx
    right
    simp [dropRowsV, dropTable, hk, hall]
  | arrayN k =>
    have hk : k = n := hx
    right
    simp [dropRowsV, dropTable, hk, hall]
  | sparse csc k cols =>
    obtain ⟨hk, _⟩ : k = n ∧ ∀ c ∈ cols, c.length = n := hx
    right
    simp [dropRowsV, dropTable, hk, hall]
  | none => exact absurd hx (by simp [HasRows])
  | scalar k c => exact absurd hx (by simp [HasRows])
  | array0 c => exact absurd hx (by simp [HasRows])
  | frame k cols => exact absurd hx (by simp [HasRows])
  | dict items => exact absurd hx (by simp [HasRows])
  | other => exact absurd hx (by simp [HasRows])

/-- `drop_rows` only looks at WHICH positions are listed: order and repetitions in `indices`
make no difference (every overload, positional variants of the tree). -/
theorem dropRowsV_congr [DecidableEq L] (v : Variant) (hv : v.labelDrops = false) (labels : List L)
    (x : Value ρ) (d d' : List Nat) (h : ∀ i, i ∈ d ↔ i ∈ d') :
    dropRowsV v labels x d = dropRowsV v labels x d' := by
  cases x <;>
    simp only [dropRowsV, dropRows, dropSeries, hv, dropFilter, dropFrom_congr d d' h,
      dropPositional_congr _ d d' h, dropTable_congr _ _ d d' h, Bool.false_eq_true, if_false]

end FormulaicVerif.Proofs.C06
