import FormulaicVerif.Proofs.C10Subset
import FormulaicVerif.Proofs.C10Source
/-! Helper lemmas for C10: ordering of a requested term list (`SimpleFormula._reorder`), when `subset`
succeeds, the rows it returns as a function of the requested terms. -/
namespace FormulaicVerif.Proofs.C10
open FormulaicVerif.Model.SpecMeta

/-! ### stable sort by degree -/

theorem insertByDegree_perm (x : ReqTerm) (l : List ReqTerm) : (insertByDegree x l).Perm (x :: l) := by
  induction l with
  | nil => exact List.Perm.refl _
  | cons y ys ih =>
    unfold insertByDegree
    split
    · exact ((List.Perm.cons y ih).trans (List.Perm.swap x y ys))
    · exact List.Perm.refl _

theorem sortByDegree_perm (ts : List ReqTerm) : (sortByDegree ts).Perm ts := by
  induction ts with
  | nil => exact List.Perm.refl _
  | cons t ts ih =>
    have : sortByDegree (t :: ts) = insertByDegree t (sortByDegree ts) := rfl
    rw [this]
    exact (insertByDegree_perm t _).trans (List.Perm.cons t ih)

theorem insertByDegree_sorted (x : ReqTerm) (l : List ReqTerm)
    (h : l.Pairwise (fun a b => a.degree ≤ b.degree)) :
    (insertByDegree x l).Pairwise (fun a b => a.degree ≤ b.degree) := by
  induction l with
  | nil => simp [insertByDegree]
  | cons y ys ih =>
    have hp := List.pairwise_cons.mp h
    unfold insertByDegree
    split
    · rename_i hlt
      apply List.pairwise_cons.mpr
      refine ⟨?_, ih hp.2⟩
      intro z hz
      have := (insertByDegree_perm x ys).mem_iff.mp hz
      rcases List.mem_cons.mp this with rfl | hz'
      · exact Nat.le_of_lt hlt
      · exact hp.1 z hz'
    · rename_i hge
      have hxy : x.degree ≤ y.degree := Nat.le_of_not_lt hge
      apply List.pairwise_cons.mpr
      refine ⟨?_, h⟩
      intro z hz
      rcases List.mem_cons.mp hz with rfl | hz'
      · exact hxy
      · exact Nat.le_trans hxy (hp.1 z hz')

theorem sortByDegree_sorted (ts : List ReqTerm) :
    (sortByDegree ts).Pairwise (fun a b => a.degree ≤ b.degree) := by
  induction ts with
  | nil => simp [sortByDegree]
  | cons t ts ih => exact insertByDegree_sorted t _ ih

theorem insertByDegree_filter (x : ReqTerm) (l : List ReqTerm) (d : Nat) :
    (insertByDegree x l).filter (fun t => t.degree == d) = (x :: l).filter (fun t => t.degree == d) := by
  induction l with
  | nil => rfl
  | cons y ys ih =>
    unfold insertByDegree
    split
    · rename_i hlt
      by_cases hy : y.degree = d <;> by_cases hx : x.degree = d
      · omega
      · simp only [List.filter_cons, ih, hy, hx, beq_self_eq_true, if_true, beq_iff_eq, if_false]
      · simp only [List.filter_cons, ih, hy, hx, beq_self_eq_true, if_true, beq_iff_eq, if_false]
      · simp only [List.filter_cons, ih, hy, hx, beq_iff_eq, if_false]
    · rfl

/-- the sort is stable: terms of one degree keep their relative order -/
theorem sortByDegree_stable (ts : List ReqTerm) (d : Nat) :
    (sortByDegree ts).filter (fun t => t.degree == d) = ts.filter (fun t => t.degree == d) := by
  induction ts with
  | nil => rfl
  | cons t ts ih =>
    have : sortByDegree (t :: ts) = insertByDegree t (sortByDegree ts) := rfl
    rw [this, insertByDegree_filter, List.filter_cons, List.filter_cons, ih]

theorem insertByTermLt_perm (x : ReqTerm) (l : List ReqTerm) : (insertByTermLt x l).Perm (x :: l) := by
  induction l with
  | nil => exact List.Perm.refl _
  | cons y ys ih =>
    unfold insertByTermLt
    split
    · exact ((List.Perm.cons y ih).trans (List.Perm.swap x y ys))
    · exact List.Perm.refl _

theorem sortByTermLt_perm (ts : List ReqTerm) : (ts.foldr insertByTermLt []).Perm ts := by
  induction ts with
  | nil => exact List.Perm.refl _
  | cons t ts ih => exact (insertByTermLt_perm t _).trans (List.Perm.cons t ih)

/-! ### the row of a term -/

/-- the structure row whose term equals `t` -/
def rowOf (st : Structure) (t : Term) : Option Row := st.find? (fun r => sortStrs r.term == sortStrs t)

theorem rowOf_eq {st : Structure} (h : DistinctTerms st) {r : Row} (hr : r ∈ st) {t : Term}
    (e : sortStrs r.term = sortStrs t) : rowOf st t = some r := by
  unfold rowOf
  apply find?_unique _ _ r hr (by simpa using e)
  intro y hy py
  simp only [beq_iff_eq] at py
  exact row_unique h hy hr (py.trans e.symm)

theorem rowOf_none {st : Structure} {t : Term} (h : ∀ r ∈ st, sortStrs r.term ≠ sortStrs t) :
    rowOf st t = none := by
  unfold rowOf
  rw [List.find?_eq_none]
  intro r hr
  simpa using h r hr

theorem pointwise_rows_eq {st : Structure} (h : DistinctTerms st) {spec : List Term} {sub : Structure}
    (hp : Pointwise (fun t r => r ∈ st ∧ sortStrs r.term = sortStrs t) spec sub) :
    sub = spec.filterMap (rowOf st) := by
  induction hp with
  | nil => rfl
  | cons hx _ ih =>
    rw [List.filterMap_cons, rowOf_eq h hx.1 hx.2, ← ih]

/-! ### when `subset` succeeds -/

theorem restricted_iff (F spec : List Term) :
    restricted F spec = .ok spec ↔ ∀ t ∈ spec, ∃ u ∈ F, sortStrs t = sortStrs u := by
  unfold restricted
  constructor
  · intro h
    split at h
    · rename_i hall
      intro t ht
      have := List.all_eq_true.mp hall t ht
      obtain ⟨u, hu, hm⟩ := List.any_eq_true.mp this
      exact ⟨u, hu, by simpa [keyMatches_term] using hm⟩
    · cases h
  · intro h
    have : spec.all (fun t => F.any (fun u => keyMatches t (.term u))) = true := by
      rw [List.all_eq_true]
      intro t ht
      obtain ⟨u, hu, e⟩ := h t ht
      rw [List.any_eq_true]
      exact ⟨u, hu, by simpa [keyMatches_term] using e⟩
    rw [if_pos this]

theorem restricted_err (F spec : List Term) (h : ∃ t ∈ spec, ∀ u ∈ F, sortStrs t ≠ sortStrs u) :
    restricted F spec = .error .valueError := by
  unfold restricted
  have : ¬ spec.all (fun t => F.any (fun u => keyMatches t (.term u))) = true := by
    intro hall
    obtain ⟨t, ht, hne⟩ := h
    have := List.all_eq_true.mp hall t ht
    obtain ⟨u, hu, hm⟩ := List.any_eq_true.mp this
    exact hne u hu (by simpa [keyMatches_term] using hm)
  rw [if_neg this]

/-- `subset` succeeds when every requested term is a term of the formula and of the structure, and
then returns, request by request, the row of that term -/
theorem subset_ok (F : List Term) (st : Structure) (spec : List Term) (h : DistinctTerms st)
    (hF : ∀ t ∈ spec, ∃ u ∈ F, sortStrs t = sortStrs u)
    (hS : ∀ t ∈ spec, ∃ r ∈ st, sortStrs r.term = sortStrs t) :
    subset F st spec = .ok (spec.filterMap (rowOf st)) ∧ (spec.filterMap (rowOf st)).length = spec.length := by
  let g : Term → Row := fun t => match rowOf st t with
    | some r => r
    | none => ⟨[], [], []⟩
  have hg : ∀ t ∈ spec, rowOf st t = some (g t) := by
    intro t ht
    obtain ⟨r, hr, e⟩ := hS t ht
    have := rowOf_eq h hr e
    simp only [g, this]
  have hmap : spec.filterMap (rowOf st) = spec.map g := by
    clear hF hS
    induction spec with
    | nil => rfl
    | cons t ts ih =>
      rw [List.filterMap_cons, hg t (by simp), List.map_cons,
        ih (fun u hu => hg u (List.mem_cons_of_mem _ hu))]
  refine ⟨?_, by rw [hmap]; simp⟩
  rw [hmap]
  unfold subset
  rw [(restricted_iff F spec).mpr hF]
  simp only [bind, Except.bind]
  apply mapM_ok_of_forall
  intro t ht
  obtain ⟨r, hr, e⟩ := hS t ht
  have hgr : g t = r := by
    have := rowOf_eq h hr e
    simp only [g, this]
  rw [hgr, subsetDict_foldl _ st [] (by simp) h]
  unfold TDict.getPlain
  have hin : r ∈ st.filter (fun s => (spec.foldl addTerm []).any (fun u => keyMatches u (.term s.term))) := by
    apply List.mem_filter.mpr
    refine ⟨hr, ?_⟩
    have := foldl_addTerm_any spec [] r.term
    unfold sameTerm at this
    rw [this]
    simp only [List.any_nil, Bool.false_or, List.any_eq_true, beq_iff_eq]
    exact ⟨t, ht, e.symm⟩
  have hl : TDict.lookup ([] ++ (st.filter (fun s => (spec.foldl addTerm []).any
      (fun u => keyMatches u (.term s.term)))).map (fun s => (s.term, s))) (.term t) = some r := by
    unfold TDict.lookup
    rw [find?_unique _ _ (r.term, r)]
    · rfl
    · simp only [List.nil_append]
      exact List.mem_map_of_mem (f := fun s => (s.term, s)) hin
    · simp [keyMatches_term, e]
    · intro y hy py
      simp only [List.nil_append, List.mem_map] at hy
      obtain ⟨r', hr', rfl⟩ := hy
      simp only [keyMatches_term, beq_iff_eq] at py
      have : r' = r := row_unique h (List.mem_filter.mp hr').1 hr (py.trans e.symm)
      rw [this]
  rw [hl]

theorem subset_err (F : List Term) (st : Structure) (spec : List Term)
    (h : ∃ t ∈ spec, ∀ u ∈ F, sortStrs t ≠ sortStrs u) : subset F st spec = .error .valueError := by
  unfold subset
  rw [restricted_err F spec h]
  rfl

end FormulaicVerif.Proofs.C10

namespace FormulaicVerif.Proofs.C10
open FormulaicVerif.Model.SpecMeta

/-! ### the spec's own `Term` objects -/

theorem ownTerms_foldl (F : List Term) (d : TDict Term) (hF : DistinctF F)
    (hd : ∀ e ∈ d, ∀ t ∈ F, sortStrs e.1 ≠ sortStrs t) :
    F.foldl (fun d t => d.insert t t) d = d ++ F.map (fun t => (t, t)) := by
  induction F generalizing d with
  | nil => simp
  | cons t F ih =>
    have hp := List.pairwise_cons.mp hF
    simp only [List.foldl_cons]
    rw [TDict.insert_fresh d t _ (fun e he => hd e he t (by simp)), ih _ hp.2]
    · simp
    · intro e he u hu
      rcases List.mem_append.mp he with he | he
      · exact hd e he u (List.mem_cons_of_mem _ hu)
      · simp only [List.mem_singleton] at he
        subst he
        exact hp.1 u hu

theorem term_unique {F : List Term} (hF : DistinctF F) {t u : Term} (ht : t ∈ F) (hu : u ∈ F)
    (e : sortStrs t = sortStrs u) : t = u := by
  induction F with
  | nil => cases ht
  | cons a F ih =>
    have hp := List.pairwise_cons.mp hF
    rcases List.mem_cons.mp ht with h1 | h1 <;> rcases List.mem_cons.mp hu with h2 | h2
    · rw [h1, h2]
    · subst h1; exact absurd e (hp.1 _ h2)
    · subst h2; exact absurd e.symm (hp.1 _ h1)
    · exact ih hp.2 h1 h2

/-- `own_terms[t]` is the formula's own term equal to `t` -/
theorem ownTerms_get (F : List Term) (hF : DistinctF F) {u : Term} (hu : u ∈ F) (t : Term)
    (e : sortStrs u = sortStrs t) : (ownTerms F).getPlain (.term t) = .ok u := by
  unfold ownTerms
  rw [ownTerms_foldl F [] hF (by simp)]
  unfold TDict.getPlain TDict.lookup
  rw [find?_unique _ _ (u, u)]
  · rfl
  · simp only [List.nil_append]
    exact List.mem_map_of_mem (f := fun t => (t, t)) hu
  · simp [keyMatches_term, e]
  · intro y hy py
    simp only [List.nil_append, List.mem_map] at hy
    obtain ⟨u', hu', rfl⟩ := hy
    simp only [keyMatches_term, beq_iff_eq] at py
    have : u' = u := term_unique hF hu' hu (py.trans e.symm)
    rw [this]

/-- the own terms of a list of requested terms, all of which belong to the formula -/
theorem ownTerms_mapM (F : List Term) (hF : DistinctF F) (spec : List Term)
    (h : ∀ t ∈ spec, ∃ u ∈ F, sortStrs t = sortStrs u) :
    ∃ own, spec.mapM (fun t => (ownTerms F).getPlain (.term t)) = .ok own ∧
      Pointwise (fun t o => o ∈ F ∧ sortStrs o = sortStrs t) spec own := by
  induction spec with
  | nil => exact ⟨[], rfl, .nil⟩
  | cons t spec ih =>
    obtain ⟨own, hown, hpw⟩ := ih (fun x hx => h x (List.mem_cons_of_mem _ hx))
    obtain ⟨u, hu, e⟩ := h t (by simp)
    refine ⟨u :: own, ?_, .cons ⟨hu, e.symm⟩ hpw⟩
    rw [List.mapM_cons, ownTerms_get F hF hu t e.symm, hown]
    rfl

end FormulaicVerif.Proofs.C10

namespace FormulaicVerif.Proofs.C10
open FormulaicVerif.Model.SpecMeta

/-! ### `term_factors` for ANY formula (repeated terms included) -/

/-- the first `Term` object of every class of equal terms, in formula order (`set` insertion) -/
def firsts (F : List Term) : List Term := F.foldl addTerm []

theorem addTerm_cases (s : List Term) (t : Term) :
    (∃ u ∈ s, sortStrs u = sortStrs t) ∧ addTerm s t = s ∨
    (∀ u ∈ s, sortStrs u ≠ sortStrs t) ∧ addTerm s t = s ++ [t] := by
  by_cases h : ∃ u ∈ s, sortStrs u = sortStrs t
  · left
    refine ⟨h, ?_⟩
    unfold addTerm
    have : s.any (fun u => keyMatches u (.term t)) = true := by
      rw [List.any_eq_true]
      obtain ⟨u, hu, e⟩ := h
      exact ⟨u, hu, by simp [keyMatches_term, e]⟩
    rw [if_pos this]
  · right
    have h' : ∀ u ∈ s, sortStrs u ≠ sortStrs t := fun u hu e => h ⟨u, hu, e⟩
    exact ⟨h', addTerm_fresh s t h'⟩

theorem firsts_foldl_props (F : List Term) (s : List Term) (hs : DistinctF s) :
    DistinctF (F.foldl addTerm s) ∧
    (∀ u ∈ F.foldl addTerm s, u ∈ s ∨ u ∈ F) ∧
    (∀ t, t ∈ s ∨ t ∈ F → ∃ u ∈ F.foldl addTerm s, sortStrs u = sortStrs t) := by
  induction F generalizing s with
  | nil => exact ⟨hs, fun u hu => Or.inl hu, fun t ht => by
      rcases ht with ht | ht
      · exact ⟨t, ht, rfl⟩
      · cases ht⟩
  | cons t F ih =>
    simp only [List.foldl_cons]
    rcases addTerm_cases s t with ⟨hex, he⟩ | ⟨hne, he⟩
    · rw [he]
      obtain ⟨h1, h2, h3⟩ := ih s hs
      refine ⟨h1, ?_, ?_⟩
      · intro u hu
        rcases h2 u hu with h | h
        · exact Or.inl h
        · exact Or.inr (List.mem_cons_of_mem _ h)
      · intro x hx
        rcases hx with hx | hx
        · exact h3 x (Or.inl hx)
        · rcases List.mem_cons.mp hx with rfl | hx
          · obtain ⟨u, hu, e⟩ := hex
            obtain ⟨w, hw, e'⟩ := h3 u (Or.inl hu)
            exact ⟨w, hw, e'.trans e⟩
          · exact h3 x (Or.inr hx)
    · rw [he]
      have hs' : DistinctF (s ++ [t]) := by
        unfold DistinctF
        rw [List.pairwise_append]
        exact ⟨hs, by simp, fun a ha b hb => by simp at hb; subst hb; exact hne a ha⟩
      obtain ⟨h1, h2, h3⟩ := ih (s ++ [t]) hs'
      refine ⟨h1, ?_, ?_⟩
      · intro u hu
        rcases h2 u hu with h | h
        · rcases List.mem_append.mp h with h | h
          · exact Or.inl h
          · simp at h; subst h; exact Or.inr (by simp)
        · exact Or.inr (List.mem_cons_of_mem _ h)
      · intro x hx
        rcases hx with hx | hx
        · exact h3 x (Or.inl (List.mem_append_left _ hx))
        · rcases List.mem_cons.mp hx with rfl | hx
          · exact h3 x (Or.inl (by simp))
          · exact h3 x (Or.inr hx)

theorem firsts_props (F : List Term) :
    DistinctF (firsts F) ∧ (∀ u ∈ firsts F, u ∈ F) ∧ (∀ t ∈ F, ∃ u ∈ firsts F, sortStrs u = sortStrs t) := by
  obtain ⟨h1, h2, h3⟩ := firsts_foldl_props F [] List.Pairwise.nil
  refine ⟨h1, ?_, fun t ht => h3 t (Or.inr ht)⟩
  intro u hu
  rcases h2 u hu with h | h
  · cases h
  · exact h

/-- adding a factor that the entry of the term already holds changes nothing -/
theorem addTermFactor_same (d : TDict (List Str)) (t : Term) (f : Str)
    (h : ∀ e ∈ d, sortStrs e.1 = sortStrs t → f ∈ e.2) (hex : ∃ e ∈ d, sortStrs e.1 = sortStrs t) :
    addTermFactor d t f = d := by
  induction d with
  | nil => obtain ⟨_, he, _⟩ := hex; cases he
  | cons e d ih =>
    obtain ⟨k, fs⟩ := e
    by_cases hk : sortStrs k = sortStrs t
    · have hf : f ∈ fs := h (k, fs) (by simp) hk
      have hc : fs.contains f = true := by simpa using hf
      simp only [addTermFactor, keyMatches_term, hk, beq_self_eq_true, if_true, addStr, hc]
    · simp only [addTermFactor, keyMatches_term, beq_iff_eq, hk, if_false]
      rw [ih (fun e he => h e (List.mem_cons_of_mem _ he))]
      obtain ⟨e, he, hm⟩ := hex
      rcases List.mem_cons.mp he with rfl | he
      · exact absurd hm hk
      · exact ⟨e, he, hm⟩

theorem termFactors_inner_same (d : TDict (List Str)) (t : Term) (fsub : List Str)
    (h : ∀ e ∈ d, sortStrs e.1 = sortStrs t → ∀ f ∈ fsub, f ∈ e.2) (hex : ∃ e ∈ d, sortStrs e.1 = sortStrs t) :
    fsub.foldl (fun d f => addTermFactor d t f) d = d := by
  induction fsub with
  | nil => rfl
  | cons f rest ih =>
    simp only [List.foldl_cons]
    rw [addTermFactor_same d t f (fun e he hm => h e he hm f (by simp)) hex]
    exact ih (fun e he hm g hg => h e he hm g (List.mem_cons_of_mem _ hg))

def nonEmpty (t : Term) : Bool := !t.isEmpty

theorem termFactors_foldl_any (F : List Term) (s : List Term) (hn : ∀ t ∈ F, t.Nodup) :
    F.foldl (fun d t => t.foldl (fun d f => addTermFactor d t f) d) ((s.filter nonEmpty).map (fun t => (t, t)))
      = ((F.foldl addTerm s).filter nonEmpty).map (fun t => (t, t)) := by
  induction F generalizing s with
  | nil => rfl
  | cons t F ih =>
    simp only [List.foldl_cons]
    rcases addTerm_cases s t with ⟨hex, he⟩ | ⟨hne, he⟩
    · rw [he]
      have hstep : t.foldl (fun d f => addTermFactor d t f) ((s.filter nonEmpty).map (fun t => (t, t)))
          = (s.filter nonEmpty).map (fun t => (t, t)) := by
        by_cases ht : t = []
        · subst ht; rfl
        · apply termFactors_inner_same
          · intro e he hm f hf
            obtain ⟨u, _, rfl⟩ := List.mem_map.mp he
            exact (mem_of_sortStrs_eq hm f).mpr hf
          · obtain ⟨u, hu, e⟩ := hex
            have hune : nonEmpty u = true := by
              cases t with
              | nil => exact absurd rfl ht
              | cons a r =>
                have : a ∈ u := (mem_of_sortStrs_eq e a).mpr (by simp)
                cases u with
                | nil => cases this
                | cons _ _ => rfl
            exact ⟨(u, u), List.mem_map_of_mem (f := fun t => (t, t)) (List.mem_filter.mpr ⟨hu, hune⟩), e⟩
      rw [hstep]
      exact ih s (fun x hx => hn x (List.mem_cons_of_mem _ hx))
    · rw [he]
      have hstep : t.foldl (fun d f => addTermFactor d t f) ((s.filter nonEmpty).map (fun t => (t, t)))
          = ((s ++ [t]).filter nonEmpty).map (fun t => (t, t)) := by
        rw [termFactors_inner _ t (hn t (by simp))]
        · by_cases ht : t = []
          · subst ht; simp [nonEmpty]
          · have : nonEmpty t = true := by cases t <;> simp_all [nonEmpty]
            simp [ht, List.filter_append, this]
        · intro e he
          obtain ⟨u, hu, rfl⟩ := List.mem_map.mp he
          exact hne u (List.mem_filter.mp hu).1
      rw [hstep]
      exact ih (s ++ [t]) (fun x hx => hn x (List.mem_cons_of_mem _ hx))

/-- `term_factors` of ANY formula: one entry per class of equal (non-empty) terms, keyed by the first
`Term` object of the class, holding that term's factors -/
theorem termFactors_eq_firsts (F : List Term) (hn : ∀ t ∈ F, t.Nodup) :
    termFactors F = ((firsts F).filter nonEmpty).map (fun t => (t, t)) := by
  unfold termFactors firsts
  exact termFactors_foldl_any F [] hn


theorem firsts_nodup_terms (F : List Term) (hn : ∀ t ∈ F, t.Nodup) : ∀ t ∈ firsts F, t.Nodup :=
  fun t ht => hn t ((firsts_props F).2.1 t ht)

theorem termFactors_firsts (F : List Term) (hn : ∀ t ∈ F, t.Nodup) : termFactors F = termFactors (firsts F) := by
  rw [termFactors_eq_firsts F hn, termFactors_eq (firsts F) (firsts_props F).1 (firsts_nodup_terms F hn)]
  rfl

theorem factorTerms_lookup_any (F : List Term) (hn : ∀ t ∈ F, t.Nodup) (f : Str) :
    SDict.lookup (factorTerms F) f =
      if (firsts F).filter (fun t => t.contains f) = [] then none
      else some ((firsts F).filter (fun t => t.contains f)) := by
  have h1 : factorTerms F = factorTerms (firsts F) := by
    have a : factorTerms F = (termFactors F).foldl vtStep [] := rfl
    have b : factorTerms (firsts F) = (termFactors (firsts F)).foldl vtStep [] := rfl
    rw [a, b, termFactors_firsts F hn]
  rw [h1]
  exact factorTerms_lookup (firsts F) (firsts_props F).1 (firsts_nodup_terms F hn) f

end FormulaicVerif.Proofs.C10
