import FormulaicVerif.Proofs.C11Poly

/-! # C11 helper lemmas, part 3: the list forms the engine runs

* `polyTable_eq`: the memoised polynomial table is the tabulated entry function `polyP`;
* `rawCoding_reduced`: the list-of-rows coding matrix is `toRows` of `Model.Contrasts.coding`;
* `applyInner_is_product`: `_apply` (including the treatment fast path) is `dummies @ coding`. -/
open Finset BigOperators
set_option linter.unusedSimpArgs false
set_option linter.unusedVariables false
namespace FormulaicVerif.Proofs.C11
open FormulaicVerif.Model.Contrasts FormulaicVerif.Spec.Contrasts

/-- tabulate: the list `[f 0, …, f (n-1)]` -/
def tab (n : ℕ) (f : ℕ → ℚ) : List ℚ := (List.range n).map f

theorem tab_length (n : ℕ) (f : ℕ → ℚ) : (tab n f).length = n := by simp [tab]

theorem lsum_append_single (l : List ℚ) (a : ℚ) : lsum (l ++ [a]) = lsum l + a := by
  induction l with
  | nil => simp [lsum]
  | cons h t ih =>
    simp only [lsum, List.cons_append, List.foldr_cons] at ih ⊢
    rw [ih]; ring

theorem lsum_tab (n : ℕ) (f : ℕ → ℚ) : lsum (tab n f) = sumTo n f := by
  induction n with
  | zero => simp [tab, lsum, sumTo]
  | succ m ih =>
    simp only [tab, List.range_succ, List.map_append, List.map_cons, List.map_nil] at ih ⊢
    rw [lsum_append_single, sumTo, ih]

theorem zipWith_tab (g : ℚ → ℚ → ℚ) (n : ℕ) (f1 f2 : ℕ → ℚ) :
    List.zipWith g (tab n f1) (tab n f2) = tab n (fun i => g (f1 i) (f2 i)) := by
  simp [tab, List.zipWith_map, List.zipWith_self]

theorem map_tab (g : ℚ → ℚ) (n : ℕ) (f : ℕ → ℚ) : (tab n f).map g = tab n (fun i => g (f i)) := by
  simp [tab]

theorem listFn_tab (n : ℕ) (f : ℕ → ℚ) (i : ℕ) (hi : i < n) : listFn (tab n f) i = f i := by
  simp [listFn, tab, hi]

theorem list_eq_tab (s : List ℚ) : s = tab s.length (listFn s) := by
  apply List.ext_getElem
  · simp [tab]
  · intro i h1 h2
    simp [tab, listFn, h1]

theorem lnorm2_tab (n : ℕ) (p : ℕ → ℚ) : lnorm2 (tab n p) = norm2 n p := by
  simp only [lnorm2, map_tab, lsum_tab, norm2]

theorem lalpha_tab (n : ℕ) (x p : ℕ → ℚ) : lalpha (tab n x) (tab n p) = alphaOf n x p := by
  simp only [lalpha, zipWith_tab, lsum_tab, lnorm2_tab, alphaOf]

theorem polyStep_none (n : ℕ) (x p1 : ℕ → ℚ) :
    polyStep (tab n x) (tab n p1) none = tab n (fun i => (x i - alphaOf n x p1) * p1 i) := by
  simp only [polyStep, lalpha_tab, zipWith_tab]

theorem polyStep_some (n : ℕ) (x p1 p2 : ℕ → ℚ) :
    polyStep (tab n x) (tab n p1) (some (tab n p2))
      = tab n (fun i => (x i - alphaOf n x p1) * p1 i - (norm2 n p1 / norm2 n p2) * p2 i) := by
  simp only [polyStep, lalpha_tab, zipWith_tab, lnorm2_tab]

/-- the accumulator of `polyLoop` after column `k`: `[P_k, …, P_0]` -/
def descT (n : ℕ) (x : ℕ → ℚ) : ℕ → List (List ℚ)
  | 0 => [tab n (polyP n x 0)]
  | k + 1 => tab n (polyP n x (k + 1)) :: descT n x k

theorem polyLoop_step0 (n : ℕ) (x : ℕ → ℚ) (d : ℕ) :
    polyLoop (tab n x) (d + 1) (descT n x 0) = polyLoop (tab n x) d (descT n x 1) := by
  simp only [descT, polyLoop, polyStep_none]
  rfl

theorem polyLoop_stepS (n : ℕ) (x : ℕ → ℚ) (d k : ℕ) :
    polyLoop (tab n x) (d + 1) (descT n x (k + 1)) = polyLoop (tab n x) d (descT n x (k + 2)) := by
  rcases k with _ | k
  · simp only [descT, polyLoop, polyStep_some]
    rfl
  · simp only [descT, polyLoop, polyStep_some]
    rfl

theorem polyLoop_descT (n : ℕ) (x : ℕ → ℚ) (d k : ℕ) :
    polyLoop (tab n x) d (descT n x k) = descT n x (k + d) := by
  induction d generalizing k with
  | zero => rfl
  | succ d ih =>
    rcases k with _ | k
    · rw [polyLoop_step0, ih 1]; congr 1; omega
    · rw [polyLoop_stepS, ih (k + 2)]; congr 1; omega

theorem descT_reverse (n : ℕ) (x : ℕ → ℚ) (k : ℕ) :
    (descT n x k).reverse = (List.range (k + 1)).map (fun j => tab n (polyP n x j)) := by
  induction k with
  | zero => simp [descT]
  | succ k ih =>
    rw [descT, List.reverse_cons, ih, List.range_succ (n := k + 1), List.map_append]
    simp

/-- **bridge**: the memoised table is the tabulated entry function -/
theorem polyTable_eq (s : List ℚ) (deg : ℕ) :
    polyTable s deg = (List.range (deg + 1)).map (fun k => tab s.length (polyP s.length (listFn s) k)) := by
  unfold polyTable
  have h0 : [s.map fun _ => (1 : ℚ)] = descT s.length (listFn s) 0 := by
    have : s.map (fun _ => (1 : ℚ)) = tab s.length (fun _ => 1) := by
      apply List.ext_getElem <;> simp [tab]
    rw [this]
    rfl
  have hx : polyLoop s deg = polyLoop (tab s.length (listFn s)) deg := by rw [← list_eq_tab]
  rw [h0, hx, polyLoop_descT, descT_reverse]
  simp

theorem polyScores_length (sc : Option (List ℚ)) (n : ℕ) (s : List ℚ) (h : polyScores sc n = .ok s) :
    s.length = n := by
  unfold polyScores at h
  split at h
  · cases h; simp [arange]
  · cases h; simp [arange]
  · split at h
    · cases h; assumption
    · cases h

theorem toRows_poly (n : ℕ) (s : List ℚ) (hs : s.length = n) :
    ((List.range n).map fun i => ((polyTable s (n - 1)).drop 1).map fun col => listFn col i)
      = toRows (Model.Contrasts.coding (.poly (listFn s)) n) n (n - 1) := by
  rw [polyTable_eq, hs]
  have : ((List.range (n - 1 + 1)).map (fun k => tab n (polyP n (listFn s) k))).drop 1
      = (List.range (n - 1)).map (fun j => tab n (polyP n (listFn s) (j + 1))) := by
    rw [List.range_succ_eq_map]
    simp [List.map_map, Function.comp_def]
  rw [this]
  unfold toRows
  apply List.map_congr_left
  intro i hi
  have hi' : i < n := List.mem_range.mp hi
  simp only [List.map_map, Function.comp_def, Model.Contrasts.coding]
  apply List.map_congr_left
  intro j _
  exact listFn_tab n _ i hi'

/-- **bridge**: the list-of-rows matrix the engine prints is `toRows` of the entry function the
theorems are about, for every contrast (for `poly` this is the memoisation lemma `polyTable_eq`) -/
theorem rawCoding_reduced (c : Contrast) (levels : List Label) :
    rawCodingMatrix c levels true
      = (c.kind levels).map (fun k => toRows (Model.Contrasts.coding k levels.length) levels.length (levels.length - 1)) := by
  cases c with
  | poly sc =>
    simp only [rawCodingMatrix, if_true, Contrast.kind]
    cases h : polyScores sc levels.length with
    | error e => rfl
    | ok s =>
      have hs := polyScores_length sc _ s h
      simp only [Except.map, bind, Except.bind, pure, Except.pure]
      rw [toRows_poly _ s hs]
  | treatment b =>
    simp only [rawCodingMatrix, if_true, Contrast.kind]
    cases findBaseIndex false b levels <;> rfl
  | sas b =>
    simp only [rawCodingMatrix, if_true, Contrast.kind]
    cases findBaseIndex true b levels <;> rfl
  | sum => rfl
  | helmert r s => rfl
  | diff b => rfl

theorem toRows_length (a : Arr) (r c : ℕ) : (toRows a r c).length = r := by simp [toRows]
theorem toRows_row_length (a : Arr) (r c : ℕ) : ∀ row ∈ toRows a r c, row.length = c := by
  intro row h
  simp only [toRows, List.mem_map, List.mem_range] at h
  obtain ⟨i, _, rfl⟩ := h
  simp
theorem toRows_entry (a : Arr) (r c i j : ℕ) (hi : i < r) (hj : j < c) :
    ((toRows a r c)[i]?.bind (·[j]?)) = some (a i j) := by
  simp [toRows, hi, hj]

/-! ### `apply` is a matrix product -/

theorem column_toRows (a : Arr) (r c j : ℕ) (hj : j < c) :
    column (toRows a r c) j = tab r (fun i => a i j) := by
  simp only [column, toRows, tab, List.filterMap_map]
  have : ((fun x : List ℚ => x[j]?) ∘ fun i => List.map (fun j => a i j) (List.range c))
      = (some ∘ fun i => a i j) := by
    funext i; simp [hj]
  rw [this, List.filterMap_eq_map]

theorem dot_tab (row : List ℚ) (n : ℕ) (f : ℕ → ℚ) (h : row.length = n) :
    dot row (tab n f) = sumTo n (fun l => listFn row l * f l) := by
  have hr : row = tab n (listFn row) := by rw [← h]; exact list_eq_tab row
  conv_lhs => rw [hr]
  simp only [dot, zipWith_tab, lsum_tab]

theorem matMul_toRows (dummies : List (List ℚ)) (a : Arr) (n w : ℕ)
    (hrect : ∀ row ∈ dummies, row.length = n) :
    matMul dummies (toRows a n w) w
      = dummies.map (fun row => (List.range w).map (fun j => sumTo n (fun l => listFn row l * a l j))) := by
  unfold matMul
  apply List.map_congr_left
  intro row hrow
  apply List.map_congr_left
  intro j hj
  rw [column_toRows a n w j (List.mem_range.mp hj), dot_tab row n _ (hrect row hrow)]

theorem sumTo_point (n t : ℕ) (ht : t < n) (f : ℕ → ℚ) :
    sumTo n (fun l => f l * (if l = t then 1 else 0)) = f t := by
  rw [sumTo_eq]
  simp only [mul_ite, mul_one, mul_zero, sum_range_point, ht, if_true]

theorem eraseIdx_eq (row : List ℚ) (n d : ℕ) (h : row.length = n) (hd : d < n) :
    row.eraseIdx d
      = (List.range (n - 1)).map (fun j => sumTo n (fun l => listFn row l * Model.Contrasts.coding (.treatment d) n l j)) := by
  apply List.ext_getElem
  · simp [List.length_eraseIdx, h, hd]
  · intro j h1 h2
    have hj : j < n - 1 := by simpa using h2
    simp only [List.getElem_map, List.getElem_range, Model.Contrasts.coding, takeCols, eye]
    rw [sumTo_point n (skip d j) (skip_lt d j n hj), List.getElem_eraseIdx]
    unfold skip listFn
    split_ifs with hjd
    · have : j < row.length := by omega
      simp [this]
    · have : j + 1 < row.length := by omega
      simp [this]

theorem eye_row (row : List ℚ) (n : ℕ) (h : row.length = n) :
    row = (List.range n).map (fun j => sumTo n (fun l => listFn row l * eye l j)) := by
  have : ∀ j ∈ List.range n, sumTo n (fun l => listFn row l * eye l j) = listFn row j := by
    intro j hj
    have := sumTo_point n j (List.mem_range.mp hj) (listFn row)
    simpa [eye] using this
  rw [List.map_congr_left this, ← h]
  exact list_eq_tab row

theorem indexOf?_lt (b : Label) (levels : List Label) (i : ℕ) (h : indexOf? b levels = some i) :
    i < levels.length := by
  induction levels generalizing i with
  | nil => simp [indexOf?] at h
  | cons l ls ih =>
    simp only [indexOf?] at h
    split_ifs at h
    · cases h; simp
    · cases h' : indexOf? b ls with
      | none => simp [h'] at h
      | some k =>
        simp [h'] at h
        subst h
        have := ih k h'
        simp; omega

theorem findBaseIndex_lt (sas : Bool) (b : Option Label) (levels : List Label) (d : ℕ)
    (hne : levels ≠ []) (h : findBaseIndex sas b levels = .ok d) : d < levels.length := by
  have hpos : 0 < levels.length := List.length_pos_of_ne_nil hne
  unfold findBaseIndex at h
  split at h
  · cases h; split_ifs <;> omega
  · split at h
    · cases h; exact indexOf?_lt _ _ _ (by assumption)
    · cases h

theorem getCodingMatrix_raw (c : Contrast) (levels : List Label) (reduced sparse : Bool) (m : List (List ℚ))
    (h : getCodingMatrix c levels reduced sparse = .ok m) : rawCodingMatrix c levels reduced = .ok m := by
  unfold getCodingMatrix at h
  cases hr : rawCodingMatrix c levels reduced with
  | error e => simp [hr, bind, Except.bind] at h
  | ok m' =>
    simp only [hr, bind, Except.bind] at h
    split_ifs at h
    · cases h; rfl
    · cases hn : codingColumnNames c levels reduced with
      | error e => simp [hn] at h
      | ok names => simp [hn, pure, Except.pure] at h; rw [h]

theorem applyInner_is_product (c : Contrast) (dummies : List (List ℚ)) (levels : List Label)
    (reduced sparse : Bool) (vals m : List (List ℚ)) (hne : levels ≠ [])
    (hrect : ∀ row ∈ dummies, row.length = levels.length)
    (h1 : applyInner c dummies levels reduced sparse = .ok vals)
    (h2 : getCodingMatrix c levels reduced sparse = .ok m) :
    vals = matMul dummies m (if reduced then levels.length - 1 else levels.length) := by
  have hall : dummies.all (fun row => row.length == levels.length) = true := by
    rw [List.all_eq_true]; intro row hr; simp [hrect row hr]
  have generic : isTreatment c = none → vals = matMul dummies m (if reduced then levels.length - 1 else levels.length) := by
    intro ht
    simp only [applyInner, ht, h2, bind, Except.bind, hall, if_true, pure, Except.pure] at h1
    cases h1; rfl
  have treat : ∀ sas b, isTreatment c = some (sas, b) → c.kind levels = (findBaseIndex sas b levels).map Kind.treatment →
      vals = matMul dummies m (if reduced then levels.length - 1 else levels.length) := by
    intro sas b ht hk
    have hraw := getCodingMatrix_raw c levels reduced sparse m h2
    cases reduced with
    | true =>
      simp only [applyInner, ht, if_true, bind, Except.bind] at h1
      cases hd : findBaseIndex sas b levels with
      | error e => simp [hd] at h1
      | ok d =>
        simp only [hd, pure, Except.pure] at h1
        cases h1
        rw [rawCoding_reduced, hk, hd] at hraw
        simp only [Except.map] at hraw
        cases hraw
        have hdl := findBaseIndex_lt sas b levels d hne hd
        simp only [if_true]
        rw [matMul_toRows dummies _ levels.length _ hrect]
        apply List.map_congr_left
        intro row hrow
        exact eraseIdx_eq row levels.length d (hrect row hrow) hdl
    | false =>
      simp only [applyInner, ht, Bool.false_eq_true, if_false, pure, Except.pure] at h1
      cases h1
      simp only [rawCodingMatrix, Bool.false_eq_true, if_false] at hraw
      cases hraw
      simp only [Bool.false_eq_true, if_false]
      rw [matMul_toRows dummies _ levels.length _ hrect]
      conv_lhs => rw [← List.map_id dummies]
      apply List.map_congr_left
      intro row hrow
      exact eye_row row levels.length (hrect row hrow)
  cases c with
  | treatment b => exact treat false b rfl rfl
  | sas b => exact treat true b rfl rfl
  | sum => exact generic rfl
  | helmert r s => exact generic rfl
  | diff b => exact generic rfl
  | poly sc => exact generic rfl
/-! ### options resolved against a level list are valid -/

/-- the scores given to `contr.poly(scores=…)` are pairwise distinct (no condition otherwise) -/
def ScoresDistinct : Contrast → Prop
  | .poly (some sc) => sc.Nodup
  | _ => True

theorem listFn_getElem (s : List ℚ) (i : ℕ) (h : i < s.length) : listFn s i = s[i] := by
  simp [listFn, h]

theorem kind_valid_aux (c : Contrast) (levels : List Label) (k : Kind) (hne : levels ≠ [])
    (hs : ScoresDistinct c) (hk : c.kind levels = .ok k) : Valid k levels.length := by
  cases c with
  | treatment b =>
    simp only [Contrast.kind] at hk
    cases hd : findBaseIndex false b levels with
    | error e => simp [hd, Except.map] at hk
    | ok d =>
      simp only [hd, Except.map, Except.ok.injEq] at hk
      subst hk
      exact findBaseIndex_lt false b levels d hne hd
  | sas b =>
    simp only [Contrast.kind] at hk
    cases hd : findBaseIndex true b levels with
    | error e => simp [hd, Except.map] at hk
    | ok d =>
      simp only [hd, Except.map, Except.ok.injEq] at hk
      subst hk
      exact findBaseIndex_lt true b levels d hne hd
  | sum => simp only [Contrast.kind, Except.ok.injEq] at hk; subst hk; trivial
  | helmert r s => simp only [Contrast.kind, Except.ok.injEq] at hk; subst hk; trivial
  | diff b => simp only [Contrast.kind, Except.ok.injEq] at hk; subst hk; trivial
  | poly sc =>
    simp only [Contrast.kind] at hk
    cases hp : polyScores sc levels.length with
    | error e => simp [hp, Except.map] at hk
    | ok s =>
      simp only [hp, Except.map, Except.ok.injEq] at hk
      subst hk
      have hlen := polyScores_length sc _ s hp
      have harange : ∀ n, Valid (.poly (listFn (arange n))) n := by
        intro n i j hi hj h
        have e : arange n = tab n (fun i => (i : ℚ)) := rfl
        rw [e, listFn_tab n _ i hi, listFn_tab n _ j hj] at h
        exact_mod_cast h
      unfold polyScores at hp
      split at hp
      · cases hp; exact harange _
      · cases hp; exact harange _
      · split at hp
        · cases hp
          intro i j hi hj h
          rw [listFn_getElem s i (by omega), listFn_getElem s j (by omega)] at h
          have hnd : s.Nodup := hs
          exact (List.Nodup.getElem_inj_iff hnd).mp h
        · cases hp

theorem indexOf?_get (b : Label) (levels : List Label) (i : ℕ) (h : indexOf? b levels = some i) :
    levels[i]? = some b := by
  induction levels generalizing i with
  | nil => simp [indexOf?] at h
  | cons l ls ih =>
    simp only [indexOf?] at h
    split_ifs at h with hl
    · cases h; simp [hl]
    · cases h' : indexOf? b ls with
      | none => simp [h'] at h
      | some k =>
        simp [h'] at h
        subst h
        simpa using ih k h'

end FormulaicVerif.Proofs.C11
