import FormulaicVerif.Model.Reuse
/-! Helper lemmas for property C09 (`Props/C09.lean`): the evaluation phase, the pooled evaluation
spec, insertion-ordered dictionaries, `_enforce_structure`, and the decomposition of a successful
build into per-term runs. Core Lean only. -/
namespace FormulaicVerif.Proofs.C09
open FormulaicVerif.Model.Reuse


theorem evalFactor_kind_change (es : EvalSpec) (fr : Frame) (d : FactorDecl) (drop : List Nat)
    (k : Kind) (r : RecState)
    (hk : newKind fr d = .ok k) (hr : dget d.expr es.encoderState = some r) (hne : k ≠ r.kind) :
    evalFactor es fr d drop = .error .factorEncoding := by
  unfold newKind at hk
  unfold evalFactor
  cases hv : evalValue fr d with
  | error e => simp [hv] at hk
  | ok p =>
    obtain ⟨k0, col⟩ := p
    simp only [hv] at hk
    simp only [hk, guardRecorded, hr]
    simp [hne]

theorem dget_append {α} (k : String) (a b : List (String × α)) :
    dget k (a ++ b) = match dget k a with | some v => some v | none => dget k b := by
  induction a with
  | nil => simp [dget]
  | cons x r ih =>
    obtain ⟨k', v⟩ := x
    simp only [List.cons_append, dget]
    split <;> simp_all

theorem dget_snoc_ne {α} (k k' : String) (a : List (String × α)) (v : α) (h : k' ≠ k) (ha : dget k a = none) :
    dget k (a ++ [(k', v)]) = none := by
  rw [dget_append, ha]
  simp [dget, h]

/-- an error of one factor stops the loop, whatever comes after; earlier factors may only
succeed or fail with the same class. The factor must actually be evaluated: its expression is not a
key of the cache yet and no earlier factor of the list carries it. -/
theorem evalPhase_error_at (es : EvalSpec) (fr : Frame) (e : Err) (d : FactorDecl)
    (hd : ∀ dr, evalFactor es fr d dr = .error e) :
    ∀ (pre post : List FactorDecl) (cache : Cache) (drop : List Nat),
      dget d.expr cache = none → (∀ g ∈ pre, g.expr ≠ d.expr) →
      (∀ g ∈ pre, ∀ dr e', evalFactor es fr g dr = .error e' → e' = e) →
      evalPhase es fr (pre ++ d :: post) cache drop = .error e := by
  intro pre
  induction pre with
  | nil =>
    intro post cache drop hc _ _
    simp [evalPhase, hd, hc]
  | cons g pre ih =>
    intro post cache drop hc hne hpre
    simp only [List.cons_append, evalPhase]
    cases hgc : dget g.expr cache with
    | some v =>
      simp only
      exact ih post cache drop hc (fun g' hg' => hne g' (by simp [hg'])) (fun g' hg' => hpre g' (by simp [hg']))
    | none =>
      simp only
      cases hg : evalFactor es fr g drop with
      | error e' =>
        have := hpre g (by simp) drop e' hg
        simp [this]
      | ok p =>
        obtain ⟨ev, drop'⟩ := p
        simp only
        exact ih post _ _ (dget_snoc_ne _ _ _ _ (hne g (by simp)) hc)
          (fun g' hg' => hne g' (by simp [hg'])) (fun g' hg' => hpre g' (by simp [hg']))

theorem evalPhase_never_ok (es : EvalSpec) (fr : Frame) (e : Err) (d : FactorDecl)
    (hd : ∀ dr, evalFactor es fr d dr = .error e) :
    ∀ (pre post : List FactorDecl) (cache : Cache) (drop : List Nat),
      dget d.expr cache = none → (∀ g ∈ pre, g.expr ≠ d.expr) →
      ∃ e', evalPhase es fr (pre ++ d :: post) cache drop = .error e' := by
  intro pre
  induction pre with
  | nil =>
    intro post cache drop hc _
    exact ⟨e, by simp [evalPhase, hd, hc]⟩
  | cons g pre ih =>
    intro post cache drop hc hne
    simp only [List.cons_append, evalPhase]
    cases hgc : dget g.expr cache with
    | some v =>
      simp only
      exact ih post cache drop hc (fun g' hg' => hne g' (by simp [hg']))
    | none =>
      simp only
      cases hg : evalFactor es fr g drop with
      | error e' => exact ⟨e', rfl⟩
      | ok p =>
        obtain ⟨ev, drop'⟩ := p
        exact ih post _ _ (dget_snoc_ne _ _ _ _ (hne g (by simp)) hc) (fun g' hg' => hne g' (by simp [hg']))


theorem dedupFactors_sub (l : List FactorDecl) : ∀ x ∈ dedupFactors l, x ∈ l := by
  induction l with
  | nil => intro x hx; simp [dedupFactors] at hx
  | cons f r ih =>
    intro x hx
    simp only [dedupFactors, List.mem_cons, List.mem_filter] at hx
    rcases hx with rfl | ⟨h, _⟩
    · simp
    · exact List.mem_cons_of_mem _ (ih x h)

/-- every factor has a representative with the same expression in the de-duplicated list -/
theorem dedupFactors_covers (l : List FactorDecl) : ∀ x ∈ l, ∃ y ∈ dedupFactors l, y.expr = x.expr := by
  induction l with
  | nil => intro x hx; simp at hx
  | cons f r ih =>
    intro x hx
    rcases List.mem_cons.mp hx with rfl | h
    · exact ⟨x, by simp [dedupFactors], rfl⟩
    · obtain ⟨y, hy, hxy⟩ := ih x h
      by_cases hf : y.expr = f.expr
      · exact ⟨f, by simp [dedupFactors], by rw [← hxy, hf]⟩
      · refine ⟨y, ?_, hxy⟩
        simp only [dedupFactors, List.mem_cons, List.mem_filter]
        right
        exact ⟨hy, by simpa using hf⟩

theorem dedupFactors_pairwise (l : List FactorDecl) :
    (dedupFactors l).Pairwise (fun a b => a.expr ≠ b.expr) := by
  induction l with
  | nil => simp [dedupFactors]
  | cons f r ih =>
    simp only [dedupFactors, List.pairwise_cons]
    refine ⟨?_, ih.filter _⟩
    intro a ha
    have := (List.mem_filter.mp ha).2
    intro h
    simp [h] at this

theorem find_of_pairwise (l : List FactorDecl) (hp : l.Pairwise (fun a b => a.expr ≠ b.expr))
    (d : FactorDecl) (hd : d ∈ l) : l.find? (fun x => x.expr == d.expr) = some d := by
  induction l with
  | nil => simp at hd
  | cons f r ih =>
    rw [List.pairwise_cons] at hp
    rcases List.mem_cons.mp hd with rfl | h
    · simp
    · have hne : f.expr ≠ d.expr := hp.1 d h
      simp only [List.find?_cons]
      have : (f.expr == d.expr) = false := by simpa using hne
      rw [this]
      exact ih hp.2 h

theorem mem_orderedFactors (specs : List Spec) (order : List String) (d : FactorDecl)
    (hd : d ∈ pooledFactors specs) (ho : d.expr ∈ order) : d ∈ orderedFactors specs order := by
  unfold orderedFactors
  rw [List.mem_filterMap]
  exact ⟨d.expr, ho, find_of_pairwise _ (dedupFactors_pairwise _) d hd⟩

theorem pairwise_expr_inj (l : List FactorDecl) (hp : l.Pairwise (fun a b => a.expr ≠ b.expr))
    (a b : FactorDecl) (ha : a ∈ l) (hb : b ∈ l) (h : a.expr = b.expr) : a = b := by
  induction l with
  | nil => simp at ha
  | cons x r ih =>
    rw [List.pairwise_cons] at hp
    rcases List.mem_cons.mp ha with rfl | ha' <;> rcases List.mem_cons.mp hb with rfl | hb'
    · rfl
    · exact absurd h (hp.1 b hb')
    · exact absurd h.symm (hp.1 a ha')
    · exact ih hp.2 ha' hb'

theorem orderedFactors_sub (specs : List Spec) (order : List String) :
    ∀ g ∈ orderedFactors specs order, g ∈ pooledFactors specs := by
  intro g hg
  obtain ⟨e, _, hf⟩ := List.mem_filterMap.mp hg
  exact List.mem_of_find?_eq_some hf

/-- split a list at the FIRST element carrying the expression of `d` -/
theorem split_first (l : List FactorDecl) (d : FactorDecl) (hd : d ∈ l)
    (huniq : ∀ g ∈ l, g.expr = d.expr → g = d) :
    ∃ pre post, l = pre ++ d :: post ∧ ∀ g ∈ pre, g.expr ≠ d.expr := by
  induction l with
  | nil => simp at hd
  | cons x r ih =>
    by_cases hx : x = d
    · exact ⟨[], r, by simp [hx], by simp⟩
    · have hdr : d ∈ r := by
        rcases List.mem_cons.mp hd with h | h
        · exact absurd h.symm hx
        · exact h
      obtain ⟨pre, post, hsplit, hpre⟩ := ih hdr (fun g hg => huniq g (by simp [hg]))
      refine ⟨x :: pre, post, by simp [hsplit], ?_⟩
      intro g hg
      rcases List.mem_cons.mp hg with rfl | hg'
      · exact fun h => hx (huniq g (by simp) h)
      · exact hpre g hg'

/-- the evaluation order splits at the first (and only) factor carrying the expression of `d` -/
theorem orderedFactors_split (specs : List Spec) (order : List String) (d : FactorDecl)
    (hd : d ∈ pooledFactors specs) (ho : d.expr ∈ order) :
    ∃ pre post, orderedFactors specs order = pre ++ d :: post ∧ ∀ g ∈ pre, g.expr ≠ d.expr :=
  split_first _ d (mem_orderedFactors specs order d hd ho)
    (fun g hg h => pairwise_expr_inj _ (dedupFactors_pairwise _) g d (orderedFactors_sub specs order g hg) hd h)

/-- a factor that occurs in any term (of any degree) of any part is in the pooled set -/
theorem pooled_covers (specs : List Spec) (s : Spec) (t : List FactorDecl) (d : FactorDecl)
    (hs : s ∈ specs) (ht : t ∈ s.terms) (hd : d ∈ t) :
    ∃ d' ∈ pooledFactors specs, d'.expr = d.expr := by
  apply dedupFactors_covers
  rw [List.mem_flatMap]
  exact ⟨s, hs, List.mem_flatten.mpr ⟨t, ht, hd⟩⟩

def poolEnc (specs : List Spec) (acc : List (String × RecState)) : List (String × RecState) :=
  specs.foldl (fun acc t => dupdate acc t.encoderState) acc

theorem poolEnc_kind (k : String) (kind : Kind) :
    ∀ (specs : List Spec) (acc : List (String × RecState)),
      (∀ r', dget k acc = some r' → r'.kind = kind) →
      (∀ s ∈ specs, ∀ r', dget k s.encoderState = some r' → r'.kind = kind) →
      ∀ r', dget k (poolEnc specs acc) = some r' → r'.kind = kind := by
  intro specs
  induction specs with
  | nil => intro acc hacc _ r' h; exact hacc r' h
  | cons s rest ih =>
    intro acc hacc hall r' h
    simp only [poolEnc, List.foldl_cons] at h
    refine ih (dupdate acc s.encoderState) ?_ (fun s' hs' => hall s' (by simp [hs'])) r' h
    intro r'' h''
    simp only [dupdate, dget_append] at h''
    cases hs : dget k s.encoderState with
    | some v => simp only [hs] at h''; cases h''; exact hall s (by simp) _ hs
    | none => simp only [hs] at h''; exact hacc r'' h''

theorem poolEnc_some (k : String) :
    ∀ (specs : List Spec) (acc : List (String × RecState)),
      ((dget k acc).isSome ∨ ∃ s ∈ specs, (dget k s.encoderState).isSome) →
      (dget k (poolEnc specs acc)).isSome := by
  intro specs
  induction specs with
  | nil => intro acc h; rcases h with h | ⟨s, hs, _⟩; exact h; simp at hs
  | cons s rest ih =>
    intro acc h
    simp only [poolEnc, List.foldl_cons]
    apply ih
    by_cases hs : (dget k s.encoderState).isSome
    · left
      simp only [dupdate, dget_append]
      cases h' : dget k s.encoderState with
      | some v => simp
      | none => simp [h'] at hs
    · rcases h with h | ⟨s', hs', h'⟩
      · left
        simp only [dupdate, dget_append]
        cases h' : dget k s.encoderState with
        | some v => simp
        | none => simpa using h
      · rcases List.mem_cons.mp hs' with rfl | hm
        · exact absurd h' hs
        · right; exact ⟨s', hm, h'⟩

theorem prepareEvalSpec_enc (specs : List Spec) (es : EvalSpec) (h : prepareEvalSpec specs = .ok es) :
    es.encoderState = poolEnc specs [] := by
  unfold prepareEvalSpec at h
  cases specs with
  | nil => simp at h
  | cons s rest =>
    simp only at h
    split at h
    · cases h; rfl
    · simp at h


/-- key insertion of an insertion-ordered dict -/
def insName (l : List String) (n : String) : List String := if n ∈ l then l else l ++ [n]

/-- the key list of `dict.fromkeys(names)` -/
def dictKeys (names : List String) : List String := names.foldl insName []

theorem dictSet_names (d : List EncCol) (e : EncCol) :
    (dictSet d e).map (·.name) = insName (d.map (·.name)) e.name := by
  induction d with
  | nil => simp [dictSet, insName]
  | cons x r ih =>
    simp only [dictSet]
    split
    · rename_i h
      simp [insName, h]
    · rename_i h
      simp only [List.map_cons, ih, insName, List.mem_cons]
      have : ¬ e.name = x.name := fun h' => h h'.symm
      simp only [this, false_or]
      split <;> simp

theorem dictUpdate_names (d new : List EncCol) :
    (dictUpdate d new).map (·.name) = (new.map (·.name)).foldl insName (d.map (·.name)) := by
  unfold dictUpdate
  induction new generalizing d with
  | nil => simp
  | cons e r ih => simp only [List.foldl_cons, List.map_cons, ih, dictSet_names]

theorem insName_nodup (l : List String) (n : String) (h : l.Nodup) : (insName l n).Nodup := by
  unfold insName
  split
  · exact h
  · rename_i hn
    rw [List.nodup_append]
    exact ⟨h, by simp, by intro a ha b hb; simp at hb; subst hb; intro hab; exact hn (hab ▸ ha)⟩

theorem foldl_insName_nodup (ns acc : List String) (h : acc.Nodup) : (ns.foldl insName acc).Nodup := by
  induction ns generalizing acc with
  | nil => exact h
  | cons n r ih => exact ih _ (insName_nodup _ _ h)

theorem foldl_insName_of_nodup (ns acc : List String) (hn : ns.Nodup) (hd : ∀ x ∈ ns, x ∉ acc) :
    ns.foldl insName acc = acc ++ ns := by
  induction ns generalizing acc with
  | nil => simp
  | cons n r ih =>
    rw [List.nodup_cons] at hn
    have hna : n ∉ acc := hd n (by simp)
    simp only [List.foldl_cons, insName, hna, if_false]
    rw [ih _ hn.2]
    · simp
    · intro x hx
      simp only [List.mem_append, List.mem_singleton, not_or]
      exact ⟨hd x (by simp [hx]), fun h => hn.1 (h ▸ hx)⟩

theorem dictKeys_of_nodup (ns : List String) (h : ns.Nodup) : dictKeys ns = ns := by
  simpa [dictKeys] using foldl_insName_of_nodup ns [] h (by simp)

theorem pickColumns_names (sc : List EncCol) :
    ∀ (target : List String) (acc cols : List EncCol), pickColumns sc target acc = .ok cols →
      cols.map (·.name) = target.foldl insName (acc.map (·.name)) := by
  intro target
  induction target with
  | nil => intro acc cols h; simp [pickColumns] at h; subst h; rfl
  | cons c r ih =>
    intro acc cols h
    simp only [pickColumns] at h
    split at h
    · simp at h
    · rename_i e _
      have := ih _ _ h
      rw [this, dictSet_names]
      rfl

/-- whatever branch `_enforce_structure` takes, a term that passes comes out under exactly the
recorded names (as dict keys), in the recorded order -/
theorem enforceTerm_names (zero : List (Option Rat)) (gen : List EncCol) (target : List String)
    (b : Branch) (cols : List EncCol) (h : enforceTerm zero gen target = .ok (b, cols)) :
    cols.map (·.name) = dictKeys target := by
  unfold enforceTerm at h
  split at h
  · simp at h
  · simp only at h
    split at h
    · simp at h
    · rename_i b' sc _
      split at h
      · simp at h
      · rename_i cols' hp
        simp only [Except.ok.injEq, Prod.mk.injEq] at h
        rw [← h.2]
        simpa [dictKeys] using pickColumns_names sc target [] cols' hp


/-- what happened to one term of the structure in a successful build -/
structure TermRun where
  t : TermStruct
  gen : List EncCol
  warn : Bool
  branch : Branch
  fin : List EncCol

def TermRun.Valid (s : Spec) (fr : Frame) (drop : List Nat) (cache : Cache) (r : TermRun) : Prop :=
  termColumns s fr drop cache r.t = .ok (r.gen, r.warn) ∧
  enforceTerm (List.replicate (nRetained fr drop) (some 0)) r.gen r.t.columns = .ok (r.branch, r.fin)

theorem gen_enf_runs (s : Spec) (fr : Frame) (drop : List Nat) (cache : Cache) :
    ∀ (ts : List TermStruct) (gens : List (List EncCol × List String)) (w : Bool)
      (fins : List (Branch × List EncCol)),
      generateAll s fr drop cache ts = .ok (gens, w) →
      enforceAll (List.replicate (nRetained fr drop) (some 0)) gens = .ok fins →
      ∃ runs : List TermRun, runs.map (·.t) = ts ∧ (∀ r ∈ runs, r.Valid s fr drop cache) ∧
        gens = runs.map (fun r => (r.gen, r.t.columns)) ∧ w = runs.any (·.warn) ∧
        fins = runs.map (fun r => (r.branch, r.fin)) := by
  intro ts
  induction ts with
  | nil =>
    intro gens w fins hg he
    simp only [generateAll, Except.ok.injEq, Prod.mk.injEq] at hg
    obtain ⟨rfl, rfl⟩ := hg
    simp only [enforceAll, Except.ok.injEq] at he
    subst he
    exact ⟨[], by simp⟩
  | cons t r ih =>
    intro gens w fins hg he
    simp only [generateAll] at hg
    cases ht : termColumns s fr drop cache t with
    | error e => simp [ht] at hg
    | ok p =>
      obtain ⟨cols, w1⟩ := p
      simp only [ht] at hg
      cases hr : generateAll s fr drop cache r with
      | error e => simp [hr] at hg
      | ok q =>
        obtain ⟨rest, w2⟩ := q
        simp only [hr, Except.ok.injEq, Prod.mk.injEq] at hg
        obtain ⟨rfl, rfl⟩ := hg
        simp only [enforceAll] at he
        cases hx : enforceTerm (List.replicate (nRetained fr drop) (some 0)) cols t.columns with
        | error e => simp [hx] at he
        | ok x =>
          obtain ⟨b, f⟩ := x
          simp only [hx] at he
          cases hxs : enforceAll (List.replicate (nRetained fr drop) (some 0)) rest with
          | error e => simp [hxs] at he
          | ok xs =>
            simp only [hxs, Except.ok.injEq] at he
            subst he
            obtain ⟨runs, h1, h2, h3, h4, h5⟩ := ih rest w2 xs hr hxs
            refine ⟨⟨t, cols, w1, b, f⟩ :: runs, by simp [h1], ?_, by simp [h3], by simp [h4], by simp [h5]⟩
            intro r' hr'
            rcases List.mem_cons.mp hr' with rfl | hm
            · exact ⟨ht, hx⟩
            · exact h2 r' hm

theorem buildMatrix_runs (s : Spec) (fr : Frame) (drop : List Nat) (cache : Cache) (res : Result)
    (h : buildMatrix s fr drop cache = .ok res) :
    ∃ runs : List TermRun, runs.map (·.t) = s.structure_ ∧ (∀ r ∈ runs, r.Valid s fr drop cache) ∧
      res.cols = runs.flatMap (·.fin) ∧ res.warn = runs.any (·.warn) ∧
      res.branches = runs.map (·.branch) ∧ res.generated = runs.map (fun r => r.gen.map (·.name)) := by
  unfold buildMatrix at h
  cases hg : generateAll s fr drop cache s.structure_ with
  | error e => simp [hg] at h
  | ok p =>
    obtain ⟨gens, w⟩ := p
    simp only [hg] at h
    cases he : enforceAll (List.replicate (nRetained fr drop) (some 0)) gens with
    | error e => simp [he] at h
    | ok fins =>
      simp only [he] at h
      simp only [Except.ok.injEq] at h
      obtain ⟨runs, h1, h2, h3, h4, h5⟩ := gen_enf_runs s fr drop cache _ _ _ _ hg he
      refine ⟨runs, h1, h2, ?_, ?_, ?_, ?_⟩ <;> subst h <;> simp [h3, h4, h5, List.flatMap_def, List.map_map, Function.comp_def]

/-- a successful `buildAll` pairs every spec with its result -/
theorem buildAll_zip (fr : Frame) (drop : List Nat) (cache : Cache) :
    ∀ (specs : List Spec) (rs : List Result), buildAll fr drop cache specs = .ok rs →
      rs.length = specs.length ∧ ∀ p ∈ specs.zip rs, buildMatrix p.1 fr drop cache = .ok p.2 := by
  intro specs
  induction specs with
  | nil => intro rs h; simp [buildAll] at h; subst h; simp
  | cons s r ih =>
    intro rs h
    simp only [buildAll] at h
    cases hm : buildMatrix s fr drop cache with
    | error e => simp [hm] at h
    | ok m =>
      simp only [hm] at h
      cases hr : buildAll fr drop cache r with
      | error e => simp [hr] at h
      | ok ms =>
        simp only [hr, Except.ok.injEq] at h
        subst h
        obtain ⟨hl, hz⟩ := ih ms hr
        refine ⟨by simp [hl], ?_⟩
        intro p hp
        simp only [List.zip_cons_cons, List.mem_cons] at hp
        rcases hp with rfl | hp
        · exact hm
        · exact hz p hp

/-! ### `mapE` -/

theorem mapE_cons_ok {α β} (f : α → Except Err β) (a : α) (r : List α) (out : List β)
    (h : mapE f (a :: r) = .ok out) : ∃ b bs, f a = .ok b ∧ mapE f r = .ok bs ∧ out = b :: bs := by
  simp only [mapE] at h
  cases ha : f a with
  | error e => simp [ha] at h
  | ok b =>
    simp only [ha] at h
    cases hr : mapE f r with
    | error e => simp [hr] at h
    | ok bs =>
      simp only [hr, Except.ok.injEq] at h
      exact ⟨b, bs, rfl, rfl, h.symm⟩

theorem mapE_length {α β} (f : α → Except Err β) :
    ∀ (l : List α) (out : List β), mapE f l = .ok out → out.length = l.length := by
  intro l
  induction l with
  | nil => intro out h; simp [mapE] at h; subst h; rfl
  | cons a r ih =>
    intro out h
    obtain ⟨b, bs, _, hr, rfl⟩ := mapE_cons_ok f a r out h
    simp [ih bs hr]

theorem mapE_mem_out {α β} (f : α → Except Err β) :
    ∀ (l : List α) (out : List β), mapE f l = .ok out → ∀ b ∈ out, ∃ a ∈ l, f a = .ok b := by
  intro l
  induction l with
  | nil => intro out h b hb; simp [mapE] at h; subst h; simp at hb
  | cons a r ih =>
    intro out h b hb
    obtain ⟨b0, bs, ha, hr, rfl⟩ := mapE_cons_ok f a r out h
    rcases List.mem_cons.mp hb with rfl | hm
    · exact ⟨a, by simp, ha⟩
    · obtain ⟨a', ha', hf⟩ := ih bs hr b hm
      exact ⟨a', by simp [ha'], hf⟩

theorem mapE_mem_in {α β} (f : α → Except Err β) :
    ∀ (l : List α) (out : List β), mapE f l = .ok out → ∀ a ∈ l, ∃ b ∈ out, f a = .ok b := by
  intro l
  induction l with
  | nil => intro out h a ha; simp at ha
  | cons a0 r ih =>
    intro out h a ha
    obtain ⟨b0, bs, ha0, hr, rfl⟩ := mapE_cons_ok f a0 r out h
    rcases List.mem_cons.mp ha with rfl | hm
    · exact ⟨b0, by simp, ha0⟩
    · obtain ⟨b, hb, hf⟩ := ih bs hr a hm
      exact ⟨b, by simp [hb], hf⟩

/-- when `g (f a)` is known for every successful `f a`, the image of the output is a plain map -/
theorem mapE_map {α β γ} (f : α → Except Err β) (g : β → γ) (g' : α → γ)
    (hfg : ∀ a b, f a = .ok b → g b = g' a) :
    ∀ (l : List α) (out : List β), mapE f l = .ok out → out.map g = l.map g' := by
  intro l
  induction l with
  | nil => intro out h; simp [mapE] at h; subst h; rfl
  | cons a r ih =>
    intro out h
    obtain ⟨b, bs, ha, hr, rfl⟩ := mapE_cons_ok f a r out h
    simp [hfg a b ha, ih bs hr]

/-! ### encoding one factor -/

/-- the levels RECORDED for a factor: `spec.encoder_state.get(expr, [None, {}])[1].get("categories")` -/
def pinnedOf (s : Spec) (expr : String) : Option (List Val) := (dget expr s.encoderState).bind (·.levels)

/-- without an explicit `levels=` argument the nominated levels are the recorded ones -/
theorem nominatedLevels_recorded (s : Spec) (d : FactorDecl) (h : (callArgs d).2 = none) :
    nominatedLevels s d = pinnedOf s d.expr := by
  simp [nominatedLevels, h, pinnedOf]

/-- an explicit `levels=` argument overrides the record -/
theorem nominatedLevels_explicit (s : Spec) (d : FactorDecl) (ls : List Val) (h : (callArgs d).2 = some ls) :
    nominatedLevels s d = some ls := by
  simp [nominatedLevels, h]

theorem dummyColumns_mem (expr : String) (red : Bool) (L : List Val) (cells : List Cell) (c : EncCol) :
    c ∈ dummyColumns expr red L cells ↔
      ∃ l ∈ (if red then L.drop 1 else L), c = ⟨levelName expr red l, cells.map (indicator l)⟩ := by
  simp only [dummyColumns, List.mem_map]
  constructor
  · rintro ⟨l, hl, rfl⟩; exact ⟨l, hl, rfl⟩
  · rintro ⟨l, hl, rfl⟩; exact ⟨l, hl, rfl⟩

/-- a level that no retained cell holds gives an all-zero dummy column -/
theorem indicator_absent (l : Val) (cells : List Cell) (h : some l ∉ cells) :
    cells.map (indicator l) = List.replicate cells.length (some 0) := by
  rw [List.eq_replicate_iff]
  refine ⟨by simp, ?_⟩
  intro b hb
  obtain ⟨c, hc, rfl⟩ := List.mem_map.mp hb
  have : c ≠ some l := fun e => h (e ▸ hc)
  simp [indicator, this]

/-- a cell that is not a pinned level (an unseen value or a null) is 0 in every dummy column -/
theorem indicator_unseen (L : List Val) (c : Cell) (hc : ∀ l ∈ L, c ≠ some l) (l : Val) (hl : l ∈ L) :
    indicator l c = some 0 := by
  simp [indicator, hc l hl]

theorem matrixColsFrom_names (mk : String → String) (cellsOf : Nat → List (Option Rat)) :
    ∀ (fields : List String) (j : Nat), (matrixColsFrom mk cellsOf j fields).map (·.name) = fields.map mk := by
  intro fields
  induction fields with
  | nil => intro j; rfl
  | cons f r ih => intro j; simp [matrixColsFrom, ih]

def codedNames (expr : String) (c : Contr) (red : Bool) (L : List Val) : Option (List String) :=
  match c with
  | .default => some ((if red then L.drop 1 else L).map (levelName expr red))
  | .treatment sas base =>
    if shortCircuit L red then some []
    else
      match findBase sas base L with
      | .error _ => none
      | .ok i => some ((if red then L.eraseIdx i else L).map (fun l => fieldName c expr red l.render))
  | _ =>
    if shortCircuit L red then some []
    else
      match codingMatrix c L red with
      | .error _ => none
      | .ok M =>
        if M.length ≠ L.length then none
        else
          match codingFields c L red with
          | .error _ => none
          | .ok fields => some (fields.map (fieldName c expr red))

theorem dummyColumns_names (expr : String) (red : Bool) (L : List Val) (cells : List Cell) :
    (dummyColumns expr red L cells).map (·.name) = (if red then L.drop 1 else L).map (levelName expr red) := by
  simp [dummyColumns, List.map_map, Function.comp_def]

/-- the generic (matrix) branch of `codedColumns` and of `codedNames`, for the contrasts that take it -/
def IsMatrixCoded : Contr → Prop
  | .default => False
  | .treatment _ _ => False
  | _ => True

theorem codedColumns_matrix (expr : String) (c : Contr) (hc : IsMatrixCoded c) (red : Bool) (L : List Val)
    (cells : List Cell) :
    codedColumns expr c red L cells =
      if shortCircuit L red then .ok []
      else
        match codingMatrix c L red with
        | .error e => .error e
        | .ok M =>
          if M.length ≠ L.length then .error .valueError
          else
            match codingFields c L red with
            | .error e => .error e
            | .ok fields =>
              .ok (matrixColsFrom (fieldName c expr red) (fun j => cells.map (codedCell L M j)) 0 fields) := by
  cases c <;> first | exact False.elim hc | rfl

theorem codedNames_matrix (expr : String) (c : Contr) (hc : IsMatrixCoded c) (red : Bool) (L : List Val) :
    codedNames expr c red L =
      if shortCircuit L red then some []
      else
        match codingMatrix c L red with
        | .error _ => none
        | .ok M =>
          if M.length ≠ L.length then none
          else
            match codingFields c L red with
            | .error _ => none
            | .ok fields => some (fields.map (fieldName c expr red)) := by
  cases c <;> first | exact False.elim hc | rfl

theorem isMatrixCoded_or (c : Contr) : c = .default ∨ (∃ sas base, c = .treatment sas base) ∨ IsMatrixCoded c := by
  cases c <;> simp [IsMatrixCoded]

theorem codedColumns_names (expr : String) (c : Contr) (red : Bool) (L : List Val) (cells : List Cell)
    (cols : List EncCol) (h : codedColumns expr c red L cells = .ok cols) :
    codedNames expr c red L = some (cols.map (·.name)) := by
  rcases isMatrixCoded_or c with rfl | ⟨sas, base, rfl⟩ | hc
  · simp only [codedColumns, Except.ok.injEq] at h
    simp [codedNames, ← h, dummyColumns_names]
  · simp only [codedColumns] at h
    simp only [codedNames]
    by_cases hsc : shortCircuit L red = true
    · simp only [hsc, if_true, Except.ok.injEq] at h
      simp [hsc, ← h]
    · simp only [hsc] at h ⊢
      cases hb : findBase sas base L with
      | error e => simp [hb] at h
      | ok i =>
        simp only [hb, Bool.false_eq_true, if_false, Except.ok.injEq] at h
        simp [← h, List.map_map, Function.comp_def]
  · rw [codedColumns_matrix expr c hc] at h
    rw [codedNames_matrix expr c hc]
    by_cases hsc : shortCircuit L red = true
    · simp only [hsc, if_true, Except.ok.injEq] at h
      simp [hsc, ← h]
    · simp only [hsc] at h ⊢
      cases hM : codingMatrix c L red with
      | error e => simp [hM] at h
      | ok M =>
        simp only [hM, Bool.false_eq_true, if_false] at h ⊢
        by_cases hlen : M.length = L.length
        · simp only [hlen, ne_eq, not_true_eq_false, if_false] at h ⊢
          cases hf : codingFields c L red with
          | error e => simp [hf] at h
          | ok fields =>
            simp only [hf, Except.ok.injEq] at h
            simp [← h, matrixColsFrom_names]
        · simp [hlen] at h

theorem codedColumns_total (expr : String) (c : Contr) (red : Bool) (L : List Val) (cells : List Cell)
    (ns : List String) (h : codedNames expr c red L = some ns) :
    ∃ cols, codedColumns expr c red L cells = .ok cols := by
  rcases isMatrixCoded_or c with rfl | ⟨sas, base, rfl⟩ | hc
  · exact ⟨_, rfl⟩
  · simp only [codedNames] at h
    simp only [codedColumns]
    by_cases hsc : shortCircuit L red = true
    · exact ⟨[], by simp [hsc]⟩
    · simp only [hsc] at h ⊢
      cases hb : findBase sas base L with
      | error e => simp [hb] at h
      | ok i => exact ⟨_, by simp only [Bool.false_eq_true, if_false]; rfl⟩
  · rw [codedNames_matrix expr c hc] at h
    rw [codedColumns_matrix expr c hc]
    by_cases hsc : shortCircuit L red = true
    · exact ⟨[], by simp [hsc]⟩
    · simp only [hsc] at h ⊢
      cases hM : codingMatrix c L red with
      | error e => simp [hM] at h
      | ok M =>
        simp only [hM, Bool.false_eq_true, if_false] at h ⊢
        by_cases hlen : M.length = L.length
        · simp only [hlen, ne_eq, not_true_eq_false, if_false] at h ⊢
          cases hf : codingFields c L red with
          | error e => simp [hf] at h
          | ok fields => exact ⟨_, rfl⟩
        · simp [hlen] at h


theorem hasUnseen_iff (L : List Val) (cells : List Cell) :
    hasUnseen L cells = true ↔ ∃ c ∈ cells, c = none ∨ ∃ v, c = some v ∧ v ∉ L := by
  simp only [hasUnseen, List.any_eq_true]
  constructor
  · rintro ⟨c, hc, h⟩
    refine ⟨c, hc, ?_⟩
    cases c with
    | none => left; rfl
    | some v => right; exact ⟨v, rfl, by simpa using h⟩
  · rintro ⟨c, hc, h⟩
    refine ⟨c, hc, ?_⟩
    rcases h with rfl | ⟨v, rfl, hv⟩
    · rfl
    · simpa using hv

/-- encoding a categorical factor, step by step -/
theorem encodeFactor_cat_ok (s : Spec) (fr : Frame) (drop : List Nat) (ev : Evaled) (red : Bool)
    (cols : List EncCol) (w : Bool) (hk : ev.kind = .categorical)
    (h : encodeFactor s fr drop ev red = .ok (cols, w)) :
    contrInit (callArgs ev.decl).1 = .ok () ∧
    ∃ L, pinnedLevels (nominatedLevels s ev.decl) ev.cats (dropRows drop ev.cells) = .ok (L, w) ∧
      encoderShortCircuitFails s.output ev.decl.via L red = false ∧
      codedColumns ev.decl.expr (callArgs ev.decl).1 red L (dropRows drop ev.cells) = .ok cols := by
  simp only [encodeFactor, hk] at h
  cases hi : contrInit (callArgs ev.decl).1 with
  | error e => simp [hi] at h
  | ok u =>
    simp only [hi] at h
    cases hp : pinnedLevels (nominatedLevels s ev.decl) ev.cats (dropRows drop ev.cells) with
    | error e => simp [hp] at h
    | ok lw =>
      obtain ⟨L, w'⟩ := lw
      simp only [hp] at h
      cases hsc : encoderShortCircuitFails s.output ev.decl.via L red with
      | true => simp [hsc] at h
      | false =>
        simp only [hsc, Bool.false_eq_true, if_false] at h
        cases hc : codedColumns ev.decl.expr (callArgs ev.decl).1 red L (dropRows drop ev.cells) with
        | error e => simp [hc] at h
        | ok cols' =>
          simp only [hc, Except.ok.injEq, Prod.mk.injEq] at h
          obtain ⟨rfl, rfl⟩ := h
          exact ⟨rfl, L, rfl, hsc, hc⟩

theorem pinnedLevels_some (L : List Val) (cats : Option (List Val)) (cells : List Cell) (L' : List Val) (w : Bool)
    (h : pinnedLevels (some L) cats cells = .ok (L', w)) :
    hasDupVal L = false ∧ L' = L ∧ w = hasUnseen L cells := by
  simp only [pinnedLevels] at h
  cases hd : hasDupVal L with
  | true => simp [hd] at h
  | false =>
    simp only [hd, Bool.false_eq_true, if_false, Except.ok.injEq, Prod.mk.injEq] at h
    exact ⟨rfl, h.1.symm, h.2.symm⟩

theorem pinnedLevels_none (cats : Option (List Val)) (cells : List Cell) (L' : List Val) (w : Bool)
    (h : pinnedLevels none cats cells = .ok (L', w)) : w = false := by
  simp only [pinnedLevels, Except.ok.injEq, Prod.mk.injEq] at h
  exact h.2.symm

def FactorWarns (s : Spec) (drop : List Nat) (ev : Evaled) : Prop :=
  ev.kind = .categorical ∧ ∃ L, nominatedLevels s ev.decl = some L ∧
    ∃ c ∈ dropRows drop ev.cells, c = none ∨ ∃ v, c = some v ∧ v ∉ L

theorem encodeFactor_warn (s : Spec) (fr : Frame) (drop : List Nat) (ev : Evaled) (red : Bool)
    (cols : List EncCol) (w : Bool) (h : encodeFactor s fr drop ev red = .ok (cols, w)) :
    w = true ↔ FactorWarns s drop ev := by
  cases hk : ev.kind with
  | categorical =>
    obtain ⟨_, L, hp, _, _⟩ := encodeFactor_cat_ok s fr drop ev red cols w hk h
    cases hn : nominatedLevels s ev.decl with
    | none =>
      rw [hn] at hp
      have := pinnedLevels_none _ _ _ _ hp
      constructor
      · intro hw; rw [this] at hw; simp at hw
      · rintro ⟨_, L', hL', _⟩; simp [hn] at hL'
    | some L0 =>
      rw [hn] at hp
      obtain ⟨_, _, hw⟩ := pinnedLevels_some _ _ _ _ _ hp
      rw [hw, hasUnseen_iff]
      constructor
      · intro hx; exact ⟨hk, L0, hn, hx⟩
      · rintro ⟨_, L', hL', hx⟩
        simp only [hn, Option.some.injEq] at hL'
        subst hL'; exact hx
  | numerical =>
    simp only [encodeFactor, hk] at h
    cases hm : mapE numCell (dropRows drop ev.cells) with
    | error e => simp [hm] at h
    | ok vs =>
      simp only [hm, Except.ok.injEq, Prod.mk.injEq] at h
      constructor
      · intro hw; rw [← h.2] at hw; simp at hw
      · rintro ⟨hc, _⟩; simp [hk] at hc
  | constant =>
    simp only [encodeFactor, hk] at h
    constructor
    · intro hw
      split at h
      · simp only [Except.ok.injEq, Prod.mk.injEq] at h; rw [← h.2] at hw; simp at hw
      · simp at h
    · rintro ⟨hc, _⟩; simp [hk] at hc

theorem encodeFactor_cat (s : Spec) (fr : Frame) (drop : List Nat) (ev : Evaled) (red : Bool)
    (L : List Val) (hk : ev.kind = .categorical) (hp : nominatedLevels s ev.decl = some L)
    (hnd : hasDupVal L = false) (hinit : contrInit (callArgs ev.decl).1 = .ok ())
    (hsc : encoderShortCircuitFails s.output ev.decl.via L red = false) :
    encodeFactor s fr drop ev red =
      match codedColumns ev.decl.expr (callArgs ev.decl).1 red L (dropRows drop ev.cells) with
      | .error e => .error e
      | .ok cols => .ok (cols, hasUnseen L (dropRows drop ev.cells)) := by
  simp only [encodeFactor, hk, hinit, hp, pinnedLevels, hnd, hsc, Bool.false_eq_true, if_false]
  rfl

theorem encodeFactor_pinned (s : Spec) (fr : Frame) (drop : List Nat) (ev : Evaled) (red : Bool)
    (L : List Val) (hk : ev.kind = .categorical) (hp : nominatedLevels s ev.decl = some L)
    (hnd : hasDupVal L = false) (hc : (callArgs ev.decl).1 = .default)
    (hsc : encoderShortCircuitFails s.output ev.decl.via L red = false) :
    encodeFactor s fr drop ev red =
      .ok (dummyColumns ev.decl.expr red L (dropRows drop ev.cells), hasUnseen L (dropRows drop ev.cells)) := by
  rw [encodeFactor_cat s fr drop ev red L hk hp hnd (by rw [hc]; rfl) hsc, hc]
  rfl


/-! ### the warning flag of a build -/

theorem encodeAll_warn (s : Spec) (fr : Frame) (drop : List Nat) :
    ∀ (fs : List (Evaled × Bool)) (encs : List (List EncCol)) (w : Bool),
      encodeAll s fr drop fs = .ok (encs, w) → (w = true ↔ ∃ p ∈ fs, FactorWarns s drop p.1) := by
  intro fs
  induction fs with
  | nil => intro encs w h; simp [encodeAll] at h; simp [← h.2]
  | cons p r ih =>
    intro encs w h
    obtain ⟨ev, red⟩ := p
    simp only [encodeAll] at h
    cases h1 : encodeFactor s fr drop ev red with
    | error e => simp [h1] at h
    | ok q =>
      obtain ⟨cols, w1⟩ := q
      simp only [h1] at h
      cases h2 : encodeAll s fr drop r with
      | error e => simp [h2] at h
      | ok q2 =>
        obtain ⟨rest, w2⟩ := q2
        simp only [h2, Except.ok.injEq, Prod.mk.injEq] at h
        rw [← h.2, Bool.or_eq_true, encodeFactor_warn s fr drop ev red cols w1 h1, ih rest w2 h2]
        simp

theorem scopedTermColumns_warn (s : Spec) (fr : Frame) (drop : List Nat) (scale : Rat)
    (fs : List (Evaled × Bool)) (cols : List EncCol) (w : Bool)
    (h : scopedTermColumns s fr drop scale fs = .ok (cols, w)) :
    w = true ↔ ∃ p ∈ fs, FactorWarns s drop p.1 := by
  unfold scopedTermColumns at h
  split at h
  · simp only [Except.ok.injEq, Prod.mk.injEq] at h; simp [← h.2]
  · cases h1 : encodeAll s fr drop fs with
    | error e => simp [h1] at h
    | ok q =>
      obtain ⟨encs, w1⟩ := q
      simp only [h1] at h
      split at h
      · simp at h
      · simp only [Except.ok.injEq, Prod.mk.injEq] at h
        rw [← h.2]
        exact encodeAll_warn s fr drop fs encs w1 h1

theorem termLoop_warn (s : Spec) (fr : Frame) (drop : List Nat) :
    ∀ (l : List (Rat × List (Evaled × Bool))) (acc out : List EncCol) (w0 w : Bool),
      termLoop s fr drop l acc w0 = .ok (out, w) →
      (w = true ↔ w0 = true ∨ ∃ x ∈ l, ∃ p ∈ x.2, FactorWarns s drop p.1) := by
  intro l
  induction l with
  | nil => intro acc out w0 w h; simp [termLoop] at h; simp [h.2]
  | cons x r ih =>
    intro acc out w0 w h
    obtain ⟨scale, fs⟩ := x
    simp only [termLoop] at h
    cases h1 : scopedTermColumns s fr drop scale fs with
    | error e => simp [h1] at h
    | ok q =>
      obtain ⟨cols, w1⟩ := q
      simp only [h1] at h
      rw [ih _ _ _ _ h, Bool.or_eq_true, scopedTermColumns_warn s fr drop scale fs cols w1 h1]
      simp [or_assoc]

theorem dedupScoped_mem (l : List ScopedFactor) (x : ScopedFactor) : x ∈ dedupScoped l ↔ x ∈ l := by
  induction l with
  | nil => simp [dedupScoped]
  | cons f r ih =>
    simp only [dedupScoped, List.mem_cons, List.mem_filter, ih]
    constructor
    · rintro (h | ⟨h, _⟩)
      · exact Or.inl h
      · exact Or.inr h
    · rintro (h | h)
      · exact Or.inl h
      · by_cases hx : x = f
        · exact Or.inl hx
        · exact Or.inr ⟨h, by simpa using hx⟩

theorem rehydrate_mem (cache : Cache) (st : ScopedTerm) (fs : List (Evaled × Bool))
    (h : rehydrate cache st = .ok fs) (p : Evaled × Bool) :
    p ∈ fs ↔ ∃ sf ∈ st.factors, dget sf.expr cache = some p.1 ∧ p.2 = sf.reduced := by
  unfold rehydrate at h
  constructor
  · intro hp
    obtain ⟨sf, hsf, hf⟩ := mapE_mem_out _ _ _ h p hp
    refine ⟨sf, (dedupScoped_mem _ _).mp hsf, ?_⟩
    cases hd : dget sf.expr cache with
    | none => simp [hd] at hf
    | some ev => simp only [hd, Except.ok.injEq] at hf; subst hf; exact ⟨rfl, rfl⟩
  · rintro ⟨sf, hsf, hd, hr⟩
    obtain ⟨b, hb, hf⟩ := mapE_mem_in _ _ _ h sf ((dedupScoped_mem _ _).mpr hsf)
    simp only [hd, Except.ok.injEq] at hf
    have : p = b := by rw [← hf]; exact Prod.ext rfl hr
    exact this ▸ hb

theorem termColumns_warn (s : Spec) (fr : Frame) (drop : List Nat) (cache : Cache) (t : TermStruct)
    (gen : List EncCol) (w : Bool) (h : termColumns s fr drop cache t = .ok (gen, w)) :
    w = true ↔ ∃ st ∈ t.scopedTerms, ∃ sf ∈ st.factors, ∃ ev, dget sf.expr cache = some ev ∧
      FactorWarns s drop ev := by
  unfold termColumns at h
  split at h
  · simp at h
  · rename_i sts hm
    rw [termLoop_warn s fr drop sts [] gen false w h]
    simp only [Bool.false_eq_true, false_or]
    constructor
    · rintro ⟨x, hx, p, hp, hw⟩
      obtain ⟨st, hst, hf⟩ := mapE_mem_out _ _ _ hm x hx
      cases hr : rehydrate cache st with
      | error e => simp [hr] at hf
      | ok fs =>
        simp only [hr, Except.ok.injEq] at hf
        subst hf
        obtain ⟨sf, hsf, hd, _⟩ := (rehydrate_mem cache st fs hr p).mp hp
        exact ⟨st, hst, sf, hsf, p.1, hd, hw⟩
    · rintro ⟨st, hst, sf, hsf, ev, hd, hw⟩
      obtain ⟨x, hx, hf⟩ := mapE_mem_in _ _ _ hm st hst
      cases hr : rehydrate cache st with
      | error e => simp [hr] at hf
      | ok fs =>
        simp only [hr, Except.ok.injEq] at hf
        subst hf
        exact ⟨_, hx, (ev, sf.reduced), (rehydrate_mem cache st fs hr _).mpr ⟨sf, hsf, hd, rfl⟩, hw⟩

theorem buildMatrix_warn (s : Spec) (fr : Frame) (drop : List Nat) (cache : Cache) (res : Result)
    (h : buildMatrix s fr drop cache = .ok res) :
    res.warn = true ↔ ∃ t ∈ s.structure_, ∃ st ∈ t.scopedTerms, ∃ sf ∈ st.factors, ∃ ev,
      dget sf.expr cache = some ev ∧ FactorWarns s drop ev := by
  obtain ⟨runs, h1, h2, _, h4, _, _⟩ := buildMatrix_runs s fr drop cache res h
  rw [h4, List.any_eq_true, ← h1]
  constructor
  · rintro ⟨r, hr, hw⟩
    exact ⟨r.t, List.mem_map.mpr ⟨r, hr, rfl⟩, (termColumns_warn s fr drop cache r.t r.gen r.warn (h2 r hr).1).mp hw⟩
  · rintro ⟨t, ht, hx⟩
    obtain ⟨r, hr, rfl⟩ := List.mem_map.mp ht
    exact ⟨r, hr, (termColumns_warn s fr drop cache r.t r.gen r.warn (h2 r hr).1).mpr hx⟩


/-! ### invariants of the evaluation phase -/

/-- what `_evaluate_factor` guarantees about an entry it put into `factor_cache` -/
structure EvalOk (es : EvalSpec) (fr : Frame) (drop : List Nat) (k : String) (ev : Evaled) : Prop where
  key : ev.decl.expr = k
  kind : newKind fr ev.decl = .ok ev.kind
  recorded : ∀ r, dget k es.encoderState = some r → ev.kind = r.kind
  nulls : es.naAction = .drop → ∀ x ∈ nullPositionsFrom 0 ev.cells, x ∈ drop

theorem evalFactor_ok (es : EvalSpec) (fr : Frame) (d : FactorDecl) (drop drop' : List Nat) (ev : Evaled)
    (h : evalFactor es fr d drop = .ok (ev, drop')) :
    (∀ x ∈ drop, x ∈ drop') ∧ EvalOk es fr drop' d.expr ev ∧ ev.decl = d := by
  unfold evalFactor at h
  cases hv : evalValue fr d with
  | error e => simp [hv] at h
  | ok p =>
    obtain ⟨k0, col⟩ := p
    simp only [hv] at h
    cases hg : guardDeclared d.declared k0 with
    | error e => simp [hg] at h
    | ok k =>
      simp only [hg] at h
      cases hr : guardRecorded es d.expr k with
      | error e => simp [hr] at h
      | ok u =>
        simp only [hr] at h
        cases hn : checkNulls es.naAction col.cells drop with
        | error e => simp [hn] at h
        | ok dr =>
          simp only [hn, Except.ok.injEq, Prod.mk.injEq] at h
          obtain ⟨rfl, rfl⟩ := h
          have hsub : ∀ x ∈ drop, x ∈ dr := by
            intro x hx
            unfold checkNulls at hn
            cases hna : es.naAction <;> simp only [hna] at hn
            · simp only [Except.ok.injEq] at hn; subst hn; simp [hx]
            · split at hn
              · simp only [Except.ok.injEq] at hn; subst hn; exact hx
              · simp at hn
            · simp only [Except.ok.injEq] at hn; subst hn; exact hx
          refine ⟨hsub, ⟨rfl, ?_, ?_, ?_⟩, rfl⟩
          · simp [newKind, hv, hg]
          · intro r hr'
            simp only [guardRecorded, hr'] at hr
            split at hr
            · assumption
            · simp at hr
          · intro hna x hx
            simp only [checkNulls, hna, Except.ok.injEq] at hn
            subst hn
            simp [hx]

theorem EvalOk.mono {es : EvalSpec} {fr : Frame} {drop drop' : List Nat} {k : String} {ev : Evaled}
    (h : EvalOk es fr drop k ev) (hs : ∀ x ∈ drop, x ∈ drop') : EvalOk es fr drop' k ev :=
  ⟨h.key, h.kind, h.recorded, fun hna x hx => hs x (h.nulls hna x hx)⟩

theorem evalPhase_inv (es : EvalSpec) (fr : Frame) :
    ∀ (fs : List FactorDecl) (cache0 cache : Cache) (drop0 drop : List Nat),
      evalPhase es fr fs cache0 drop0 = .ok (cache, drop) →
      (∀ p ∈ cache0, EvalOk es fr drop0 p.1 p.2) →
      (∀ x ∈ drop0, x ∈ drop) ∧ (∀ p ∈ cache, EvalOk es fr drop p.1 p.2) ∧
      (∀ p ∈ cache0, p ∈ cache) := by
  intro fs
  induction fs with
  | nil =>
    intro cache0 cache drop0 drop h h0
    simp only [evalPhase, Except.ok.injEq, Prod.mk.injEq] at h
    obtain ⟨rfl, rfl⟩ := h
    exact ⟨fun _ h => h, h0, fun _ h => h⟩
  | cons d r ih =>
    intro cache0 cache drop0 drop h h0
    simp only [evalPhase] at h
    cases hc : dget d.expr cache0 with
    | some v =>
      simp only [hc] at h
      exact ih _ _ _ _ h h0
    | none =>
      simp only [hc] at h
      cases hd : evalFactor es fr d drop0 with
      | error e => simp [hd] at h
      | ok q =>
        obtain ⟨ev, drop1⟩ := q
        simp only [hd] at h
        obtain ⟨hsub, hok, hdecl⟩ := evalFactor_ok es fr d drop0 drop1 ev hd
        have h1 : ∀ p ∈ cache0 ++ [(d.expr, ev)], EvalOk es fr drop1 p.1 p.2 := by
          intro p hp
          rcases List.mem_append.mp hp with hp | hp
          · exact (h0 p hp).mono hsub
          · simp only [List.mem_singleton] at hp; subst hp; exact hok
        obtain ⟨a, b, e⟩ := ih _ _ _ _ h h1
        exact ⟨fun x hx => a x (hsub x hx), b, fun p hp => e p (by simp [hp])⟩

theorem dget_mem {α} (k : String) (l : List (String × α)) (v : α) (h : dget k l = some v) : (k, v) ∈ l := by
  induction l with
  | nil => simp [dget] at h
  | cons x r ih =>
    obtain ⟨k', v'⟩ := x
    simp only [dget] at h
    split at h
    · rename_i hk; simp only [Option.some.injEq] at h; subst h; subst hk; simp
    · exact List.mem_cons_of_mem _ (ih h)

/-- rows with a null are gone after dropping -/
theorem dropAux_no_null (drop : List Nat) :
    ∀ (cells : List Cell) (i : Nat), (∀ x ∈ nullPositionsFrom i cells, x ∈ drop) →
      ∀ c ∈ dropAux drop i cells, c ≠ none := by
  intro cells
  induction cells with
  | nil => intro i _ c hc; simp [dropAux] at hc
  | cons x r ih =>
    intro i h c hc
    simp only [dropAux] at hc
    cases x with
    | none =>
      have : i ∈ drop := h i (by simp [nullPositionsFrom])
      have hc' : drop.contains i = true := by simpa using this
      simp only [hc', if_true] at hc
      exact ih (i + 1) (fun y hy => h y (by simp [nullPositionsFrom, hy])) c hc
    | some v =>
      have hrest : ∀ y ∈ nullPositionsFrom (i + 1) r, y ∈ drop := fun y hy => h y (by simpa [nullPositionsFrom] using hy)
      split at hc
      · exact ih (i + 1) hrest c hc
      · rcases List.mem_cons.mp hc with rfl | hm
        · simp
        · exact ih (i + 1) hrest c hm


/-! ### generated column names as a function of the spec and the factor kinds -/

/-- names of the encoded columns of a factor; `none` when they depend on the data (a categorical
factor without nominated levels) or the encoding fails -/
def encNames (s : Spec) (d : FactorDecl) (k : Kind) (red : Bool) : Option (List String) :=
  match k with
  | .categorical => (nominatedLevels s d).bind (codedNames d.expr (callArgs d).1 red)
  | _ => some [d.expr]

theorem encodeFactor_names (s : Spec) (fr : Frame) (drop : List Nat) (ev : Evaled) (red : Bool)
    (cols : List EncCol) (w : Bool) (ns : List String)
    (h : encodeFactor s fr drop ev red = .ok (cols, w))
    (hn : encNames s ev.decl ev.kind red = some ns) : cols.map (·.name) = ns := by
  unfold encNames at hn
  cases hk : ev.kind with
  | categorical =>
    simp only [hk] at hn
    obtain ⟨_, L, hp, _, hc⟩ := encodeFactor_cat_ok s fr drop ev red cols w hk h
    cases hnl : nominatedLevels s ev.decl with
    | none => simp [hnl] at hn
    | some L0 =>
      rw [hnl] at hp
      obtain ⟨_, rfl, _⟩ := pinnedLevels_some _ _ _ _ _ hp
      simp only [hnl, Option.bind_some] at hn
      have := codedColumns_names _ _ _ _ _ _ hc
      rw [hn] at this
      exact (Option.some.inj this).symm
  | numerical =>
    simp only [hk, Option.some.injEq] at hn
    simp only [encodeFactor, hk] at h
    cases hm : mapE numCell (dropRows drop ev.cells) with
    | error e => simp [hm] at h
    | ok vs =>
      simp only [hm, Except.ok.injEq, Prod.mk.injEq] at h
      rw [← h.1, ← hn]; rfl
  | constant =>
    simp only [hk, Option.some.injEq] at hn
    simp only [encodeFactor, hk] at h
    split at h
    · simp only [Except.ok.injEq, Prod.mk.injEq] at h
      rw [← h.1, ← hn]; rfl
    · simp at h


def allSome {α} : List (Option α) → Option (List α)
  | [] => some []
  | none :: _ => none
  | some a :: r => (allSome r).map (a :: ·)

theorem encodeAll_names (s : Spec) (fr : Frame) (drop : List Nat) :
    ∀ (fs : List (Evaled × Bool)) (encs : List (List EncCol)) (w : Bool) (nss : List (List String)),
      encodeAll s fr drop fs = .ok (encs, w) →
      allSome (fs.map (fun p => encNames s p.1.decl p.1.kind p.2)) = some nss →
      encs.map (·.map (·.name)) = nss := by
  intro fs
  induction fs with
  | nil =>
    intro encs w nss h hn
    simp only [encodeAll, Except.ok.injEq, Prod.mk.injEq] at h
    simp only [List.map_nil, allSome, Option.some.injEq] at hn
    rw [← h.1, ← hn]; rfl
  | cons p r ih =>
    intro encs w nss h hn
    obtain ⟨ev, red⟩ := p
    simp only [encodeAll] at h
    cases h1 : encodeFactor s fr drop ev red with
    | error e => simp [h1] at h
    | ok q =>
      obtain ⟨cols, w1⟩ := q
      simp only [h1] at h
      cases h2 : encodeAll s fr drop r with
      | error e => simp [h2] at h
      | ok q2 =>
        obtain ⟨rest, w2⟩ := q2
        simp only [h2, Except.ok.injEq, Prod.mk.injEq] at h
        simp only [List.map_cons] at hn
        cases he : encNames s ev.decl ev.kind red with
        | none => simp [he, allSome] at hn
        | some ns =>
          simp only [he, allSome] at hn
          cases hr : allSome (r.map (fun p => encNames s p.1.decl p.1.kind p.2)) with
          | none => simp [hr] at hn
          | some nsr =>
            simp only [hr, Option.map_some, Option.some.injEq] at hn
            rw [← h.1, ← hn]
            simp only [List.map_cons, List.cons.injEq]
            exact ⟨encodeFactor_names s fr drop ev red cols w1 ns h1 he, ih rest w2 nsr h2 hr⟩

theorem iproduct_map {α β} (f : α → β) :
    ∀ xss : List (List α), iproduct (xss.map (List.map f)) = (iproduct xss).map (List.map f) := by
  intro xss
  induction xss with
  | nil => rfl
  | cons xs rest ih =>
    simp only [List.map_cons, iproduct, ih, List.flatMap_map, List.map_flatMap, List.map_map]
    congr 1

/-- names of the raw products of a term, from the names of the encoded factors -/
def rawNames (fn : List (List String)) : List String :=
  (iproduct fn.reverse).map (fun rp => joinColon rp.reverse)

theorem productEntry_name (scale : Rat) (rp : List EncCol) (e : EncCol) (h : productEntry scale rp = .ok e) :
    e.name = joinColon (rp.reverse.map (·.name)) := by
  unfold productEntry at h
  simp only at h
  split at h
  · simp at h
  · simp only [Except.ok.injEq] at h; rw [← h]

theorem rawProducts_names (factors : List (List EncCol)) (scale : Rat) (raw : List EncCol)
    (h : rawProducts factors scale = .ok raw) :
    raw.map (·.name) = rawNames (factors.map (·.map (·.name))) := by
  unfold rawProducts at h
  rw [mapE_map (productEntry scale) (·.name) (fun rp => joinColon (rp.reverse.map (·.name)))
    (fun a b hab => productEntry_name scale a b hab) _ _ h]
  simp only [rawNames, ← List.map_reverse, iproduct_map, List.map_map]
  apply List.map_congr_left
  intro rp _
  simp [List.map_reverse]

theorem productColumns_names (factors : List (List EncCol)) (scale : Rat) (cols : List EncCol)
    (h : productColumns factors scale = .ok cols) :
    cols.map (·.name) = dictKeys (rawNames (factors.map (·.map (·.name)))) := by
  unfold productColumns at h
  cases hr : rawProducts factors scale with
  | error e => simp [hr] at h
  | ok raw =>
    simp only [hr, Except.ok.injEq] at h
    rw [← h, dictUpdate_names, rawProducts_names factors scale raw hr]
    rfl


/-- what the reuse knows of each cached factor besides its cells: the kind it has on the new data
and the factor itself (with the arguments of its `C(…)` call) -/
def kindOf (cache : Cache) (e : String) : Option (Kind × FactorDecl) := (dget e cache).map (fun ev => (ev.kind, ev.decl))

/-- `factor_cache` is keyed by the factor's own expression -/
def Coherent (cache : Cache) : Prop := ∀ k ev, dget k cache = some ev → ev.decl.expr = k

def sfNames (s : Spec) (ko : String → Option (Kind × FactorDecl)) (sf : ScopedFactor) : Option (List String) :=
  (ko sf.expr).bind (fun kd => encNames s kd.2 kd.1 sf.reduced)

/-- names generated by one scoped term: a function of the spec and the factor kinds only -/
def scopedNames (s : Spec) (ko : String → Option (Kind × FactorDecl)) (st : ScopedTerm) : Option (List String) :=
  match dedupScoped st.factors with
  | [] => some ["Intercept"]
  | sfs => (allSome (sfs.map (sfNames s ko))).map (fun fn => dictKeys (rawNames fn))

/-- names generated by one term of the structure (the keys of `scoped_cols`, in order) -/
def termNames (s : Spec) (ko : String → Option (Kind × FactorDecl)) (t : TermStruct) : Option (List String) :=
  (allSome (t.scopedTerms.map (scopedNames s ko))).map
    (fun nss => nss.foldl (fun acc ns => ns.foldl insName acc) [])

theorem rehydrate_encNames (s : Spec) (cache : Cache) (st : ScopedTerm)
    (fs : List (Evaled × Bool)) (h : rehydrate cache st = .ok fs) :
    fs.map (fun p => encNames s p.1.decl p.1.kind p.2)
      = (dedupScoped st.factors).map (sfNames s (kindOf cache)) := by
  unfold rehydrate at h
  refine mapE_map _ _ _ ?_ _ _ h
  intro sf p hp
  cases hd : dget sf.expr cache with
  | none => simp [hd] at hp
  | some ev =>
    simp only [hd, Except.ok.injEq] at hp
    subst hp
    simp [sfNames, kindOf, hd]

theorem rehydrate_length (cache : Cache) (st : ScopedTerm) (fs : List (Evaled × Bool))
    (h : rehydrate cache st = .ok fs) : fs.length = (dedupScoped st.factors).length :=
  mapE_length _ _ _ h

theorem scopedTermColumns_names (s : Spec) (fr : Frame) (drop : List Nat) (cache : Cache)
    (hc : Coherent cache) (st : ScopedTerm) (fs : List (Evaled × Bool)) (cols : List EncCol) (w : Bool)
    (ns : List String) (hr : rehydrate cache st = .ok fs)
    (h : scopedTermColumns s fr drop st.scale fs = .ok (cols, w))
    (hn : scopedNames s (kindOf cache) st = some ns) : cols.map (·.name) = ns := by
  have hlen := rehydrate_length cache st fs hr
  have hmap := rehydrate_encNames s cache st fs hr
  unfold scopedNames at hn
  unfold scopedTermColumns at h
  cases hfs : fs with
  | nil =>
    rw [hfs] at h hlen
    have : dedupScoped st.factors = [] := by
      cases hd : dedupScoped st.factors with
      | nil => rfl
      | cons a b => simp [hd] at hlen
    simp only [this, Option.some.injEq] at hn
    simp only [Except.ok.injEq, Prod.mk.injEq] at h
    rw [← h.1, ← hn]; rfl
  | cons p r =>
    have hne : dedupScoped st.factors ≠ [] := by
      intro hd; rw [hd, hfs] at hlen; simp at hlen
    rw [hfs] at h hmap
    simp only at h
    cases he : encodeAll s fr drop (p :: r) with
    | error e => simp [he] at h
    | ok q =>
      obtain ⟨encs, w1⟩ := q
      simp only [he] at h
      cases hp : productColumns encs st.scale with
      | error e => simp [hp] at h
      | ok cols' =>
        simp only [hp, Except.ok.injEq, Prod.mk.injEq] at h
        split at hn
        · rename_i hd; exact absurd hd hne
        · rename_i sfs _
          cases ha : allSome ((dedupScoped st.factors).map (sfNames s (kindOf cache))) with
          | none => simp [ha] at hn
          | some fn =>
            simp only [ha, Option.map_some, Option.some.injEq] at hn
            rw [← h.1, productColumns_names encs st.scale cols' hp,
              encodeAll_names s fr drop (p :: r) encs w1 fn he (by rw [hmap]; exact ha), hn]

theorem termLoop_names (s : Spec) (fr : Frame) (drop : List Nat) (cache : Cache) (hc : Coherent cache) :
    ∀ (sterms : List ScopedTerm) (sts : List (Rat × List (Evaled × Bool))),
      mapE (fun st => match rehydrate cache st with
                      | .error e => .error e
                      | .ok fs => .ok (st.scale, fs)) sterms = .ok sts →
      ∀ (acc out : List EncCol) (w0 w : Bool) (nss : List (List String)),
        termLoop s fr drop sts acc w0 = .ok (out, w) →
        allSome (sterms.map (scopedNames s (kindOf cache))) = some nss →
        out.map (·.name) = nss.foldl (fun a ns => ns.foldl insName a) (acc.map (·.name)) := by
  intro sterms
  induction sterms with
  | nil =>
    intro sts hm acc out w0 w nss h hn
    simp only [mapE, Except.ok.injEq] at hm
    subst hm
    simp only [termLoop, Except.ok.injEq, Prod.mk.injEq] at h
    simp only [List.map_nil, allSome, Option.some.injEq] at hn
    rw [← h.1, ← hn]; rfl
  | cons st r ih =>
    intro sts hm acc out w0 w nss h hn
    obtain ⟨x, xs, hx, hxs, rfl⟩ := mapE_cons_ok _ _ _ _ hm
    cases hr : rehydrate cache st with
    | error e => simp [hr] at hx
    | ok fs =>
      simp only [hr, Except.ok.injEq] at hx
      subst hx
      simp only [termLoop] at h
      cases h1 : scopedTermColumns s fr drop st.scale fs with
      | error e => simp [h1] at h
      | ok q =>
        obtain ⟨cols, w1⟩ := q
        simp only [h1] at h
        simp only [List.map_cons] at hn
        cases hs : scopedNames s (kindOf cache) st with
        | none => simp [hs, allSome] at hn
        | some ns =>
          simp only [hs, allSome] at hn
          cases hrest : allSome (r.map (scopedNames s (kindOf cache))) with
          | none => simp [hrest] at hn
          | some nsr =>
            simp only [hrest, Option.map_some, Option.some.injEq] at hn
            rw [ih xs hxs _ _ _ _ nsr h hrest, ← hn, List.foldl_cons, dictUpdate_names,
              scopedTermColumns_names s fr drop cache hc st fs cols w1 ns hr h1 hs]

/-- the names a term generates before `_enforce_structure` depend on the spec and on the KINDS of
its factors only — not on any cell of the new data -/
theorem termColumns_names (s : Spec) (fr : Frame) (drop : List Nat) (cache : Cache) (hc : Coherent cache)
    (t : TermStruct) (gen : List EncCol) (w : Bool) (ns : List String)
    (h : termColumns s fr drop cache t = .ok (gen, w))
    (hn : termNames s (kindOf cache) t = some ns) : gen.map (·.name) = ns := by
  unfold termColumns at h
  unfold termNames at hn
  split at h
  · simp at h
  · rename_i sts hm
    cases ha : allSome (t.scopedTerms.map (scopedNames s (kindOf cache))) with
    | none => simp [ha] at hn
    | some nss =>
      simp only [ha, Option.map_some, Option.some.injEq] at hn
      rw [termLoop_names s fr drop cache hc t.scopedTerms sts hm [] gen false w nss h ha, ← hn]
      rfl


/-! ### dictionaries: membership -/

theorem dictSet_mem (d : List EncCol) (e x : EncCol) (h : x ∈ dictSet d e) : x = e ∨ x ∈ d := by
  induction d with
  | nil => simp [dictSet] at h; exact Or.inl h
  | cons y r ih =>
    simp only [dictSet] at h
    split at h
    · rcases List.mem_cons.mp h with h | h
      · exact Or.inl h
      · exact Or.inr (List.mem_cons_of_mem _ h)
    · rcases List.mem_cons.mp h with h | h
      · exact Or.inr (by simp [h])
      · rcases ih h with h | h
        · exact Or.inl h
        · exact Or.inr (List.mem_cons_of_mem _ h)

theorem dictUpdate_mem (d new : List EncCol) (x : EncCol) (h : x ∈ dictUpdate d new) : x ∈ d ∨ x ∈ new := by
  unfold dictUpdate at h
  induction new generalizing d with
  | nil => exact Or.inl h
  | cons e r ih =>
    simp only [List.foldl_cons] at h
    rcases ih _ h with h | h
    · rcases dictSet_mem d e x h with h | h
      · exact Or.inr (by simp [h])
      · exact Or.inl h
    · exact Or.inr (List.mem_cons_of_mem _ h)

theorem mem_of_name_nodup (l : List EncCol) (hn : (l.map (·.name)).Nodup) (a b : EncCol)
    (ha : a ∈ l) (hb : b ∈ l) (hab : a.name = b.name) : a = b := by
  induction l with
  | nil => simp at ha
  | cons x r ih =>
    simp only [List.map_cons, List.nodup_cons, List.mem_map, not_exists, not_and] at hn
    rcases List.mem_cons.mp ha with rfl | ha' <;> rcases List.mem_cons.mp hb with rfl | hb'
    · rfl
    · exact absurd hab.symm (hn.1 b hb')
    · exact absurd hab (hn.1 a ha')
    · exact ih hn.2 ha' hb'

/-! ### `_enforce_structure`: the exact branch -/

theorem pickColumns_ok (sc : List EncCol) :
    ∀ (target : List String) (acc : List EncCol), (∀ c ∈ target, ∃ e ∈ sc, e.name = c) →
      ∃ cols, pickColumns sc target acc = .ok cols := by
  intro target
  induction target with
  | nil => intro acc _; exact ⟨acc, rfl⟩
  | cons c r ih =>
    intro acc h
    simp only [pickColumns]
    obtain ⟨e, he, hec⟩ := h c (by simp)
    cases hf : sc.find? (fun e => e.name == c) with
    | none =>
      have := List.find?_eq_none.mp hf e he
      simp [hec] at this
    | some e' => exact ih _ (fun c' hc' => h c' (by simp [hc']))

theorem pickColumns_inv (sc : List EncCol) :
    ∀ (target : List String) (acc cols : List EncCol), pickColumns sc target acc = .ok cols →
      (∀ a ∈ cols, a ∈ acc ∨ a ∈ sc) ∧ (∀ c ∈ target, ∃ a ∈ cols, a.name = c) ∧
      (∀ a ∈ acc, ∃ b ∈ cols, b.name = a.name) := by
  intro target
  induction target with
  | nil =>
    intro acc cols h
    simp only [pickColumns, Except.ok.injEq] at h
    subst h
    exact ⟨fun a ha => Or.inl ha, by simp, fun a ha => ⟨a, ha, rfl⟩⟩
  | cons c r ih =>
    intro acc cols h
    simp only [pickColumns] at h
    cases hf : sc.find? (fun e => e.name == c) with
    | none => simp [hf] at h
    | some e =>
      simp only [hf] at h
      have hes : e ∈ sc := List.mem_of_find?_eq_some hf
      have hec : e.name = c := by simpa using List.find?_some hf
      have heq : (⟨c, e.vals⟩ : EncCol) = e := by cases e; simp_all
      rw [heq] at h
      obtain ⟨h1, h2, h3⟩ := ih _ _ h
      refine ⟨?_, ?_, ?_⟩
      · intro a ha
        rcases h1 a ha with h | h
        · rcases dictSet_mem acc e a h with h | h
          · exact Or.inr (h ▸ hes)
          · exact Or.inl h
        · exact Or.inr h
      · intro c' hc'
        rcases List.mem_cons.mp hc' with rfl | hm
        · have : e.name ∈ (dictSet acc e).map (·.name) := by
            rw [dictSet_names]; unfold insName; split <;> simp_all
          obtain ⟨x, hx, hxn⟩ := List.mem_map.mp this
          obtain ⟨b, hb, hbn⟩ := h3 x hx
          exact ⟨b, hb, by rw [hbn, hxn, hec]⟩
        · exact h2 c' hm
      · intro a ha
        have : a.name ∈ (dictSet acc e).map (·.name) := by
          rw [dictSet_names]; unfold insName
          have : a.name ∈ acc.map (·.name) := List.mem_map_of_mem ha
          split <;> simp_all
        obtain ⟨x, hx, hxn⟩ := List.mem_map.mp this
        obtain ⟨b, hb, hbn⟩ := h3 x hx
        exact ⟨b, hb, by rw [hbn, hxn]⟩

theorem sameNameSet_iff (a b : List String) :
    sameNameSet a b = true ↔ (∀ x ∈ a, x ∈ b) ∧ (∀ x ∈ b, x ∈ a) := by
  simp [sameNameSet, List.all_eq_true]

/-- when the generated names are, as a set and in number, the recorded ones, `_enforce_structure`
passes the term through its first test untouched -/
theorem enforce_exact (zero : List (Option Rat)) (gen : List EncCol) (target : List String)
    (hl : gen.length = target.length) (hs : sameNameSet (gen.map (·.name)) target = true) :
    ∃ cols, enforceTerm zero gen target = .ok (.exact, cols) := by
  have hs' := (sameNameSet_iff _ _).mp hs
  obtain ⟨cols, hc⟩ := pickColumns_ok gen target [] (fun c hc => by
    obtain ⟨e, he, hn⟩ := List.mem_map.mp (hs'.2 c hc); exact ⟨e, he, hn⟩)
  refine ⟨cols, ?_⟩
  unfold enforceTerm
  simp [hl, hs, hc]

/-- in the exact branch the final columns of a term ARE its generated columns -/
theorem enforce_exact_mem (zero : List (Option Rat)) (gen : List EncCol) (target : List String)
    (cols : List EncCol) (h : enforceTerm zero gen target = .ok (.exact, cols))
    (hn : (gen.map (·.name)).Nodup) : (∀ e ∈ cols, e ∈ gen) ∧ (∀ e ∈ gen, e ∈ cols) := by
  unfold enforceTerm at h
  split at h
  · simp at h
  · simp only at h
    split at h
    · simp at h
    · rename_i b sc hadj
      have hsc : b = .exact → sc = gen ∧ sameNameSet (gen.map (·.name)) target = true := by
        intro hb
        split at hadj
        · split at hadj <;> simp_all
        · split at hadj
          · simp at hadj
          · rename_i hns
            simp only [Except.ok.injEq, Prod.mk.injEq] at hadj
            exact ⟨hadj.2.symm, by simpa using hns⟩
      split at h
      · simp at h
      · rename_i cols' hp
        simp only [Except.ok.injEq, Prod.mk.injEq] at h
        obtain ⟨rfl, rfl⟩ := h
        obtain ⟨rfl, hs⟩ := hsc rfl
        obtain ⟨h1, h2, _⟩ := pickColumns_inv sc target [] cols' hp
        have hs' := (sameNameSet_iff _ _).mp hs
        refine ⟨fun e he => by rcases h1 e he with h | h; simp at h; exact h, ?_⟩
        intro e he
        obtain ⟨a, ha, han⟩ := h2 e.name (hs'.1 _ (List.mem_map_of_mem he))
        have hag : a ∈ sc := by rcases h1 a ha with h | h; simp at h; exact h
        exact (mem_of_name_nodup sc hn a e hag he han) ▸ ha


/-! ### generated columns: distinct names, provenance -/

theorem dictUpdate_nodup (d new : List EncCol) (h : (d.map (·.name)).Nodup) :
    ((dictUpdate d new).map (·.name)).Nodup := by
  rw [dictUpdate_names]; exact foldl_insName_nodup _ _ h

/-- one raw product of a scoped term of `t`: which scoped term, its rehydrated factors, their
encodings, the tuple of encoded columns it multiplies -/
structure RawOrigin (s : Spec) (fr : Frame) (drop : List Nat) (cache : Cache) (t : TermStruct) (e : EncCol) : Prop where
  ex : ∃ st ∈ t.scopedTerms, ∃ fs, rehydrate cache st = .ok fs ∧
        ((fs = [] ∧ e = ⟨"Intercept", List.replicate (nRetained fr drop) (some st.scale)⟩) ∨
         (∃ encs w, encodeAll s fr drop fs = .ok (encs, w) ∧
            ∃ rp ∈ iproduct encs.reverse, productEntry st.scale rp = .ok e))

theorem scopedTermColumns_origin (s : Spec) (fr : Frame) (drop : List Nat) (scale : Rat)
    (fs : List (Evaled × Bool)) (cols : List EncCol) (w : Bool)
    (h : scopedTermColumns s fr drop scale fs = .ok (cols, w)) (e : EncCol) (he : e ∈ cols) :
    (fs = [] ∧ e = ⟨"Intercept", List.replicate (nRetained fr drop) (some scale)⟩) ∨
    (∃ encs w', encodeAll s fr drop fs = .ok (encs, w') ∧
        ∃ rp ∈ iproduct encs.reverse, productEntry scale rp = .ok e) := by
  unfold scopedTermColumns at h
  split at h
  · simp only [Except.ok.injEq, Prod.mk.injEq] at h
    left; rw [← h.1] at he; simp at he; exact ⟨rfl, he⟩
  · right
    cases h1 : encodeAll s fr drop fs with
    | error e' => simp [h1] at h
    | ok q =>
      obtain ⟨encs, w1⟩ := q
      simp only [h1] at h
      cases hp : productColumns encs scale with
      | error e' => simp [hp] at h
      | ok cols' =>
        simp only [hp, Except.ok.injEq, Prod.mk.injEq] at h
        rw [← h.1] at he
        unfold productColumns at hp
        cases hr : rawProducts encs scale with
        | error e' => simp [hr] at hp
        | ok raw =>
          simp only [hr, Except.ok.injEq] at hp
          rw [← hp] at he
          have her : e ∈ raw := by
            rcases dictUpdate_mem [] raw e he with h | h
            · simp at h
            · exact h
          obtain ⟨rp, hrp, hpe⟩ := mapE_mem_out _ _ _ hr e her
          exact ⟨encs, w1, rfl, rp, hrp, hpe⟩

theorem termLoop_inv (s : Spec) (fr : Frame) (drop : List Nat) :
    ∀ (l : List (Rat × List (Evaled × Bool))) (acc out : List EncCol) (w0 w : Bool),
      termLoop s fr drop l acc w0 = .ok (out, w) →
      ((acc.map (·.name)).Nodup → (out.map (·.name)).Nodup) ∧
      (∀ e ∈ out, e ∈ acc ∨ ∃ x ∈ l, ∃ cols w', scopedTermColumns s fr drop x.1 x.2 = .ok (cols, w') ∧ e ∈ cols) := by
  intro l
  induction l with
  | nil =>
    intro acc out w0 w h
    simp only [termLoop, Except.ok.injEq, Prod.mk.injEq] at h
    rw [← h.1]
    exact ⟨id, fun e he => Or.inl he⟩
  | cons x r ih =>
    intro acc out w0 w h
    obtain ⟨scale, fs⟩ := x
    simp only [termLoop] at h
    cases h1 : scopedTermColumns s fr drop scale fs with
    | error e => simp [h1] at h
    | ok q =>
      obtain ⟨cols, w1⟩ := q
      simp only [h1] at h
      obtain ⟨a, b⟩ := ih _ _ _ _ h
      refine ⟨fun hn => a (dictUpdate_nodup _ _ hn), ?_⟩
      intro e he
      rcases b e he with hb | ⟨x, hx, c, w', hc, hec⟩
      · rcases dictUpdate_mem acc cols e hb with hb | hb
        · exact Or.inl hb
        · exact Or.inr ⟨(scale, fs), by simp, cols, w1, h1, hb⟩
      · exact Or.inr ⟨x, by simp [hx], c, w', hc, hec⟩

theorem termColumns_inv (s : Spec) (fr : Frame) (drop : List Nat) (cache : Cache) (t : TermStruct)
    (gen : List EncCol) (w : Bool) (h : termColumns s fr drop cache t = .ok (gen, w)) :
    (gen.map (·.name)).Nodup ∧ ∀ e ∈ gen, RawOrigin s fr drop cache t e := by
  unfold termColumns at h
  split at h
  · simp at h
  · rename_i sts hm
    obtain ⟨a, b⟩ := termLoop_inv s fr drop sts [] gen false w h
    refine ⟨a (by simp), ?_⟩
    intro e he
    rcases b e he with hb | ⟨x, hx, cols, w', hc, hec⟩
    · simp at hb
    · obtain ⟨st, hst, hf⟩ := mapE_mem_out _ _ _ hm x hx
      cases hr : rehydrate cache st with
      | error e' => simp [hr] at hf
      | ok fs =>
        simp only [hr, Except.ok.injEq] at hf
        subst hf
        exact ⟨st, hst, fs, hr, scopedTermColumns_origin s fr drop st.scale fs cols w' hc e hec⟩

/-! ### products with an all-zero column -/

def ZeroOrNaN (col : List (Option Rat)) : Prop := ∀ v ∈ col, v = some 0 ∨ v = none
def NoNaN (col : List (Option Rat)) : Prop := ∀ v ∈ col, v ≠ none

theorem mem_zipWith' {α β γ} (f : α → β → γ) :
    ∀ (a : List α) (b : List β) (v : γ), v ∈ List.zipWith f a b → ∃ x ∈ a, ∃ y ∈ b, v = f x y := by
  intro a
  induction a with
  | nil => intro b v h; simp at h
  | cons x r ih =>
    intro b v h
    cases b with
    | nil => simp at h
    | cons y s =>
      simp only [List.zipWith_cons_cons, List.mem_cons] at h
      rcases h with rfl | h
      · exact ⟨x, by simp, y, by simp, rfl⟩
      · obtain ⟨x', hx', y', hy', e⟩ := ih s v h
        exact ⟨x', by simp [hx'], y', by simp [hy'], e⟩

theorem mulCol_zero_left (a b : List (Option Rat)) (h : ZeroOrNaN a) : ZeroOrNaN (mulCol a b) := by
  intro v hv
  unfold mulCol at hv
  obtain ⟨x, hx, y, _, rfl⟩ := mem_zipWith' _ _ _ _ hv
  rcases h x hx with rfl | rfl
  · cases y <;> simp [mulCell]
  · simp [mulCell]

theorem mulCol_zero_right (a b : List (Option Rat)) (h : ZeroOrNaN b) : ZeroOrNaN (mulCol a b) := by
  intro v hv
  unfold mulCol at hv
  obtain ⟨x, _, y, hy, rfl⟩ := mem_zipWith' _ _ _ _ hv
  rcases h y hy with rfl | rfl
  · cases x <;> simp [mulCell]
  · cases x <;> simp [mulCell]

theorem mulCol_nonan (a b : List (Option Rat)) (ha : NoNaN a) (hb : NoNaN b) : NoNaN (mulCol a b) := by
  intro v hv
  unfold mulCol at hv
  obtain ⟨x, hx, y, hy, rfl⟩ := mem_zipWith' _ _ _ _ hv
  have := ha x hx; have := hb y hy
  cases x <;> cases y <;> simp_all [mulCell]

theorem foldl_mulCol_zero (cs : List (List (Option Rat))) (c : List (Option Rat))
    (h : ZeroOrNaN c ∨ ∃ z ∈ cs, ZeroOrNaN z) : ZeroOrNaN (cs.foldl mulCol c) := by
  induction cs generalizing c with
  | nil => rcases h with h | ⟨z, hz, _⟩; exact h; simp at hz
  | cons d r ih =>
    simp only [List.foldl_cons]
    apply ih
    rcases h with h | ⟨z, hz, hzz⟩
    · exact Or.inl (mulCol_zero_left _ _ h)
    · rcases List.mem_cons.mp hz with rfl | hm
      · exact Or.inl (mulCol_zero_right _ _ hzz)
      · exact Or.inr ⟨z, hm, hzz⟩

theorem foldl_mulCol_nonan (cs : List (List (Option Rat))) (c : List (Option Rat))
    (hc : NoNaN c) (h : ∀ z ∈ cs, NoNaN z) : NoNaN (cs.foldl mulCol c) := by
  induction cs generalizing c with
  | nil => exact hc
  | cons d r ih =>
    simp only [List.foldl_cons]
    exact ih _ (mulCol_nonan _ _ hc (h d (by simp))) (fun z hz => h z (by simp [hz]))

theorem smulCol_zero (sc : Rat) (a : List (Option Rat)) (h : ZeroOrNaN a) : ZeroOrNaN (smulCol sc a) := by
  intro v hv
  unfold smulCol at hv
  obtain ⟨x, hx, rfl⟩ := List.mem_map.mp hv
  rcases h x hx with rfl | rfl <;> simp

theorem smulCol_nonan (sc : Rat) (a : List (Option Rat)) (h : NoNaN a) : NoNaN (smulCol sc a) := by
  intro v hv
  unfold smulCol at hv
  obtain ⟨x, hx, rfl⟩ := List.mem_map.mp hv
  have := h x hx
  cases x <;> simp_all

/-- a product that has an all-zero (or NaN) factor column is zero wherever it is a number, and
all zero when no factor column holds a NaN -/
theorem productEntry_zero (scale : Rat) (rp : List EncCol) (e zc : EncCol)
    (h : productEntry scale rp = .ok e) (hz : zc ∈ rp) (hzero : ZeroOrNaN zc.vals) :
    ZeroOrNaN e.vals ∧ ((∀ c ∈ rp, NoNaN c.vals) → ∀ v ∈ e.vals, v = some 0) := by
  unfold productEntry at h
  simp only at h
  cases hl : rp.reverse.map (·.vals) with
  | nil => simp [hl, reduceMul] at h
  | cons c cs =>
    simp only [hl, reduceMul, Except.ok.injEq] at h
    have hmem : zc.vals ∈ c :: cs := by
      rw [← hl]; exact List.mem_map_of_mem (List.mem_reverse.mpr hz)
    have hzn : ZeroOrNaN (cs.foldl mulCol c) := by
      apply foldl_mulCol_zero
      rcases List.mem_cons.mp hmem with h' | h'
      · exact Or.inl (h' ▸ hzero)
      · exact Or.inr ⟨_, h', hzero⟩
    have h1 : ZeroOrNaN e.vals := by rw [← h]; exact smulCol_zero _ _ hzn
    refine ⟨h1, ?_⟩
    intro hnn v hv
    have hall : ∀ z ∈ c :: cs, NoNaN z := by
      intro z hz'
      rw [← hl] at hz'
      obtain ⟨col, hcol, rfl⟩ := List.mem_map.mp hz'
      exact hnn col (List.mem_reverse.mp hcol)
    have h2 : NoNaN e.vals := by
      rw [← h]
      exact smulCol_nonan _ _ (foldl_mulCol_nonan cs c (hall c (by simp)) (fun z hz' => hall z (by simp [hz'])))
    rcases h1 v hv with h' | h'
    · exact h'
    · exact absurd h' (h2 v hv)


/-! ### the replay as a whole -/

theorem replay_ok (specs : List Spec) (fr : Frame) (order : List String) (rs : List Result)
    (h : replay specs fr order = .ok rs) :
    ∃ es cache drop, prepareEvalSpec specs = .ok es ∧
      evalPhase es fr (orderedFactors specs order) [] [] = .ok (cache, drop) ∧
      buildAll fr drop cache specs = .ok rs := by
  unfold replay at h
  cases h1 : prepareEvalSpec specs with
  | error e => simp [h1] at h
  | ok es =>
    simp only [h1] at h
    cases h2 : evalPhase es fr (orderedFactors specs order) [] [] with
    | error e => simp [h2] at h
    | ok p =>
      obtain ⟨cache, drop⟩ := p
      simp only [h2] at h
      exact ⟨es, cache, drop, rfl, h2, h⟩

theorem evalPhase_cache (es : EvalSpec) (fr : Frame) (fs : List FactorDecl) (cache : Cache) (drop : List Nat)
    (h : evalPhase es fr fs [] [] = .ok (cache, drop)) :
    Coherent cache ∧ ∀ k ev, dget k cache = some ev → EvalOk es fr drop k ev := by
  obtain ⟨_, hb, _⟩ := evalPhase_inv es fr fs [] cache [] drop h (by simp)
  have : ∀ k ev, dget k cache = some ev → EvalOk es fr drop k ev :=
    fun k ev hd => hb (k, ev) (dget_mem k cache ev hd)
  exact ⟨fun k ev hd => (this k ev hd).key, this⟩

/-- under `na_action = 'drop'` no null cell of an evaluated factor survives row dropping -/
theorem retained_non_null (es : EvalSpec) (fr : Frame) (drop : List Nat) (k : String) (ev : Evaled)
    (h : EvalOk es fr drop k ev) (hna : es.naAction = .drop) : ∀ c ∈ dropRows drop ev.cells, c ≠ none :=
  dropAux_no_null drop ev.cells 0 (h.nulls hna)

theorem names_of_runs (runs : List TermRun) (s : Spec) (fr : Frame) (drop : List Nat) (cache : Cache)
    (hv : ∀ r ∈ runs, r.Valid s fr drop cache) :
    (runs.flatMap (·.fin)).map (·.name) = (runs.map (·.t)).flatMap (fun t => dictKeys t.columns) := by
  induction runs with
  | nil => rfl
  | cons r rest ih =>
    simp only [List.flatMap_cons, List.map_append, List.map_cons]
    rw [ih (fun r' hr' => hv r' (by simp [hr']))]
    congr 1
    exact enforceTerm_names _ _ _ _ _ (hv r (by simp)).2

theorem flatMap_dictKeys_nodup (ts : List TermStruct) (h : ∀ t ∈ ts, t.columns.Nodup) :
    ts.flatMap (fun t => dictKeys t.columns) = ts.flatMap (·.columns) := by
  induction ts with
  | nil => rfl
  | cons t r ih =>
    simp only [List.flatMap_cons]
    rw [dictKeys_of_nodup _ (h t (by simp)), ih (fun t' ht' => h t' (by simp [ht']))]

theorem buildMatrix_names (s : Spec) (fr : Frame) (drop : List Nat) (cache : Cache) (res : Result)
    (h : buildMatrix s fr drop cache = .ok res) :
    res.names = s.structure_.flatMap (fun t => dictKeys t.columns) := by
  obtain ⟨runs, h1, h2, h3, _, _, _⟩ := buildMatrix_runs s fr drop cache res h
  unfold Result.names
  rw [h3, names_of_runs runs s fr drop cache h2, h1]

theorem allSome_isSome {α} (l : List (Option α)) (h : ∀ x ∈ l, x.isSome) : (allSome l).isSome := by
  induction l with
  | nil => rfl
  | cons x r ih =>
    cases x with
    | none => have := h none (by simp); simp at this
    | some a =>
      simp only [allSome]
      have := ih (fun y hy => h y (by simp [hy]))
      cases hr : allSome r with
      | none => simp [hr] at this
      | some v => simp

/-- the generated names of a term are determined (no `none`) as soon as every scoped factor has a
kind and every categorical one has nominated levels against which its contrast can be coded -/
theorem termNames_isSome (s : Spec) (ko : String → Option (Kind × FactorDecl)) (t : TermStruct)
    (h : ∀ st ∈ t.scopedTerms, ∀ sf ∈ st.factors, ∃ k d, ko sf.expr = some (k, d) ∧
      (k = .categorical → ∃ L, nominatedLevels s d = some L ∧
        (codedNames d.expr (callArgs d).1 sf.reduced L).isSome)) : (termNames s ko t).isSome := by
  unfold termNames
  have : (allSome (t.scopedTerms.map (scopedNames s ko))).isSome := by
    apply allSome_isSome
    intro x hx
    obtain ⟨st, hst, rfl⟩ := List.mem_map.mp hx
    unfold scopedNames
    split
    · rfl
    · rename_i sfs _
      have : (allSome ((dedupScoped st.factors).map (sfNames s ko))).isSome := by
        apply allSome_isSome
        intro y hy
        obtain ⟨sf, hsf, rfl⟩ := List.mem_map.mp hy
        obtain ⟨k, d, hk, hp⟩ := h st hst sf ((dedupScoped_mem _ _).mp hsf)
        simp only [sfNames, hk, Option.bind_some, encNames]
        cases k with
        | categorical =>
          obtain ⟨L, hL, hcn⟩ := hp rfl
          simp only [hL, Option.bind_some]
          exact hcn
        | numerical => rfl
        | constant => rfl
      cases hr : allSome ((dedupScoped st.factors).map (sfNames s ko)) with
      | none => simp [hr] at this
      | some v => simp
  cases hr : allSome (t.scopedTerms.map (scopedNames s ko)) with
  | none => simp [hr] at this
  | some v => simp

theorem iproduct_mem {α} : ∀ (xss : List (List α)) (p : List α), p ∈ iproduct xss →
    ∀ c ∈ p, ∃ xs ∈ xss, c ∈ xs := by
  intro xss
  induction xss with
  | nil => intro p hp c hc; simp [iproduct] at hp; subst hp; simp at hc
  | cons xs rest ih =>
    intro p hp c hc
    simp only [iproduct, List.mem_flatMap, List.mem_map] at hp
    obtain ⟨x, hx, q, hq, rfl⟩ := hp
    rcases List.mem_cons.mp hc with rfl | hm
    · exact ⟨xs, by simp, hx⟩
    · obtain ⟨ys, hys, hcy⟩ := ih q hq c hm
      exact ⟨ys, by simp [hys], hcy⟩

/-! ### derived specs -/

/-- what every derivation (part / subset / round trip) preserves of the spec it starts from -/
structure DerivedFrom (s s' : Spec) : Prop where
  enc : s'.encoderState = s.encoderState
  ts : s'.transformState = s.transformState
  na : s'.naAction = s.naAction
  efr : s'.ensureFullRank = s.ensureFullRank
  out : s'.output = s.output
  terms : ∀ t ∈ s'.terms, t ∈ s.terms
  rows : ∀ t ∈ s'.structure_, t ∈ s.structure_

theorem DerivedFrom.refl (s : Spec) : DerivedFrom s s :=
  ⟨rfl, rfl, rfl, rfl, rfl, fun _ h => h, fun _ h => h⟩

theorem DerivedFrom.trans {a b c : Spec} (h1 : DerivedFrom a b) (h2 : DerivedFrom b c) : DerivedFrom a c :=
  ⟨h2.enc.trans h1.enc, h2.ts.trans h1.ts, h2.na.trans h1.na, h2.efr.trans h1.efr, h2.out.trans h1.out,
   fun t h => h1.terms t (h2.terms t h), fun t h => h1.rows t (h2.rows t h)⟩

theorem mem_insertByDegree (a x : List FactorDecl × TermStruct) (l : List (List FactorDecl × TermStruct)) :
    x ∈ insertByDegree a l ↔ x = a ∨ x ∈ l := by
  induction l with
  | nil => simp [insertByDegree]
  | cons y r ih =>
    unfold insertByDegree
    split
    · simp
    · simp only [List.mem_cons, ih]; exact or_left_comm

theorem mem_sortByDegree (x : List FactorDecl × TermStruct) (l : List (List FactorDecl × TermStruct)) :
    x ∈ sortByDegree l ↔ x ∈ l := by
  induction l with
  | nil => simp [sortByDegree]
  | cons y r ih =>
    have : sortByDegree (y :: r) = insertByDegree y (sortByDegree r) := rfl
    rw [this, mem_insertByDegree, ih]; simp

theorem subsetSpec_derived (s s' : Spec) (picks : List Nat) (h : subsetSpec s picks = .ok s') :
    DerivedFrom s s' := by
  unfold subsetSpec at h
  split at h
  · simp at h
  · rename_i rows hrows
    simp only [Except.ok.injEq] at h
    subst h
    have hrow : ∀ p ∈ rows, p.1 ∈ s.terms ∧ p.2 ∈ s.structure_ := by
      intro p hp
      obtain ⟨i, _, hi⟩ := mapE_mem_out _ picks rows hrows p hp
      split at hi
      · rename_i t ts ht hts
        simp only [Except.ok.injEq] at hi
        subst hi
        exact ⟨List.mem_of_getElem? ht, List.mem_of_getElem? hts⟩
      · simp at hi
    refine ⟨rfl, rfl, rfl, rfl, rfl, ?_, ?_⟩
    · intro t ht
      simp only [List.mem_map] at ht
      obtain ⟨p, hp, rfl⟩ := ht
      exact (hrow p ((mem_sortByDegree p rows).mp hp)).1
    · intro t ht
      simp only [List.mem_map] at ht
      obtain ⟨p, hp, rfl⟩ := ht
      exact (hrow p ((mem_sortByDegree p rows).mp hp)).2

theorem applyStep_derived (specs specs' : List Spec) (st : Step) (h : applyStep specs st = .ok specs') :
    ∀ s' ∈ specs', ∃ s ∈ specs, DerivedFrom s s' := by
  intro s' hs'
  cases st with
  | part i =>
    simp only [applyStep] at h
    split at h
    · rename_i s hs
      simp only [Except.ok.injEq] at h
      subst h
      simp only [List.mem_singleton] at hs'
      subst hs'
      exact ⟨s', List.mem_of_getElem? hs, DerivedFrom.refl _⟩
    · simp at h
  | subset picks =>
    simp only [applyStep] at h
    split at h
    · rename_i s
      split at h
      · simp at h
      · rename_i s'' hsub
        simp only [Except.ok.injEq] at h
        subst h
        simp only [List.mem_singleton] at hs'
        subst hs'
        exact ⟨s, by simp, subsetSpec_derived s s' picks hsub⟩
    · simp at h
  | roundTrip =>
    simp only [applyStep, Except.ok.injEq] at h
    subst h
    exact ⟨s', hs', DerivedFrom.refl _⟩
  | subsetAll pss =>
    simp only [applyStep] at h
    split at h
    · simp at h
    · obtain ⟨sp, hsp, hsub⟩ := mapE_mem_out _ _ _ h s' hs'
      exact ⟨sp.1, (List.of_mem_zip hsp).1, subsetSpec_derived sp.1 s' sp.2 hsub⟩

theorem derive_derived (steps : List Step) : ∀ (specs specs' : List Spec), derive specs steps = .ok specs' →
    ∀ s' ∈ specs', ∃ s ∈ specs, DerivedFrom s s' := by
  induction steps with
  | nil =>
    intro specs specs' h s' hs'
    simp only [derive, Except.ok.injEq] at h
    subst h
    exact ⟨s', hs', DerivedFrom.refl _⟩
  | cons st r ih =>
    intro specs specs' h s' hs'
    simp only [derive] at h
    split at h
    · simp at h
    · rename_i mid hmid
      obtain ⟨m, hm, hd⟩ := ih mid specs' h s' hs'
      obtain ⟨s, hs, hd'⟩ := applyStep_derived specs mid st hmid m hm
      exact ⟨s, hs, hd'.trans hd⟩

end FormulaicVerif.Proofs.C09
