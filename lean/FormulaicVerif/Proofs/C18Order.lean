import FormulaicVerif.Model.Heap
/-! Helper lemmas for C18: factor evaluation is a confluent memo-table fill. -/
namespace FormulaicVerif.Proofs.C18
open FormulaicVerif.Model.Heap

variable {F E : Type} (P : Params F E)

theorem fillNodes_apply (d : Data) (ns : List String) (st : Dict F) (n : String) :
    fillNodes P d st ns n = match st n with
      | some v => some v
      | none => if n ∈ ns then some (P.fit n d) else none := by
  induction ns generalizing st with
  | nil => simp [fillNodes]; cases st n <;> rfl
  | cons m ms ih =>
    simp only [fillNodes, ih]
    cases hm : st m with
    | some v =>
      simp only
      cases hn : st n with
      | some u => rfl
      | none =>
        have : n ≠ m := fun e => by subst e; simp [hm] at hn
        simp [this]
    | none =>
      simp only [Dict.set]
      by_cases e : n = m
      · subst e; simp [hm]
      · simp only [e, if_false]
        cases st n <;> simp [e]

theorem usedFits_fill (d : Data) (st : Dict F) (ns : List String) (f : Factor) :
    usedFits P d (fillNodes P d st ns) f = usedFits P d st f := by
  unfold usedFits
  apply List.map_congr_left
  intro n _
  rw [fillNodes_apply]
  cases st n with
  | some v => rfl
  | none => by_cases h : n ∈ ns <;> simp [h]

theorem fillNodes_comm (d : Data) (st : Dict F) (a b : List String) :
    fillNodes P d (fillNodes P d st a) b = fillNodes P d (fillNodes P d st b) a := by
  funext n
  simp only [fillNodes_apply]
  cases st n with
  | some v => rfl
  | none => by_cases ha : n ∈ a <;> by_cases hb : n ∈ b <;> simp [ha, hb]

theorem Dict.set_comm {V : Type} (m : Dict V) {a b : String} (h : a ≠ b) (x y : V) :
    (m.set a x).set b y = (m.set b y).set a x := by
  funext k
  simp only [Dict.set]
  by_cases hb : k = b
  · subst hb
    have ha : k ≠ a := fun e => h e.symm
    simp [ha]
  · simp [hb]

/-- both computations fail, or both succeed with the same state -/
def SameOk {α : Type} (a b : Except Err α) : Prop := a.toOption = b.toOption

def andThen {α β : Type} (a : Except Err α) (k : α → Except Err β) : Except Err β :=
  match a with
  | .error e => .error e
  | .ok x => k x

theorem SameOk.andThen {α β : Type} {a b : Except Err α} (h : SameOk a b) (k : α → Except Err β) :
    SameOk (andThen a k) (andThen b k) := by
  unfold SameOk at *
  cases a <;> cases b <;> simp_all [Except.toOption, C18.andThen]

theorem fillNodesB_val (d : Data) (ns : List String) (st : Dict F) :
    (fillNodesB P d st ns).val = fillNodes P d st ns := by
  induction ns generalizing st with
  | nil => rfl
  | cons n ns ih => exact ih _

theorem evaluateAll_cons (d : Data) (na : NAAction) (s : EvalSt F) (f : Factor) (fs : List Factor) :
    evaluateAll P d na s (f :: fs) = andThen (evalFactor P d na s f) (fun s' => evaluateAll P d na s' fs) := by
  simp only [evaluateAll, andThen]
  cases evalFactor P d na s f <;> rfl


/-- the state after evaluating an uncached factor that does not raise -/
def stepOk (d : Data) (na : NAAction) (s : EvalSt F) (f : Factor) : EvalSt F :=
  { cache := s.cache.set f (usedFits P d s.state f),
    drops := match na with
      | .drop => fun i => s.drops i || (P.nulls f d).contains i
      | _ => s.drops,
    state := fillNodes P d s.state (P.nodes f) }

/-- evaluating the factor raises (a function of the factor and the data only) -/
def blocked (d : Data) (na : NAAction) (f : Factor) : Bool :=
  P.fails f d || (na == .raise && !(P.nulls f d).isEmpty)

theorem evalFactor_toOption (d : Data) (na : NAAction) (s : EvalSt F) (f : Factor) :
    (evalFactor P d na s f).toOption = match s.cache f with
      | some _ => some s
      | none => if blocked P d na f then none else some (stepOk P d na s f) := by
  unfold evalFactor blocked stepOk
  simp only [fillNodesB_val]
  cases hc : s.cache f with
  | some v => rfl
  | none =>
    simp only
    by_cases hf : P.fails f d = true
    · simp [hf, Except.toOption]
    · simp only [hf, Bool.false_eq_true, if_false, Bool.false_or]
      cases na with
      | drop => simp [Except.toOption]
      | ignore => simp [Except.toOption]
      | raise =>
        by_cases hn : (P.nulls f d).isEmpty = true
        · simp [hn, Except.toOption]
        · simp [hn, Except.toOption]

theorem toOption_andThen {α β : Type} (a : Except Err α) (k : α → Except Err β) :
    (andThen a k).toOption = a.toOption.bind (fun x => (k x).toOption) := by
  cases a <;> simp [andThen, Except.toOption]

theorem stepOk_cache_ne (d : Data) (na : NAAction) (s : EvalSt F) {f g : Factor} (h : g ≠ f) :
    (stepOk P d na s f).cache g = s.cache g := by
  simp [stepOk, Dict.set, h]

theorem stepOk_cache_self (d : Data) (na : NAAction) (s : EvalSt F) (f : Factor) :
    (stepOk P d na s f).cache f = some (usedFits P d s.state f) := by
  simp [stepOk, Dict.set]

theorem stepOk_comm (d : Data) (na : NAAction) (s : EvalSt F) {f g : Factor} (h : f ≠ g) :
    stepOk P d na (stepOk P d na s f) g = stepOk P d na (stepOk P d na s g) f := by
  unfold stepOk
  simp only [usedFits_fill, EvalSt.mk.injEq]
  refine ⟨Dict.set_comm _ h _ _, ?_, fillNodes_comm P d _ _ _⟩
  cases na with
  | drop => funext i; simp only [Bool.or_assoc]; rw [Bool.or_comm ((P.nulls f d).contains i)]
  | raise => rfl
  | ignore => rfl

/-- two adjacent evaluations commute (up to which exception is raised when both orders raise) -/
theorem evalFactor_swap (d : Data) (na : NAAction) (s : EvalSt F) (f g : Factor) :
    SameOk (andThen (evalFactor P d na s f) (fun s' => evalFactor P d na s' g))
           (andThen (evalFactor P d na s g) (fun s' => evalFactor P d na s' f)) := by
  by_cases hfg : f = g
  · subst hfg; rfl
  have hgf : g ≠ f := fun e => hfg e.symm
  unfold SameOk
  simp only [toOption_andThen, evalFactor_toOption]
  cases hcf : s.cache f with
  | some u =>
    cases hcg : s.cache g with
    | some v => simp [hcf, hcg]
    | none =>
      by_cases bg : blocked P d na g = true
      · simp [hcg, bg]
      · simp [hcg, bg, stepOk_cache_ne P d na s hfg, hcf]
  | none =>
    cases hcg : s.cache g with
    | some v =>
      by_cases bf : blocked P d na f = true
      · simp [hcf, bf]
      · simp [hcf, bf, stepOk_cache_ne P d na s hgf, hcg]
    | none =>
      by_cases bf : blocked P d na f = true <;> by_cases bg : blocked P d na g = true
      · simp [bf, bg]
      · simp [bf, bg, stepOk_cache_ne P d na s hfg, hcf]
      · simp [bf, bg, stepOk_cache_ne P d na s hgf, hcg]
      · simp [bf, bg, stepOk_cache_ne P d na s hfg, stepOk_cache_ne P d na s hgf, hcf, hcg,
          stepOk_comm P d na s hfg]

/-- memo-table confluence: evaluating the factors in any order gives the same factor cache, drop set
and pooled state (or raises in both orders) -/
theorem evaluateAll_perm (d : Data) (na : NAAction) {fs gs : List Factor} (h : fs.Perm gs) :
    ∀ s : EvalSt F, SameOk (evaluateAll P d na s fs) (evaluateAll P d na s gs) := by
  induction h with
  | nil => intro s; rfl
  | cons x _ ih =>
    intro s
    simp only [evaluateAll_cons]
    unfold SameOk
    simp only [toOption_andThen]
    cases (evalFactor P d na s x).toOption with
    | none => rfl
    | some s' => exact ih s'
  | swap x y l =>
    intro s
    simp only [evaluateAll_cons]
    have := evalFactor_swap P d na s y x
    unfold SameOk at *
    have e : ∀ (a : Except Err (EvalSt F)) (k₁ : EvalSt F → Except Err (EvalSt F)) (k₂ : EvalSt F → Except Err (EvalSt F)),
        andThen a (fun s' => andThen (k₁ s') k₂) = andThen (andThen a k₁) k₂ := by
      intro a k₁ k₂; cases a <;> rfl
    rw [e, e, toOption_andThen, toOption_andThen (andThen (evalFactor P d na s x) _), this]
  | trans _ _ ih₁ ih₂ => intro s; exact (ih₁ s).trans (ih₂ s)

end FormulaicVerif.Proofs.C18
