import FormulaicVerif.Proofs.C09
/-! Helper lemmas for the extensions of property C09 (`Props/C09.lean`): contrasts other than the default
treatment coding (`dummies @ coding_matrix` cell by cell, custom contrasts), the output routes and
`attr_overrides` (two specs that agree on what the column generation reads are reused alike), one
materializer object serving several calls, and sessions (what an application writes back into the
caller's spec). Core Lean only. -/
namespace FormulaicVerif.Proofs.C09
open FormulaicVerif.Model.Reuse
open FormulaicVerif.Model

/-! ### `dummies @ coding_matrix` -/

theorem hasDupVal_false_iff (L : List Val) : hasDupVal L = false ↔ L.Nodup := by
  induction L with
  | nil => simp [hasDupVal]
  | cons l ls ih =>
    simp only [hasDupVal, Bool.or_eq_false_iff, List.nodup_cons, ih]
    constructor
    · rintro ⟨h1, h2⟩; exact ⟨by simpa using h1, h2⟩
    · rintro ⟨h1, h2⟩; exact ⟨by simpa using h1, h2⟩

theorem lsum_cons (x : Rat) (l : List Rat) : Contrasts.lsum (x :: l) = x + Contrasts.lsum l := rfl

theorem dot_nil_right (a : List Rat) : Contrasts.dot a [] = 0 := by
  simp [Contrasts.dot, Contrasts.lsum]

theorem dot_cons (x y : Rat) (a b : List Rat) : Contrasts.dot (x :: a) (y :: b) = x * y + Contrasts.dot a b := by
  simp [Contrasts.dot, Contrasts.lsum]

/-- a cell that is none of the levels gives the zero row of the dummy coding, hence 0 in every coded column -/
theorem dot_indRow_unseen (L : List Val) (c : Cell) (hc : ∀ l ∈ L, c ≠ some l) :
    ∀ b : List Rat, Contrasts.dot (indRow L c) b = 0 := by
  induction L with
  | nil => intro b; simp [indRow, Contrasts.dot, Contrasts.lsum]
  | cons l ls ih =>
    intro b
    cases b with
    | nil => exact dot_nil_right _
    | cons y ys =>
      have h1 : c ≠ some l := hc l (by simp)
      have := ih (fun l' hl' => hc l' (by simp [hl'])) ys
      simp only [indRow, List.map_cons, h1, if_false, dot_cons] at this ⊢
      rw [this]
      simp [Rat.zero_mul, Rat.add_zero]

/-- a cell holding level `i` picks entry `i` -/
theorem dot_indRow_level (L : List Val) (hnd : L.Nodup) :
    ∀ (i : Nat) (hi : i < L.length) (b : List Rat) (v : Rat), b[i]? = some v →
      Contrasts.dot (indRow L (some L[i])) b = v := by
  induction L with
  | nil => intro i hi; simp at hi
  | cons l ls ih =>
    intro i hi b v hv
    rw [List.nodup_cons] at hnd
    cases b with
    | nil => simp at hv
    | cons y ys =>
      cases i with
      | zero =>
        simp only [List.getElem?_cons_zero, Option.some.injEq] at hv
        subst hv
        have hrest : Contrasts.dot (indRow ls (some l)) ys = 0 :=
          dot_indRow_unseen ls (some l) (fun l' hl' h => hnd.1 (by cases h; exact hl')) ys
        simp only [List.getElem_cons_zero, indRow, List.map_cons, if_true, dot_cons] at hrest ⊢
        rw [hrest]
        simp [Rat.one_mul, Rat.add_zero]
      | succ i =>
        simp only [List.getElem?_cons_succ] at hv
        have hi' : i < ls.length := by simpa using hi
        have hne : (some ls[i] : Cell) ≠ some l := by
          intro h; cases h; exact hnd.1 (List.getElem_mem hi')
        have := ih hnd.2 i hi' ys v hv
        simp only [List.getElem_cons_succ, indRow, List.map_cons, hne, if_false, dot_cons] at this ⊢
        rw [this]
        simp [Rat.zero_mul, Rat.zero_add]

theorem column_getElem? (M : List (List Rat)) (j : Nat) (hM : ∀ row ∈ M, j < row.length) :
    ∀ i : Nat, (Contrasts.column M j)[i]? = (M[i]?).bind (fun row => row[j]?) := by
  induction M with
  | nil => intro i; simp [Contrasts.column]
  | cons r rs ih =>
    intro i
    have hr : j < r.length := hM r (by simp)
    have hrj : r[j]? = some r[j] := List.getElem?_eq_getElem hr
    have ih' := ih (fun row hrow => hM row (by simp [hrow]))
    cases i with
    | zero => simp [Contrasts.column, hrj]
    | succ i =>
      have := ih' i
      simp only [Contrasts.column] at this
      simp [Contrasts.column, hrj, this]

/-- `dummies @ coding_matrix`, cell by cell: a cell holding the `i`-th level contributes row `i` of the
coding matrix, a cell holding none of the levels (a value unseen at fit time, a null) the zero row -/
theorem codedCell_row (L : List Val) (M : List (List Rat)) (j : Nat)
    (hnd : L.Nodup) (hM : ∀ row ∈ M, j < row.length) :
    (∀ (i : Nat) (hi : i < L.length) (row : List Rat) (v : Rat), M[i]? = some row → row[j]? = some v →
        codedCell L M j (some L[i]) = some v) ∧
    (∀ c : Cell, (∀ l ∈ L, c ≠ some l) → codedCell L M j c = some 0) := by
  refine ⟨?_, ?_⟩
  · intro i hi row v hrow hv
    simp only [codedCell, Option.some.injEq]
    apply dot_indRow_level L hnd i hi
    rw [column_getElem? M j hM i, hrow]
    simpa using hv
  · intro c hc
    simp only [codedCell, Option.some.injEq]
    exact dot_indRow_unseen L c hc _


/-- column `j0 + i` of the encoding carries the `i`-th coding column name and the cells of matrix column `j0 + i` -/
theorem matrixColsFrom_getElem (mk : String → String) (cellsOf : Nat → List (Option Rat)) :
    ∀ (fields : List String) (j0 i : Nat) (f : String), fields[i]? = some f →
      (matrixColsFrom mk cellsOf j0 fields)[i]? = some ⟨mk f, cellsOf (j0 + i)⟩ := by
  intro fields
  induction fields with
  | nil => intro j0 i f h; simp at h
  | cons x r ih =>
    intro j0 i f h
    cases i with
    | zero => simp at h; simp [matrixColsFrom, h]
    | succ i =>
      simp only [List.getElem?_cons_succ] at h
      simp only [matrixColsFrom, List.getElem?_cons_succ]
      rw [ih (j0 + 1) i f h]
      congr 3
      omega

/-- the encoded columns of a matrix-coded contrast: one per coding column name, holding
`dummies @ coding_matrix` -/
theorem matrix_coded_columns (expr : String) (c : Contr) (hc : IsMatrixCoded c) (red : Bool) (L : List Val)
    (cells : List Cell) (cols : List EncCol) (h : codedColumns expr c red L cells = .ok cols)
    (hsc : shortCircuit L red = false) :
    ∃ M fields, codingMatrix c L red = .ok M ∧ M.length = L.length ∧ codingFields c L red = .ok fields ∧
      cols.map (·.name) = fields.map (fieldName c expr red) ∧
      ∀ (j : Nat) (f : String), fields[j]? = some f →
        cols[j]? = some ⟨fieldName c expr red f, cells.map (codedCell L M j)⟩ := by
  rw [codedColumns_matrix expr c hc] at h
  simp only [hsc, Bool.false_eq_true, if_false] at h
  cases hM : codingMatrix c L red with
  | error e => simp [hM] at h
  | ok M =>
    simp only [hM] at h
    by_cases hlen : M.length = L.length
    · simp only [hlen, ne_eq, not_true_eq_false, if_false] at h
      cases hf : codingFields c L red with
      | error e => simp [hf] at h
      | ok fields =>
        simp only [hf, Except.ok.injEq] at h
        refine ⟨M, fields, rfl, hlen, rfl, by rw [← h, matrixColsFrom_names], ?_⟩
        intro j f hj
        rw [← h]
        have := matrixColsFrom_getElem (fieldName c expr red) (fun j => cells.map (codedCell L M j)) fields 0 j f hj
        simpa using this
    · simp [hlen] at h

/-- treatment / SAS coding with an explicit or default base: the dummy columns of every level but the base -/
theorem treatment_coded_columns (expr : String) (sas : Bool) (base : Option Val) (red : Bool) (L : List Val)
    (cells : List Cell) (cols : List EncCol)
    (h : codedColumns expr (.treatment sas base) red L cells = .ok cols) :
    (shortCircuit L red = true ∧ cols = []) ∨
    ∃ i, findBase sas base L = .ok i ∧
      cols = (if red then L.eraseIdx i else L).map
        (fun l => ⟨fieldName (.treatment sas base) expr red l.render, cells.map (indicator l)⟩) := by
  simp only [codedColumns] at h
  by_cases hsc : shortCircuit L red = true
  · simp only [hsc, if_true, Except.ok.injEq] at h
    exact Or.inl ⟨hsc, h.symm⟩
  · simp only [hsc, Bool.false_eq_true, if_false] at h
    cases hb : findBase sas base L with
    | error e => simp [hb] at h
    | ok i =>
      simp only [hb, Except.ok.injEq] at h
      exact Or.inr ⟨i, rfl, h.symm⟩

theorem encodeAll_mem (s : Spec) (fr : Frame) (drop : List Nat) :
    ∀ (fs : List (Evaled × Bool)) (encs : List (List EncCol)) (w : Bool),
      encodeAll s fr drop fs = .ok (encs, w) →
      ∀ enc ∈ encs, ∃ p ∈ fs, ∃ w', encodeFactor s fr drop p.1 p.2 = .ok (enc, w') := by
  intro fs
  induction fs with
  | nil => intro encs w h enc he; simp [encodeAll] at h; rw [h.1] at he; simp at he
  | cons p r ih =>
    intro encs w h enc he
    obtain ⟨ev, red⟩ := p
    simp only [encodeAll] at h
    cases h1 : encodeFactor s fr drop ev red with
    | error e => simp [h1] at h
    | ok q =>
      obtain ⟨cols, w1⟩ := q
      simp only [h1] at h
      cases h2 : encodeAll s fr drop r with
      | error e => simp [h2] at h
      | ok q2 =>
        obtain ⟨rest, w2⟩ := q2
        simp only [h2, Except.ok.injEq, Prod.mk.injEq] at h
        rw [← h.1] at he
        rcases List.mem_cons.mp he with rfl | hm
        · exact ⟨(ev, red), by simp, w1, h1⟩
        · obtain ⟨p', hp', w', hw'⟩ := ih rest w2 h2 enc hm
          exact ⟨p', by simp [hp'], w', hw'⟩



/-! ### what the reuse reads of a spec: two specs that agree on it are reused alike -/

/-- the fields of a spec the column generation reads: its encoder state, its structure, and whether
its output is `narwhals` (the one output on which `Contrasts.apply` and `_combine_columns` refuse an
empty result) -/
structure SameForBuild (s s' : Spec) : Prop where
  enc : s'.encoderState = s.encoderState
  str : s'.structure_ = s.structure_
  nw : (s'.output = .narwhals) ↔ (s.output = .narwhals)

theorem encoderShortCircuitFails_congr (o o' : Output) (h : o' = .narwhals ↔ o = .narwhals) (via : Via)
    (L : List Val) (red : Bool) :
    encoderShortCircuitFails o' via L red = encoderShortCircuitFails o via L red := by
  cases o <;> cases o' <;> simp_all [encoderShortCircuitFails]

theorem encodeFactor_congr (s s' : Spec) (h : SameForBuild s s') (fr : Frame) (drop : List Nat) (ev : Evaled)
    (red : Bool) : encodeFactor s' fr drop ev red = encodeFactor s fr drop ev red := by
  have hn : nominatedLevels s' ev.decl = nominatedLevels s ev.decl := by simp [nominatedLevels, h.enc]
  simp only [encodeFactor, hn, encoderShortCircuitFails_congr s.output s'.output h.nw]

theorem encodeAll_congr (s s' : Spec) (h : SameForBuild s s') (fr : Frame) (drop : List Nat) :
    ∀ fs, encodeAll s' fr drop fs = encodeAll s fr drop fs := by
  intro fs
  induction fs with
  | nil => rfl
  | cons p r ih =>
    obtain ⟨ev, red⟩ := p
    simp only [encodeAll, encodeFactor_congr s s' h, ih]

theorem scopedTermColumns_congr (s s' : Spec) (h : SameForBuild s s') (fr : Frame) (drop : List Nat)
    (scale : Rat) (fs : List (Evaled × Bool)) :
    scopedTermColumns s' fr drop scale fs = scopedTermColumns s fr drop scale fs := by
  cases fs with
  | nil => rfl
  | cons p r => simp only [scopedTermColumns, encodeAll_congr s s' h]

theorem termLoop_congr (s s' : Spec) (h : SameForBuild s s') (fr : Frame) (drop : List Nat) :
    ∀ l acc w, termLoop s' fr drop l acc w = termLoop s fr drop l acc w := by
  intro l
  induction l with
  | nil => intro acc w; rfl
  | cons x r ih =>
    intro acc w
    obtain ⟨scale, fs⟩ := x
    simp only [termLoop, scopedTermColumns_congr s s' h, ih]

theorem termColumns_congr (s s' : Spec) (h : SameForBuild s s') (fr : Frame) (drop : List Nat) (cache : Cache)
    (t : TermStruct) : termColumns s' fr drop cache t = termColumns s fr drop cache t := by
  simp only [termColumns, termLoop_congr s s' h]

theorem generateAll_congr (s s' : Spec) (h : SameForBuild s s') (fr : Frame) (drop : List Nat) (cache : Cache) :
    ∀ ts, generateAll s' fr drop cache ts = generateAll s fr drop cache ts := by
  intro ts
  induction ts with
  | nil => rfl
  | cons t r ih => simp only [generateAll, termColumns_congr s s' h, ih]

theorem buildMatrix_congr (s s' : Spec) (h : SameForBuild s s') (fr : Frame) (drop : List Nat) (cache : Cache) :
    buildMatrix s' fr drop cache = buildMatrix s fr drop cache := by
  have hnw : (s'.output = .narwhals) = (s.output = .narwhals) := propext h.nw
  simp only [buildMatrix, generateAll_congr s s' h, h.str, hnw]

theorem buildAll_congr (f : Spec → Spec) (fr : Frame) (drop : List Nat)
    (cache : Cache) : ∀ specs, (∀ s ∈ specs, SameForBuild s (f s)) →
      buildAll fr drop cache (specs.map f) = buildAll fr drop cache specs := by
  intro specs
  induction specs with
  | nil => intro _; rfl
  | cons s r ih =>
    intro hf
    simp only [List.map_cons, buildAll, buildMatrix_congr s (f s) (hf s (by simp)),
      ih (fun t ht => hf t (by simp [ht]))]

/-- the evaluation phase reads of the pooled spec only `na_action` and the pooled encoder state -/
theorem evalFactor_congr (es es' : EvalSpec) (hna : es'.naAction = es.naAction)
    (henc : es'.encoderState = es.encoderState) (fr : Frame) (d : FactorDecl) (drop : List Nat) :
    evalFactor es' fr d drop = evalFactor es fr d drop := by
  simp only [evalFactor, guardRecorded, hna, henc]

theorem evalPhase_congr (es es' : EvalSpec) (hna : es'.naAction = es.naAction)
    (henc : es'.encoderState = es.encoderState) (fr : Frame) :
    ∀ fs cache drop, evalPhase es' fr fs cache drop = evalPhase es fr fs cache drop := by
  intro fs
  induction fs with
  | nil => intro cache drop; rfl
  | cons d r ih =>
    intro cache drop
    simp only [evalPhase, evalFactor_congr es es' hna henc, ih]

theorem pooledFactors_map (f : Spec → Spec) (hf : ∀ s, (f s).terms = s.terms) (specs : List Spec) :
    pooledFactors (specs.map f) = pooledFactors specs := by
  simp only [pooledFactors, List.flatMap_map, hf]

theorem orderedFactors_map (f : Spec → Spec) (hf : ∀ s, (f s).terms = s.terms) (specs : List Spec)
    (order : List String) : orderedFactors (specs.map f) order = orderedFactors specs order := by
  simp only [orderedFactors, pooledFactors_map f hf]

theorem foldl_dupdate_map {α} (f : Spec → Spec) (g : Spec → List (String × α)) (hf : ∀ s, g (f s) = g s) :
    ∀ (specs : List Spec) (acc : List (String × α)),
      (specs.map f).foldl (fun acc t => dupdate acc (g t)) acc = specs.foldl (fun acc t => dupdate acc (g t)) acc := by
  intro specs
  induction specs with
  | nil => intro acc; rfl
  | cons s r ih => intro acc; simp only [List.map_cons, List.foldl_cons, hf, ih]


/-- what `attr_overrides` cannot touch: the record -/
theorem override_keeps (o : Overrides) (s : Spec) :
    (o.apply s).encoderState = s.encoderState ∧ (o.apply s).structure_ = s.structure_ ∧
    (o.apply s).terms = s.terms ∧ (o.apply s).transformState = s.transformState := ⟨rfl, rfl, rfl, rfl⟩

def outOnly (o : Output) : Overrides := { output := some o }

theorem outOnly_same (o o' : Output) (ho : o ≠ .narwhals) (ho' : o' ≠ .narwhals) (s : Spec) :
    SameForBuild ((outOnly o).apply s) ((outOnly o').apply s) :=
  ⟨rfl, rfl, by simp [outOnly, Overrides.apply, ho, ho']⟩

theorem prepare_outOnly (o : Output) (specs : List Spec) :
    prepareEvalSpec (specs.map (outOnly o).apply) =
      match specs with
      | [] => .error .runtimeError
      | s :: rest =>
        if rest.all (fun t => t.naAction == s.naAction && t.ensureFullRank == s.ensureFullRank) then
          .ok { ensureFullRank := s.ensureFullRank, naAction := s.naAction, output := o,
                transformState := specs.foldl (fun acc t => dupdate acc t.transformState) []
                encoderState := specs.foldl (fun acc t => dupdate acc t.encoderState) [] }
        else .error .runtimeError := by
  cases specs with
  | nil => rfl
  | cons s rest =>
    have h1 := foldl_dupdate_map (outOnly o).apply (·.transformState) (fun _ => rfl) (s :: rest) []
    have h2 := foldl_dupdate_map (outOnly o).apply (·.encoderState) (fun _ => rfl) (s :: rest) []
    simp only [List.map_cons] at h1 h2
    simp only [List.map_cons, prepareEvalSpec, List.all_map, Function.comp_def, h1, h2]
    simp [outOnly, Overrides.apply]

/-- the outcome of a reuse (names, values, warning flag, errors) is the same for every output other
than `narwhals` -/
theorem replayWith_output_irrelevant (o o' : Output) (ho : o ≠ .narwhals) (ho' : o' ≠ .narwhals)
    (specs : List Spec) (fr : Frame) (order : List String) :
    replayWith (outOnly o) specs fr order = replayWith (outOnly o') specs fr order := by
  simp only [replayWith, replay, prepare_outOnly]
  cases specs with
  | nil => rfl
  | cons s rest =>
    simp only
    by_cases hc : (rest.all fun t => t.naAction == s.naAction && t.ensureFullRank == s.ensureFullRank) = true
    · simp only [hc, if_true]
      rw [orderedFactors_map (outOnly o).apply (fun _ => rfl), orderedFactors_map (outOnly o').apply (fun _ => rfl)]
      rw [evalPhase_congr
        { ensureFullRank := s.ensureFullRank, naAction := s.naAction, output := o',
          transformState := (s :: rest).foldl (fun acc t => dupdate acc t.transformState) []
          encoderState := (s :: rest).foldl (fun acc t => dupdate acc t.encoderState) [] }
        { ensureFullRank := s.ensureFullRank, naAction := s.naAction, output := o,
          transformState := (s :: rest).foldl (fun acc t => dupdate acc t.transformState) []
          encoderState := (s :: rest).foldl (fun acc t => dupdate acc t.encoderState) [] } rfl rfl]
      cases evalPhase _ fr (orderedFactors (s :: rest) order) [] [] with
      | error e => rfl
      | ok p =>
        obtain ⟨cache, drop⟩ := p
        simp only
        have := buildAll_congr (outOnly o').apply fr drop cache ((s :: rest).map (outOnly o).apply)
          (fun t ht => by
            obtain ⟨t0, _, rfl⟩ := List.mem_map.mp ht
            exact ⟨rfl, rfl, by simp [outOnly, Overrides.apply, ho, ho']⟩)
        simp only [List.map_map] at this
        have h2 : ((outOnly o').apply ∘ (outOnly o).apply) = (outOnly o').apply := by
          funext t; rfl
        rw [h2] at this
        exact this.symm
    · simp only [hc]
      rfl


/-! ### one materializer object, several calls -/

theorem getModelMatrix_eq_replay (m : MatState) (specs : List Spec) (fr : Frame) (order : List String) :
    (getModelMatrix m specs fr order).2 = replay specs fr order := by
  unfold getModelMatrix replay
  cases prepareEvalSpec specs with
  | error e => rfl
  | ok es =>
    simp only
    cases evalPhase es fr (orderedFactors specs order) [] [] with
    | error e => rfl
    | ok p => rfl

/-! ### sessions: what an application writes back -/

theorem replayState_fst (specs : List Spec) (fr : Frame) (order : List String) :
    (match replayState specs fr order with
      | .error e => .error e
      | .ok p => .ok p.1) = replay specs fr order := by
  unfold replayState replay
  cases prepareEvalSpec specs with
  | error e => rfl
  | ok es =>
    simp only
    cases evalPhase es fr (orderedFactors specs order) [] [] with
    | error e => rfl
    | ok p =>
      obtain ⟨cache, drop⟩ := p
      simp only
      cases buildAll fr drop cache specs with
      | error e => rfl
      | ok rs => rfl

/-- writing the categories an entry already records changes nothing -/
theorem writeBack_id (enc : List (String × RecState)) (expr : String) (L : List Val)
    (h : ∀ r, (expr, r) ∈ enc → r.levels = some L) : writeBack enc expr L = enc := by
  unfold writeBack
  conv => rhs; rw [← List.map_id enc]
  apply List.map_congr_left
  intro kr hkr
  obtain ⟨k, r⟩ := kr
  by_cases hk : k = expr
  · subst hk
    have := h r hkr
    cases r
    simp_all
  · simp [hk]

theorem foldl_id_of_step {α β} (f : β → α → β) (b : β) (l : List α) (h : ∀ a ∈ l, f b a = b) :
    l.foldl f b = b := by
  induction l with
  | nil => rfl
  | cons a r ih =>
    simp only [List.foldl_cons, h a (by simp)]
    exact ih (fun a' ha' => h a' (by simp [ha']))

/-- an application leaves the spec as it found it when every categorical factor it encodes finds, in
every entry the spec holds for it, exactly the levels it nominates -/
theorem specAfter_eq (s : Spec) (drop : List Nat) (cache : Cache)
    (h : ∀ t ∈ s.structure_, ∀ st ∈ t.scopedTerms, ∀ sf ∈ st.factors, ∀ ev, dget sf.expr cache = some ev →
      ∀ L, levelsUsed s drop ev = some L → ∀ r, (sf.expr, r) ∈ s.encoderState → r.levels = some L) :
    specAfter s drop cache = s := by
  unfold specAfter
  have : (encodedFactors s).foldl (writeStep s drop cache) s.encoderState = s.encoderState := by
    apply foldl_id_of_step
    intro sf hsf
    obtain ⟨t, ht, hsf'⟩ := List.mem_flatMap.mp hsf
    obtain ⟨st, hst, hsf''⟩ := List.mem_flatMap.mp hsf'
    unfold writeStep
    cases hd : dget sf.expr cache with
    | none => rfl
    | some ev =>
      simp only
      cases hl : levelsUsed s drop ev with
      | none => rfl
      | some L => exact writeBack_id _ _ _ (h t ht st hst sf hsf'' ev hd L hl)
  rw [this]

theorem levelsUsed_nominated (s : Spec) (drop : List Nat) (ev : Evaled) (L L0 : List Val)
    (h : levelsUsed s drop ev = some L) (hn : nominatedLevels s ev.decl = some L0) :
    L = L0 ∧ ev.kind = .categorical := by
  unfold levelsUsed at h
  cases hk : ev.kind with
  | categorical =>
    simp only [hk] at h
    split at h
    · simp at h
    · rw [hn] at h
      split at h
      · simp at h
      · rename_i lw hp
        obtain ⟨L', w⟩ := lw
        obtain ⟨_, hL, _⟩ := pinnedLevels_some _ _ _ _ _ hp
        simp only [Option.some.injEq] at h
        exact ⟨by rw [← h, hL], rfl⟩
  | numerical => simp [hk] at h
  | constant => simp [hk] at h

theorem session_stable (specs : List Spec)
    (hst : ∀ fr order rs specs', replayState specs fr order = .ok (rs, specs') → specs' = specs) :
    ∀ apps : List (Frame × List String), session specs apps = apps.map (fun a => replay specs a.1 a.2) := by
  intro apps
  induction apps with
  | nil => rfl
  | cons a rest ih =>
    obtain ⟨fr, order⟩ := a
    simp only [session, List.map_cons]
    have hf := replayState_fst specs fr order
    cases hr : replayState specs fr order with
    | error e =>
      simp only [hr] at hf
      simp only [← hf, ih]
    | ok p =>
      obtain ⟨rs, specs'⟩ := p
      simp only [hr] at hf
      have := hst fr order rs specs' hr
      subst this
      simp only [← hf, ih]


theorem evalPhase_decls (es : EvalSpec) (fr : Frame) :
    ∀ (fs : List FactorDecl) (cache0 cache : Cache) (drop0 drop : List Nat),
      evalPhase es fr fs cache0 drop0 = .ok (cache, drop) →
      ∀ p ∈ cache, p ∈ cache0 ∨ p.2.decl ∈ fs := by
  intro fs
  induction fs with
  | nil =>
    intro cache0 cache drop0 drop h p hp
    simp only [evalPhase, Except.ok.injEq, Prod.mk.injEq] at h
    exact Or.inl (h.1 ▸ hp)
  | cons d r ih =>
    intro cache0 cache drop0 drop h p hp
    simp only [evalPhase] at h
    cases hc : dget d.expr cache0 with
    | some v =>
      simp only [hc] at h
      rcases ih _ _ _ _ h p hp with h' | h'
      · exact Or.inl h'
      · exact Or.inr (by simp [h'])
    | none =>
      simp only [hc] at h
      cases hd : evalFactor es fr d drop0 with
      | error e => simp [hd] at h
      | ok q =>
        obtain ⟨ev, drop1⟩ := q
        simp only [hd] at h
        obtain ⟨_, _, hdecl⟩ := evalFactor_ok es fr d drop0 drop1 ev hd
        rcases ih _ _ _ _ h p hp with h' | h'
        · rcases List.mem_append.mp h' with h'' | h''
          · exact Or.inl h''
          · simp only [List.mem_singleton] at h''
            subst h''
            exact Or.inr (by simp [hdecl])
        · exact Or.inr (by simp [h'])

theorem dget_isSome_of_mem {α} (k : String) (l : List (String × α)) (v : α) (h : (k, v) ∈ l) :
    (dget k l).isSome := by
  induction l with
  | nil => simp at h
  | cons x r ih =>
    obtain ⟨k', v'⟩ := x
    simp only [dget]
    split
    · simp
    · rename_i hne
      rcases List.mem_cons.mp h with h' | h'
      · cases h'; exact absurd rfl hne
      · exact ih h'

/-- an application leaves every recorded spec exactly as it was, provided the parts agree on the kind
they record for a factor and every entry of a categorical factor records the levels the reuse nominates
(its own categories, equal to an explicit `levels=` argument if there is one) — the state of a fit -/
theorem replayState_keeps_specs (specs : List Spec) (fr : Frame) (order : List String)
    (rs : List Result) (specs' : List Spec)
    (h : replayState specs fr order = .ok (rs, specs'))
    (hkinds : ∀ s ∈ specs, ∀ s' ∈ specs, ∀ e r r', (e, r) ∈ s.encoderState →
      dget e s'.encoderState = some r' → r'.kind = r.kind)
    (hset : ∀ s ∈ specs, ∀ d ∈ pooledFactors specs, ∀ r, (d.expr, r) ∈ s.encoderState →
      r.kind = .categorical → ∃ L, nominatedLevels s d = some L ∧ r.levels = some L) :
    specs' = specs := by
  unfold replayState at h
  cases h1 : prepareEvalSpec specs with
  | error e => simp [h1] at h
  | ok es =>
    simp only [h1] at h
    cases h2 : evalPhase es fr (orderedFactors specs order) [] [] with
    | error e => simp [h2] at h
    | ok p =>
      obtain ⟨cache, drop⟩ := p
      simp only [h2] at h
      cases h3 : buildAll fr drop cache specs with
      | error e => simp [h3] at h
      | ok rs' =>
        simp only [h3, Except.ok.injEq, Prod.mk.injEq] at h
        rw [← h.2]
        conv => rhs; rw [← List.map_id specs]
        apply List.map_congr_left
        intro s hs
        simp only [id]
        obtain ⟨hcoh, hok⟩ := evalPhase_cache es fr _ cache drop h2
        have henc := prepareEvalSpec_enc specs es h1
        apply specAfter_eq
        intro t _ st _ sf _ ev hd L hl r hr
        have hkey : ev.decl.expr = sf.expr := hcoh _ _ hd
        have hmem : (sf.expr, ev) ∈ cache := dget_mem _ _ _ hd
        have hdecl : ev.decl ∈ pooledFactors specs := by
          rcases evalPhase_decls es fr _ [] cache [] drop h2 _ hmem with h' | h'
          · simp at h'
          · exact orderedFactors_sub specs order _ h'
        -- the kind the evaluation spec records for the factor is the kind of this entry
        have hsome := poolEnc_some sf.expr specs [] (Or.inr ⟨s, hs, dget_isSome_of_mem _ _ _ hr⟩)
        rw [← henc] at hsome
        cases hes : dget sf.expr es.encoderState with
        | none => simp [hes] at hsome
        | some r' =>
          have hk' : r'.kind = r.kind := by
            rw [henc] at hes
            exact poolEnc_kind sf.expr r.kind specs [] (by simp [dget])
              (fun s' hs' r'' hr'' => hkinds s hs s' hs' sf.expr r r'' hr hr'') r' hes
          have hevk : ev.kind = r'.kind := (hok _ _ hd).recorded r' hes
          have hcat : ev.kind = .categorical := by
            cases hk : ev.kind with
            | categorical => rfl
            | numerical => simp [levelsUsed, hk] at hl
            | constant => simp [levelsUsed, hk] at hl
          obtain ⟨L0, hn, hr0⟩ := hset s hs ev.decl hdecl r (by rw [hkey]; exact hr) (by rw [← hk', ← hevk, hcat])
          obtain ⟨hL, _⟩ := levelsUsed_nominated s drop ev L L0 hl hn
          rw [hL]; exact hr0


/-! ### provenance of a generated column; contrast arguments that cannot be coded -/

/-- every generated column of a term is the intercept, or the scaled product of one column from the
encoding of each factor of one of its scoped terms -/
theorem rawOrigin_factors (s : Spec) (fr : Frame) (drop : List Nat) (cache : Cache) (t : TermStruct)
    (e : EncCol) (ho : RawOrigin s fr drop cache t e) :
    ∃ st ∈ t.scopedTerms,
      (e = ⟨"Intercept", List.replicate (nRetained fr drop) (some st.scale)⟩) ∨
      ∃ rp, productEntry st.scale rp = .ok e ∧
        ∀ c ∈ rp, ∃ sf ∈ st.factors, ∃ ev, dget sf.expr cache = some ev ∧
          ∃ enc w, encodeFactor s fr drop ev sf.reduced = .ok (enc, w) ∧ c ∈ enc := by
  obtain ⟨st, hst, fs, hr, hcase⟩ := ho.ex
  refine ⟨st, hst, ?_⟩
  rcases hcase with ⟨_, he⟩ | ⟨encs, w, hall, rp, hrp, hpe⟩
  · exact Or.inl he
  · refine Or.inr ⟨rp, hpe, ?_⟩
    intro c hc
    obtain ⟨enc, henc, hcenc⟩ := iproduct_mem encs.reverse rp hrp c hc
    obtain ⟨p, hp, w', hw'⟩ := encodeAll_mem s fr drop fs encs w hall enc (List.mem_reverse.mp henc)
    obtain ⟨sf, hsf, hd, hred⟩ := (rehydrate_mem cache st fs hr p).mp hp
    exact ⟨sf, hsf, p.1, hd, enc, w', by rw [← hred]; exact hw', hcenc⟩

/-- `names=` that do not match the columns of the contrast array are a ValueError of `CustomContrasts.__init__` -/
theorem customInit_names_mismatch (a : CustomArg) (ns : List String) (v : List Rat) (vs : List (List Rat))
    (hn : a.names = some ns) (hv : a.vectors = v :: vs)
    (hm : ns.length ≠ (if a.isDict then a.vectors.length else v.length)) :
    customInit a = .error .valueError := by
  unfold customInit
  by_cases hr : rectangular a.vectors = true
  · simp only [hr, Bool.not_true, Bool.false_eq_true, if_false]
    by_cases hd : a.isDict = true
    · simp only [hd, if_true, hv, hn] at hm ⊢
      simp only [List.length_cons] at hm
      simp [hm]
    · simp only [hd, Bool.false_eq_true, if_false, hv, hn] at hm ⊢
      simp [hm]
  · simp [hr]

theorem evalFactor_bad_ctor (es : EvalSpec) (fr : Frame) (d : FactorDecl) (drop : List Nat)
    (c : Contr) (ls : Option (List Val)) (e : Err) (hvia : d.via = .cwrap c ls) (hbad : ctorCheck c = .error e) :
    evalFactor es fr d drop = .error .factorEvaluation := by
  simp [evalFactor, evalValue, hvia, hbad]


theorem toRows_length (a : Contrasts.Arr) (r c : Nat) : (Contrasts.toRows a r c).length = r := by
  simp [Contrasts.toRows]

/-- the built-in contrasts without options that can fail — default, sum, Helmert, difference — can be
coded against ANY level list: their column names are always defined -/
theorem codedNames_builtin (expr : String) (c : Contr) (red : Bool) (L : List Val)
    (hc : c = .default ∨ c = .sum ∨ (∃ r s, c = .helmert r s) ∨ (∃ b, c = .diff b)) :
    (codedNames expr c red L).isSome := by
  rcases hc with rfl | rfl | ⟨r, s, rfl⟩ | ⟨b, rfl⟩
  · rfl
  all_goals
    simp only [codedNames]
    split
    · rfl
    · simp only [codingMatrix, codingFields]
      cases red <;> simp [eyeRows, toRows_length]

end FormulaicVerif.Proofs.C09
