import FormulaicVerif.Proofs.C02Columns
import FormulaicVerif.Proofs.Scoped
/-! Helper lemmas for C02: what each stage of `_build_model_matrix` contributes. Core Lean only. -/
namespace FormulaicVerif.Proofs.C02
open FormulaicVerif.Model FormulaicVerif.Spec FormulaicVerif.Proofs.Scoped
/-! ### ordered dictionaries -/

theorem mem_dictSet {d : List Entry} {x e : Entry} (h : e ∈ dictSet d x) : e ∈ d ∨ e = x := by
  induction d with
  | nil => simp [dictSet] at h; exact .inr h
  | cons y r ih =>
    simp only [dictSet] at h
    split at h
    · simp only [List.mem_cons] at h ⊢
      rcases h with h | h
      · exact .inr h
      · exact .inl (.inr h)
    · simp only [List.mem_cons] at h ⊢
      rcases h with h | h
      · exact .inl (.inl h)
      · rcases ih h with h | h
        · exact .inl (.inr h)
        · exact .inr h

theorem mem_foldl_dictSet {new d : List Entry} {e : Entry} (h : e ∈ new.foldl dictSet d) : e ∈ d ∨ e ∈ new := by
  induction new generalizing d with
  | nil => exact .inl h
  | cons x r ih =>
    rcases ih h with h | h
    · rcases mem_dictSet h with h | h
      · exact .inl h
      · exact .inr (by simp [h])
    · exact .inr (by simp [h])

theorem mem_dictUpdate {d new : List Entry} {e : Entry} (h : e ∈ dictUpdate d new) : e ∈ d ∨ e ∈ new :=
  mem_foldl_dictSet h

theorem mem_dictOfList {l : List Entry} {e : Entry} (h : e ∈ dictOfList l) : e ∈ l := by
  rcases mem_dictUpdate h with h | h
  · simp at h
  · exact h

theorem mem_itemSet {d : List Item} {x e : Item} (h : e ∈ itemSet d x) : e ∈ d ∨ e = x := by
  induction d with
  | nil => simp [itemSet] at h; exact .inr h
  | cons y r ih =>
    simp only [itemSet] at h
    split at h
    · simp only [List.mem_cons] at h ⊢
      rcases h with h | h
      · exact .inr h
      · exact .inl (.inr h)
    · simp only [List.mem_cons] at h ⊢
      rcases h with h | h
      · exact .inl (.inl h)
      · rcases ih h with h | h
        · exact .inl (.inr h)
        · exact .inr h

theorem mem_foldl_itemSet {α} (mk : α → Item) {l : List α} {d : List Item} {e : Item}
    (h : e ∈ l.foldl (fun d a => itemSet d (mk a)) d) : e ∈ d ∨ ∃ a ∈ l, e = mk a := by
  induction l generalizing d with
  | nil => exact .inl h
  | cons x r ih =>
    rcases ih h with h | ⟨a, ha, rfl⟩
    · rcases mem_itemSet h with h | h
      · exact .inl h
      · exact .inr ⟨x, by simp, h⟩
    · exact .inr ⟨a, by simp [ha], rfl⟩

/-! ### the factor cache -/

theorem Cache.get_ok {c : Cache} {e : String} {f : EvaledFactor} (h : c.get e = .ok f) :
    f.expr = e ∧ f ∈ c := by
  unfold Cache.get at h
  cases hf : c.find? (fun f => f.expr == e) with
  | none => simp [hf] at h
  | some g =>
    simp only [hf, Except.ok.injEq] at h
    subst h
    have := List.find?_some hf
    exact ⟨by simpa using this, List.mem_of_find?_eq_some hf⟩

/-! ### `_encode_evaled_factor` -/

theorem mem_delField {k : Field} {cols cols' : List (Field × Col)} (h : delField k cols = .ok cols')
    {x : Field × Col} (hx : x ∈ cols') : x ∈ cols := by
  induction cols generalizing cols' with
  | nil => simp [delField] at h
  | cons y r ih =>
    obtain ⟨k', v⟩ := y
    simp only [delField] at h
    split at h
    · simp only [Except.ok.injEq] at h; subst h; simp [hx]
    · cases hr : delField k r with
      | error e => simp [hr] at h
      | ok r' =>
        simp only [hr, Except.ok.injEq] at h
        subst h
        simp only [List.mem_cons] at hx ⊢
        rcases hx with hx | hx
        · exact .inl hx
        · exact .inr (ih hr hx)

theorem mem_flattenDict {expr : String} {r : Bool} {fmt : Fmt} {cols : List (Field × Col)} {it : Item}
    (h : it ∈ flattenDict expr r fmt cols) :
    ∃ fc ∈ cols, it = ⟨fmt.format expr fc.1.text, ⟨expr, some fc.1, r⟩, fc.2⟩ := by
  unfold flattenDict at h
  rcases mem_foldl_itemSet (fun fc : Field × Col => (⟨fmt.format expr fc.1.text, ⟨expr, some fc.1, r⟩, fc.2⟩ : Item)) h with h | ⟨a, ha, rfl⟩
  · simp at h
  · exact ⟨a, ha, rfl⟩

/-- every entry of a flattened encoded factor carries the structural label of the column it holds,
and is printed from that label -/
theorem encode_item_sound {c : Cache} {f : EvaledFactor} {r : Bool} {items : List Item}
    (hc : c.get f.expr = .ok f) (h : encodeEvaledFactor f r = .ok items) {it : Item} (hit : it ∈ items) :
    NamesColumn c it.part it.col ∧ it.name = printedPart c it.part ∧ it.part.expr = f.expr ∧ it.part.reduced = r := by
  unfold encodeEvaledFactor at h
  obtain ⟨e, he⟩ : ∃ e, e = (if r then f.encReduced else f.encFull) := ⟨_, rfl⟩
  simp only [← he] at h
  cases hv : e.val with
  | single col =>
    simp only [hv, Except.ok.injEq] at h
    subst h
    simp only [List.mem_singleton] at hit
    subst hit
    refine ⟨⟨f, hc, ?_⟩, ?_, rfl, rfl⟩
    · simp only [← he, hv]
    · simp only [printedPart, hc]
  | dict cols =>
    simp only [hv] at h
    by_cases hsp : (e.spansIntercept && r) = true
    · simp only [hsp, if_true] at h
      cases hd : e.dropField with
      | none => simp [hd] at h
      | some k =>
        simp only [hd] at h
        cases hdel : delField k cols with
        | error x => simp [hdel] at h
        | ok cols' =>
          simp only [hdel, Except.ok.injEq] at h
          subst h
          obtain ⟨fc, hfc, rfl⟩ := mem_flattenDict hit
          refine ⟨⟨f, hc, ?_⟩, ?_, rfl, rfl⟩
          · simp only [← he, hv]; exact mem_delField hdel hfc
          · simp only [printedPart, hc, formatOf, ← he, hsp, Bool.true_or, if_true]
    · have hsp' : (e.spansIntercept && r) = false := by simpa using hsp
      simp only [hsp', Bool.false_eq_true, if_false, Except.ok.injEq] at h
      subst h
      obtain ⟨fc, hfc, rfl⟩ := mem_flattenDict hit
      refine ⟨⟨f, hc, ?_⟩, ?_, rfl, rfl⟩
      · simp only [← he, hv]; exact hfc
      · simp only [printedPart, hc, formatOf, ← he, hsp', Bool.false_or]

/-! ### `encodeFactors`, scoped-term columns -/

theorem encodeFactors_spec {c : Cache} {sfs : List SF} {fss : List (List Item)}
    (h : encodeFactors c sfs = .ok fss) :
    fss.length = sfs.length ∧
    ∀ items ∈ fss, ∃ sf ∈ sfs, ∃ f, c.get sf.expr = .ok f ∧ encodeEvaledFactor f sf.reduced = .ok items := by
  induction sfs generalizing fss with
  | nil => simp [encodeFactors] at h; subst h; simp
  | cons sf r ih =>
    simp only [encodeFactors] at h
    cases hg : c.get sf.expr with
    | error x => simp [hg] at h
    | ok f =>
      simp only [hg] at h
      cases he : encodeEvaledFactor f sf.reduced with
      | error x => simp [he] at h
      | ok items =>
        simp only [he] at h
        cases hr : encodeFactors c r with
        | error x => simp [hr] at h
        | ok rest =>
          simp only [hr, Except.ok.injEq] at h
          subst h
          obtain ⟨hl, hm⟩ := ih hr
          refine ⟨by simp [hl], ?_⟩
          intro its hits
          simp only [List.mem_cons] at hits
          rcases hits with rfl | hits
          · exact ⟨sf, by simp, f, hg, he⟩
          · obtain ⟨sf', hsf', f', h1, h2⟩ := hm its hits
            exact ⟨sf', by simp [hsf'], f', h1, h2⟩

theorem mem_of_mem_kron {α} {fs : List (List α)} {p : List α} (hp : p ∈ kron fs) {x : α} (hx : x ∈ p) :
    ∃ f ∈ fs, x ∈ f := by
  induction fs generalizing p with
  | nil => simp [kron] at hp; subst hp; simp at hx
  | cons f r ih =>
    obtain ⟨y, hy, t, ht, rfl⟩ := mem_kron_cons.mp hp
    simp only [List.mem_cons] at hx
    rcases hx with rfl | hx
    · exact ⟨f, by simp, hy⟩
    · obtain ⟨g, hg, hxg⟩ := ih ht hx
      exact ⟨g, by simp [hg], hxg⟩

theorem columnsFor_eq (v : Variant) (fs : List (List Item)) (s : Rat) : columnsFor v fs s = columnsBase fs s := by
  cases v
  · rfl
  · exact columnsFast_eq_base fs s

/-- the columns one scoped term contributes: the intercept, or the Kronecker entries of its encoded factors -/
theorem scopedTermColumns_spec {c : Cache} {v : Variant} {n : Nat} {st : ST} {es : List Entry}
    (h : scopedTermColumns c v n st = .ok es) :
    (st.factors = [] ∧ es = [⟨"Intercept", [], Col.smul st.scale (Col.ones n)⟩]) ∨
    (st.factors ≠ [] ∧ ∃ fss, encodeFactors c st.factors = .ok fss ∧
      es = dictOfList ((kron fss).map (entryOf n st.scale))) := by
  unfold scopedTermColumns at h
  by_cases he : st.factors.isEmpty = true
  · simp only [he, if_true, Except.ok.injEq] at h
    exact .inl ⟨by simpa using he, h.symm⟩
  · have he' : st.factors.isEmpty = false := by simpa using he
    have hne : st.factors ≠ [] := by simpa using he
    simp only [he', Bool.false_eq_true, if_false] at h
    cases hf : encodeFactors c st.factors with
    | error x => simp [hf] at h
    | ok fss =>
      simp only [hf, columnsFor_eq] at h
      have hl := (encodeFactors_spec hf).1
      have hfss : fss ≠ [] := by
        intro e; rw [e] at hl
        exact hne (List.length_eq_zero_iff.mp hl.symm)
      rw [columnsBase_eq fss st.scale hfss, Except.ok.injEq] at h
      refine .inr ⟨hne, fss, rfl, ?_⟩
      rw [← h]
      congr 1
      apply List.map_congr_left
      intro p hp
      exact entryOf_irrel _ _ _ _ (ne_nil_of_mem_kron hfss hp)

theorem termColumns_mem {c : Cache} {v : Variant} {n : Nat} {sts : List ST} {acc es : List Entry}
    (h : termColumns c v n acc sts = .ok es) {e : Entry} (he : e ∈ es) :
    e ∈ acc ∨ ∃ st ∈ sts, ∃ es', scopedTermColumns c v n st = .ok es' ∧ e ∈ es' := by
  induction sts generalizing acc with
  | nil => simp [termColumns] at h; subst h; exact .inl he
  | cons st r ih =>
    simp only [termColumns] at h
    cases hs : scopedTermColumns c v n st with
    | error x => simp [hs] at h
    | ok es' =>
      simp only [hs] at h
      rcases ih h with h' | ⟨st', hst', es'', h1, h2⟩
      · rcases mem_dictUpdate h' with h' | h'
        · exact .inl h'
        · exact .inr ⟨st, by simp, es', hs, h'⟩
      · exact .inr ⟨st', by simp [hst'], es'', h1, h2⟩

theorem buildTerms_spec {c : Cache} {v : Variant} {n : Nat} {scp : List (MTerm × List ST)}
    {rs : List TermResult} (h : buildTerms c v n scp = .ok rs) :
    rs.map (fun r => (r.term, r.sts)) = scp ∧
    ∀ r ∈ rs, termColumns c v n [] r.sts = .ok r.cols := by
  induction scp generalizing rs with
  | nil => simp [buildTerms] at h; subst h; simp
  | cons x rest ih =>
    obtain ⟨t, sts⟩ := x
    simp only [buildTerms] at h
    cases ht : termColumns c v n [] sts with
    | error x => simp [ht] at h
    | ok es =>
      simp only [ht] at h
      cases hr : buildTerms c v n rest with
      | error x => simp [hr] at h
      | ok rs' =>
        simp only [hr, Except.ok.injEq] at h
        subst h
        obtain ⟨h1, h2⟩ := ih hr
        refine ⟨by simp [h1], ?_⟩
        intro r hr'
        simp only [List.mem_cons] at hr'
        rcases hr' with rfl | hr'
        · exact ht
        · exact h2 r hr'
/-! ### `_get_scoped_terms` -/

theorem scaleOf_eq_literalScale (efs : List EvaledFactor) : scaleOf efs = literalScale efs := by
  unfold scaleOf literalScale
  generalize (1 : Rat) = acc
  induction efs generalizing acc with
  | nil => rfl
  | cons f r ih =>
    simp only [List.foldl_cons, List.filterMap_cons]
    cases hk : f.kind with
    | constant v => simp only [List.foldl_cons]; exact ih _
    | numerical => exact ih _
    | categorical => exact ih _

/-- what `_get_scoped_terms` yields for one term -/
theorem scopeTerm_spec {c : Cache} {efr : Bool} {spanned : List ST} {t : MTerm} {sts spanned' : List ST}
    (h : scopeTerm c efr spanned t = .ok (sts, spanned')) :
    ∃ efs, evaledFactors c t = .ok efs ∧ (efs = [] → sts = []) ∧
      (efs ≠ [] → efr = false → sts = [fullScoped efs]) ∧
      ∀ st ∈ sts, st.scale = scaleOf efs := by
  unfold scopeTerm at h
  cases he : evaledFactors c t with
  | error x => simp [he] at h
  | ok efs =>
    refine ⟨efs, rfl, ?_⟩
    cases efs with
    | nil =>
      simp only [he, Except.ok.injEq, Prod.mk.injEq] at h
      refine ⟨fun _ => h.1.symm, fun hne => absurd rfl hne, ?_⟩
      rw [← h.1]; simp
    | cons f r =>
      simp only [he] at h
      refine ⟨fun hn => by simp at hn, ?_, ?_⟩
      · intro _ hefr
        simp only [hefr, Bool.false_eq_true, if_false, Except.ok.injEq, Prod.mk.injEq] at h
        exact h.1.symm
      · cases efr with
        | false =>
          simp only [Bool.false_eq_true, if_false, Except.ok.injEq, Prod.mk.injEq] at h
          rw [← h.1]
          intro st hst
          simp only [List.mem_singleton] at hst
          subst hst; rfl
        | true =>
          simp only [if_true] at h
          cases hs : simplify (simplifyFuel (osDiff (spannedBy (f :: r)) spanned)) (osDiff (spannedBy (f :: r)) spanned) with
          | none => simp [hs] at h
          | some out =>
            simp only [hs, Except.ok.injEq, Prod.mk.injEq] at h
            rw [← h.1]
            exact simplify_all (fun st => st.scale = scaleOf (f :: r)) (fun _ _ hst => hst) _ _ _ hs
              (fun st hst => spannedBy_scale (mem_osDiff hst))

theorem getScopedTerms_spec {c : Cache} {efr : Bool} {ts : List MTerm} {spanned : List ST}
    {res : List (MTerm × List ST)} (h : getScopedTerms c efr spanned ts = .ok res) :
    res.map (·.1) = ts ∧
    ∀ x ∈ res, ∃ sp sp', scopeTerm c efr sp x.1 = .ok (x.2, sp') := by
  induction ts generalizing spanned res with
  | nil => simp [getScopedTerms] at h; subst h; simp
  | cons t r ih =>
    simp only [getScopedTerms] at h
    cases hs : scopeTerm c efr spanned t with
    | error e => simp [hs] at h
    | ok p =>
      obtain ⟨sts, sp'⟩ := p
      simp only [hs] at h
      cases hr : getScopedTerms c efr sp' r with
      | error e => simp [hr] at h
      | ok rest =>
        simp only [hr, Except.ok.injEq] at h
        subst h
        obtain ⟨h1, h2⟩ := ih hr
        refine ⟨by simp [h1], ?_⟩
        intro x hx
        simp only [List.mem_cons] at hx
        rcases hx with rfl | hx
        · exact ⟨spanned, sp', hs⟩
        · exact h2 x hx

/-! ### `_cluster_terms` only reorders -/

theorem clusterAdd_mem {cl : List (List String × List MTerm)} {k : List String} {t x : MTerm}
    (h : x ∈ (clusterAdd cl k t).flatMap (·.2)) : x ∈ cl.flatMap (·.2) ∨ x = t := by
  induction cl with
  | nil => simp [clusterAdd] at h; exact .inr h
  | cons g r ih =>
    obtain ⟨k', ts⟩ := g
    simp only [clusterAdd] at h
    split at h
    · simp only [List.flatMap_cons, List.mem_append, List.mem_singleton] at h ⊢
      rcases h with (h | h) | h
      · exact .inl (.inl h)
      · exact .inr h
      · exact .inl (.inr h)
    · simp only [List.flatMap_cons, List.mem_append] at h ⊢
      rcases h with h | h
      · exact .inl (.inl h)
      · rcases ih h with h | h
        · exact .inl (.inr h)
        · exact .inr h

theorem clusterLoop_mem {c : Cache} {cl out : List (List String × List MTerm)} {ts : List MTerm}
    (h : clusterLoop c cl ts = .ok out) {x : MTerm} (hx : x ∈ out.flatMap (·.2)) :
    x ∈ cl.flatMap (·.2) ∨ x ∈ ts := by
  induction ts generalizing cl with
  | nil => simp [clusterLoop] at h; subst h; exact .inl hx
  | cons t r ih =>
    simp only [clusterLoop] at h
    cases hk : numericalKey c t with
    | error e => simp [hk] at h
    | ok k =>
      simp only [hk] at h
      rcases ih h with h' | h'
      · rcases clusterAdd_mem h' with h' | h'
        · exact .inl h'
        · exact .inr (by simp [h'])
      · exact .inr (by simp [h'])

theorem clusterTerms_mem {c : Cache} {b : Bool} {ts out : List MTerm} (h : clusterTerms c b ts = .ok out)
    {x : MTerm} (hx : x ∈ out) : x ∈ ts := by
  unfold clusterTerms at h
  cases b with
  | false => simp at h; subst h; exact hx
  | true =>
    simp only [Bool.not_true, Bool.false_eq_true, if_false] at h
    cases hl : clusterLoop c [] ts with
    | error e => simp [hl] at h
    | ok cl =>
      simp only [hl, Except.ok.injEq] at h
      subst h
      rcases clusterLoop_mem hl hx with h' | h'
      · simp at h'
      · exact h'
theorem Col.mul_length (a b : Col) (n : Nat) (ha : a.length = n) (hb : b.length = n) : (Col.mul a b).length = n := by
  simp [Col.mul, ha, hb]

theorem Col.mul_getD (a b : Col) (n i : Nat) (ha : a.length = n) (hb : b.length = n) (hi : i < n) :
    (Col.mul a b).getD i 0 = a.getD i 0 * b.getD i 0 := by
  have h1 : i < a.length := by omega
  have h2 : i < b.length := by omega
  simp [Col.mul, List.getD_eq_getElem?_getD, List.getElem?_zipWith, h1, h2]

theorem rowProd_cons (c : Col) (cs : List Col) (i : Nat) : rowProd (c :: cs) i = c.getD i 0 * rowProd cs i := rfl

theorem foldl_mul_spec (n : Nat) (cs : List Col) (hl : ∀ c ∈ cs, c.length = n) (acc : Col) (ha : acc.length = n) :
    (cs.foldl Col.mul acc).length = n ∧
    ∀ i, i < n → (cs.foldl Col.mul acc).getD i 0 = acc.getD i 0 * rowProd cs i := by
  induction cs generalizing acc with
  | nil => simp [rowProd, ha, Rat.mul_one]
  | cons c cs ih =>
    have hc : c.length = n := hl c (by simp)
    obtain ⟨h1, h2⟩ := ih (fun x hx => hl x (by simp [hx])) (Col.mul acc c) (Col.mul_length _ _ n ha hc)
    refine ⟨h1, ?_⟩
    intro i hi
    simp only [List.foldl_cons]
    rw [h2 i hi, Col.mul_getD acc c n i ha hc hi, rowProd_cons, Rat.mul_assoc]

/-- pointwise reading of the scaled element-wise product -/
theorem smul_colProd_spec (n : Nat) (s : Rat) (cols : List Col) (hl : ∀ c ∈ cols, c.length = n) :
    (Col.smul s (colProd n cols)).length = n ∧
    ∀ i, i < n → (Col.smul s (colProd n cols)).getD i 0 = s * rowProd cols i := by
  cases cols with
  | nil =>
    simp only [colProd, Col.smul, Col.ones, List.length_map, List.length_replicate, true_and]
    intro i hi
    simp [rowProd, List.getD_eq_getElem?_getD, hi]
  | cons c cs =>
    obtain ⟨h1, h2⟩ := foldl_mul_spec n cs (fun x hx => hl x (by simp [hx])) c (hl c (by simp))
    simp only [colProd, Col.smul, List.length_map]
    refine ⟨h1, ?_⟩
    intro i hi
    have hi' : i < (cs.foldl Col.mul c).length := by omega
    have := h2 i hi
    rw [rowProd_cons, ← this]
    simp [List.getD_eq_getElem?_getD, hi']
/-- unfolding of `buildStructure` -/
theorem buildStructure_spec {cfg : Config} {rs : List TermResult} (h : buildStructure cfg = .ok rs) :
    ∃ terms scp, clusterTerms cfg.cache cfg.clusterByNumerical cfg.terms = .ok terms ∧
      getScopedTerms cfg.cache cfg.ensureFullRank [] terms = .ok scp ∧
      buildTerms cfg.cache cfg.variant cfg.nrows scp = .ok rs := by
  unfold buildStructure at h
  cases hc : clusterTerms cfg.cache cfg.clusterByNumerical cfg.terms with
  | error x => simp [hc] at h
  | ok terms =>
    simp only [hc] at h
    cases hg : getScopedTerms cfg.cache cfg.ensureFullRank [] terms with
    | error x => simp [hg] at h
    | ok scp =>
      simp only [hg] at h
      cases hb : buildTerms cfg.cache cfg.variant cfg.nrows scp with
      | error x => simp [hb] at h
      | ok rs' =>
        simp only [hb, Except.ok.injEq] at h
        subst h
        exact ⟨terms, scp, rfl, hg, hb⟩

/-- where a term result comes from -/
theorem termResult_spec {cfg : Config} {rs : List TermResult} (h : buildStructure cfg = .ok rs)
    {r : TermResult} (hr : r ∈ rs) :
    r.term ∈ cfg.terms ∧
    (∃ sp sp', scopeTerm cfg.cache cfg.ensureFullRank sp r.term = .ok (r.sts, sp')) ∧
    termColumns cfg.cache cfg.variant cfg.nrows [] r.sts = .ok r.cols := by
  obtain ⟨terms, scp, hc, hg, hb⟩ := buildStructure_spec h
  obtain ⟨h1, h2⟩ := buildTerms_spec hb
  obtain ⟨g1, g2⟩ := getScopedTerms_spec hg
  have hmem : (r.term, r.sts) ∈ scp := by
    rw [← h1]; exact List.mem_map.mpr ⟨r, hr, rfl⟩
  refine ⟨?_, g2 _ hmem, h2 r hr⟩
  apply clusterTerms_mem hc
  rw [← g1]
  exact List.mem_map.mpr ⟨_, hmem, rfl⟩

/-- where an emitted column comes from: the intercept of a factor-free scoped term, or one Kronecker
choice of the encoded factors of a scoped term -/
theorem entry_provenance {cfg : Config} {rs : List TermResult} (h : buildStructure cfg = .ok rs)
    {r : TermResult} (hr : r ∈ rs) {e : Entry} (he : e ∈ r.cols) :
    ∃ st ∈ r.sts,
      (st.factors = [] ∧ e = ⟨"Intercept", [], Col.smul st.scale (Col.ones cfg.nrows)⟩) ∨
      (st.factors ≠ [] ∧ ∃ fss, encodeFactors cfg.cache st.factors = .ok fss ∧ fss ≠ [] ∧
        ∃ p ∈ kron fss, e = entryOf cfg.nrows st.scale p) := by
  obtain ⟨_, _, ht⟩ := termResult_spec h hr
  rcases termColumns_mem ht he with h0 | ⟨st, hst, es, hes, hin⟩
  · simp at h0
  · refine ⟨st, hst, ?_⟩
    rcases scopedTermColumns_spec hes with ⟨h1, h2⟩ | ⟨h1, fss, h2, h3⟩
    · left; subst h2; simp only [List.mem_singleton] at hin; exact ⟨h1, hin⟩
    · right
      subst h3
      have := mem_dictOfList hin
      obtain ⟨p, hp, rfl⟩ := List.mem_map.mp this
      have hl := (encodeFactors_spec h2).1
      have hne : fss ≠ [] := by
        intro e0; rw [e0] at hl; exact h1 (List.length_eq_zero_iff.mp hl.symm)
      exact ⟨h1, fss, h2, hne, p, hp, rfl⟩

/-- every item of a Kronecker choice names the column it holds -/
theorem kron_items_sound {c : Cache} {sfs : List SF} {fss : List (List Item)}
    (h : encodeFactors c sfs = .ok fss) {p : List Item} (hp : p ∈ kron fss) :
    ∀ it ∈ p, NamesColumn c it.part it.col ∧ it.name = printedPart c it.part := by
  intro it hit
  obtain ⟨items, hitems, hx⟩ := mem_of_mem_kron hp hit
  obtain ⟨sf, _, f, hg, henc⟩ := (encodeFactors_spec h).2 items hitems
  have hfe := (Cache.get_ok hg).1
  have hc : c.get f.expr = .ok f := by rw [hfe]; exact hg
  obtain ⟨h1, h2, _, _⟩ := encode_item_sound hc henc hx
  exact ⟨h1, h2⟩

theorem mem_combineColumns {b : Bool} {cols : List Entry} {e : Entry} (h : e ∈ combineColumns b cols) : e ∈ cols := by
  unfold combineColumns at h
  cases b with
  | false => simpa using h
  | true =>
    simp only [if_true] at h
    rcases mem_dictUpdate h with h | h
    · simp at h
    · exact h

theorem buildMatrix_mem {cfg : Config} {asDict : Bool} {out : List Entry} (h : buildMatrix cfg asDict = .ok out)
    {e : Entry} (he : e ∈ out) : ∃ rs, buildStructure cfg = .ok rs ∧ ∃ r ∈ rs, e ∈ r.cols := by
  unfold buildMatrix at h
  cases hs : buildStructure cfg with
  | error x => simp [hs] at h
  | ok rs =>
    simp only [hs, Except.ok.injEq] at h
    subst h
    have := mem_combineColumns he
    simp only [allColumns, List.mem_flatMap] at this
    exact ⟨rs, rfl, this⟩

theorem evaledFactors_spec {c : Cache} {t : MTerm} {efs : List EvaledFactor} (h : evaledFactors c t = .ok efs) :
    (∀ f ∈ efs, c.get f.expr = .ok f) ∧ (efs.map (·.expr)).Sublist t := by
  induction t generalizing efs with
  | nil => simp [evaledFactors] at h; subst h; simp
  | cons e r ih =>
    simp only [evaledFactors] at h
    cases hg : c.get e with
    | error x => simp [hg] at h
    | ok f =>
      simp only [hg] at h
      cases hr : evaledFactors c r with
      | error x => simp [hr] at h
      | ok fs =>
        simp only [hr, Except.ok.injEq] at h
        obtain ⟨h1, h2⟩ := ih hr
        have hfe := (Cache.get_ok hg).1
        subst h
        split
        · refine ⟨?_, ?_⟩
          · intro g hg'
            simp only [List.mem_cons] at hg'
            rcases hg' with rfl | hg'
            · rw [hfe]; exact hg
            · exact h1 g hg'
          · simp only [List.map_cons, hfe]
            exact h2.cons_cons e
        · exact ⟨h1, h2.cons e⟩

theorem dedupSF_of_nodup {l : List SF} (h : l.Nodup) : dedupSF l = l := by
  induction l with
  | nil => rfl
  | cons x r ih =>
    rw [List.nodup_cons] at h
    simp only [dedupSF, ih h.2]
    congr 1
    rw [List.filter_eq_self]
    intro y hy
    have : y ≠ x := fun e => h.1 (e ▸ hy)
    simpa using this

theorem nodup_map_sf {l : List String} (h : l.Nodup) (r : Bool) : (l.map (fun e => (⟨e, r⟩ : SF))).Nodup := by
  induction l with
  | nil => simp
  | cons x t ih =>
    rw [List.nodup_cons] at h
    simp only [List.map_cons, List.nodup_cons, List.mem_map, not_exists, not_and]
    refine ⟨?_, ih h.2⟩
    intro y hy heq
    have : y = x := by simpa using congrArg SF.expr heq
    exact h.1 (this ▸ hy)

theorem fullScoped_factors {efs : List EvaledFactor} (h : (efs.map (·.expr)).Nodup) :
    (fullScoped efs).factors = (nonConstant efs).map (fun f => ⟨f.expr, false⟩) := by
  unfold fullScoped ST.new nonConstant
  simp only
  apply dedupSF_of_nodup
  have hsub : ((efs.filter (fun f => match f.kind with | .constant _ => false | _ => true)).map (·.expr)).Sublist (efs.map (·.expr)) :=
    (List.filter_sublist).map _
  have := nodup_map_sf (hsub.nodup h) false
  rw [List.map_map] at this
  exact this

theorem encodeFactors_full {c : Cache} {fs : List EvaledFactor} (h : ∀ f ∈ fs, c.get f.expr = .ok f) :
    encodeFactors c (fs.map (fun f => ⟨f.expr, false⟩)) = fullEncodings fs := by
  induction fs with
  | nil => rfl
  | cons f r ih =>
    simp only [List.map_cons, encodeFactors, fullEncodings, h f (by simp), ih (fun g hg => h g (by simp [hg]))]
    cases encodeEvaledFactor f false <;> rfl

theorem mem_zip_self {α} {l : List α} {a b : α} (h : (a, b) ∈ l.zip l) : a = b := by
  induction l with
  | nil => simp at h
  | cons x t ih =>
    simp only [List.zip_cons_cons, List.mem_cons, Prod.mk.injEq] at h
    rcases h with ⟨rfl, rfl⟩ | h
    · rfl
    · exact ih h

theorem dictSet_of_not_mem {d : List Entry} {e : Entry} (h : e.name ∉ d.map (·.name)) : dictSet d e = d ++ [e] := by
  induction d with
  | nil => rfl
  | cons x r ih =>
    simp only [List.map_cons, List.mem_cons, not_or] at h
    have : ¬ x.name = e.name := fun e' => h.1 e'.symm
    simp only [dictSet, this, if_false, ih h.2, List.cons_append]

theorem dictSet_names (d : List Entry) (e : Entry) :
    (dictSet d e).map (·.name) = if e.name ∈ d.map (·.name) then d.map (·.name) else d.map (·.name) ++ [e.name] := by
  induction d with
  | nil => simp [dictSet]
  | cons x r ih =>
    simp only [dictSet]
    by_cases hx : x.name = e.name
    · simp [hx]
    · have hx' : ¬ e.name = x.name := fun h => hx h.symm
      simp only [hx, if_false, List.map_cons, ih, List.mem_cons, hx', false_or]
      split <;> simp

theorem dictSet_nodup {d : List Entry} (e : Entry) (h : (d.map (·.name)).Nodup) : ((dictSet d e).map (·.name)).Nodup := by
  rw [dictSet_names]
  split
  · exact h
  · rename_i hn
    rw [List.nodup_append]
    exact ⟨h, by simp, by intro a ha b hb; simp at hb; subst hb; exact fun e' => hn (e' ▸ ha)⟩

theorem foldl_dictSet_nodup (l d : List Entry) (h : (d.map (·.name)).Nodup) : ((l.foldl dictSet d).map (·.name)).Nodup := by
  induction l generalizing d with
  | nil => exact h
  | cons x r ih => exact ih _ (dictSet_nodup x h)

theorem foldl_dictSet_append (l d : List Entry) (h : ((d ++ l).map (·.name)).Nodup) : l.foldl dictSet d = d ++ l := by
  induction l generalizing d with
  | nil => simp
  | cons x r ih =>
    have hx : x.name ∉ d.map (·.name) := by
      simp only [List.map_append, List.map_cons] at h
      rw [List.nodup_append] at h
      intro hm
      exact h.2.2 _ hm _ (by simp) rfl
    simp only [List.foldl_cons, dictSet_of_not_mem hx]
    rw [ih]
    · simp
    · simpa using h

/-- re-inserting an already built dictionary into an empty one gives it back -/
theorem dictUpdate_dictUpdate_nil (l : List Entry) : dictUpdate [] (dictUpdate [] l) = dictUpdate [] l := by
  have h := foldl_dictSet_nodup l [] (by simp)
  have := foldl_dictSet_append (l.foldl dictSet []) [] (by simpa using h)
  simpa [dictUpdate] using this

/-- a list of entries with pairwise distinct names is its own dictionary -/
theorem dictOfList_of_nodup (l : List Entry) (h : (l.map (·.name)).Nodup) : dictOfList l = l := by
  have := foldl_dictSet_append l [] (by simpa using h)
  simpa [dictOfList, dictUpdate] using this

/-- `":".join` on character lists -/
def joinChars : List (List Char) → List Char
  | [] => []
  | [a] => a
  | a :: b :: r => a ++ ':' :: joinChars (b :: r)

theorem joinColon_toList (ss : List String) : (joinColon ss).toList = joinChars (ss.map String.toList) := by
  unfold joinColon
  induction ss with
  | nil => simp [joinChars]
  | cons a r ih =>
    cases r with
    | nil => simp [joinChars]
    | cons b t =>
      rw [String.intercalate_cons_cons, String.toList_append, String.toList_append, ih]
      simp [joinChars]

theorem split_unique {a a' t t' : List Char} (ha : ':' ∉ a) (ha' : ':' ∉ a')
    (h : a ++ ':' :: t = a' ++ ':' :: t') : a = a' ∧ t = t' := by
  induction a generalizing a' with
  | nil =>
    cases a' with
    | nil => simp at h; exact ⟨rfl, h⟩
    | cons y a1' =>
      simp only [List.nil_append, List.cons_append, List.cons.injEq] at h
      exact absurd (h.1 ▸ List.mem_cons_self) ha'
  | cons x a1 ih =>
    cases a' with
    | nil =>
      simp only [List.nil_append, List.cons_append, List.cons.injEq] at h
      exact absurd (h.1 ▸ List.mem_cons_self) ha
    | cons y a1' =>
      simp only [List.cons_append, List.cons.injEq] at h
      have := ih (fun hm => ha (List.mem_cons_of_mem _ hm)) (fun hm => ha' (List.mem_cons_of_mem _ hm)) h.2
      exact ⟨by rw [h.1, this.1], this.2⟩

theorem no_colon_ne {a a' t : List Char} (ha : ':' ∉ a) (h : a = a' ++ ':' :: t) : False := by
  apply ha; rw [h]; simp

/-- `":".join` is injective on non-empty lists of colon-free strings -/
theorem joinChars_inj {xs ys : List (List Char)} (hx : xs ≠ []) (hy : ys ≠ [])
    (cx : ∀ a ∈ xs, ':' ∉ a) (cy : ∀ a ∈ ys, ':' ∉ a) (h : joinChars xs = joinChars ys) : xs = ys := by
  induction xs generalizing ys with
  | nil => exact absurd rfl hx
  | cons a r ih =>
    cases ys with
    | nil => exact absurd rfl hy
    | cons a' r' =>
      cases r with
      | nil =>
        cases r' with
        | nil => simp only [joinChars] at h; rw [h]
        | cons b' t' =>
          simp only [joinChars] at h
          exact (no_colon_ne (cx a (by simp)) h).elim
      | cons b t =>
        cases r' with
        | nil =>
          simp only [joinChars] at h
          exact (no_colon_ne (cy a' (by simp)) h.symm).elim
        | cons b' t' =>
          simp only [joinChars] at h
          obtain ⟨h1, h2⟩ := split_unique (cx a (by simp)) (cy a' (by simp)) h
          have := ih (ys := b' :: t') (by simp) (by simp) (fun x hx' => cx x (by simp [hx']))
            (fun x hx' => cy x (List.mem_cons_of_mem _ hx')) h2
          rw [h1, this]

theorem joinColon_inj {xs ys : List String} (hx : xs ≠ []) (hy : ys ≠ [])
    (cx : ∀ a ∈ xs, ':' ∉ a.toList) (cy : ∀ a ∈ ys, ':' ∉ a.toList) (h : joinColon xs = joinColon ys) : xs = ys := by
  have h' := congrArg String.toList h
  rw [joinColon_toList, joinColon_toList] at h'
  have := joinChars_inj (by simpa using hx) (by simpa using hy)
    (by intro a ha; obtain ⟨s, hs, rfl⟩ := List.mem_map.mp ha; exact cx s hs)
    (by intro a ha; obtain ⟨s, hs, rfl⟩ := List.mem_map.mp ha; exact cy s hs) h'
  clear h h' hx hy cx cy
  induction xs generalizing ys with
  | nil => cases ys with
    | nil => rfl
    | cons b t => simp at this
  | cons a r ih =>
    cases ys with
    | nil => simp at this
    | cons b t =>
      simp only [List.map_cons, List.cons.injEq] at this
      rw [String.ext this.1, ih this.2]

end FormulaicVerif.Proofs.C02
