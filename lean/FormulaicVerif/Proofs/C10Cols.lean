import FormulaicVerif.Model.SpecMeta
/-! Helper lemmas for C10: string-keyed dicts, `column_indices`, the labels of the assembled matrix. -/
namespace FormulaicVerif.Proofs.C10
open FormulaicVerif.Model.SpecMeta

theorem SDict.lookup_cons {α} (a : Str) (w : α) (d : SDict α) (k' : Str) :
    SDict.lookup ((a, w) :: d) k' = if a = k' then some w else SDict.lookup d k' := by
  unfold SDict.lookup
  by_cases h : a = k'
  · rw [List.find?_cons_of_pos (by simpa using h)]; simp [h]
  · rw [List.find?_cons_of_neg (by simpa using h)]; simp [h]

theorem SDict.lookup_insert {α} (d : SDict α) (k k' : Str) (v : α) :
    (d.insert k v).lookup k' = if k = k' then some v else d.lookup k' := by
  induction d with
  | nil => simp [SDict.insert, SDict.lookup]
  | cons e d ih =>
    obtain ⟨a, w⟩ := e
    by_cases ha : a = k
    · subst ha
      simp only [SDict.insert, beq_self_eq_true, if_true, SDict.lookup_cons]
      by_cases h : a = k' <;> simp [h]
    · simp only [SDict.insert, beq_iff_eq, ha, if_false, SDict.lookup_cons, ih]
      by_cases h' : a = k'
      · subst h'
        have : k ≠ a := fun e => ha e.symm
        simp [this]
      · simp [h']

/-- the last position of `n` in a list -/
def lastIdx (n : Str) : List Str → Option Nat
  | [] => none
  | m :: ms =>
    match lastIdx n ms with
    | some k => some (k + 1)
    | none => if m = n then some 0 else none

theorem columnIndicesAux_lookup (n : Str) (i : Nat) (ns : List Str) (d : SDict Nat) :
    (columnIndicesAux i ns d).lookup n =
      match lastIdx n ns with
      | some k => some (i + k)
      | none => d.lookup n := by
  induction ns generalizing i d with
  | nil => rfl
  | cons m ms ih =>
    simp only [columnIndicesAux, ih, lastIdx]
    cases h : lastIdx n ms with
    | some k => simp; omega
    | none =>
      simp only [SDict.lookup_insert]
      by_cases hm : m = n <;> simp [hm]

theorem lastIdx_some {n : Str} {ns : List Str} {k : Nat} (h : lastIdx n ns = some k) :
    ns[k]? = some n ∧ ∀ j, k < j → ns[j]? ≠ some n := by
  induction ns generalizing k with
  | nil => cases h
  | cons m ms ih =>
    simp only [lastIdx] at h
    cases hl : lastIdx n ms with
    | some k' =>
      rw [hl] at h
      simp only [Option.some.injEq] at h
      subst h
      obtain ⟨h1, h2⟩ := ih hl
      refine ⟨by simpa using h1, ?_⟩
      intro j hj
      cases j with
      | zero => omega
      | succ j => simpa using h2 j (by omega)
    | none =>
      rw [hl] at h
      by_cases hm : m = n
      · simp only [hm, if_true, Option.some.injEq] at h
        subst h
        refine ⟨by simp [hm], ?_⟩
        intro j hj
        cases j with
        | zero => omega
        | succ j =>
          have : n ∉ ms := by
            intro hmem
            clear ih hj
            induction ms with
            | nil => cases hmem
            | cons a as iha =>
              simp only [lastIdx] at hl
              cases hla : lastIdx n as with
              | some k => rw [hla] at hl; cases hl
              | none =>
                rw [hla] at hl
                by_cases haa : a = n
                · simp [haa] at hl
                · rcases List.mem_cons.mp hmem with e | hm'
                  · exact haa e.symm
                  · exact iha hla hm'
          intro hj'
          simp only [List.getElem?_cons_succ] at hj'
          exact this (List.mem_of_getElem? hj')
      · simp [hm] at h

theorem lastIdx_none {n : Str} {ns : List Str} (h : lastIdx n ns = none) : n ∉ ns := by
  induction ns with
  | nil => simp
  | cons m ms ih =>
    simp only [lastIdx] at h
    cases hl : lastIdx n ms with
    | some k => rw [hl] at h; cases h
    | none =>
      rw [hl] at h
      by_cases hm : m = n
      · simp [hm] at h
      · intro hmem
        rcases List.mem_cons.mp hmem with e | hm'
        · exact hm e.symm
        · exact ih hl hm'

theorem columnIndices_lookup (st : Structure) (n : Str) :
    (columnIndices st).lookup n = lastIdx n (columnNames st) := by
  unfold columnIndices
  rw [columnIndicesAux_lookup]
  cases lastIdx n (columnNames st) with
  | some k => simp
  | none => rfl

/-! ### keys of a dict built by successive `insert`s -/

theorem SDict.keys_insert {α} (d : SDict α) (k : Str) (v : α) :
    (d.insert k v).map (·.1) = if k ∈ d.map (·.1) then d.map (·.1) else d.map (·.1) ++ [k] := by
  induction d with
  | nil => simp [SDict.insert]
  | cons e d ih =>
    obtain ⟨a, w⟩ := e
    by_cases ha : a = k
    · subst ha; simp [SDict.insert]
    · have hka : k ≠ a := fun e => ha e.symm
      simp only [SDict.insert, beq_iff_eq, ha, if_false, List.map_cons, ih, List.mem_cons, hka, false_or]
      split <;> simp

def addKey (ks : List Str) (k : Str) : List Str := if k ∈ ks then ks else ks ++ [k]

theorem combine_dict_keys {V} (cols : List (Str × V)) (d : SDict V) :
    (cols.foldl (fun d kv => SDict.insert d kv.1 kv.2) d).map (·.1)
      = (cols.map (·.1)).foldl addKey (d.map (·.1)) := by
  induction cols generalizing d with
  | nil => rfl
  | cons kv cols ih =>
    simp only [List.foldl_cons, List.map_cons, ih, SDict.keys_insert, addKey]

theorem foldl_addKey_nodup (ns ks : List Str) (h : ks.Nodup) : (ns.foldl addKey ks).Nodup := by
  induction ns generalizing ks with
  | nil => exact h
  | cons n ns ih =>
    apply ih
    unfold addKey
    split
    · exact h
    · rename_i hn
      exact List.nodup_append.mpr ⟨h, by simp, by intro a ha b hb; simp at hb; subst hb; exact fun e => hn (e ▸ ha)⟩

theorem foldl_addKey_of_nodup (ns ks : List Str) (h : (ks ++ ns).Nodup) : ns.foldl addKey ks = ks ++ ns := by
  induction ns generalizing ks with
  | nil => simp
  | cons n ns ih =>
    have hn : n ∉ ks := by
      intro hmem
      have := (List.nodup_append.mp h).2.2 n hmem n (by simp)
      exact this rfl
    simp only [List.foldl_cons, addKey, hn, if_false]
    rw [ih]
    · simp
    · simpa using h

theorem matrixLabels_dict (st : Structure) :
    matrixLabels .dict st = (columnNames st).foldl addKey [] := by
  unfold matrixLabels combine
  rw [combine_dict_keys]
  simp [List.map_map, Function.comp_def]

end FormulaicVerif.Proofs.C10
