import FormulaicVerif.Proofs.C20
import FormulaicVerif.Model.CalcEntry
import FormulaicVerif.Proofs.C19SF
import FormulaicVerif.Proofs.C19St
/-! Helper lemmas for C20, part 2: the entry points (`Model.Calc`): every term of a formula object
stays a product of distinct factors through every ordering and every edit history; `_map` with a
function that never raises is the plain `_map`. Not obligations. -/
namespace FormulaicVerif.Proofs.C20
open FormulaicVerif.Model FormulaicVerif.Spec

/-! ### `Term.WF` through `SimpleFormula`'s re-ordering and sequence protocol -/

/-- every term of the list is a product of distinct factors -/
def AllWF (l : List Term) : Prop := ∀ t ∈ l, Term.WF t

theorem AllWF.perm {l l' : List Term} (h : AllWF l) (p : l'.Perm l) : AllWF l' :=
  fun t ht => h t (p.mem_iff.1 ht)

theorem AllWF.sublist {l l' : List Term} (h : AllWF l) (s : l'.Sublist l) : AllWF l' :=
  fun t ht => h t (s.subset ht)

theorem dedupAux_nodup (seen : List String) (xs : List Factor) :
    ((dedupAux (·.expr) seen xs).map (·.expr)).Nodup ∧
      ∀ y ∈ dedupAux (·.expr) seen xs, y.expr ∉ seen := by
  induction xs generalizing seen with
  | nil => simp [dedupAux]
  | cons x r ih =>
    simp only [dedupAux]
    by_cases hc : seen.contains x.expr = true
    · simp only [hc, if_true]; exact ih seen
    · simp only [hc]
      have hns : x.expr ∉ seen := by simpa using hc
      obtain ⟨h1, h2⟩ := ih (x.expr :: seen)
      refine ⟨?_, ?_⟩
      · simp only [Bool.false_eq_true, if_false, List.map_cons, List.nodup_cons]
        refine ⟨?_, h1⟩
        intro hm
        obtain ⟨y, hy, hye⟩ := List.mem_map.1 hm
        exact h2 y hy (by simp [hye])
      · intro y hy
        simp only [Bool.false_eq_true, if_false, List.mem_cons] at hy
        rcases hy with rfl | hy
        · exact hns
        · exact fun hm => h2 y hy (List.mem_cons_of_mem _ hm)

theorem ofFactors_wf (fs : List Factor) : Term.WF (Term.ofFactors fs) :=
  (dedupAux_nodup [] fs).1

theorem reorder_wf (o : SFm.Ordering) (l : List Term) (h : AllWF l) : AllWF (SFm.reorder o l) := by
  cases o with
  | none => exact h
  | degree => exact h.perm (FormulaicVerif.Proofs.C19.sortByDegree_perm l)
  | sort =>
    intro t ht
    have := (FormulaicVerif.Proofs.C19.sortTerms_perm (l.map SFm.normTerm)).mem_iff.1 ht
    obtain ⟨t', _, rfl⟩ := List.mem_map.1 this
    exact ofFactors_wf _

def OptWF : Option Term → Prop
  | none => True
  | some t => Term.WF t

/-- every term an operation brings in is a product of distinct factors (what `Term.__init__`
guarantees for every `Term` object) -/
def OpWF : SFm.Op → Prop
  | .insert _ t => OptWF t
  | .set _ t => OptWF t
  | .append t => OptWF t
  | .extend ts => ∀ t ∈ ts, OptWF t
  | .iadd ts => ∀ t ∈ ts, OptWF t
  | _ => True

theorem insertAt_wf (n : Nat) (t : Term) (l : List Term) (h : AllWF l) (ht : Term.WF t) :
    AllWF (SFm.insertAt n t l) := by
  intro x hx
  simp only [SFm.insertAt, List.mem_append, List.mem_cons] at hx
  rcases hx with hx | rfl | hx
  · exact h x (List.mem_of_mem_take hx)
  · exact ht
  · exact h x (List.mem_of_mem_drop hx)

theorem insert_wf (o : SFm.Ordering) (l l' : List Term) (i : Int) (t : Option Term) (h : AllWF l)
    (ht : OptWF t) (he : SFm.insert o l i t = .ok l') : AllWF l' := by
  cases t with
  | none => simp [SFm.insert] at he
  | some t =>
    simp only [SFm.insert, Except.ok.injEq] at he
    subst he
    exact reorder_wf o _ (insertAt_wf _ t l h ht)

theorem set_wf (n : Nat) (t : Term) (l : List Term) (h : AllWF l) (ht : Term.WF t) : AllWF (l.set n t) := by
  intro x hx
  rcases List.mem_or_eq_of_mem_set hx with hx | rfl
  · exact h x hx
  · exact ht

theorem setItem_wf (o : SFm.Ordering) (l l' : List Term) (i : Int) (t : Option Term) (h : AllWF l)
    (ht : OptWF t) (he : SFm.setItem o l i t = .ok l') : AllWF l' := by
  cases t with
  | none => simp [SFm.setItem] at he
  | some t =>
    simp only [SFm.setItem] at he
    cases hn : SFm.normIdx i l.length with
    | none => simp [hn] at he
    | some n =>
      simp only [hn, Except.ok.injEq] at he
      subst he
      exact reorder_wf o _ (set_wf n t l h ht)

theorem delItem_wf (l l' : List Term) (i : Int) (h : AllWF l) (he : SFm.delItem l i = .ok l') : AllWF l' := by
  simp only [SFm.delItem] at he
  cases hn : SFm.normIdx i l.length with
  | none => simp [hn] at he
  | some n =>
    simp only [hn, Except.ok.injEq] at he
    subst he
    exact h.sublist (List.eraseIdx_sublist _ _)

theorem delSlice_wf (l : List Term) (a b : Int) (h : AllWF l) : AllWF (SFm.delSlice l a b) := by
  unfold SFm.delSlice
  exact h.sublist (FormulaicVerif.Proofs.C19.take_append_drop_sublist l _ _ (Nat.le_max_left _ _))

theorem getItem_wf (l : List Term) (i : Int) (x : Term) (h : AllWF l) (he : SFm.getItem l i = .ok x) :
    Term.WF x := by
  simp only [SFm.getItem] at he
  cases hn : SFm.normIdx i l.length with
  | none => simp [hn] at he
  | some n =>
    simp only [hn] at he
    cases hg : l[n]? with
    | none => simp [hg] at he
    | some y =>
      simp only [hg, Except.ok.injEq] at he
      subst he
      exact h y (List.mem_of_getElem? hg)

theorem ofExcept_wf (l : List Term) (r : Except SFm.Err (List Term)) (h : AllWF l)
    (hr : ∀ l', r = .ok l' → AllWF l') : AllWF (SFm.ofExcept l r).1 := by
  cases r with
  | ok l' => exact hr l' rfl
  | error e => exact h

theorem extend_wf (o : SFm.Ordering) (ts : List (Option Term)) (l : List Term) (h : AllWF l)
    (hts : ∀ t ∈ ts, OptWF t) : AllWF (SFm.extend o l ts).1 := by
  induction ts generalizing l with
  | nil => exact h
  | cons t r ih =>
    simp only [SFm.extend]
    cases hi : SFm.insert o l l.length t with
    | ok l' =>
      simp only []
      exact ih l' (insert_wf o l l' _ t h (hts t (by simp)) hi) (fun t' ht' => hts t' (by simp [ht']))
    | error e => exact h

theorem swapStep_wf (o : SFm.Ordering) (n : Nat) (l : List Term) (i : Nat) (h : AllWF l) :
    AllWF (SFm.swapStep o n l i).1 := by
  unfold SFm.swapStep
  cases h1 : SFm.getItem l ((n - i - 1 : Nat) : Int) with
  | error e => exact h
  | ok x =>
    cases h2 : SFm.getItem l (i : Int) with
    | error e => exact h
    | ok y =>
      simp only []
      have hx := getItem_wf l _ x h h1
      have hy := getItem_wf l _ y h h2
      cases h3 : SFm.setItem o l i (some x) with
      | error e => exact h
      | ok l1 =>
        simp only []
        have hs1 := setItem_wf o l l1 _ (some x) h hx h3
        cases h4 : SFm.setItem o l1 ((n - i - 1 : Nat) : Int) (some y) with
        | error e => exact hs1
        | ok l2 => exact setItem_wf o l1 l2 _ (some y) hs1 hy h4

theorem reverseLoop_wf (o : SFm.Ordering) (n : Nat) (is : List Nat) (l : List Term) (h : AllWF l) :
    AllWF (SFm.reverseLoop o n is l).1 := by
  induction is generalizing l with
  | nil => exact h
  | cons i r ih =>
    simp only [SFm.reverseLoop]
    have := swapStep_wf o n l i h
    cases hsw : SFm.swapStep o n l i with
    | mk l' e =>
      rw [hsw] at this
      cases e with
      | none => exact ih l' this
      | some e => exact this

theorem step_wf (o : SFm.Ordering) (l : List Term) (op : SFm.Op) (h : AllWF l) (hop : OpWF op) :
    AllWF (SFm.step o l op).1 := by
  cases op with
  | insert i t => exact ofExcept_wf l _ h (fun l' he => insert_wf o l l' i t h hop he)
  | set i t => exact ofExcept_wf l _ h (fun l' he => setItem_wf o l l' i t h hop he)
  | del i => exact ofExcept_wf l _ h (fun l' he => delItem_wf l l' i h he)
  | delSlice a b => exact delSlice_wf l a b h
  | append t => exact ofExcept_wf l _ h (fun l' he => insert_wf o l l' _ t h hop he)
  | extend ts => exact extend_wf o ts l h hop
  | pop i =>
    simp only [SFm.step]
    cases SFm.getItem l i with
    | ok _ => exact ofExcept_wf l _ h (fun l' he => delItem_wf l l' i h he)
    | error e => exact h
  | reverse => exact reverseLoop_wf o _ _ l h
  | iadd ts => exact extend_wf o ts l h hop
  | setSlice a b c v =>
    refine ofExcept_wf l _ h (fun l' he => ?_)
    cases v <;> simp [SFm.setSlice] at he
  | delSliceX a b c =>
    refine ofExcept_wf l _ h (fun l' he => ?_)
    unfold SFm.delSliceX at he
    split at he
    · cases he
    · cases he
      intro x hx
      exact h x ((FormulaicVerif.Proofs.C19.removeIdxs_sublist l _).subset hx)
  | clear =>
    simp only [SFm.step]
    rw [FormulaicVerif.Proofs.C19.sf_clearLoop_spec (l.length + 1) l (Nat.lt_succ_self _)]
    intro x hx
    cases hx
  | remove t =>
    refine ofExcept_wf l _ h (fun l' he => ?_)
    unfold SFm.remove at he
    split at he
    · cases he
      intro x hx
      exact h x (List.mem_of_mem_eraseIdx hx)
    · cases he
  | getSlice a b c => exact h
  | index t => exact h
  | count t => exact h
  | contains t => exact h
  | reversed => exact h
  | eq other => exact h
  | eqForeign => exact h

theorem run_wf (o : SFm.Ordering) (ops : List SFm.Op) (l : List Term) (h : AllWF l)
    (hops : ∀ op ∈ ops, OpWF op) : AllWF (SFm.run o l ops) := by
  induction ops generalizing l with
  | nil => exact h
  | cons op r ih =>
    exact ih _ (step_wf o l op h (hops op (by simp))) (fun op' h' => hops op' (by simp [h']))

/-! ### the term-wise derivative of a list -/

theorem diffTerm_plain (sympy : Bool) (t : Term) (wrt : List String) (h : Term.WF t) :
    Calc.diffTerm sympy false t wrt = .ok (render (dMany (some t) wrt)) := by
  have h1 : differentiateTerm t wrt = .ok (render (dMany (some t) wrt)) := by
    unfold differentiateTerm
    rw [diffLoop_eq wrt t h]
    cases hd : dMany (some t) wrt with
    | none => rfl
    | some fs => cases fs <;> rfl
  simp [Calc.diffTerm, h1]

theorem diffTerms_plain (sympy : Bool) (ts : List Term) (wrt : List String) (h : AllWF ts) :
    Calc.diffTerms sympy false ts wrt = .ok (dTerms ts wrt) := by
  unfold Calc.diffTerms dTerms
  induction ts with
  | nil => rfl
  | cons t r ih =>
    have ht := diffTerm_plain sympy t wrt (h t (by simp))
    have ihr := ih (fun t ht => h t (by simp [ht]))
    simp only [List.mapM_cons, ht, ihr, List.map_cons]
    rfl

/-! ### `use_sympy=True` where sympy is missing, on a whole term list -/

theorem diffTerms_sympy_missing (ts : List Term) (v : String) (vs : List String)
    (h : ∃ t ∈ ts, t ≠ []) : Calc.diffTerms false true ts (v :: vs) = .error .importError := by
  unfold Calc.diffTerms
  induction ts with
  | nil => obtain ⟨t, ht, _⟩ := h; simp at ht
  | cons t r ih =>
    cases t with
    | cons f fs => simp [List.mapM_cons, Calc.diffTerm, bind, Except.bind]
    | nil =>
      have hr : ∃ t ∈ r, t ≠ [] := by
        obtain ⟨t, ht, hne⟩ := h
        rcases List.mem_cons.1 ht with rfl | ht
        · exact absurd rfl hne
        · exact ⟨t, ht, hne⟩
      have h0 : Calc.diffTerm false true [] (v :: vs) = .ok [litZero] := rfl
      simp only [List.mapM_cons, h0, ih hr, bind, Except.bind]

theorem diffTerms_sympy_nowrt (ts : List Term) :
    Calc.diffTerms false true ts [] = .ok (dTerms ts []) := by
  unfold Calc.diffTerms dTerms
  induction ts with
  | nil => rfl
  | cons t r ih =>
    have : Calc.diffTerm false true t [] = .ok (render (dMany (some t) [])) := by cases t <;> rfl
    simp only [List.mapM_cons, this, ih, List.map_cons]
    rfl
/-! ### `_map` with a function that does not raise -/

section mapE
variable {α β ε : Type}

mutual
theorem mapE_ok (f : α → Except ε β) (g : α → β) : ∀ (v : St.Val α) (ctx : St.Path),
    (∀ a ∈ St.flatten v, f a = .ok (g a)) →
    Calc.mapE f v = .ok (St.mapV (fun a _ => g a) ctx v)
  | .leaf a, ctx, h => by
    have := h a (by simp [St.flatten])
    simp [Calc.mapE, St.mapV, this]
  | .tup vs, ctx, h => by
    have := mapET_ok f g vs ctx 0 (by simpa [St.flatten] using h)
    simp [Calc.mapE, St.mapV, this]
  | .node kvs, ctx, h => by
    have := mapEI_ok f g kvs ctx (by simpa [St.flatten] using h)
    simp [Calc.mapE, St.mapV, this]
theorem mapET_ok (f : α → Except ε β) (g : α → β) : ∀ (vs : List (St.Val α)) (ctx : St.Path) (i : Nat),
    (∀ a ∈ St.flattenT vs, f a = .ok (g a)) →
    Calc.mapET f vs = .ok (St.mapT (fun a _ => g a) ctx i vs)
  | [], ctx, i, _ => by simp [Calc.mapET, St.mapT]
  | v :: vs, ctx, i, h => by
    have h1 := mapE_ok f g v (ctx ++ [.idx i]) (fun a ha => h a (by simp [St.flattenT, ha]))
    have h2 := mapET_ok f g vs ctx (i + 1) (fun a ha => h a (by simp [St.flattenT, ha]))
    simp [Calc.mapET, St.mapT, h1, h2]
theorem mapEI_ok (f : α → Except ε β) (g : α → β) : ∀ (kvs : St.Items α) (ctx : St.Path),
    (∀ a ∈ St.flattenI kvs, f a = .ok (g a)) →
    Calc.mapEI f kvs = .ok (St.mapI (fun a _ => g a) ctx kvs)
  | [], ctx, _ => by simp [Calc.mapEI, St.mapI]
  | (k, v) :: r, ctx, h => by
    have h1 := mapE_ok f g v (ctx ++ [.key k]) (fun a ha => h a (by simp [St.flattenI, ha]))
    have h2 := mapEI_ok f g r ctx (fun a ha => h a (by simp [St.flattenI, ha]))
    simp [Calc.mapEI, St.mapI, h1, h2]
end

mutual
/-- the first leaf (in evaluation order) on which `f` raises decides the exception of the whole call:
if some leaf raises, the call raises -/
theorem mapE_error (f : α → Except ε β) : ∀ (v : St.Val α),
    (∃ a ∈ St.flatten v, ∃ e, f a = .error e) → ∃ e, Calc.mapE f v = .error e
  | .leaf a, h => by
    obtain ⟨b, hb, e, he⟩ := h
    simp only [St.flatten, List.mem_singleton] at hb
    subst hb
    exact ⟨e, by simp [Calc.mapE, he]⟩
  | .tup vs, h => by
    obtain ⟨e, he⟩ := mapET_error f vs (by simpa [St.flatten] using h)
    exact ⟨e, by simp [Calc.mapE, he]⟩
  | .node kvs, h => by
    obtain ⟨e, he⟩ := mapEI_error f kvs (by simpa [St.flatten] using h)
    exact ⟨e, by simp [Calc.mapE, he]⟩
theorem mapET_error (f : α → Except ε β) : ∀ (vs : List (St.Val α)),
    (∃ a ∈ St.flattenT vs, ∃ e, f a = .error e) → ∃ e, Calc.mapET f vs = .error e
  | [], h => by simp [St.flattenT] at h
  | v :: vs, h => by
    obtain ⟨a, ha, e, he⟩ := h
    simp only [St.flattenT, List.mem_append] at ha
    cases hv : Calc.mapE f v with
    | error e' => exact ⟨e', by simp [Calc.mapET, hv]⟩
    | ok b =>
      rcases ha with ha | ha
      · obtain ⟨e', he'⟩ := mapE_error f v ⟨a, ha, e, he⟩
        rw [hv] at he'; cases he'
      · obtain ⟨e', he'⟩ := mapET_error f vs ⟨a, ha, e, he⟩
        exact ⟨e', by simp [Calc.mapET, hv, he']⟩
theorem mapEI_error (f : α → Except ε β) : ∀ (kvs : St.Items α),
    (∃ a ∈ St.flattenI kvs, ∃ e, f a = .error e) → ∃ e, Calc.mapEI f kvs = .error e
  | [], h => by simp [St.flattenI] at h
  | (k, v) :: r, h => by
    obtain ⟨a, ha, e, he⟩ := h
    simp only [St.flattenI, List.mem_append] at ha
    cases hv : Calc.mapE f v with
    | error e' => exact ⟨e', by simp [Calc.mapEI, hv]⟩
    | ok b =>
      rcases ha with ha | ha
      · obtain ⟨e', he'⟩ := mapE_error f v ⟨a, ha, e, he⟩
        rw [hv] at he'; cases he'
      · obtain ⟨e', he'⟩ := mapEI_error f r ⟨a, ha, e, he⟩
        exact ⟨e', by simp [Calc.mapEI, hv, he']⟩
end

end mapE

end FormulaicVerif.Proofs.C20
