import FormulaicVerif.Model.Registry
/-! Helper lemmas for C05 (materializer registry). Core Lean only. -/
namespace FormulaicVerif.Proofs.C05R
open FormulaicVerif.Model.Registry

/-! ### dicts -/

theorem dictGet?_dictSet {α} (d : List (String × α)) (k k' : String) (v : α) :
    dictGet? (dictSet d k v) k' = if k = k' then some v else dictGet? d k' := by
  induction d with
  | nil => simp [dictSet, dictGet?]
  | cons x r ih =>
    obtain ⟨k0, v0⟩ := x
    by_cases h : k0 = k
    · subst h
      simp only [dictSet, if_true, dictGet?]
      split <;> rfl
    · simp only [dictSet, h, if_false, dictGet?, ih]
      by_cases h2 : k0 = k'
      · subst h2
        have : ¬ k = k0 := fun e => h e.symm
        simp [this]
      · simp [h2]

/-! ### stable descending sort -/

/-- descending precedence -/
def Desc (xs : List MatClass) : Prop := xs.Pairwise (fun a b => b.precedence ≤ a.precedence)

theorem mem_insertDesc {c x : MatClass} {ys : List MatClass} : x ∈ insertDesc c ys ↔ x = c ∨ x ∈ ys := by
  induction ys with
  | nil => simp [insertDesc]
  | cons y ys ih =>
    simp only [insertDesc]
    split
    · simp
    · simp only [List.mem_cons, ih]
      constructor
      · rintro (h | h | h)
        · exact Or.inr (Or.inl h)
        · exact Or.inl h
        · exact Or.inr (Or.inr h)
      · rintro (h | h | h)
        · exact Or.inr (Or.inl h)
        · exact Or.inl h
        · exact Or.inr (Or.inr h)

theorem insertDesc_desc {c : MatClass} {ys : List MatClass} (h : Desc ys) : Desc (insertDesc c ys) := by
  induction ys with
  | nil => simp [insertDesc, Desc]
  | cons y ys ih =>
    simp only [insertDesc]
    have hy := List.pairwise_cons.mp h
    split
    · next hlt =>
      refine List.pairwise_cons.mpr ⟨?_, h⟩
      intro z hz
      rcases List.mem_cons.mp hz with rfl | hz
      · exact Rat.le_of_lt hlt
      · exact Rat.le_trans (hy.1 z hz) (Rat.le_of_lt hlt)
    · next hnlt =>
      refine List.pairwise_cons.mpr ⟨?_, ih hy.2⟩
      intro z hz
      rcases mem_insertDesc.mp hz with rfl | hz
      · exact Rat.not_lt.mp hnlt
      · exact hy.1 z hz

theorem foldl_insert_inv (xs acc : List MatClass) (h : Desc acc) :
    Desc (xs.foldl (fun acc c => insertDesc c acc) acc) ∧
    ∀ x, x ∈ xs.foldl (fun acc c => insertDesc c acc) acc ↔ x ∈ acc ∨ x ∈ xs := by
  induction xs generalizing acc with
  | nil => simp [h]
  | cons a xs ih =>
    simp only [List.foldl_cons]
    have := ih (insertDesc a acc) (insertDesc_desc h)
    refine ⟨this.1, fun x => ?_⟩
    rw [this.2 x, mem_insertDesc]
    simp only [List.mem_cons]
    constructor
    · rintro ((h | h) | h)
      · exact Or.inr (Or.inl h)
      · exact Or.inl h
      · exact Or.inr (Or.inr h)
    · rintro (h | h | h)
      · exact Or.inl (Or.inr h)
      · exact Or.inl (Or.inl h)
      · exact Or.inr h

theorem sortDesc_desc (xs : List MatClass) : Desc (sortDesc xs) :=
  (foldl_insert_inv xs [] List.Pairwise.nil).1

theorem mem_sortDesc {x : MatClass} {xs : List MatClass} : x ∈ sortDesc xs ↔ x ∈ xs := by
  have := (foldl_insert_inv xs [] List.Pairwise.nil).2 x
  simpa [sortDesc] using this

theorem insertDesc_all_ge {c : MatClass} {ys : List MatClass} (h : ∀ y ∈ ys, c.precedence ≤ y.precedence) :
    insertDesc c ys = ys ++ [c] := by
  induction ys with
  | nil => rfl
  | cons y ys ih =>
    have hy : ¬ y.precedence < c.precedence := Rat.not_lt.mpr (h y (by simp))
    simp only [insertDesc, hy, if_false, List.cons_append]
    rw [ih (fun z hz => h z (List.mem_cons_of_mem _ hz))]

theorem foldl_insert_sorted (xs acc : List MatClass) (h : Desc (acc ++ xs)) :
    xs.foldl (fun acc c => insertDesc c acc) acc = acc ++ xs := by
  induction xs generalizing acc with
  | nil => simp
  | cons a xs ih =>
    simp only [List.foldl_cons]
    have hge : ∀ y ∈ acc, a.precedence ≤ y.precedence := by
      intro y hy
      have := List.pairwise_append.mp h
      exact this.2.2 y hy a (by simp)
    rw [insertDesc_all_ge hge, ih]
    · simp
    · simpa using h

/-- sorting an already sorted list changes nothing (the registry keeps its lists sorted) -/
theorem sortDesc_of_desc {xs : List MatClass} (h : Desc xs) : sortDesc xs = xs := by
  have := foldl_insert_sorted xs [] (by simpa using h)
  simpa [sortDesc] using this

theorem sortDesc_append_singleton (xs : List MatClass) (c : MatClass) :
    sortDesc (xs ++ [c]) = insertDesc c (sortDesc xs) := by
  simp [sortDesc, List.foldl_append]

theorem sortDesc_sortDesc_append (xs : List MatClass) (c : MatClass) :
    sortDesc (sortDesc xs ++ [c]) = sortDesc (xs ++ [c]) := by
  rw [sortDesc_append_singleton, sortDesc_append_singleton, sortDesc_of_desc (sortDesc_desc xs)]

/-- stability: classes of one precedence keep their relative order -/
theorem insertDesc_filter {c : MatClass} {ys : List MatClass} (h : Desc ys) (p : Rat) :
    (insertDesc c ys).filter (fun x => x.precedence = p) =
      ys.filter (fun x => x.precedence = p) ++ (if c.precedence = p then [c] else []) := by
  induction ys with
  | nil => simp [insertDesc, List.filter]; split <;> simp_all
  | cons y ys ih =>
    have hy := List.pairwise_cons.mp h
    simp only [insertDesc]
    split
    · next hlt =>
      -- everything from `y` on is strictly below `c`
      have hbelow : ∀ z ∈ y :: ys, z.precedence < c.precedence := by
        intro z hz
        rcases List.mem_cons.mp hz with rfl | hz
        · exact hlt
        · exact Rat.not_le.mp (fun hle => Rat.not_le.mpr hlt (Rat.le_trans hle (hy.1 z hz)))
      by_cases hc : c.precedence = p
      · have hnone : (y :: ys).filter (fun x => decide (x.precedence = p)) = [] := by
          apply List.filter_eq_nil_iff.mpr
          intro z hz
          have := hbelow z hz
          simp only [decide_eq_true_eq]
          intro e
          rw [e, ← hc] at this
          exact Rat.lt_irrefl this
        simp only [List.filter_cons, hc, decide_true, if_true]
        simp only [List.filter_cons] at hnone
        rw [hnone]
        simp
      · simp [List.filter_cons, hc]
    · next hnlt =>
      simp only [List.filter_cons]
      rw [ih hy.2]
      split <;> simp

theorem foldl_insert_filter (xs acc : List MatClass) (h : Desc acc) (p : Rat) :
    (xs.foldl (fun acc c => insertDesc c acc) acc).filter (fun x => x.precedence = p) =
      acc.filter (fun x => x.precedence = p) ++ xs.filter (fun x => x.precedence = p) := by
  induction xs generalizing acc with
  | nil => simp
  | cons a xs ih =>
    simp only [List.foldl_cons]
    rw [ih _ (insertDesc_desc h), insertDesc_filter h, List.filter_cons]
    split <;> simp_all

/-- `sorted(…, reverse=True)` is stable: the classes of any one precedence come out in the order they went in -/
theorem sortDesc_stable (xs : List MatClass) (p : Rat) :
    (sortDesc xs).filter (fun x => x.precedence = p) = xs.filter (fun x => x.precedence = p) := by
  have := foldl_insert_filter xs [] List.Pairwise.nil p
  simpa [sortDesc] using this

/-! ### registration in closed form -/

/-- how often (and that) class `c` is entered into the list of input type `t` -/
def entriesOf (t : String) (c : MatClass) : List MatClass :=
  if c.registrable then ((match c.ownInputs with | some l => l | none => []).filter (fun s => s = t)).map (fun _ => c) else []

/-- every class that declares input type `t`, in creation order -/
def declaring (t : String) (cs : List MatClass) : List MatClass := cs.flatMap (entriesOf t)

theorem inputsFor_addInput (c : MatClass) (d : List (String × List MatClass)) (t t' : String) :
    ddGet (addInput c d t) t' =
      if t = t' then sortDesc (ddGet d t' ++ [c]) else ddGet d t' := by
  by_cases h : t = t'
  · subst h
    simp only [addInput, ddGet, dictGet?_dictSet, if_true]
  · simp only [addInput, ddGet, dictGet?_dictSet, h, if_false]

theorem inputsFor_foldl_addInput (c : MatClass) (ins : List String) (d : List (String × List MatClass)) (t : String)
    (L : List MatClass) (hL : ddGet d t = sortDesc L) :
    ddGet (ins.foldl (addInput c) d) t = sortDesc (L ++ (ins.filter (fun s => s = t)).map (fun _ => c)) := by
  induction ins generalizing d L with
  | nil => simpa using hL
  | cons s ins ih =>
    simp only [List.foldl_cons]
    by_cases hs : s = t
    · subst hs
      have h1 : ddGet (addInput c d s) s = sortDesc (L ++ [c]) := by
        rw [inputsFor_addInput, if_pos rfl, hL, sortDesc_sortDesc_append]
      rw [ih (addInput c d s) (L ++ [c]) h1]
      simp
    · have h1 : ddGet (addInput c d s) t = sortDesc L := by
        rw [inputsFor_addInput, if_neg hs, hL]
      rw [ih (addInput c d s) L h1]
      simp [hs]

theorem register_inputsFor (r : Registry) (c : MatClass) (t : String) (L : List MatClass)
    (hL : r.inputsFor t = sortDesc L) : (register r c).inputsFor t = sortDesc (L ++ entriesOf t c) := by
  unfold register entriesOf MatClass.registrable
  cases hown : c.ownName with
  | false => simpa using hL
  | true =>
    cases hn : c.name with
    | none => simpa using hL
    | some n =>
      by_cases he : n.isEmpty
      · simpa [he] using hL
      · simp only [he, Bool.false_eq_true, if_false, Bool.not_false, Bool.and_self, if_true]
        cases hi : c.ownInputs with
        | none => simpa [Registry.inputsFor] using hL
        | some ins =>
          simp only [Registry.inputsFor]
          exact inputsFor_foldl_addInput c ins r.inputs t L hL

/-- C05-R1 helper: the list of an input type after any creation history -/
theorem registerAll_inputsFor (cs : List MatClass) (t : String) :
    (registerAll {} cs).inputsFor t = sortDesc (declaring t cs) := by
  suffices h : ∀ (r : Registry) (L : List MatClass), r.inputsFor t = sortDesc L →
      (registerAll r cs).inputsFor t = sortDesc (L ++ declaring t cs) by
    have := h {} [] (by simp [Registry.inputsFor, ddGet, dictGet?, sortDesc])
    simpa using this
  induction cs with
  | nil => intro r L h; simpa [registerAll, declaring] using h
  | cons c cs ih =>
    intro r L h
    have := ih (register r c) (L ++ entriesOf t c) (register_inputsFor r c t L h)
    simpa [registerAll, declaring, List.append_assoc] using this

/-- the last class of a list that satisfies `p` -/
def lastThat (p : MatClass → Bool) : List MatClass → Option MatClass
  | [] => none
  | c :: cs => match lastThat p cs with
    | some x => some x
    | none => if p c then some c else none

def namedAs (n : String) (c : MatClass) : Bool := c.registrable && c.name == some n

theorem register_names (r : Registry) (c : MatClass) (n : String) :
    dictGet? (register r c).names n = if namedAs n c then some c else dictGet? r.names n := by
  unfold register namedAs MatClass.registrable
  cases hown : c.ownName with
  | false => simp
  | true =>
    cases hn : c.name with
    | none => simp
    | some m =>
      by_cases he : m.isEmpty
      · simp [he]
      · simp only [he, Bool.false_eq_true, if_false, Bool.not_false, Bool.and_self, Bool.true_and]
        have : dictGet? (dictSet r.names m c) n = if m = n then some c else dictGet? r.names n := dictGet?_dictSet _ _ _ _
        cases hi : c.ownInputs <;> simp only [this] <;> by_cases hmn : m = n <;> simp [hmn]

theorem registerAll_names (cs : List MatClass) (n : String) :
    dictGet? (registerAll {} cs).names n = lastThat (namedAs n) cs := by
  suffices h : ∀ (r : Registry), dictGet? (registerAll r cs).names n =
      (match lastThat (namedAs n) cs with | some x => some x | none => dictGet? r.names n) by
    have := h {}
    rw [this]
    cases lastThat (namedAs n) cs <;> simp [dictGet?]
  induction cs with
  | nil => intro r; simp [registerAll, lastThat]
  | cons c cs ih =>
    intro r
    have := ih (register r c)
    simp only [registerAll, List.foldl_cons] at this ⊢
    rw [this, register_names, lastThat]
    cases lastThat (namedAs n) cs with
    | some x => rfl
    | none => by_cases hc : namedAs n c <;> simp [hc]

/-! ### `for_data` in closed form -/

/-- the exception `for_data` raises when no candidate offers the output -/
def failure (r : Registry) (setOrder : List MatClass) (d : Data) : Err :=
  match candidates r setOrder d with
  | [] => .noInput (sortedSet (r.inputs.map (·.1)))
  | c :: cs => .noOutput (sortedSet ((c :: cs).flatMap (·.outputs)))

theorem find?_offers_none (xs : List MatClass) : xs.find? (offers none) = xs.head? := by
  cases xs <;> simp [offers]

/-- `for_data` returns the FIRST candidate (explicit registrations in precedence order, then the
accepting registered classes in precedence order) that offers the output -/
theorem forData_eq (r : Registry) (setOrder : List MatClass) (d : Data) (output : Option String) :
    forData r setOrder d output =
      match (candidates r setOrder d).find? (offers output) with
      | some c => .ok c
      | none => .error (failure r setOrder d) := by
  unfold forData failure
  cases output with
  | none =>
    have hoff : ∀ (x : MatClass) (xs : List MatClass), List.find? (offers none) (x :: xs) = some x := by
      intro x xs; simp [offers]
    cases hreg : registeredFor r d with
    | nil =>
      simp only [candidates, hreg, List.nil_append]
      cases fallbackFor setOrder d with
      | nil => simp
      | cons x xs => simp only [hoff]
    | cons c cs => simp only [candidates, hreg, List.cons_append, hoff]
  | some o =>
    simp only
    cases hc : candidates r setOrder d with
    | nil => simp
    | cons c cs =>
      have : (fun m : MatClass => m.outputs.contains o) = offers (some o) := by funext m; rfl
      rw [this]
      simp only
      cases List.find? (offers (some o)) (c :: cs) <;> rfl

theorem find?_desc {xs : List MatClass} {p : MatClass → Bool} {c : MatClass} (h : Desc xs) (hf : xs.find? p = some c) :
    ∀ c' ∈ xs, p c' → c'.precedence ≤ c.precedence := by
  induction xs with
  | nil => simp at hf
  | cons x xs ih =>
    have hx := List.pairwise_cons.mp h
    intro c' hc' hp
    by_cases hpx : p x
    · simp only [List.find?_cons, hpx, Option.some.injEq] at hf
      subst hf
      rcases List.mem_cons.mp hc' with rfl | hc'
      · exact Rat.le_refl
      · exact hx.1 c' hc'
    · simp only [List.find?_cons, hpx] at hf
      rcases List.mem_cons.mp hc' with rfl | hc'
      · exact absurd hp hpx
      · exact ih hx.2 hf c' hc' hp

theorem mem_registeredFor {r : Registry} {d : Data} {c : MatClass} :
    c ∈ registeredFor r d ↔ ∃ t ∈ d.lookupTypes, c ∈ r.inputsFor t := by
  simp [registeredFor, mem_sortDesc, List.mem_flatMap]

theorem mem_fallbackFor {setOrder : List MatClass} {d : Data} {c : MatClass} :
    c ∈ fallbackFor setOrder d ↔ c ∈ setOrder ∧ c.cid ∈ d.supportedBy := by
  simp [fallbackFor, mem_sortDesc, List.mem_filter]

theorem registeredFor_desc (r : Registry) (d : Data) : Desc (registeredFor r d) := sortDesc_desc _

theorem fallbackFor_desc (setOrder : List MatClass) (d : Data) : Desc (fallbackFor setOrder d) :=
  List.Pairwise.sublist List.filter_sublist (sortDesc_desc _)

/-- first match in `A ++ B` -/
theorem find?_append_cases {xs ys : List MatClass} {p : MatClass → Bool} {c : MatClass}
    (h : (xs ++ ys).find? p = some c) :
    xs.find? p = some c ∨ (xs.find? p = none ∧ ys.find? p = some c) := by
  rw [List.find?_append] at h
  cases hx : xs.find? p with
  | some x => simp [hx] at h; exact Or.inl (by rw [h])
  | none => simp [hx] at h; exact Or.inr ⟨rfl, h⟩

/-! ### who is a candidate -/

/-- the class accepts the data: it is explicitly registered for (a lookup name of) its type, or it is
one of the registered classes and its `SUPPORTS_INPUT(data)` holds -/
def Accepts (r : Registry) (setOrder : List MatClass) (d : Data) (c : MatClass) : Prop :=
  (∃ t ∈ d.lookupTypes, c ∈ r.inputsFor t) ∨ (c ∈ setOrder ∧ c.cid ∈ d.supportedBy)

theorem mem_candidates {r : Registry} {setOrder : List MatClass} {d : Data} {c : MatClass} :
    c ∈ candidates r setOrder d ↔ Accepts r setOrder d c := by
  simp [candidates, Accepts, mem_registeredFor, mem_fallbackFor]

theorem forData_ok {r : Registry} {setOrder : List MatClass} {d : Data} {o : Option String} {c : MatClass}
    (h : forData r setOrder d o = .ok c) : (candidates r setOrder d).find? (offers o) = some c := by
  rw [forData_eq] at h
  cases hf : (candidates r setOrder d).find? (offers o) with
  | none => simp [hf] at h
  | some x => simp only [hf, Except.ok.injEq] at h; rw [h]

theorem forData_of_find {r : Registry} {setOrder : List MatClass} {d : Data} {o : Option String} {c : MatClass}
    (h : (candidates r setOrder d).find? (offers o) = some c) : forData r setOrder d o = .ok c := by
  rw [forData_eq, h]

/-- the choice does not depend on the iteration order of `set(REGISTERED_NAMES.values())`, except
among accepting classes of EQUAL precedence that are not explicitly registered for the input type -/
theorem forData_order {r : Registry} {so₁ so₂ : List MatClass} {d : Data} {o : Option String} {c₁ : MatClass}
    (hso : ∀ c, c ∈ so₁ ↔ c ∈ so₂) (h : forData r so₁ d o = .ok c₁) :
    ∃ c₂, forData r so₂ d o = .ok c₂ ∧ c₂.precedence = c₁.precedence ∧ (c₁ ∈ registeredFor r d → c₂ = c₁) := by
  have hf := forData_ok h
  have hmem : ∀ c, c ∈ fallbackFor so₁ d ↔ c ∈ fallbackFor so₂ d := by
    intro c; simp only [mem_fallbackFor, hso]
  simp only [candidates] at hf
  rcases find?_append_cases hf with hA | ⟨hA, hB⟩
  · refine ⟨c₁, forData_of_find ?_, rfl, fun _ => rfl⟩
    simp only [candidates, List.find?_append, hA, Option.some_or]
  · have hc1 := List.mem_of_find?_eq_some hB
    have hp1 := List.find?_some hB
    have hc1' := (hmem c₁).mp hc1
    cases hB2 : (fallbackFor so₂ d).find? (offers o) with
    | none =>
      have := List.find?_eq_none.mp hB2 c₁ hc1'
      exact absurd hp1 this
    | some c₂ =>
      have hc2 := List.mem_of_find?_eq_some hB2
      have hp2 := List.find?_some hB2
      have le1 := find?_desc (fallbackFor_desc so₁ d) hB c₂ ((hmem c₂).mpr hc2) hp2
      have le2 := find?_desc (fallbackFor_desc so₂ d) hB2 c₁ hc1' hp1
      refine ⟨c₂, forData_of_find ?_, Rat.le_antisymm le1 le2, ?_⟩
      · simp only [candidates, List.find?_append, hA, Option.none_or, hB2]
      · intro hin
        have := List.find?_eq_none.mp hA c₁ hin
        exact absurd hp1 this
