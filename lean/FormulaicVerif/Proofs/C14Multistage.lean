import FormulaicVerif.Proofs.C14General
/-! C14 for parsers WITH the multistage feature (and, uniformly, for all eight flag subsets): the only
internal exception reachable from any token list is the `NotImplementedError` of a multistage `~`
whose left-hand side is itself structured (known finding C14-F1).

Route, parallel to `Proofs/C14General.lean`:
(1) `MT`: trees of known non-structural operators AND multistage `~` nodes (what can stand inside
    brackets); `ShapeM`: `MT`, or a top-level structural operator (`~` two-sided / one-sided, `|`) over
    `ShapeM` arguments;
(2) `ShapeM` is an invariant of the index-based shunting-yard for every table whose candidate groups
    are of the documented kinds (`TabOkM`, which admits the multistage `~`): a multistage `~` entry
    always sits directly on top of a `[` entry of the operator stack, so `|` and the top-level `~` are
    never accepted above it;
(3) evaluating an `MT` tree gives a term set, a structure of the form `{deps: (…), root: terms}`,
    the parsing error, or the `NotImplementedError` — and the latter only if some multistage `~` has
    a multistage `~` inside its left argument (`lhsFlat`). -/
namespace FormulaicVerif.Proofs.C14Multistage
open FormulaicVerif FormulaicVerif.Model FormulaicVerif.Proofs.C14General

/-! ### operator classes -/

/-- the multistage `~` (accepted directly inside `[ … ]`) -/
def IsTildeM (o : OpSpec) : Prop :=
  o.symbol = "~" ∧ o.fixity = .infix ∧ o.arity = 2 ∧ o.prec = -100 ∧ o.assoc = .none ∧
    o.structural = true ∧ o.ctx = .lastIsSquare

/-- operators that may occur inside brackets -/
def Inner (o : OpSpec) : Prop := KnownPlain o ∨ IsTildeM o

theorem IsTildeM.prec {o : OpSpec} (h : IsTildeM o) : o.prec = -100 := h.2.2.2.1

theorem inner_not_struct {o : OpSpec} (h1 : Inner o) (h2 : StructOp o) : False := by
  rcases h1 with h1 | h1
  · exact not_plain_struct h1 h2
  · have hc : o.ctx = .lastIsSquare := h1.2.2.2.2.2.2
    rcases h2 with (h2 | h2) | h2
    · have := h2.2.2.2.2.2.2; rw [hc] at this; cases this
    · have := h2.2.2.2.2.2.2; rw [hc] at this; cases this
    · have := h2.2.2.2.2.2.2; rw [hc] at this; cases this

theorem inner_not_tilde {o : OpSpec} (h : Inner o) : ¬ IsTilde o :=
  fun ht => inner_not_struct h (Or.inl ht)

theorem plain_not_tildeM {o : OpSpec} (h1 : KnownPlain o) (h2 : IsTildeM o) : False := by
  have := h1.ns; rw [h2.2.2.2.2.2.1] at this; cases this

theorem infix_arityM {o : OpSpec} (h : Inner o ∨ StructOp o) (hf : o.fixity = .infix) : o.arity = 2 := by
  rcases h with (h | h) | h
  · exact infix_arity (Or.inl h) hf
  · exact h.2.2.1
  · exact infix_arity (Or.inr h) hf

/-! ### the shape of trees -/

inductive MT : Ast → Prop
  | leaf (t : Tok) : MT (.leaf t)
  | node (o : OpSpec) (args : List Ast) : Inner o → args.length = o.arity →
      (∀ a ∈ args, MT a) → MT (.node o args)

inductive ShapeM : Ast → Prop
  | inner {a : Ast} : MT a → ShapeM a
  | struct (o : OpSpec) (args : List Ast) : StructOp o → args.length = o.arity →
      (∀ a ∈ args, ShapeM a) → ShapeM (.node o args)

/-! ### `operate` -/

theorem operate_specM (o : OpSpec) (i : Nat) (out out' : List Ast)
    (hk : Inner o ∨ StructOp o) (h : operate o i out = .ok out') :
    ∃ hi, loOf o i ≤ hi ∧ hi ≤ out.length ∧ hi - loOf o i = o.arity ∧
      out' = out.take (loOf o i) ++ [Ast.node o ((out.drop (loOf o i)).take (hi - loOf o i))] ++ out.drop hi := by
  obtain ⟨lo, hi, h1, h2, h3⟩ := operate_spec o i out out' h
  rcases h3 with ⟨hf, hi1, hlo, hhi⟩ | ⟨hf, hlo, hhi⟩ | ⟨hf, ha, hlo, hhi⟩
  · have har := infix_arityM hk hf
    have : loOf o i = lo := by unfold loOf; rw [hf]; exact hlo.symm
    rw [this]
    exact ⟨hi, by omega, h1, by omega, h2⟩
  · have : loOf o i = lo := by unfold loOf; rw [hf]; exact hlo.symm
    rw [this]
    exact ⟨hi, by omega, h1, by omega, h2⟩
  · have : loOf o i = lo := by unfold loOf; rw [hf]; exact hlo.symm
    rw [this]
    exact ⟨hi, by omega, h1, by omega, h2⟩

def AllShapeM (out : List Ast) : Prop := ∀ a ∈ out, ShapeM a

/-- the output queue: everything has the shape, everything from position `B` on is an inner tree -/
def OutInvM (B : Nat) (out : List Ast) : Prop :=
  AllShapeM out ∧ (∀ a ∈ out.drop B, MT a) ∧ B ≤ out.length

theorem operate_structM (o : OpSpec) (i : Nat) (out out' : List Ast) (ho : StructOp o)
    (h : AllShapeM out) (hr : operate o i out = .ok out') : AllShapeM out' := by
  obtain ⟨hi, h1, h2, h3, h4⟩ := operate_specM o i out out' (Or.inr ho) hr
  subst h4
  intro a ha
  simp only [List.mem_append, List.mem_cons, List.mem_nil_iff, or_false] at ha
  rcases ha with (ha | ha) | ha
  · exact h a (List.mem_of_mem_take ha)
  · subst ha
    refine ShapeM.struct o _ ho ?_ ?_
    · rw [length_args out _ hi h1 h2]; exact h3
    · intro b hb; exact h b (List.mem_of_mem_drop (List.mem_of_mem_take hb))
  · exact h a (List.mem_of_mem_drop ha)

theorem operate_inner (o : OpSpec) (i B : Nat) (out out' : List Ast) (ho : Inner o)
    (hB : B ≤ loOf o i) (h : OutInvM B out) (hr : operate o i out = .ok out') : OutInvM B out' := by
  obtain ⟨hs, hp, hl⟩ := h
  obtain ⟨hi, h1, h2, h3, h4⟩ := operate_specM o i out out' (Or.inl ho) hr
  have hnode : MT (Ast.node o ((out.drop (loOf o i)).take (hi - loOf o i))) := by
    refine MT.node o _ ho ?_ ?_
    · rw [length_args out _ hi h1 h2]; exact h3
    · intro b hb
      exact hp b (mem_drop_of_le out B _ hB b (List.mem_of_mem_take hb))
  subst h4
  refine ⟨?_, ?_, ?_⟩
  · intro a ha
    simp only [List.mem_append, List.mem_cons, List.mem_nil_iff, or_false] at ha
    rcases ha with (ha | ha) | ha
    · exact hs a (List.mem_of_mem_take ha)
    · subst ha; exact ShapeM.inner hnode
    · exact hs a (List.mem_of_mem_drop ha)
  · intro a ha
    have hlen : (out.take (loOf o i)).length = loOf o i := by
      rw [List.length_take]; omega
    rw [List.append_assoc, List.drop_append, hlen] at ha
    simp only [List.mem_append] at ha
    rcases ha with ha | ha
    · rw [List.drop_take] at ha
      exact hp a (List.mem_of_mem_take ha)
    · have ha' := List.mem_of_mem_drop ha
      simp only [List.cons_append, List.nil_append, List.mem_cons] at ha'
      rcases ha' with ha' | ha'
      · subst ha'; exact hnode
      · exact hp a (mem_drop_of_le out B hi (by omega) a ha')
  · simp only [List.length_append, List.length_take, List.length_cons, List.length_nil, List.length_drop]
    omega

/-! ### the stack -/

def EntryOkM (B : Nat) : SEntry → Prop
  | .ctx _ i => B ≤ i
  | .op o i => (Inner o ∧ B ≤ loOf o i) ∨ (StructOp o ∧ B ≤ i)

def isStructM : SEntry → Prop
  | .ctx _ _ => False
  | .op o _ => StructOp o

/-- top-level structural operators have only top-level structural operators beneath them -/
def SOrdM : List SEntry → Prop
  | [] => True
  | e :: rest => (isStructM e → ∀ e' ∈ rest, isStructM e') ∧ SOrdM rest

/-- a multistage `~` entry sits directly on top of a bracket entry -/
def MSOk : List SEntry → Prop
  | [] => True
  | e :: rest => (∀ o i, e = .op o i → IsTildeM o → ∃ c j r, rest = .ctx c j :: r) ∧ MSOk rest

def StackInvM (B : Nat) (stk : List SEntry) : Prop :=
  (∀ e ∈ stk, EntryOkM B e) ∧ SOrdM stk ∧ Bot B stk ∧ MSOk stk

def InvM (B : Nat) (s : ShState) : Prop := OutInvM B s.out ∧ StackInvM B s.stack

theorem entry_idx_geM {B : Nat} {e : SEntry} (h : EntryOkM B e) : B ≤ e.idx := by
  cases e with
  | ctx c i => exact h
  | op o i =>
    rcases h with ⟨_, h⟩ | ⟨_, h⟩
    · exact Nat.le_trans h (loOf_le o i)
    · exact h

theorem stackInv_tailM {B : Nat} {e : SEntry} {stk : List SEntry} (h : StackInvM B (e :: stk))
    (hne : ∀ o i, e = .op o i → ¬ IsTilde o) : StackInvM B stk :=
  ⟨fun x hx => h.1 x (List.mem_cons_of_mem _ hx), h.2.1.2, bot_tail h.2.2.1 hne, h.2.2.2.2⟩

/-- a top-level structural entry on top: the whole stack consists of operators (no bracket) -/
theorem struct_top_noctxM {o : OpSpec} {i : Nat} {stk : List SEntry} (hs : SOrdM (.op o i :: stk))
    (ho : StructOp o) : ∀ e ∈ SEntry.op o i :: stk, ∃ o' i', e = .op o' i' := by
  intro e he
  rcases List.mem_cons.mp he with rfl | he
  · exact ⟨_, _, rfl⟩
  · have := hs.1 ho e he
    cases e with
    | ctx c j => exact absurd this (by simp [isStructM])
    | op o' j => exact ⟨_, _, rfl⟩

/-- on a stack without brackets there is no multistage `~` entry -/
theorem no_tildeM_of_noctx {stk : List SEntry} (hm : MSOk stk) (hn : ∀ e ∈ stk, ∃ o i, e = .op o i) :
    ∀ e ∈ stk, ∀ o i, e = .op o i → ¬ IsTildeM o := by
  induction stk with
  | nil => intro e he; cases he
  | cons x xs ih =>
    intro e he o i heq hM
    rcases List.mem_cons.mp he with rfl | he'
    · obtain ⟨c, j, r, hr⟩ := hm.1 o i heq hM
      obtain ⟨o', i', hx⟩ := hn (.ctx c j) (by rw [hr]; simp)
      cases hx
    · exact ih hm.2 (fun e he => hn e (List.mem_cons_of_mem _ he)) e he' o i heq hM

/-! ### `popWhile` -/

theorem popWhile_keepM (c : OpSpec) (B : Nat) (hc : NoPopStruct c) :
    ∀ (stk : List SEntry) (out : List Ast) (s' : ShState),
      OutInvM B out → StackInvM B stk → popWhile c out stk = .ok s' → InvM B s' := by
  intro stk
  induction stk with
  | nil => intro out s' h1 h2 h; simp [popWhile] at h; subst h; exact ⟨h1, h2⟩
  | cons en stk ih =>
    intro out s' h1 h2 h
    cases en with
    | ctx ch i => simp [popWhile] at h; subst h; exact ⟨h1, h2⟩
    | op o i =>
      unfold popWhile at h
      split at h
      · rename_i hpc
        cases hop : operate o i out with
        | error e => rw [hop] at h; cases h
        | ok out' =>
          rw [hop] at h
          rcases h2.1 (.op o i) (by simp) with ⟨hk, hB⟩ | ⟨hk, _⟩
          · have hne : ∀ o' i', SEntry.op o i = .op o' i' → ¬ IsTilde o' := by
              intro o' i' he; injection he with he _; subst he; exact inner_not_tilde hk
            exact ih out' s' (operate_inner o i B out out' hk hB h1 hop) (stackInv_tailM h2 hne) h
          · rw [hc o hk] at hpc; cases hpc
      · injection h with h; subst h; exact ⟨h1, h2⟩

/-- after the pops for a `|` candidate on a stack without brackets, only top-level structural operators remain -/
theorem popWhile_bar_structM (c : OpSpec) (B : Nat) (hc : IsBar c) :
    ∀ (stk : List SEntry) (out : List Ast) (s' : ShState),
      StackInvM B stk → (∀ e ∈ stk, ∃ o i, e = .op o i) → popWhile c out stk = .ok s' →
      ∀ e ∈ s'.stack, isStructM e := by
  intro stk
  induction stk with
  | nil => intro out s' _ _ h; simp [popWhile] at h; subst h; intro e he; cases he
  | cons en stk ih =>
    intro out s' h2 hn h
    cases en with
    | ctx ch i => obtain ⟨o, j, he⟩ := hn (.ctx ch i) (by simp); cases he
    | op o i =>
      unfold popWhile at h
      split at h
      · rename_i hpc
        cases hop : operate o i out with
        | error e => rw [hop] at h; cases h
        | ok out' =>
          rw [hop] at h
          have hne : ∀ o' i', SEntry.op o i = .op o' i' → ¬ IsTilde o' := by
            intro o' i' he ht; injection he with he _; subst he
            rw [noPop_bar hc o (Or.inl ht)] at hpc; cases hpc
          exact ih out' s' (stackInv_tailM h2 hne) (fun e he => hn e (List.mem_cons_of_mem _ he)) h
      · rename_i hpc
        injection h with h; subst h
        have hst : StructOp o := by
          rcases h2.1 (.op o i) (by simp) with ⟨hk, _⟩ | ⟨hk, _⟩
          · exfalso
            rcases hk with hk | hk
            · apply hpc
              have h1 := hk.prec
              have h3 : c.prec = -50 := hc.2.2.2.1
              unfold popCond
              have : o.prec > c.prec := by omega
              simp [this]
            · exact no_tildeM_of_noctx h2.2.2.2 hn (.op o i) (by simp) o i rfl hk
          · exact hk
        intro e he
        rcases List.mem_cons.mp he with rfl | he
        · exact hst
        · exact h2.2.1.1 hst e he

theorem popCond_tildeM {o c : OpSpec} (hc : c.prec = -100) (ho : KnownPlain o ∨ IsBar o) : popCond o c = true := by
  unfold popCond
  have : o.prec > c.prec := by
    rcases ho with ho | ho
    · have := ho.prec; omega
    · have : o.prec = -50 := ho.2.2.2.1; omega
  simp [this]

theorem popWhile_tilde_barsM (c : OpSpec) (hc : IsTilde c) :
    ∀ (stk : List SEntry) (out : List Ast) (s' : ShState),
      AllShapeM out → AllBars stk → popWhile c out stk = .ok s' → s'.stack = [] ∧ AllShapeM s'.out := by
  intro stk
  induction stk with
  | nil => intro out s' h1 _ h; simp [popWhile] at h; subst h; exact ⟨rfl, h1⟩
  | cons en stk ih =>
    intro out s' h1 h2 h
    obtain ⟨o, i, he, hb⟩ := h2 en (by simp)
    subst he
    unfold popWhile at h
    rw [popCond_tilde hc (Or.inr hb)] at h
    simp only [if_true] at h
    cases hop : operate o i out with
    | error e => rw [hop] at h; cases h
    | ok out' =>
      rw [hop] at h
      exact ih out' s' (operate_structM o i out out' (Or.inr hb) h1 hop)
        (fun e he => h2 e (List.mem_cons_of_mem _ he)) h

/-- the pops for a top-level `~` candidate accepted by its context (no bracket, no `~` of any kind on the
stack) empty the stack -/
theorem popWhile_tildeM (c : OpSpec) (hc : IsTilde c) :
    ∀ (stk : List SEntry) (out : List Ast) (s' : ShState),
      OutInvM 0 out → StackInvM 0 stk → (∀ e ∈ stk, ∃ o i, e = .op o i ∧ ¬ IsTilde o ∧ ¬ IsTildeM o) →
      popWhile c out stk = .ok s' → s'.stack = [] ∧ AllShapeM s'.out := by
  intro stk
  induction stk with
  | nil => intro out s' h1 _ _ h; simp [popWhile] at h; subst h; exact ⟨rfl, h1.1⟩
  | cons en stk ih =>
    intro out s' h1 h2 hn h
    obtain ⟨o, i, he, hnt, hnm⟩ := hn en (by simp)
    subst he
    rcases h2.1 (.op o i) (by simp) with ⟨hk, hB⟩ | ⟨hk, _⟩
    · have hkp : KnownPlain o := by
        rcases hk with hk | hk
        · exact hk
        · exact absurd hk hnm
      unfold popWhile at h
      rw [popCond_tilde hc (Or.inl hkp)] at h
      simp only [if_true] at h
      cases hop : operate o i out with
      | error e => rw [hop] at h; cases h
      | ok out' =>
        rw [hop] at h
        have hne : ∀ o' i', SEntry.op o i = .op o' i' → ¬ IsTilde o' := by
          intro o' i' he; injection he with he _; subst he; exact hnt
        exact ih out' s' (operate_inner o i 0 out out' hk hB h1 hop) (stackInv_tailM h2 hne)
          (fun e he => hn e (List.mem_cons_of_mem _ he)) h
    · have hbars : AllBars (.op o i :: stk) := by
        intro e he
        have hstr : isStructM e := by
          rcases List.mem_cons.mp he with rfl | he'
          · exact hk
          · exact h2.2.1.1 hk e he'
        obtain ⟨o', i', he', hnt', _⟩ := hn e he
        subst he'
        refine ⟨o', i', rfl, ?_⟩
        rcases hstr with hk' | hk'
        · exact absurd hk' hnt'
        · exact hk'
      exact popWhile_tilde_barsM c hc _ out s' h1.1 hbars h

/-! ### context acceptance of the multistage `~` -/
open FormulaicVerif FormulaicVerif.Model FormulaicVerif.Proofs.C14General FormulaicVerif.Proofs.C14Multistage

theorem getLast_filter_reverse {α} (p : α → Bool) : ∀ (l : List α), (l.reverse.filter p).getLast? = l.find? p := by
  intro l
  induction l with
  | nil => rfl
  | cons x xs ih =>
    rw [List.reverse_cons, List.filter_append, List.find?_cons]
    by_cases hp : p x = true
    · simp [hp]
    · have : p x = false := by simpa using hp
      simp [this, ih]

theorem accepts_square {c : OpSpec} {stk : List SEntry} (hctx : c.ctx = .lastIsSquare)
    (h : acceptsContext c stk = true) :
    ∃ pre j rest, stk = pre ++ SEntry.ctx '[' j :: rest ∧ ∀ e ∈ pre, ∃ o i, e = .op o i ∧ ¬ (o.prec ≤ c.prec) := by
  unfold acceptsContext at h
  simp only [hctx] at h
  rw [getLast_filter_reverse] at h
  split at h
  · rename_i ch j heq
    have hc : ch = '[' := by simpa using h
    subst hc
    obtain ⟨_, pre, rest, hs, hpre⟩ := List.find?_eq_some_iff_append.mp heq
    refine ⟨pre, j, rest, hs, ?_⟩
    intro e he
    have := hpre e he
    cases e with
    | ctx c' i => simp at this
    | op o i => exact ⟨o, i, rfl, by simpa using this⟩
  · cases h

theorem popWhile_square (c : OpSpec) (B : Nat) (j : Nat) (rest : List SEntry) :
    ∀ (pre : List SEntry) (out : List Ast) (s' : ShState),
      (∀ e ∈ pre, ∃ o i, e = .op o i ∧ ¬ (o.prec ≤ c.prec)) →
      OutInvM B out → StackInvM B (pre ++ SEntry.ctx '[' j :: rest) →
      popWhile c out (pre ++ SEntry.ctx '[' j :: rest) = .ok s' →
      InvM B s' ∧ s'.stack = SEntry.ctx '[' j :: rest := by
  intro pre
  induction pre with
  | nil =>
    intro out s' _ h1 h2 h
    simp only [List.nil_append, popWhile] at h
    injection h with h; subst h
    exact ⟨⟨h1, h2⟩, rfl⟩
  | cons en pre ih =>
    intro out s' hpre h1 h2 h
    obtain ⟨o, i, he, hp⟩ := hpre en (by simp)
    subst he
    have hpc : popCond o c = true := by
      unfold popCond
      have : o.prec > c.prec := by omega
      simp [this]
    simp only [List.cons_append] at h h2
    unfold popWhile at h
    rw [hpc] at h
    simp only [if_true] at h
    cases hop : operate o i out with
    | error e => rw [hop] at h; cases h
    | ok out' =>
      rw [hop] at h
      rcases h2.1 (.op o i) (by simp) with ⟨hk, hB⟩ | ⟨hk, _⟩
      · have hne : ∀ o' i', SEntry.op o i = .op o' i' → ¬ IsTilde o' := by
          intro o' i' he; injection he with he _; subst he; exact inner_not_tilde hk
        exact ih out' s' (fun e he => hpre e (List.mem_cons_of_mem _ he))
          (operate_inner o i B out out' hk hB h1 hop) (stackInv_tailM h2 hne) h
      · exfalso
        have := h2.2.1.1 hk (SEntry.ctx '[' j) (by simp)
        exact this

/-! ### `tryCands` -/

/-- candidate kinds of the `~` group when the multistage `~` may be enabled -/
def CandTM (c : OpSpec) : Prop := IsTilde c ∨ IsTildeM c ∨ c.disabled = true

theorem push_plainM {c : OpSpec} {B : Nat} {s1 : ShState} (hk : KnownPlain c) (hi : InvM B s1)
    (hv : validHere c (maxPostOf s1) = true) :
    InvM B { s1 with stack := .op c s1.out.length :: s1.stack } := by
  obtain ⟨ho, hs⟩ := hi
  refine ⟨ho, ?_, ⟨fun hst => ?_, hs.2.1⟩, bot_cons _ hs.2.2.1, ⟨?_, hs.2.2.2⟩⟩
  · intro e he
    rcases List.mem_cons.mp he with rfl | he
    · left
      refine ⟨Or.inl hk, ?_⟩
      unfold loOf
      rcases hk.2.2.2 with ⟨hf, ha, _⟩ | ⟨hf, ha, _⟩ | ⟨hf, ha, _⟩
      · rw [hf]
        have hm := valid_infix hf ha hv
        unfold maxPostOf at hm
        cases hstk : s1.stack with
        | nil =>
          rw [hstk] at hm
          simp only at hm
          rcases hs.2.2.1 with hb | ⟨t, hb, _⟩
          · omega
          · rw [hstk] at hb; simp at hb
        | cons e rest =>
          rw [hstk] at hm
          simp only at hm
          have := entry_idx_geM (hs.1 e (by rw [hstk]; simp))
          show B ≤ s1.out.length - 1
          omega
      · rw [hf]; exact ho.2.2
      · rw [hf, ha]; exact ho.2.2
    · exact hs.1 e he
  · exact (inner_not_struct (Or.inl hk) hst).elim
  · intro o i he hM
    injection he with he _; subst he
    exact (plain_not_tildeM hk hM).elim

theorem push_barM {c : OpSpec} {B : Nat} {s1 : ShState} (hk : IsBar c) (hi : InvM B s1)
    (hall : ∀ e ∈ s1.stack, isStructM e) :
    InvM B { s1 with stack := .op c s1.out.length :: s1.stack } := by
  obtain ⟨ho, hs⟩ := hi
  refine ⟨ho, ?_, ⟨fun _ => hall, hs.2.1⟩, bot_cons _ hs.2.2.1, ⟨?_, hs.2.2.2⟩⟩
  · intro e he
    rcases List.mem_cons.mp he with rfl | he
    · exact Or.inr ⟨Or.inr hk, ho.2.2⟩
    · exact hs.1 e he
  · intro o i he hM
    injection he with he _; subst he
    exact (inner_not_struct (Or.inr hM) (Or.inr hk)).elim

theorem tryCands_PBM (B : Nat) (cs : List OpSpec) : ∀ (s s' : ShState),
    (∀ c ∈ cs, CandPB c) → InvM B s → tryCands cs s = .ok s' → InvM B s' := by
  induction cs with
  | nil => intro s s' _ _ h; simp [tryCands] at h
  | cons c cs ih =>
    intro s s' hc hi h
    have hcs : ∀ c' ∈ cs, CandPB c' := fun c' h' => hc c' (List.mem_cons_of_mem _ h')
    rcases tryCands_cons_ok c cs s s' h with h | ⟨hacc, hd, s1, hp, h⟩
    · exact ih s s' hcs hi h
    · rcases hc c (by simp) with hk | hk | hk
      · have hi1 := popWhile_keepM c B (noPop_plain hk) s.stack s.out s1 hi.1 hi.2 hp
        rcases h with ⟨hv, h⟩ | h
        · subst h; exact push_plainM hk hi1 hv
        · exact ih s1 s' hcs hi1 h
      · have hi1 := popWhile_keepM c B (noPop_bar hk) s.stack s.out s1 hi.1 hi.2 hp
        have hnc := accepts_bar hk.2.2.2.2.2.2 hacc
        have hall := popWhile_bar_structM c B hk s.stack s.out s1 hi.2 hnc hp
        rcases h with ⟨hv, h⟩ | h
        · subst h; exact push_barM hk hi1 hall
        · exact ih s1 s' hcs hi1 h
      · rw [hk] at hd; cases hd

/-- intermediate state while the candidates of a `~` token are tried: the stack has been emptied -/
def LimboM (s : ShState) : Prop := s.stack = [] ∧ AllShapeM s.out

theorem push_tildeM {c : OpSpec} {s1 : ShState} (hk : IsTilde c) (hl : LimboM s1) :
    InvM s1.out.length { s1 with stack := .op c s1.out.length :: s1.stack } := by
  obtain ⟨h1, h2⟩ := hl
  refine ⟨⟨h2, ?_, Nat.le_refl _⟩, ?_, ?_, ?_, ?_⟩
  · intro a ha; simp at ha
  · intro e he
    rw [h1] at he
    simp only [List.mem_singleton] at he
    subst he
    exact Or.inr ⟨Or.inl hk, Nat.le_refl _⟩
  · rw [h1]; exact ⟨fun _ e he => (by cases he), trivial⟩
  · right; exact ⟨c, by rw [h1]; rfl, hk⟩
  · rw [h1]
    refine ⟨?_, trivial⟩
    intro o i he hM
    injection he with he _; subst he
    exact (inner_not_struct (Or.inr hM) (Or.inl hk)).elim

/-- pushing the multistage `~` on top of the `[` entry that its context rule found -/
theorem push_stage {c : OpSpec} {B j : Nat} {rest : List SEntry} {s1 : ShState} (hk : IsTildeM c)
    (hi : InvM B s1) (hstk : s1.stack = SEntry.ctx '[' j :: rest)
    (hv : validHere c (maxPostOf s1) = true) :
    InvM B { s1 with stack := .op c s1.out.length :: s1.stack } := by
  obtain ⟨ho, hs⟩ := hi
  refine ⟨ho, ?_, ⟨fun hst => ?_, hs.2.1⟩, bot_cons _ hs.2.2.1, ⟨?_, hs.2.2.2⟩⟩
  · intro e he
    rcases List.mem_cons.mp he with rfl | he
    · left
      refine ⟨Or.inr hk, ?_⟩
      have hm := valid_infix hk.2.1 hk.2.2.1 hv
      unfold maxPostOf at hm
      rw [hstk] at hm
      simp only [SEntry.idx] at hm
      have hj : B ≤ j := hs.1 (SEntry.ctx '[' j) (by rw [hstk]; simp)
      unfold loOf
      rw [hk.2.1]
      show B ≤ s1.out.length - 1
      omega
    · exact hs.1 e he
  · exact (inner_not_struct (Or.inr hk) hst).elim
  · intro o i he hM
    exact ⟨'[', j, rest, hstk⟩

theorem tilde_or_M_prec {c : OpSpec} (h : IsTilde c ∨ IsTildeM c) : c.prec = -100 := by
  rcases h with h | h
  · exact h.prec
  · exact h.prec

theorem tryCands_TM (cs : List OpSpec) : ∀ (s s' : ShState),
    (∀ c ∈ cs, CandTM c) → ((∃ B, InvM B s) ∨ LimboM s) → tryCands cs s = .ok s' → ∃ B', InvM B' s' := by
  induction cs with
  | nil => intro s s' _ _ h; simp [tryCands] at h
  | cons c cs ih =>
    intro s s' hc hi h
    have hcs : ∀ c' ∈ cs, CandTM c' := fun c' h' => hc c' (List.mem_cons_of_mem _ h')
    rcases tryCands_cons_ok c cs s s' h with h | ⟨hacc, hd, s1, hp, h⟩
    · exact ih s s' hcs hi h
    · rcases hc c (by simp) with hk | hk | hk
      · -- the top-level `~`: its context is empty, the pops empty the stack
        have hl1 : LimboM s1 := by
          have hne := accepts_empty (tilde_ctx hk) hacc
          rcases hi with ⟨B, hi⟩ | hi
          · have hnt : ∀ e ∈ s.stack, ∃ o i, e = .op o i ∧ ¬ IsTilde o ∧ ¬ IsTildeM o := by
              intro e he
              obtain ⟨o, i, he', hp'⟩ := hne e he
              refine ⟨o, i, he', fun ht => hp' ?_, fun ht => hp' ?_⟩
              · rw [ht.prec, hk.prec]; exact Int.le_refl _
              · rw [ht.prec, hk.prec]; exact Int.le_refl _
            have hB : B = 0 := by
              rcases hi.2.2.2.1 with hb | ⟨t, hb, ht⟩
              · exact hb
              · obtain ⟨o, i, he', hnt', _⟩ := hnt _ (List.mem_of_getLast? hb)
                injection he' with he1 _
                subst he1
                exact absurd ht hnt'
            subst hB
            exact popWhile_tildeM c hk s.stack s.out s1 hi.1 hi.2 hnt hp
          · obtain ⟨h1, h2⟩ := hi
            rw [h1] at hp
            simp only [popWhile] at hp
            injection hp with hp
            subst hp
            exact ⟨rfl, h2⟩
        rcases h with ⟨hv, h⟩ | h
        · subst h; exact ⟨_, push_tildeM hk hl1⟩
        · exact ih s1 s' hcs (Or.inr hl1) h
      · -- the multistage `~`: its context ends in `[`, the pops stop at that bracket
        obtain ⟨pre, j, rest, hstk, hpre⟩ := accepts_square hk.2.2.2.2.2.2 hacc
        rcases hi with ⟨B, hi⟩ | hi
        · rw [hstk] at hp
          have hi2 := hi.2
          rw [hstk] at hi2
          obtain ⟨hi1, hs1⟩ := popWhile_square c B j rest pre s.out s1 hpre hi.1 hi2 hp
          rcases h with ⟨hv, h⟩ | h
          · subst h; exact ⟨B, push_stage hk hi1 hs1 hv⟩
          · exact ih s1 s' hcs (Or.inl ⟨B, hi1⟩) h
        · exfalso
          rw [hi.1] at hstk
          cases pre <;> cases hstk
      · rw [hk] at hd; cases hd

/-! ### closing brackets, operator tokens, the loop -/

theorem closeCtx_invM (op : Char) (B : Nat) : ∀ (stk : List SEntry) (out : List Ast) (s' : ShState),
    OutInvM B out → StackInvM B stk → closeCtx op out stk = .ok s' → InvM B s' := by
  intro stk
  induction stk with
  | nil => intro out s' _ _ h; simp [closeCtx] at h
  | cons en stk ih =>
    intro out s' h1 h2 h
    cases en with
    | ctx ch i =>
      unfold closeCtx at h
      split at h
      · injection h with h; subst h
        exact ⟨h1, stackInv_tailM h2 (fun o' i' he => by cases he)⟩
      · cases h
    | op o i =>
      rcases h2.1 (.op o i) (by simp) with ⟨hk, hB⟩ | ⟨hk, _⟩
      · unfold closeCtx at h
        cases hop : operate o i out with
        | error e => rw [hop] at h; cases h
        | ok out' =>
          rw [hop] at h
          have hne : ∀ o' i', SEntry.op o i = .op o' i' → ¬ IsTilde o' := by
            intro o' i' he; injection he with he _; subst he; exact inner_not_tilde hk
          exact ih out' s' (operate_inner o i B out out' hk hB h1 hop) (stackInv_tailM h2 hne) h
      · exact absurd h (closeCtx_noctx op _ out s' (struct_top_noctxM h2.2.1 hk))

def GroupOkM (g : List OpSpec) : Prop := (∀ c ∈ g, CandPB c) ∨ (∀ c ∈ g, CandTM c)

theorem runCands_invM (gs : List (List OpSpec)) : ∀ (s s' : ShState),
    (∀ g ∈ gs, GroupOkM g) → (∃ B, InvM B s) → runCands gs s = .ok s' → ∃ B', InvM B' s' := by
  induction gs with
  | nil => intro s s' _ hi h; simp [runCands] at h; subst h; exact hi
  | cons g gs ih =>
    intro s s' hg hi h
    unfold runCands at h
    cases ht : tryCands g s with
    | error e => rw [ht] at h; cases h
    | ok s1 =>
      rw [ht] at h
      have hi1 : ∃ B, InvM B s1 := by
        rcases hg g (by simp) with hg' | hg'
        · obtain ⟨B, hi⟩ := hi
          exact ⟨B, tryCands_PBM B g s s1 hg' hi ht⟩
        · exact tryCands_TM g s s1 hg' (Or.inl hi) ht
      exact ih s1 s' (fun g' h' => hg g' (List.mem_cons_of_mem _ h')) hi1 h

/-- every candidate group of the table is of one of the two documented kinds (the `~` group may
contain the enabled multistage `~`) -/
def TabOkM (tab : OpTable) : Prop := ∀ p ∈ tab, GroupOkM p.2

theorem shuntStep_invM (tab : OpTable) (htab : TabOkM tab) (s s' : ShState) (t : Tok)
    (hi : ∃ B, InvM B s) (h : shuntStep tab s t = .ok s') : ∃ B', InvM B' s' := by
  have hctx : ∀ c, ∃ B, InvM B { s with stack := .ctx c s.out.length :: s.stack } := by
    intro c
    obtain ⟨B, ho, hs⟩ := hi
    refine ⟨B, ho, ?_, ⟨fun hst => (by cases hst), hs.2.1⟩, bot_cons _ hs.2.2.1, ⟨?_, hs.2.2.2⟩⟩
    · intro e he
      rcases List.mem_cons.mp he with rfl | he
      · exact ho.2.2
      · exact hs.1 e he
    · intro o i he; cases he
  unfold shuntStep at h
  split at h
  · split at h
    · injection h with h; subst h; exact hctx _
    · split at h
      · injection h with h; subst h; exact hctx _
      · obtain ⟨B, hi⟩ := hi
        split at h
        · exact ⟨B, closeCtx_invM _ B _ _ _ hi.1 hi.2 h⟩
        · split at h
          · exact ⟨B, closeCtx_invM _ B _ _ _ hi.1 hi.2 h⟩
          · cases h
  · cases hr : resolveToken tab t.text with
    | error e => rw [hr] at h; cases h
    | ok gs =>
      rw [hr] at h
      refine runCands_invM gs s s' ?_ hi h
      intro g hg
      obtain ⟨p, hp, hpg⟩ := resolveToken_groups tab _ gs hr g hg
      rw [← hpg]; exact htab p hp
  · injection h with h; subst h
    obtain ⟨B, ⟨h1, h2, h3⟩, hs⟩ := hi
    refine ⟨B, ⟨?_, ?_, ?_⟩, hs⟩
    · intro a ha
      simp only [List.mem_append, List.mem_cons, List.mem_nil_iff, or_false] at ha
      rcases ha with ha | ha
      · exact h1 a ha
      · subst ha; exact ShapeM.inner (MT.leaf t)
    · intro a ha
      rw [List.drop_append] at ha
      simp only [List.mem_append] at ha
      rcases ha with ha | ha
      · exact h2 a ha
      · have := List.mem_of_mem_drop ha
        simp only [List.mem_cons, List.mem_nil_iff, or_false] at this
        subst this; exact MT.leaf t
    · simp only [List.length_append, List.length_cons, List.length_nil]; omega

theorem shuntRun_invM (tab : OpTable) (htab : TabOkM tab) (ts : List Tok) : ∀ (s s' : ShState),
    (∃ B, InvM B s) → shuntRun tab ts s = .ok s' → ∃ B', InvM B' s' := by
  induction ts with
  | nil => intro s s' hi h; simp [shuntRun] at h; subst h; exact hi
  | cons t ts ih =>
    intro s s' hi h
    unfold shuntRun at h
    cases hs : shuntStep tab s t with
    | error e => rw [hs] at h; cases h
    | ok s1 =>
      rw [hs] at h
      exact ih s1 s' (shuntStep_invM tab htab s s1 t hi hs) h

theorem finish_structM : ∀ (stk : List SEntry) (out out' : List Ast),
    AllShapeM out → (∀ e ∈ stk, ∃ o i, e = .op o i ∧ StructOp o) → finish out stk = .ok out' → AllShapeM out' := by
  intro stk
  induction stk with
  | nil => intro out out' h1 _ h; simp [finish] at h; subst h; exact h1
  | cons en stk ih =>
    intro out out' h1 h2 h
    obtain ⟨o, i, he, hk⟩ := h2 en (by simp)
    subst he
    unfold finish at h
    cases hop : operate o i out with
    | error e => rw [hop] at h; cases h
    | ok o1 =>
      rw [hop] at h
      exact ih o1 out' (operate_structM o i out o1 hk h1 hop) (fun e he => h2 e (List.mem_cons_of_mem _ he)) h

theorem finish_invM (B : Nat) : ∀ (stk : List SEntry) (out out' : List Ast),
    OutInvM B out → StackInvM B stk → finish out stk = .ok out' → AllShapeM out' := by
  intro stk
  induction stk with
  | nil => intro out out' h1 _ h; simp [finish] at h; subst h; exact h1.1
  | cons en stk ih =>
    intro out out' h1 h2 h
    cases en with
    | ctx ch i => simp [finish] at h
    | op o i =>
      rcases h2.1 (.op o i) (by simp) with ⟨hk, hB⟩ | ⟨hk, _⟩
      · unfold finish at h
        cases hop : operate o i out with
        | error e => rw [hop] at h; cases h
        | ok o1 =>
          rw [hop] at h
          have hne : ∀ o' i', SEntry.op o i = .op o' i' → ¬ IsTilde o' := by
            intro o' i' he; injection he with he _; subst he; exact inner_not_tilde hk
          exact ih o1 out' (operate_inner o i B out o1 hk hB h1 hop) (stackInv_tailM h2 hne) h
      · refine finish_structM _ out out' h1.1 ?_ h
        intro e he
        have hstr : isStructM e := by
          rcases List.mem_cons.mp he with rfl | he'
          · exact hk
          · exact h2.2.1.1 hk e he'
        cases e with
        | ctx c j => exact absurd hstr (by simp [isStructM])
        | op o' j => exact ⟨o', j, rfl, hstr⟩

theorem inv0 : ∃ B, InvM B ({} : ShState) :=
  ⟨0, ⟨fun a ha => (by cases ha), fun a ha => (by cases ha), Nat.le_refl _⟩,
    fun e he => (by cases he), trivial, Or.inl rfl, trivial⟩

/-- (2) the shape invariant, for every token list and every table of the documented kinds -/
theorem shunt_shapeM (tab : OpTable) (htab : TabOkM tab) (ts : List Tok) (a : Ast)
    (h : tokensToAst tab ts = .ok (some a)) : ShapeM a := by
  unfold tokensToAst at h
  cases hr : shuntRun tab ts {} with
  | error e => rw [hr] at h; cases h
  | ok s =>
    rw [hr] at h
    simp only at h
    obtain ⟨B, hi⟩ := shuntRun_invM tab htab ts {} s inv0 hr
    cases hf : finish s.out s.stack with
    | error e => rw [hf] at h; cases h
    | ok l =>
      rw [hf] at h
      have hl := finish_invM B s.stack s.out l hi.1 hi.2 hf
      match l, h, hl with
      | [b], h, hl =>
        simp only at h
        injection h with h; injection h with h; subst h
        exact hl _ (by simp)
      | [], h, _ => cases h
      | _ :: _ :: _, h, _ => cases h

open FormulaicVerif.Proofs.C14 (Good KnownOp evalAst_node evalArgs_cons merge_sets1 merge_sets2
  applyPlain_good1 applyPlain_good2)

/-! ### (3) evaluation -/

/-- the value of a multistage stage, and of every non-structural combination of such values:
`Structured(root=<terms>, deps=(…))` -/
def sd (d : List Val) (t : List Term) : Val := .struct [("deps", .tuple d), ("root", .set t)]

/-- values of inner trees: a term set or a `{deps, root}` structure -/
def MV (v : Val) : Prop := (∃ ts, v = .set ts) ∨ (∃ d t, v = sd d t)

/-- no multistage `~` occurs in the tree -/
def stageFree : Ast → Bool
  | .leaf _ => true
  | .node o args => (o.ctx != .lastIsSquare) && allSF args
where
  allSF : List Ast → Bool
    | [] => true
    | a :: as => stageFree a && allSF as

/-- no multistage `~` has a multistage `~` inside its LEFT argument (the signature of finding C14-F1) -/
def lhsFlat : Ast → Bool
  | .leaf _ => true
  | .node o args =>
    (if o.ctx == .lastIsSquare then (match args with | l :: _ => stageFree l | [] => true) else true) && allLF args
where
  allLF : List Ast → Bool
    | [] => true
    | a :: as => lhsFlat a && allLF as

theorem allLF_mem : ∀ (args : List Ast), lhsFlat.allLF args = true → ∀ a ∈ args, lhsFlat a = true := by
  intro args
  induction args with
  | nil => intro _ a ha; cases ha
  | cons x xs ih =>
    intro h a ha
    simp only [lhsFlat.allLF, Bool.and_eq_true] at h
    rcases List.mem_cons.mp ha with rfl | ha
    · exact h.1
    · exact ih h.2 a ha

def nieS : String := "NotImplementedError"

/-- outcome classes of an inner tree, indexed by the two syntactic facts about it -/
def Res (free flat : Bool) (r : Except ParseErr Val) : Prop :=
  (∃ v, r = .ok v ∧ MV v ∧ (free = true → ∃ ts, v = .set ts)) ∨
  (∃ w, r = .error (.syntax w)) ∨
  (flat = false ∧ r = .error (.internal nieS))

/-! #### merging `{deps, root}` structures -/

theorem g_sd_set (d : List Val) (t u : List Term) :
    groupByKey [sd d t, .set u] = [("deps", [.tuple d]), ("root", [.set t, .set u])] := by
  simp [groupByKey, sd, kvSet]

theorem g_set_sd (d : List Val) (t u : List Term) :
    groupByKey [.set u, sd d t] = [("root", [.set u, .set t]), ("deps", [.tuple d])] := by
  simp [groupByKey, sd, kvSet]

theorem g_sd_sd (d e : List Val) (t u : List Term) :
    groupByKey [sd d t, sd e u] = [("deps", [.tuple d, .tuple e]), ("root", [.set t, .set u])] := by
  simp [groupByKey, sd, kvSet]

theorem g_sd (d : List Val) (t : List Term) :
    groupByKey [sd d t] = [("deps", [.tuple d]), ("root", [.set t])] := by
  simp [groupByKey, sd, kvSet]

theorem ms2 (m : List (List Term) → Except ParseErr (List Term)) (x y : List Term) (n : Nat) (b : Bool) :
    mergeVals m (n + 1) b [.set x, .set y] = (m [x, y]).map Val.set := by
  simp [mergeVals, Val.isTuple, Val.isStruct]

theorem mt2 (m : List (List Term) → Except ParseErr (List Term)) (x y : List Val) (n : Nat) :
    mergeVals m (n + 1) true [.tuple x, .tuple y] = .ok (.tuple (x ++ y)) := by
  simp [mergeVals, Val.isTuple, Val.isStruct]

theorem merge_sd_set (m : List (List Term) → Except ParseErr (List Term)) (n : Nat) (d : List Val) (t u : List Term) :
    mergeVals m (n + 2) false [sd d t, .set u] =
      (match m [t, u] with | .error e => .error e | .ok r => .ok (sd d r)) := by
  rw [mergeVals]
  have h1 : ([sd d t, Val.set u].isEmpty) = false := rfl
  have h2 : ([sd d t, Val.set u].all Val.isTuple) = false := rfl
  have h3 : ([sd d t, Val.set u].any Val.isTuple) = false := rfl
  have h4 : ([sd d t, Val.set u].all (fun o => !o.isStruct)) = false := rfl
  simp only [h1, h2, h3, h4, g_sd_set, Bool.false_eq_true, if_false, Bool.false_and]
  simp only [mergeGroups, ms2]
  cases m [t, u] <;> rfl

theorem merge_set_sd (m : List (List Term) → Except ParseErr (List Term)) (n : Nat) (d : List Val) (t u : List Term) :
    mergeVals m (n + 2) false [.set u, sd d t] =
      (match m [u, t] with | .error e => .error e | .ok r => .ok (sd d r)) := by
  rw [mergeVals]
  have h1 : ([Val.set u, sd d t].isEmpty) = false := rfl
  have h2 : ([Val.set u, sd d t].all Val.isTuple) = false := rfl
  have h3 : ([Val.set u, sd d t].any Val.isTuple) = false := rfl
  have h4 : ([Val.set u, sd d t].all (fun o => !o.isStruct)) = false := rfl
  simp only [h1, h2, h3, h4, g_set_sd, Bool.false_eq_true, if_false, Bool.false_and]
  simp only [mergeGroups, ms2]
  cases m [u, t] <;> rfl

theorem merge_sd_sd (m : List (List Term) → Except ParseErr (List Term)) (n : Nat) (d e : List Val) (t u : List Term) :
    mergeVals m (n + 2) false [sd d t, sd e u] =
      (match m [t, u] with | .error x => .error x | .ok r => .ok (sd (d ++ e) r)) := by
  rw [mergeVals]
  have h1 : ([sd d t, sd e u].isEmpty) = false := rfl
  have h2 : ([sd d t, sd e u].all Val.isTuple) = false := rfl
  have h3 : ([sd d t, sd e u].any Val.isTuple) = false := rfl
  have h4 : ([sd d t, sd e u].all (fun o => !o.isStruct)) = false := rfl
  simp only [h1, h2, h3, h4, g_sd_sd, Bool.false_eq_true, if_false, Bool.false_and]
  simp only [mergeGroups, ms2, mt2]
  cases m [t, u] <;> rfl

theorem merge_sd (m : List (List Term) → Except ParseErr (List Term)) (n : Nat) (d : List Val) (t : List Term) :
    mergeVals m (n + 2) false [sd d t] = .ok (sd d t) := by
  rw [mergeVals]
  have h1 : ([sd d t].isEmpty) = false := rfl
  have h2 : ([sd d t].all Val.isTuple) = false := rfl
  have h3 : ([sd d t].any Val.isTuple) = false := rfl
  have h4 : ([sd d t].all (fun o => !o.isStruct)) = false := rfl
  simp only [h1, h2, h3, h4, g_sd, Bool.false_eq_true, if_false, Bool.false_and]
  simp only [mergeGroups]
  rfl

theorem sd_ne_set {d : List Val} {t ts : List Term} : sd d t ≠ .set ts := by
  intro h; simp [sd] at h

/-- merging two inner values with a binary non-structural operator whose result on term sets is a
term set or the parsing error -/
theorem merge2 (m : List (List Term) → Except ParseErr (List Term))
    (hm : ∀ x y, (∃ ts, m [x, y] = .ok ts) ∨ (∃ w, m [x, y] = .error (.syntax w)))
    (f : Nat) (hf : 2 ≤ f) (v1 v2 : Val) (h1 : MV v1) (h2 : MV v2) :
    (∃ v, mergeVals m f false [v1, v2] = .ok v ∧ MV v ∧
        ((∃ a, v1 = .set a) → (∃ b, v2 = .set b) → ∃ ts, v = .set ts)) ∨
    (∃ w, mergeVals m f false [v1, v2] = .error (.syntax w)) := by
  obtain ⟨n, rfl⟩ : ∃ n, f = n + 2 := ⟨f - 2, by omega⟩
  rcases h1 with ⟨a, rfl⟩ | ⟨d, t, rfl⟩ <;> rcases h2 with ⟨b, rfl⟩ | ⟨e, u, rfl⟩
  · rw [ms2]
    rcases hm a b with ⟨ts, h⟩ | ⟨w, h⟩ <;> rw [h]
    · left; exact ⟨.set ts, rfl, Or.inl ⟨ts, rfl⟩, fun _ _ => ⟨ts, rfl⟩⟩
    · right; exact ⟨w, rfl⟩
  · rw [merge_set_sd]
    rcases hm a u with ⟨ts, h⟩ | ⟨w, h⟩ <;> rw [h]
    · left; exact ⟨sd e ts, rfl, Or.inr ⟨e, ts, rfl⟩, fun _ hb => by obtain ⟨b, hb⟩ := hb; exact (sd_ne_set hb).elim⟩
    · right; exact ⟨w, rfl⟩
  · rw [merge_sd_set]
    rcases hm t b with ⟨ts, h⟩ | ⟨w, h⟩ <;> rw [h]
    · left; exact ⟨sd d ts, rfl, Or.inr ⟨d, ts, rfl⟩, fun ha _ => by obtain ⟨a, ha⟩ := ha; exact (sd_ne_set ha).elim⟩
    · right; exact ⟨w, rfl⟩
  · rw [merge_sd_sd]
    rcases hm t u with ⟨ts, h⟩ | ⟨w, h⟩ <;> rw [h]
    · left; exact ⟨sd (d ++ e) ts, rfl, Or.inr ⟨_, ts, rfl⟩, fun ha _ => by obtain ⟨a, ha⟩ := ha; exact (sd_ne_set ha).elim⟩
    · right; exact ⟨w, rfl⟩

theorem merge1 (m : List (List Term) → Except ParseErr (List Term))
    (hm : ∀ x, ∃ ts, m [x] = .ok ts) (f : Nat) (hf : 2 ≤ f) (v1 : Val) (h1 : MV v1) :
    ∃ v, mergeVals m f false [v1] = .ok v ∧ MV v ∧ ((∃ a, v1 = .set a) → ∃ ts, v = .set ts) := by
  obtain ⟨n, rfl⟩ : ∃ n, f = n + 2 := ⟨f - 2, by omega⟩
  rcases h1 with ⟨a, rfl⟩ | ⟨d, t, rfl⟩
  · rw [merge_sets1]
    obtain ⟨ts, h⟩ := hm a
    rw [h]
    exact ⟨.set ts, rfl, Or.inl ⟨ts, rfl⟩, fun _ => ⟨ts, rfl⟩⟩
  · rw [merge_sd]
    exact ⟨sd d t, rfl, Or.inr ⟨d, t, rfl⟩, fun ha => by obtain ⟨a, ha⟩ := ha; exact (sd_ne_set ha).elim⟩

/-- the multistage `~` applied to two inner values -/
theorem stage_apply (o : OpSpec) (hk : IsTildeM o) (vl vr : Val) (hl : MV vl) :
    (∃ ts, vl = .set ts ∧ ∃ d t, applyStructural o [vl, vr] = .ok (sd d t)) ∨
    (∃ d t, vl = sd d t ∧ applyStructural o [vl, vr] = .error (.internal nieS)) := by
  unfold applyStructural
  rw [hk.1, hk.2.1, hk.2.2.2.2.2.2]
  rcases hl with ⟨ts, rfl⟩ | ⟨d, t, rfl⟩
  · left; exact ⟨ts, rfl, _, _, rfl⟩
  · right; exact ⟨d, t, rfl, rfl⟩

/-- (3a) evaluation of an inner tree -/
theorem mt_res (dot : DotCtx) (a : Ast) (h : MT a) : Res (stageFree a) (lhsFlat a) (evalAst dot a) := by
  induction h with
  | leaf t => left; exact ⟨.set [termOfTok t], by simp [evalAst], Or.inl ⟨_, rfl⟩, fun _ => ⟨_, rfl⟩⟩
  | node o args hk hlen hargs ih =>
    rcases hk with hk | hk
    · have hctx : (o.ctx != .lastIsSquare) = true := by rw [hk.2.1]; rfl
      have hctx' : (o.ctx == .lastIsSquare) = false := by rw [hk.2.1]; rfl
      rcases hk.2.2.2 with ⟨hf, ha, hs⟩ | ⟨hf, ha, hs⟩ | ⟨hf, ha, hs⟩
      · obtain ⟨l, r, hl⟩ := len2 args (by rw [hlen, ha])
        subst hl
        have hko : KnownOp o 2 := ⟨hk.1, Or.inl ⟨hf, rfl, hs⟩⟩
        have il := ih l (by simp)
        have ir := ih r (by simp)
        have hsf : stageFree (.node o [l, r]) = (stageFree l && stageFree r) := by
          simp [stageFree, stageFree.allSF, hctx]
        have hlf : lhsFlat (.node o [l, r]) = (lhsFlat l && lhsFlat r) := by
          simp [lhsFlat, lhsFlat.allLF, hctx']
        rw [hsf, hlf]
        simp only [evalAst_node, evalArgs_cons]
        rcases il with ⟨vl, hvl, hml, hfl⟩ | ⟨w, hw⟩ | ⟨hfl, hel⟩
        · rcases ir with ⟨vr, hvr, hmr, hfr⟩ | ⟨w, hw⟩ | ⟨hfr, her⟩
          · rw [hvl, hvr]
            simp only [evalArgs_nil, hk.1, Bool.false_eq_true, if_false, List.isEmpty_cons]
            rcases merge2 (applyPlain o dot) (fun x y => applyPlain_good2 o dot x y hko) ([vl, vr].length + 64)
                (by simp) vl vr hml hmr
              with ⟨v, hv, hmv, hset⟩ | ⟨w, hw⟩
            · left
              refine ⟨v, hv, hmv, ?_⟩
              intro hfree
              simp only [Bool.and_eq_true] at hfree
              exact hset (hfl hfree.1) (hfr hfree.2)
            · right; left; exact ⟨w, hw⟩
          · rw [hvl, hw]; right; left; exact ⟨w, rfl⟩
          · rw [hvl, her]; right; right; exact ⟨by simp [hfr], rfl⟩
        · rw [hw]; right; left; exact ⟨w, rfl⟩
        · rw [hel]; right; right; exact ⟨by simp [hfl], rfl⟩
      · obtain ⟨x, hl⟩ := len1 args (by rw [hlen, ha])
        subst hl
        have hko : KnownOp o 1 := ⟨hk.1, Or.inr ⟨hf, rfl, hs⟩⟩
        have ix := ih x (by simp)
        have hsf : stageFree (.node o [x]) = stageFree x := by
          simp [stageFree, stageFree.allSF, hctx]
        have hlf : lhsFlat (.node o [x]) = lhsFlat x := by
          simp [lhsFlat, lhsFlat.allLF, hctx']
        rw [hsf, hlf]
        simp only [evalAst_node, evalArgs_cons]
        rcases ix with ⟨vx, hvx, hmx, hfx⟩ | ⟨w, hw⟩ | ⟨hfx, hex⟩
        · rw [hvx]
          simp only [evalArgs_nil, hk.1, Bool.false_eq_true, if_false, List.isEmpty_cons]
          obtain ⟨v, hv, hmv, hset⟩ := merge1 (applyPlain o dot) (fun y => applyPlain_good1 o dot y hko)
            ([vx].length + 64) (by simp) vx hmx
          left
          exact ⟨v, hv, hmv, fun hfree => hset (hfx hfree)⟩
        · rw [hw]; right; left; exact ⟨w, rfl⟩
        · rw [hex]; right; right; exact ⟨hfx, rfl⟩
      · have hl := len0 args (by rw [hlen, ha])
        subst hl
        simp only [evalAst_node, evalArgs_nil, hk.1, Bool.false_eq_true, if_false, List.isEmpty_nil, if_true]
        unfold applyPlain
        rw [hs, hf]
        simp only
        cases dot.available with
        | none => right; left; exact ⟨_, rfl⟩
        | some av => left; exact ⟨_, rfl, Or.inl ⟨_, rfl⟩, fun _ => ⟨_, rfl⟩⟩
    · have hctx : (o.ctx != .lastIsSquare) = false := by rw [hk.2.2.2.2.2.2]; rfl
      have hctx' : (o.ctx == .lastIsSquare) = true := by rw [hk.2.2.2.2.2.2]; rfl
      obtain ⟨l, r, hl⟩ := len2 args (by rw [hlen, hk.2.2.1])
      subst hl
      have il := ih l (by simp)
      have ir := ih r (by simp)
      have hsf : stageFree (.node o [l, r]) = false := by
        simp [stageFree, hctx]
      have hlf : lhsFlat (.node o [l, r]) = (stageFree l && (lhsFlat l && lhsFlat r)) := by
        simp [lhsFlat, lhsFlat.allLF, hctx']
      rw [hsf, hlf]
      simp only [evalAst_node, evalArgs_cons]
      rcases il with ⟨vl, hvl, hml, hfl⟩ | ⟨w, hw⟩ | ⟨hfl, hel⟩
      · rcases ir with ⟨vr, hvr, hmr, hfr⟩ | ⟨w, hw⟩ | ⟨hfr, her⟩
        · rw [hvl, hvr]
          simp only [evalArgs_nil, hk.2.2.2.2.2.1, if_true]
          rcases stage_apply o hk vl vr hml with ⟨ts, _, d, t, hap⟩ | ⟨d, t, hvs, hap⟩
          · left; exact ⟨sd d t, hap, Or.inr ⟨d, t, rfl⟩, fun hc => by cases hc⟩
          · right; right
            refine ⟨?_, hap⟩
            have : stageFree l = false := by
              cases hsl : stageFree l with
              | false => rfl
              | true =>
                obtain ⟨ts, hts⟩ := hfl hsl
                rw [hvs] at hts
                exact (sd_ne_set hts).elim
            simp [this]
        · rw [hvl, hw]; right; left; exact ⟨w, rfl⟩
        · rw [hvl, her]; right; right; exact ⟨by simp [hfr], rfl⟩
      · rw [hw]; right; left; exact ⟨w, rfl⟩
      · rw [hel]; right; right; exact ⟨by simp [hfl], rfl⟩

/-! #### top-level structural operators over inner trees -/

theorem evalArgs_error (dot : DotCtx) : ∀ (args : List Ast) (e : ParseErr),
    evalAst.evalArgs dot args = .error e → ∃ a ∈ args, evalAst dot a = .error e := by
  intro args
  induction args with
  | nil => intro e h; rw [evalArgs_nil] at h; cases h
  | cons a as ih =>
    intro e h
    rw [evalArgs_cons] at h
    cases ha : evalAst dot a with
    | error e' =>
      rw [ha] at h
      injection h with h; subst h
      exact ⟨a, by simp, ha⟩
    | ok v =>
      rw [ha] at h
      cases hs : evalAst.evalArgs dot as with
      | error e' =>
        rw [hs] at h
        injection h with h; subst h
        obtain ⟨b, hb, he⟩ := ih e' hs
        exact ⟨b, List.mem_cons_of_mem _ hb, he⟩
      | ok vs => rw [hs] at h; cases h

theorem evalArgs_length (dot : DotCtx) : ∀ (args : List Ast) (vs : List Val),
    evalAst.evalArgs dot args = .ok vs → vs.length = args.length := by
  intro args
  induction args with
  | nil => intro vs h; rw [evalArgs_nil] at h; injection h with h; subst h; rfl
  | cons a as ih =>
    intro vs h
    rw [evalArgs_cons] at h
    cases ha : evalAst dot a with
    | error e' => rw [ha] at h; cases h
    | ok v =>
      rw [ha] at h
      cases hs : evalAst.evalArgs dot as with
      | error e' => rw [hs] at h; cases h
      | ok ws =>
        rw [hs] at h
        injection h with h; subst h
        simp [ih ws hs]

/-- (3) evaluation of a tree with the shape: the only internal exception is the
`NotImplementedError`, and only when some multistage `~` has a multistage `~` in its left argument -/
theorem shapeM_internal (dot : DotCtx) (a : Ast) (h : ShapeM a) :
    ∀ k, evalAst dot a = .error (.internal k) → k = nieS ∧ lhsFlat a = false := by
  induction h with
  | inner hm =>
    intro k hk
    rcases mt_res dot _ hm with ⟨v, hv, _⟩ | ⟨w, hw⟩ | ⟨hf, he⟩
    · rw [hv] at hk; cases hk
    · rw [hw] at hk; cases hk
    · rw [he] at hk
      injection hk with hk; injection hk with hk
      exact ⟨hk.symm, hf⟩
  | struct o args ho hlen hargs ih =>
    intro k hk
    have hctx : (o.ctx == .lastIsSquare) = false := by
      rcases ho with (h | h) | h
      · rw [h.2.2.2.2.2.2]; rfl
      · rw [h.2.2.2.2.2.2]; rfl
      · rw [h.2.2.2.2.2.2]; rfl
    rw [evalAst_node] at hk
    cases hv : evalAst.evalArgs dot args with
    | error e =>
      rw [hv] at hk
      injection hk with hk
      subst hk
      obtain ⟨b, hb, he⟩ := evalArgs_error dot args _ hv
      obtain ⟨h1, h2⟩ := ih b hb k he
      refine ⟨h1, ?_⟩
      cases hlf : lhsFlat (.node o args) with
      | false => rfl
      | true =>
        simp only [lhsFlat, hctx, Bool.false_eq_true, if_false, Bool.true_and] at hlf
        rw [allLF_mem args hlf b hb] at h2
        cases h2
    | ok vs =>
      rw [hv] at hk
      simp only [ho.st, if_true] at hk
      obtain ⟨v, hv'⟩ := applyStructural_ok o vs ho (by rw [evalArgs_length dot args vs hv, hlen])
      rw [hv'] at hk
      cases hk

/-! ### the documented tables, all eight flag subsets -/

open FormulaicVerif.Spec.Wilkinson in
theorem tabOkM_documented (twosided multipart multistage : Bool) :
    TabOkM (documentedTable twosided multipart multistage) := by
  intro p hp
  simp only [documentedTable, List.mem_cons, List.mem_nil_iff, or_false] at hp
  rcases hp with rfl | rfl | rfl | rfl | rfl | rfl | rfl | rfl | rfl | rfl | rfl
  · right
    intro c hc
    simp only [List.mem_cons, List.mem_nil_iff, or_false] at hc
    rcases hc with rfl | rfl | rfl
    · cases twosided
      · exact Or.inr (Or.inr rfl)
      · exact Or.inl (Or.inl ⟨rfl, rfl, rfl, rfl, rfl, rfl, rfl⟩)
    · cases multistage
      · exact Or.inr (Or.inr rfl)
      · exact Or.inr (Or.inl ⟨rfl, rfl, rfl, rfl, rfl, rfl, rfl⟩)
    · exact Or.inl (Or.inr ⟨rfl, rfl, rfl, rfl, rfl, rfl, rfl⟩)
  · left
    intro c hc
    simp only [List.mem_cons, List.mem_nil_iff, or_false] at hc
    subst hc
    exact Or.inr (Or.inl ⟨rfl, rfl, rfl, rfl, rfl, rfl, rfl⟩)
  all_goals
    left
    intro c hc
    simp only [List.mem_cons, List.mem_nil_iff, or_false] at hc
    first
    | (rcases hc with rfl | rfl
       · exact Or.inl (knownPlain_bin _ _ _ (by simp) (by decide))
       · exact Or.inl (knownPlain_pre _ _ (by simp) (by decide)))
    | (subst hc; exact Or.inl (knownPlain_bin _ _ _ (by simp) (by decide)))
    | (subst hc; exact Or.inl ⟨rfl, rfl, by decide, Or.inr (Or.inr ⟨rfl, rfl, rfl⟩)⟩)

/-! ### the theorems -/

/-- every tree any of the eight parsers returns has the shape -/
theorem live_shapeM (twosided multipart multistage : Bool) (ts : List Tok) (a : Ast)
    (h : tokensToAst (Gen.defaultTable twosided multipart multistage) ts = .ok (some a)) : ShapeM a := by
  rw [Props.C01.table_is_documented] at h
  exact shunt_shapeM _ (tabOkM_documented twosided multipart multistage) ts a h

/-- **C14 for every flag subset.** If `parseTerms` fails with an internal exception, then it is the
`NotImplementedError` of finding C14-F1: the tokens were produced, the shunting-yard returned a tree,
and in that tree some multistage `~` has a multistage `~` inside its left argument. -/
theorem parseTerms_internal (cfg : ParseCfg) (env : PyEnv)
    (hnorm : ∀ t x, env.norm t = .error x → x = .syntaxError) (cs : List CharInfo) (k : String)
    (h : parseTerms cfg env cs = .error (.internal k)) :
    k = nieS ∧ ∃ ts lhs a, getTokens cfg env cs = .ok (ts, lhs) ∧ tokensToAst cfg.table ts = .ok (some a) ∧
      lhsFlat a = false := by
  unfold parseTerms at h
  cases hg : getTokens cfg env cs with
  | error e =>
    rw [hg] at h
    injection h with h
    subst h
    rcases Proofs.C14.pySyntax_only_from_fragment cfg env cs _ hnorm hg with ⟨w, hw⟩ | ⟨hw, _⟩
    · cases hw
    · cases hw
  | ok p =>
    obtain ⟨ts, lhs⟩ := p
    rw [hg] at h
    simp only at h
    cases ht : tokensToAst cfg.table ts with
    | error e =>
      rw [ht] at h
      injection h with h
      subst h
      obtain ⟨w, hw⟩ := Proofs.C14.shunt_errors_are_syntax _ _ _ ht
      cases hw
    | ok oa =>
      rw [ht] at h
      cases oa with
      | none => cases h
      | some a =>
        simp only at h
        have hshape : ShapeM a := live_shapeM cfg.twosided cfg.multipart cfg.multistage ts a ht
        cases he : evalAst { available := env.available, usedLhs := lhsVariables env lhs } a with
        | error e =>
          rw [he] at h
          injection h with h
          subst h
          obtain ⟨h1, h2⟩ := shapeM_internal _ a hshape k he
          exact ⟨h1, ts, lhs, a, rfl, ht, h2⟩
        | ok v =>
          rw [he] at h
          simp only at h
          split at h
          · rename_i e hc
            injection h with h
            subst h
            exact (checkVal_noInt _ k hc).elim
          · cases h

end FormulaicVerif.Proofs.C14Multistage
