import FormulaicVerif.Model.PartsHist
import FormulaicVerif.Proofs.C07
import Batteries.Data.List.Perm
/-! Helper lemmas for the HISTORY part of C07 (`Model/PartsHist.lean`; not obligations): loops over
leaf lists, putting results back into the structure (`refill`), the joint/per-spec scan, the
evaluation loop with the kind guard, the lazy encoder loop, one pass of the per-spec branch. -/
namespace FormulaicVerif.Proofs.C07Hist
open FormulaicVerif.Model FormulaicVerif.Model.Parts FormulaicVerif.Model.PartsHist FormulaicVerif.Model.St
open FormulaicVerif.Spec.Containers FormulaicVerif.Proofs.C19 FormulaicVerif.Proofs.C07

/-! ### `mapL` -/

section lists
variable {α β ε : Type}

theorem mapL_spec (f : α → Except ε β) : ∀ (l : List α) (r : List β), mapL f l = .ok r →
    List.Forall₂ (fun a b => f a = .ok b) l r
  | [], r, h => by
    simp only [mapL, Except.ok.injEq] at h
    subst h; exact .nil
  | a :: l, r, h => by
    simp only [mapL] at h
    cases ha : f a with
    | error e => simp [ha] at h
    | ok b =>
      simp only [ha] at h
      cases hl : mapL f l with
      | error e => simp [hl] at h
      | ok bs =>
        simp only [hl, Except.ok.injEq] at h
        subst h
        exact .cons ha (mapL_spec f l bs hl)

theorem mapL_ok (f : α → Except ε β) : ∀ (l : List α), (∀ a ∈ l, ∃ b, f a = .ok b) → ∃ r, mapL f l = .ok r
  | [], _ => ⟨[], rfl⟩
  | a :: l, h => by
    obtain ⟨b, hb⟩ := h a (by simp)
    obtain ⟨r, hr⟩ := mapL_ok f l (fun x hx => h x (by simp [hx]))
    exact ⟨b :: r, by simp [mapL, hb, hr]⟩

theorem mapL_error (f : α → Except ε β) : ∀ (l : List α) (e : ε), mapL f l = .error e → ∃ a ∈ l, f a = .error e
  | [], e, h => by simp [mapL] at h
  | a :: l, e, h => by
    simp only [mapL] at h
    cases ha : f a with
    | error e' =>
      simp only [ha, Except.error.injEq] at h
      subst h
      exact ⟨a, by simp, ha⟩
    | ok b =>
      simp only [ha] at h
      cases hl : mapL f l with
      | error e' =>
        simp only [hl, Except.error.injEq] at h
        subst h
        obtain ⟨x, hx, hfx⟩ := mapL_error f l e' hl
        exact ⟨x, by simp [hx], hfx⟩
      | ok bs => simp [hl] at h

theorem mapL_length (f : α → Except ε β) {l : List α} {r : List β} (h : mapL f l = .ok r) : r.length = l.length :=
  (mapL_spec f l r h).length_eq.symm

end lists

/-! ### a dict with its `root` key last stays so when only the values change -/

section rootlast
variable {γ δ : Type}

/-- `rootLast xs = xs` says: once a `root` key has appeared, only `root` keys follow -/
theorem rootLast_eq_self_iff : ∀ (xs : List (String × γ)),
    rootLast xs = xs ↔ xs.Pairwise (fun a b => isRootKey a.1 = true → isRootKey b.1 = true)
  | [] => by simp [rootLast]
  | a :: r => by
    have ih := rootLast_eq_self_iff r
    simp only [rootLast] at ih ⊢
    rw [List.pairwise_cons]
    by_cases ha : isRootKey a.1 = true
    · -- `a` is a root key: everything after it must be a root key
      simp only [List.filter_cons, ha, Bool.not_true, Bool.false_eq_true, if_false, if_true]
      constructor
      · intro h
        -- the non-root part is empty: otherwise its head would be `a`
        cases hnr : r.filter (fun kv => !isRootKey kv.1) with
        | nil =>
          have hall : ∀ b ∈ r, isRootKey b.1 = true := by
            intro b hb
            by_contra hc
            have : b ∈ r.filter (fun kv => !isRootKey kv.1) := List.mem_filter.mpr ⟨hb, by simpa using hc⟩
            rw [hnr] at this; simp at this
          refine ⟨fun b hb _ => hall b hb, ?_⟩
          exact List.pairwise_of_forall_mem_list (fun x _ y hy _ => hall y hy)
        | cons c cs =>
          rw [hnr] at h
          simp only [List.cons_append, List.cons.injEq] at h
          have hc : c ∈ r.filter (fun kv => !isRootKey kv.1) := by rw [hnr]; simp
          have := (List.mem_filter.mp hc).2
          rw [h.1] at this
          simp [ha] at this
      · rintro ⟨hall, _⟩
        have h1 : r.filter (fun kv => !isRootKey kv.1) = [] := by
          rw [List.filter_eq_nil_iff]
          intro b hb
          simp [hall b hb trivial]
        have h2 : r.filter (fun kv => isRootKey kv.1) = r := by
          rw [List.filter_eq_self]
          intro b hb
          exact hall b hb trivial
        rw [h1, h2]; rfl
    · have ha' : isRootKey a.1 = false := by simpa using ha
      simp only [List.filter_cons, ha', Bool.not_false, if_true, Bool.false_eq_true, if_false, List.cons_append,
        List.cons.injEq, true_and]
      rw [ih]
      constructor
      · intro h; exact ⟨fun b _ hc => by simp at hc, h⟩
      · intro h; exact h.2

theorem rootLast_eq_self_of_keys {xs : List (String × γ)} {ys : List (String × δ)}
    (hk : xs.map (·.1) = ys.map (·.1)) (h : rootLast xs = xs) : rootLast ys = ys := by
  rw [rootLast_eq_self_iff] at h ⊢
  have h1 : (xs.map (·.1)).Pairwise (fun a b => isRootKey a = true → isRootKey b = true) := by
    rw [List.pairwise_map]; exact h
  rw [hk, List.pairwise_map] at h1
  exact h1

end rootlast

/-! ### `refill`: the last step of a `_map` whose function answered the values of a list -/

section refill
variable {α β : Type}

theorem mem_flattenI {x : α} : ∀ {kvs : Items α}, x ∈ flattenI kvs ↔ ∃ kv ∈ kvs, x ∈ flatten kv.2
  | [] => by simp [flattenI]
  | (k, v) :: r => by
    simp only [flattenI, List.mem_append, mem_flattenI (kvs := r), List.mem_cons, exists_eq_or_imp]

theorem mem_flattenI_rootLast {x : α} {kvs : Items α} : x ∈ flattenI (rootLast kvs) ↔ x ∈ flattenI kvs := by
  simp only [mem_flattenI, rootLast, List.mem_append, List.mem_filter]
  constructor
  · rintro ⟨kv, (h | h), hx⟩ <;> exact ⟨kv, h.1, hx⟩
  · rintro ⟨kv, h, hx⟩
    by_cases hr : isRootKey kv.1 = true
    · exact ⟨kv, .inr ⟨h, hr⟩, hx⟩
    · exact ⟨kv, .inl ⟨h, by simpa using hr⟩, hx⟩

mutual
theorem refill_shape : ∀ (v : Val α) (l : List β) (r : Val β) (rest : List β),
    refill v l = some (r, rest) → shape r = shape (norm v)
  | .leaf a, [], r, rest, h => by simp [refill] at h
  | .leaf a, b :: l, r, rest, h => by
    simp only [refill, Option.some.injEq, Prod.mk.injEq] at h
    rw [← h.1]; simp [shape, norm]
  | .tup vs, l, r, rest, h => by
    simp only [refill] at h
    cases ht : refillT vs l with
    | none => simp [ht] at h
    | some x =>
      simp only [ht, Option.some.injEq, Prod.mk.injEq] at h
      rw [← h.1]
      simp only [shape, norm, refillT_shape vs l x.1 x.2 ht]
  | .node kvs, l, r, rest, h => by
    simp only [refill] at h
    cases hi : refillI kvs l with
    | none => simp [hi] at h
    | some x =>
      simp only [hi, Option.some.injEq, Prod.mk.injEq] at h
      rw [← h.1]
      have hs := refillI_shape kvs l x.1 x.2 hi
      simp only [shape, norm, shapeI_eq] at hs ⊢
      rw [← rootLast_map_val shape, ← rootLast_map_val shape, hs]
theorem refillT_shape : ∀ (vs : List (Val α)) (l : List β) (rs : List (Val β)) (rest : List β),
    refillT vs l = some (rs, rest) → shapeT rs = shapeT (normT vs)
  | [], l, rs, rest, h => by
    simp only [refillT, Option.some.injEq, Prod.mk.injEq] at h
    rw [← h.1]; simp [shapeT, normT]
  | v :: vs, l, rs, rest, h => by
    simp only [refillT] at h
    cases hv : refill v l with
    | none => simp [hv] at h
    | some a =>
      simp only [hv] at h
      cases ht : refillT vs a.2 with
      | none => simp [ht] at h
      | some b =>
        simp only [ht, Option.some.injEq, Prod.mk.injEq] at h
        rw [← h.1]
        simp only [shapeT, normT, refill_shape v l a.1 a.2 hv, refillT_shape vs a.2 b.1 b.2 ht]
theorem refillI_shape : ∀ (kvs : Items α) (l : List β) (rs : Items β) (rest : List β),
    refillI kvs l = some (rs, rest) → shapeI rs = shapeI (normI kvs)
  | [], l, rs, rest, h => by
    simp only [refillI, Option.some.injEq, Prod.mk.injEq] at h
    rw [← h.1]; simp [shapeI, normI]
  | (k, v) :: kvs, l, rs, rest, h => by
    simp only [refillI] at h
    cases hv : refill v l with
    | none => simp [hv] at h
    | some a =>
      simp only [hv] at h
      cases ht : refillI kvs a.2 with
      | none => simp [ht] at h
      | some b =>
        simp only [ht, Option.some.injEq, Prod.mk.injEq] at h
        rw [← h.1]
        simp only [shapeI, normI, refill_shape v l a.1 a.2 hv, refillI_shape kvs a.2 b.1 b.2 ht]
end

mutual
/-- every leaf of the refilled tree and every unused element comes from the list -/
theorem refill_sub : ∀ (v : Val α) (l : List β) (r : Val β) (rest : List β),
    refill v l = some (r, rest) → (∀ x ∈ flatten r, x ∈ l) ∧ (∀ x ∈ rest, x ∈ l)
  | .leaf a, [], r, rest, h => by simp [refill] at h
  | .leaf a, b :: l, r, rest, h => by
    simp only [refill, Option.some.injEq, Prod.mk.injEq] at h
    rw [← h.1, ← h.2]
    simp [flatten]
    intro x hx; exact .inr hx
  | .tup vs, l, r, rest, h => by
    simp only [refill] at h
    cases ht : refillT vs l with
    | none => simp [ht] at h
    | some x =>
      simp only [ht, Option.some.injEq, Prod.mk.injEq] at h
      rw [← h.1, ← h.2]
      simpa [flatten] using refillT_sub vs l x.1 x.2 ht
  | .node kvs, l, r, rest, h => by
    simp only [refill] at h
    cases hi : refillI kvs l with
    | none => simp [hi] at h
    | some x =>
      simp only [hi, Option.some.injEq, Prod.mk.injEq] at h
      rw [← h.1, ← h.2]
      have := refillI_sub kvs l x.1 x.2 hi
      refine ⟨fun y hy => this.1 y ?_, this.2⟩
      simp only [flatten] at hy
      exact mem_flattenI_rootLast.mp hy
theorem refillT_sub : ∀ (vs : List (Val α)) (l : List β) (rs : List (Val β)) (rest : List β),
    refillT vs l = some (rs, rest) → (∀ x ∈ flattenT rs, x ∈ l) ∧ (∀ x ∈ rest, x ∈ l)
  | [], l, rs, rest, h => by
    simp only [refillT, Option.some.injEq, Prod.mk.injEq] at h
    rw [← h.1, ← h.2]; simp [flattenT]
  | v :: vs, l, rs, rest, h => by
    simp only [refillT] at h
    cases hv : refill v l with
    | none => simp [hv] at h
    | some a =>
      simp only [hv] at h
      cases ht : refillT vs a.2 with
      | none => simp [ht] at h
      | some b =>
        simp only [ht, Option.some.injEq, Prod.mk.injEq] at h
        rw [← h.1, ← h.2]
        obtain ⟨a1, a2⟩ := refill_sub v l a.1 a.2 hv
        obtain ⟨b1, b2⟩ := refillT_sub vs a.2 b.1 b.2 ht
        refine ⟨?_, fun x hx => a2 x (b2 x hx)⟩
        intro x hx
        simp only [flattenT, List.mem_append] at hx
        rcases hx with hx | hx
        · exact a1 x hx
        · exact a2 x (b1 x hx)
theorem refillI_sub : ∀ (kvs : Items α) (l : List β) (rs : Items β) (rest : List β),
    refillI kvs l = some (rs, rest) → (∀ x ∈ flattenI rs, x ∈ l) ∧ (∀ x ∈ rest, x ∈ l)
  | [], l, rs, rest, h => by
    simp only [refillI, Option.some.injEq, Prod.mk.injEq] at h
    rw [← h.1, ← h.2]; simp [flattenI]
  | (k, v) :: kvs, l, rs, rest, h => by
    simp only [refillI] at h
    cases hv : refill v l with
    | none => simp [hv] at h
    | some a =>
      simp only [hv] at h
      cases ht : refillI kvs a.2 with
      | none => simp [ht] at h
      | some b =>
        simp only [ht, Option.some.injEq, Prod.mk.injEq] at h
        rw [← h.1, ← h.2]
        obtain ⟨a1, a2⟩ := refill_sub v l a.1 a.2 hv
        obtain ⟨b1, b2⟩ := refillI_sub kvs a.2 b.1 b.2 ht
        refine ⟨?_, fun x hx => a2 x (b2 x hx)⟩
        intro x hx
        simp only [flattenI, List.mem_append] at hx
        rcases hx with hx | hx
        · exact a1 x hx
        · exact a2 x (b1 x hx)
end

mutual
/-- on a tree whose `root` keys are last the leaves are taken from the list in `_flatten` order -/
theorem refill_flatten : ∀ (v : Val α) (l : List β) (r : Val β) (rest : List β), RootLast v →
    refill v l = some (r, rest) → l = flatten r ++ rest ∧ RootLast r ∧ (flatten r).length = (flatten v).length
  | .leaf a, [], r, rest, _, h => by simp [refill] at h
  | .leaf a, b :: l, r, rest, _, h => by
    simp only [refill, Option.some.injEq, Prod.mk.injEq] at h
    rw [← h.1, ← h.2]; simp [flatten, RootLast]
  | .tup vs, l, r, rest, hv, h => by
    simp only [refill] at h
    cases ht : refillT vs l with
    | none => simp [ht] at h
    | some x =>
      simp only [ht, Option.some.injEq, Prod.mk.injEq] at h
      rw [← h.1, ← h.2]
      simpa [flatten, RootLast] using refillT_flatten vs l x.1 x.2 (by simpa [RootLast] using hv) ht
  | .node kvs, l, r, rest, hv, h => by
    simp only [refill] at h
    simp only [RootLast] at hv
    cases hi : refillI kvs l with
    | none => simp [hi] at h
    | some x =>
      simp only [hi, Option.some.injEq, Prod.mk.injEq] at h
      rw [← h.1, ← h.2]
      obtain ⟨h1, h2, h3, h4⟩ := refillI_flatten kvs l x.1 x.2 hv.2 hi
      have hrl : rootLast x.1 = x.1 := rootLast_eq_self_of_keys h4.symm hv.1
      simp only [flatten, RootLast, hrl]
      exact ⟨h1, ⟨trivial, h2⟩, h3⟩
theorem refillT_flatten : ∀ (vs : List (Val α)) (l : List β) (rs : List (Val β)) (rest : List β), RootLastT vs →
    refillT vs l = some (rs, rest) → l = flattenT rs ++ rest ∧ RootLastT rs ∧ (flattenT rs).length = (flattenT vs).length
  | [], l, rs, rest, _, h => by
    simp only [refillT, Option.some.injEq, Prod.mk.injEq] at h
    rw [← h.1, ← h.2]; simp [flattenT, RootLastT]
  | v :: vs, l, rs, rest, hv, h => by
    simp only [refillT] at h
    simp only [RootLastT] at hv
    cases hv' : refill v l with
    | none => simp [hv'] at h
    | some a =>
      simp only [hv'] at h
      cases ht : refillT vs a.2 with
      | none => simp [ht] at h
      | some b =>
        simp only [ht, Option.some.injEq, Prod.mk.injEq] at h
        rw [← h.1, ← h.2]
        obtain ⟨a1, a2, a3⟩ := refill_flatten v l a.1 a.2 hv.1 hv'
        obtain ⟨b1, b2, b3⟩ := refillT_flatten vs a.2 b.1 b.2 hv.2 ht
        refine ⟨?_, ⟨a2, b2⟩, ?_⟩
        · simp only [flattenT, List.append_assoc]; rw [← b1]; exact a1
        · simp only [flattenT, List.length_append, a3, b3]
theorem refillI_flatten : ∀ (kvs : Items α) (l : List β) (rs : Items β) (rest : List β), RootLastI kvs →
    refillI kvs l = some (rs, rest) →
    l = flattenI rs ++ rest ∧ RootLastI rs ∧ (flattenI rs).length = (flattenI kvs).length ∧ rs.map (·.1) = kvs.map (·.1)
  | [], l, rs, rest, _, h => by
    simp only [refillI, Option.some.injEq, Prod.mk.injEq] at h
    rw [← h.1, ← h.2]; simp [flattenI, RootLastI]
  | (k, v) :: kvs, l, rs, rest, hv, h => by
    simp only [refillI] at h
    simp only [RootLastI] at hv
    cases hv' : refill v l with
    | none => simp [hv'] at h
    | some a =>
      simp only [hv'] at h
      cases ht : refillI kvs a.2 with
      | none => simp [ht] at h
      | some b =>
        simp only [ht, Option.some.injEq, Prod.mk.injEq] at h
        rw [← h.1, ← h.2]
        obtain ⟨a1, a2, a3⟩ := refill_flatten v l a.1 a.2 hv.1 hv'
        obtain ⟨b1, b2, b3, b4⟩ := refillI_flatten kvs a.2 b.1 b.2 hv.2 ht
        refine ⟨?_, ⟨a2, b2⟩, ?_, by simp [b4]⟩
        · simp only [flattenI, List.append_assoc]; rw [← b1]; exact a1
        · simp only [flattenI, List.length_append, a3, b3]
end

mutual
/-- a list with at least as many elements as the tree has leaves fits -/
theorem refill_ok : ∀ (v : Val α) (l : List β), (flatten v).length ≤ l.length →
    ∃ r rest, refill v l = some (r, rest) ∧ rest.length + (flatten v).length = l.length
  | .leaf a, [], h => by simp [flatten] at h
  | .leaf a, b :: l, _ => ⟨.leaf b, l, rfl, by simp [flatten]⟩
  | .tup vs, l, h => by
    obtain ⟨rs, rest, h1, h2⟩ := refillT_ok vs l (by simpa [flatten] using h)
    exact ⟨.tup rs, rest, by simp [refill, h1], by simpa [flatten] using h2⟩
  | .node kvs, l, h => by
    obtain ⟨rs, rest, h1, h2⟩ := refillI_ok kvs l (by simpa [flatten] using h)
    exact ⟨.node (rootLast rs), rest, by simp [refill, h1], by simpa [flatten] using h2⟩
theorem refillT_ok : ∀ (vs : List (Val α)) (l : List β), (flattenT vs).length ≤ l.length →
    ∃ rs rest, refillT vs l = some (rs, rest) ∧ rest.length + (flattenT vs).length = l.length
  | [], l, _ => ⟨[], l, rfl, by simp [flattenT]⟩
  | v :: vs, l, h => by
    simp only [flattenT, List.length_append] at h
    obtain ⟨r, rest, h1, h2⟩ := refill_ok v l (by omega)
    obtain ⟨rs, rest', h3, h4⟩ := refillT_ok vs rest (by omega)
    exact ⟨r :: rs, rest', by simp [refillT, h1, h3], by simp only [flattenT, List.length_append]; omega⟩
theorem refillI_ok : ∀ (kvs : Items α) (l : List β), (flattenI kvs).length ≤ l.length →
    ∃ rs rest, refillI kvs l = some (rs, rest) ∧ rest.length + (flattenI kvs).length = l.length
  | [], l, _ => ⟨[], l, rfl, by simp [flattenI]⟩
  | (k, v) :: kvs, l, h => by
    simp only [flattenI, List.length_append] at h
    obtain ⟨r, rest, h1, h2⟩ := refill_ok v l (by omega)
    obtain ⟨rs, rest', h3, h4⟩ := refillI_ok kvs rest (by omega)
    exact ⟨(k, r) :: rs, rest', by simp [refillI, h1, h3], by simp only [flattenI, List.length_append]; omega⟩
end

/-- `rebuild` succeeds exactly for a list with one element per leaf … -/
theorem rebuild_ok (v : Val α) (l : List β) (h : l.length = (flatten v).length) : ∃ r, rebuild v l = .ok r := by
  obtain ⟨r, rest, h1, h2⟩ := refill_ok v l (by omega)
  have : rest = [] := List.eq_nil_of_length_eq_zero (by omega)
  subst this
  exact ⟨r, by simp [rebuild, h1]⟩

theorem rebuild_spec {v : Val α} {l : List β} {r : Val β} (h : rebuild v l = .ok r) : refill v l = some (r, []) := by
  unfold rebuild at h
  split at h
  · rename_i r' heq
    simp only [Except.ok.injEq] at h
    subst h; exact heq
  · simp at h

/-- … the result has the shape of the tree after the constructors have run, its leaves are
elements of the list, and on a tree with its `root` keys last they ARE the list -/
theorem rebuild_shape {v : Val α} {l : List β} {r : Val β} (h : rebuild v l = .ok r) : shape r = shape (norm v) :=
  refill_shape v l r [] (rebuild_spec h)

theorem rebuild_mem {v : Val α} {l : List β} {r : Val β} (h : rebuild v l = .ok r) : ∀ x ∈ flatten r, x ∈ l :=
  (refill_sub v l r [] (rebuild_spec h)).1

theorem rebuild_flatten {v : Val α} {l : List β} {r : Val β} (hv : RootLast v) (h : rebuild v l = .ok r) :
    flatten r = l ∧ RootLast r := by
  obtain ⟨h1, h2, _⟩ := refill_flatten v l r [] hv (rebuild_spec h)
  exact ⟨by simpa using h1.symm, h2⟩

end refill

/-! ### the joint / per-spec scan of `ModelSpecs.get_model_matrix` -/

section scan
variable {τ σ : Type}

theorem jointScan_cons_fresh (s : HSpec τ σ) (r : List (HSpec τ σ)) (acc : Option String × Option Params)
    (hs : truthyStr s.materializer = false) : jointScan (s :: r) acc = jointScan r acc := by
  obtain ⟨m, p⟩ := acc
  simp [jointScan, hs]

/-- a spec without a recorded materializer (never materialized) is invisible to the scan, wherever it stands -/
theorem jointScan_insert_fresh (s : HSpec τ σ) (hs : truthyStr s.materializer = false) :
    ∀ (L₁ L₂ : List (HSpec τ σ)) (acc : Option String × Option Params),
      jointScan (L₁ ++ s :: L₂) acc = jointScan (L₁ ++ L₂) acc
  | [], L₂, acc => by simp [jointScan_cons_fresh s L₂ acc hs]
  | x :: L₁, L₂, (m, p) => by
    have ih := jointScan_insert_fresh s hs L₁ L₂
    simp only [List.cons_append, jointScan, ih]

theorem lookup_of_mem_nodup {γ} : ∀ {p : List (String × γ)} {kv : String × γ}, (p.map (·.1)).Nodup → kv ∈ p →
    p.lookup kv.1 = some kv.2
  | [], kv, _, h => by simp at h
  | (k, v) :: r, kv, hnd, h => by
    simp only [List.map_cons, List.nodup_cons] at hnd
    simp only [List.mem_cons] at h
    rcases h with rfl | h
    · simp [List.lookup]
    · have hne : kv.1 ≠ k := by
        intro hc; apply hnd.1; rw [← hc]; exact List.mem_map.mpr ⟨kv, h, rfl⟩
      have hb : (kv.1 == k) = false := by simpa using hne
      simp only [List.lookup, hb]
      exact lookup_of_mem_nodup hnd.2 h

theorem paramsEq_self {p : Params} (h : (p.map (·.1)).Nodup) : paramsEq p p = true := by
  simp only [paramsEq, beq_self_eq_true, Bool.true_and, List.all_eq_true]
  intro kv hkv
  simp [lookup_of_mem_nodup h hkv]

/-- the state the scan is in after any number of specs that were all written by ONE materializer
(name `n`, params `p`) or never materialized -/
def scanState (n : String) (p : Params) (acc : Option String × Option Params) : Prop :=
  acc = (none, none) ∨ acc = (some n, if p.isEmpty then none else some p)

theorem jointScan_uniform (n : String) (p : Params) (hn : n ≠ "") (hp : (p.map (·.1)).Nodup) :
    ∀ (L : List (HSpec τ σ)),
      (∀ s ∈ L, truthyStr s.materializer = false ∨ (s.materializer = some n ∧ s.params = some p)) →
      ∀ acc, scanState n p acc → ∃ acc', jointScan L acc = some acc' ∧ scanState n p acc'
  | [], _, acc, ha => ⟨acc, by simp [jointScan], ha⟩
  | s :: r, h, (m, q), ha => by
    have hr : ∀ x ∈ r, truthyStr x.materializer = false ∨ (x.materializer = some n ∧ x.params = some p) :=
      fun x hx => h x (by simp [hx])
    rcases h s (by simp) with hs | ⟨hm, hq⟩
    · rw [jointScan_cons_fresh s r _ hs]
      exact jointScan_uniform n p hn hp r hr _ ha
    · have htr : truthyStr s.materializer = true := by simp [truthyStr, hm, hn]
      have hnext : scanState n p (s.materializer, if truthyParams s.params then s.params else none) := by
        right
        simp only [hm, hq, truthyParams]
        by_cases he : p.isEmpty = true <;> simp [he]
      have htr' : truthyStr (some n) = true := by simp [truthyStr, hn]
      have hstep : jointScan (s :: r) (m, q) =
          jointScan r (s.materializer, if truthyParams s.params then s.params else none) := by
        rcases ha with ha | ha
        · simp only [Prod.mk.injEq] at ha
          obtain ⟨rfl, rfl⟩ := ha
          simp [jointScan, htr]
        · simp only [Prod.mk.injEq] at ha
          obtain ⟨rfl, rfl⟩ := ha
          by_cases he : p.isEmpty = true
          · simp [jointScan, he, hm, htr']
          · simp [jointScan, he, hm, hq, htr', paramsEq_self hp]
      rw [hstep]
      exact jointScan_uniform n p hn hp r hr _ hnext

end scan

/-! ### the evaluation loop with the kind guard is the plain loop of a guarded world -/

section evaluation
variable {ν τ σ : Type}

def guardWorld (W : HWorld ν τ σ) (penc : EncDict σ) : World ν τ :=
  ⟨W.nrows, evalG W penc, fun _ _ _ => .error "not used"⟩

theorem evalG_ok {W : HWorld ν τ σ} {penc : EncDict σ} {e : String} {st : TState τ} {r : Evald ν × TState τ}
    (h : evalG W penc e st = .ok r) : W.eval e st = .ok r := by
  unfold evalG at h
  cases hw : W.eval e st with
  | error c => simp [hw] at h
  | ok vw =>
    obtain ⟨v, w⟩ := vw
    simp only [hw] at h
    cases hl : penc.lookup e with
    | none => simpa [hl] using h
    | some r' =>
      simp only [hl] at h
      split at h
      · simp at h
      · simpa using h

theorem evalStepH_eq (W : HWorld ν τ σ) (st0 : TState τ) (penc : EncDict σ) (s : EvalState ν τ) (e : String) :
    evalStepH W st0 penc s e = evalStep (guardWorld W penc) st0 s e := by
  unfold evalStepH evalStep
  split
  · rfl
  · simp only [guardWorld]
    cases evalG W penc e st0 with
    | error c => rfl
    | ok vw => rfl

theorem evalAllH_eq (W : HWorld ν τ σ) (st0 : TState τ) (penc : EncDict σ) (s : EvalState ν τ) (order : List String) :
    evalAllH W st0 penc s order = evalAll (guardWorld W penc) st0 s order := by
  unfold evalAllH evalAll
  have : evalStepH W st0 penc = evalStep (guardWorld W penc) st0 := by
    funext s e; exact evalStepH_eq W st0 penc s e
  rw [this]

/-- the loop never looks at the drop set: started with another one it makes the same steps and
appends the same null positions -/
theorem evalAll_drop (W : World ν τ) (st0 : TState τ) : ∀ (order : List String) (s s' : EvalState ν τ),
    evalAll W st0 s order = .ok s' →
    ∃ extra, s'.drop = s.drop ++ extra ∧
      (∀ i ∈ extra, ∃ kv ∈ s'.memo, i ∈ kv.2.nulls) ∧
      ∀ d2, evalAll W st0 ⟨s.memo, d2, s.state⟩ order = .ok ⟨s'.memo, d2 ++ extra, s'.state⟩
  | [], s, s', h => by
    simp only [evalAll_nil, Except.ok.injEq] at h
    subst h
    exact ⟨[], by simp, by simp, fun d2 => by simp [evalAll_nil]⟩
  | e :: r, s, s', h => by
    rw [evalAll_cons] at h
    by_cases hm : s.memo.any (fun kv => kv.1 == e) = true
    · simp only [evalStep, hm, if_true] at h
      obtain ⟨extra, h1, h2, h3⟩ := evalAll_drop W st0 r s s' h
      refine ⟨extra, h1, h2, fun d2 => ?_⟩
      rw [evalAll_cons]
      simp only [evalStep, hm, if_true]
      exact h3 d2
    · simp only [evalStep, hm, Bool.false_eq_true, if_false] at h
      cases hev : W.eval e st0 with
      | error c => simp [hev] at h
      | ok vw =>
        obtain ⟨v, w⟩ := vw
        simp only [hev] at h
        obtain ⟨extra, h1, h2, h3⟩ := evalAll_drop W st0 r _ s' h
        simp only at h1 h3
        obtain ⟨new, hn1, _⟩ := evalAll_spec W st0 r _ s' h
        simp only at hn1
        refine ⟨v.nulls ++ extra, by rw [h1, List.append_assoc], ?_, fun d2 => ?_⟩
        · intro i hi
          rcases List.mem_append.mp hi with hi | hi
          · exact ⟨(e, v), by rw [hn1]; simp, hi⟩
          · exact h2 i hi
        · rw [evalAll_cons]
          simp only [evalStep, hm, Bool.false_eq_true, if_false, hev]
          rw [h3 (d2 ++ v.nulls), List.append_assoc]

end evaluation

/-! ### one call on a materializer object -/

section corecall
variable {ν τ σ : Type}

/-- what a successfully built part looks like -/
theorem buildPartH_spec {W : HWorld ν τ σ} {mc : MatClass} {memo : List (String × Evald ν)} {drop : List Nat}
    {pooled : TState τ} {c c' : EncCaches σ} {h : HSpec τ σ} {p : PartH τ σ}
    (hb : buildPartH W mc memo drop pooled c h = .ok (p, c')) :
    ∃ scp a q,
      scopedTermsOf (optsOfLeaf mc h) (metaCache W memo) h.core = .ok scp ∧
      foldE (encodeStep W drop memo) ⟨c, h.enc, []⟩ (encodeTrace scp) = .ok a ∧
      buildPart (optsOfLeaf mc h) W.nrows (partCache (metaCache W memo) a.got) drop pooled h.core = .ok q ∧
      p = ⟨q.matrix, { h with core := q.spec, enc := a.enc }⟩ ∧ c' = a.caches := by
  unfold buildPartH at hb
  simp only at hb
  cases hs : scopedTermsOf (optsOfLeaf mc h) (metaCache W memo) h.core with
  | error e => simp [hs] at hb
  | ok scp =>
    simp only [hs] at hb
    cases hf : foldE (encodeStep W drop memo) ⟨c, h.enc, []⟩ (encodeTrace scp) with
    | error e => simp [hf] at hb
    | ok a =>
      simp only [hf] at hb
      cases hq : buildPart (optsOfLeaf mc h) W.nrows (partCache (metaCache W memo) a.got) drop pooled h.core with
      | error e => simp [hq] at hb
      | ok q =>
        simp only [hq, Except.ok.injEq, Prod.mk.injEq] at hb
        exact ⟨scp, a, q, rfl, hf, hq, hb.1.symm, hb.2.symm⟩

/-- every part of one call has the rows outside the call's drop list, one entry per such row in every column,
the terms of the spec it was built from, and the materializer's name and params written into its spec
(`prepareLeaf` did that before) -/
theorem buildPartH_rows {W : HWorld ν τ σ} {mc : MatClass} {memo : List (String × Evald ν)} {drop : List Nat}
    {pooled : TState τ} {c c' : EncCaches σ} {h : HSpec τ σ} {p : PartH τ σ}
    (hb : buildPartH W mc memo drop pooled c h = .ok (p, c')) :
    p.matrix.rows = keptRows W.nrows drop ∧ (∀ col ∈ p.matrix.cols, col.col.length = W.nrows - drop.length) ∧
    p.spec.core.terms = h.core.terms ∧ p.spec.materializer = h.materializer ∧ p.spec.params = h.params ∧
    p.spec.output = h.output ∧ p.spec.efr = h.efr ∧ p.spec.cluster = h.cluster ∧
    p.spec.core.state = St.dictUpdate h.core.state pooled := by
  obtain ⟨scp, a, q, _, _, hq, hp, _⟩ := buildPartH_spec hb
  obtain ⟨rs, _, hmat, hlen, hspec⟩ := buildPart_spec hq
  subst hp
  simp only
  exact ⟨by rw [hmat], hlen, by rw [hspec], trivial, trivial, trivial, trivial, trivial, by rw [hspec]⟩

theorem buildLeaves_spec {W : HWorld ν τ σ} {mc : MatClass} {memo : List (String × Evald ν)} {drop : List Nat}
    {pooled : TState τ} : ∀ {L : List (HSpec τ σ)} {c c' : EncCaches σ} {ps : List (PartH τ σ)},
    buildLeaves W mc memo drop pooled c L = .ok (ps, c') →
    List.Forall₂ (fun h p => ∃ c1 c2, buildPartH W mc memo drop pooled c1 h = .ok (p, c2)) L ps
  | [], c, c', ps, h => by
    simp only [buildLeaves, Except.ok.injEq, Prod.mk.injEq] at h
    rw [← h.1]; exact .nil
  | x :: L, c, c', ps, h => by
    simp only [buildLeaves] at h
    cases hb : buildPartH W mc memo drop pooled c x with
    | error e => simp [hb] at h
    | ok pc =>
      obtain ⟨p, c1⟩ := pc
      simp only [hb] at h
      cases hr : buildLeaves W mc memo drop pooled c1 L with
      | error e => simp [hr] at h
      | ok r =>
        obtain ⟨ps', c2⟩ := r
        simp only [hr, Except.ok.injEq, Prod.mk.injEq] at h
        rw [← h.1]
        exact .cons ⟨c, c1, hb⟩ (buildLeaves_spec hr)

/-- unfolding of a successful call body -/
theorem core_spec {W : HWorld ν τ σ} {mc : MatClass} {params : Params} {m m' : MatObj ν σ} {F : Val (HSpec τ σ)}
    {ov : Overrides} {perm : List String} {caller : List Nat} {j : JointH ν τ σ}
    (h : core W mc params m F ov perm caller = .ok (j, m')) :
    ∃ L ps c,
      mapL (fun x => prepareLeaf mc params (applyOv ov x)) (flatten (norm F)) = .ok L ∧ consistent L = true ∧
      evalAllH W (pooledStateL L) (pooledEncL L) ⟨m.factorCache, caller, pooledStateL L⟩
        (iterOrder (pooledFactorsL L) perm) = .ok ⟨j.memo, j.dropSet, j.state⟩ ∧
      j.drop = sortSet j.dropSet ∧
      buildLeaves W mc j.memo j.drop j.state m.caches L = .ok (ps, c) ∧
      rebuild (norm F) ps = .ok j.parts ∧ m' = ⟨j.memo, c⟩ := by
  unfold core at h
  simp only at h
  cases hL : mapL (fun x => prepareLeaf mc params (applyOv ov x)) (flatten (norm F)) with
  | error e => simp [hL] at h
  | ok L =>
    simp only [hL] at h
    split at h
    · simp at h
    · rename_i hcons
      cases he : evalAllH W (pooledStateL L) (pooledEncL L) ⟨m.factorCache, caller, pooledStateL L⟩
          (iterOrder (pooledFactorsL L) perm) with
      | error e => simp [he] at h
      | ok s =>
        simp only [he] at h
        cases hb : buildLeaves W mc s.memo (sortSet s.drop) s.state m.caches L with
        | error e => simp [hb] at h
        | ok r =>
          obtain ⟨ps, c⟩ := r
          simp only [hb] at h
          cases hr : rebuild (norm F) ps with
          | error e => simp [hr] at h
          | ok parts =>
            simp only [hr, Except.ok.injEq, Prod.mk.injEq] at h
            obtain ⟨rfl, rfl⟩ := h
            exact ⟨L, ps, c, rfl, by simpa using hcons, he, rfl, hb, hr, rfl⟩

theorem forall₂_comp {α β γ : Type} {R : α → β → Prop} {S : β → γ → Prop} : ∀ {l₁ : List α} {l₂ : List β} {l₃ : List γ},
    List.Forall₂ R l₁ l₂ → List.Forall₂ S l₂ l₃ → List.Forall₂ (fun a c => ∃ b, R a b ∧ S b c) l₁ l₃
  | [], [], [], _, _ => .nil
  | _ :: _, _ :: _, _ :: _, .cons h1 t1, .cons h2 t2 => .cons ⟨_, h1, h2⟩ (forall₂_comp t1 t2)

/-- the leaves of the result of a call, in `_flatten` order, are the parts built from the prepared specs -/
theorem core_parts {W : HWorld ν τ σ} {mc : MatClass} {params : Params} {m m' : MatObj ν σ} {F : Val (HSpec τ σ)}
    {ov : Overrides} {perm : List String} {caller : List Nat} {j : JointH ν τ σ}
    (h : core W mc params m F ov perm caller = .ok (j, m')) :
    shape j.parts = shape (norm F) ∧ RootLast j.parts ∧
    List.Forall₂ (fun x p => ∃ x', prepareLeaf mc params (applyOv ov x) = .ok x' ∧
        ∃ c1 c2, buildPartH W mc j.memo j.drop j.state c1 x' = .ok (p, c2))
      (flatten (norm F)) (flatten j.parts) := by
  obtain ⟨L, ps, c, hL, _, _, _, hb, hr, _⟩ := core_spec h
  have hrl : RootLast (norm F) := rootLast_norm F
  obtain ⟨hf, hrl'⟩ := rebuild_flatten hrl hr
  refine ⟨by rw [rebuild_shape hr, norm_norm], hrl', ?_⟩
  rw [hf]
  have h1 := mapL_spec _ _ _ hL
  have h2 := buildLeaves_spec hb
  exact forall₂_comp h1 h2

end corecall

/-! ### `ModelSpec.get_model_matrix` for one spec and one pass of the per-spec branch -/

section perspec
variable {ν τ σ : Type}

theorem forall₂_mem_right {α β : Type} {R : α → β → Prop} : ∀ {l₁ : List α} {l₂ : List β},
    List.Forall₂ R l₁ l₂ → ∀ b ∈ l₂, ∃ a ∈ l₁, R a b
  | _, _, .nil, b, hb => by simp at hb
  | _, _, .cons h t, b, hb => by
    simp only [List.mem_cons] at hb
    rcases hb with rfl | hb
    · exact ⟨_, by simp, h⟩
    · obtain ⟨a, ha, hr⟩ := forall₂_mem_right t b hb
      exact ⟨a, by simp [ha], hr⟩

theorem forall₂_mem_left {α β : Type} {R : α → β → Prop} : ∀ {l₁ : List α} {l₂ : List β},
    List.Forall₂ R l₁ l₂ → ∀ a ∈ l₁, ∃ b ∈ l₂, R a b
  | _, _, .nil, a, ha => by simp at ha
  | _, _, .cons h t, a, ha => by
    simp only [List.mem_cons] at ha
    rcases ha with rfl | ha
    · exact ⟨_, by simp, h⟩
    · obtain ⟨b, hb, hr⟩ := forall₂_mem_left t a ha
      exact ⟨b, by simp [hb], hr⟩

theorem forall₂_imp_mem {α β : Type} {R S : α → β → Prop} : ∀ {l₁ : List α} {l₂ : List β},
    List.Forall₂ R l₁ l₂ → (∀ a b, a ∈ l₁ → b ∈ l₂ → R a b → S a b) → List.Forall₂ S l₁ l₂
  | _, _, .nil, _ => .nil
  | _, _, .cons h t, f =>
    .cons (f _ _ (by simp) (by simp) h) (forall₂_imp_mem t (fun a b ha hb => f a b (by simp [ha]) (by simp [hb])))

theorem prepareLeaf_spec {mc : MatClass} {params : Params} {x x' : HSpec τ σ} (h : prepareLeaf mc params x = .ok x') :
    x'.materializer = some mc.name ∧ x'.params = some params ∧ x'.core = x.core ∧ x'.enc = x.enc ∧
    x'.efr = x.efr ∧ x'.cluster = x.cluster ∧ (∃ o, x'.output = some o ∧ o ∈ mc.outputs) := by
  unfold prepareLeaf at h
  cases ho : x.output with
  | none =>
    simp only [ho] at h
    cases hl : mc.outputs with
    | nil => simp [hl] at h
    | cons o r =>
      simp only [hl, Except.ok.injEq] at h
      subst h
      exact ⟨rfl, rfl, rfl, rfl, rfl, rfl, o, rfl, by simp⟩
  | some o =>
    simp only [ho] at h
    split at h
    · rename_i hc
      simp only [Except.ok.injEq] at h
      subst h
      exact ⟨rfl, rfl, rfl, rfl, rfl, rfl, o, rfl, by simpa using hc⟩
    · simp at h

/-- every part of one call: the rows outside the call's drop list, one entry per such row in every
column, the materializer's name and params in the attached spec -/
theorem core_rows {W : HWorld ν τ σ} {mc : MatClass} {params : Params} {m m' : MatObj ν σ} {F : Val (HSpec τ σ)}
    {ov : Overrides} {perm : List String} {caller : List Nat} {j : JointH ν τ σ}
    (h : core W mc params m F ov perm caller = .ok (j, m')) :
    ∀ p ∈ flatten j.parts,
      p.matrix.rows = keptRows W.nrows j.drop ∧ (∀ col ∈ p.matrix.cols, col.col.length = W.nrows - j.drop.length) ∧
      p.spec.materializer = some mc.name ∧ p.spec.params = some params := by
  obtain ⟨_, _, hall⟩ := core_parts h
  intro p hp
  obtain ⟨x, _, x', hx', c1, c2, hb⟩ := forall₂_mem_right hall p hp
  obtain ⟨h1, h2, _, h4, h5, _⟩ := buildPartH_rows hb
  obtain ⟨g1, g2, _⟩ := prepareLeaf_spec hx'
  exact ⟨h1, h2, by rw [h4, g1], by rw [h5, g2]⟩

/-- the drop list of a call: sorted; the caller's rows are in it; everything else in it is a null position of
a memoised evaluation; started with another caller set the call evaluates the same and adds the same rows -/
theorem core_drop {W : HWorld ν τ σ} {mc : MatClass} {params : Params} {m m' : MatObj ν σ} {F : Val (HSpec τ σ)}
    {ov : Overrides} {perm : List String} {caller : List Nat} {j : JointH ν τ σ}
    (h : core W mc params m F ov perm caller = .ok (j, m')) :
    j.drop = sortSet j.dropSet ∧ j.drop.Pairwise (· < ·) ∧
    ∃ extra, j.dropSet = caller ++ extra ∧ (∀ i ∈ extra, ∃ kv ∈ j.memo, i ∈ kv.2.nulls) ∧
      ∀ caller₂ j₂ m₂, core W mc params m F ov perm caller₂ = .ok (j₂, m₂) → j₂.dropSet = caller₂ ++ extra := by
  obtain ⟨L, ps, c, hL, _, hev, hdrop, _⟩ := core_spec h
  rw [evalAllH_eq] at hev
  obtain ⟨extra, h1, h2, h3⟩ := evalAll_drop _ _ _ _ _ hev
  simp only at h1 h2 h3
  refine ⟨hdrop, by rw [hdrop]; exact sortSet_sorted _, extra, h1, h2, ?_⟩
  intro caller₂ j₂ m₂ h₂
  obtain ⟨L₂, _, _, hL₂, _, hev₂, _⟩ := core_spec h₂
  rw [hL] at hL₂
  simp only [Except.ok.injEq] at hL₂
  subst hL₂
  rw [evalAllH_eq, h3 caller₂] at hev₂
  simp only [Except.ok.injEq, EvalState.mk.injEq] at hev₂
  exact hev₂.2.1.symm

/-- sets given as lists: a subset of equal size is the whole set -/
theorem subset_of_setSize {a b : List Nat} (hab : ∀ i ∈ a, i ∈ b) (hsz : setSize b = setSize a) : ∀ i ∈ b, i ∈ a := by
  have hsub : sortSet a ⊆ sortSet b := fun i hi => mem_sortSet.mpr (hab i (mem_sortSet.mp hi))
  have hnd : (sortSet a).Nodup := (sortSet_sorted a).imp (fun h => Nat.ne_of_lt h)
  have hp := (List.subperm_of_subset hnd hsub).perm_of_length_le (by unfold setSize at hsz; omega)
  intro i hi
  exact mem_sortSet.mp (hp.symm.subset (mem_sortSet.mpr hi))

theorem specGet_spec {E : Env ν τ σ} {h : HSpec τ σ} {perm : List String} {d d' : List Nat} {p : PartH τ σ}
    (hs : specGetModelMatrix E h perm d = .ok (p, d')) :
    ∃ mc j m', E.classFor h.materializer = .ok mc ∧
      core (E.world mc.name) mc (paramsOr h.params) MatObj.empty
        (.node [("root", .leaf h)]) Overrides.none perm d = .ok (j, m') ∧
      flatten j.parts = [p] ∧ d' = j.dropSet := by
  unfold specGetModelMatrix at hs
  cases hc : E.classFor h.materializer with
  | error e => simp [hc] at hs
  | ok mc =>
    simp only [hc] at hs
    simp only [materializeH, MatObj.call] at hs
    cases hcore : core (E.world mc.name) mc (paramsOr h.params) MatObj.empty
        (.node [("root", .leaf h)]) Overrides.none perm d with
    | error e => simp [hcore] at hs
    | ok jm =>
      obtain ⟨j, m'⟩ := jm
      simp only [hcore] at hs
      split at hs
      · rename_i k p' hparts
        simp only [Except.ok.injEq, Prod.mk.injEq] at hs
        refine ⟨mc, j, m', rfl, hcore, ?_, hs.2.symm⟩
        rw [hparts, ← hs.1]
        simp [flatten, flattenI]
      · simp at hs

/-- what one spec contributes: its part has the rows outside the drop set AFTER its own nulls were added,
and the rows it adds do not depend on the set it was handed -/
theorem specGet_rows {E : Env ν τ σ} {n : Nat} (hn : ∀ c, (E.world c).nrows = n) {h : HSpec τ σ} {perm : List String}
    {d d' : List Nat} {p : PartH τ σ} (hs : specGetModelMatrix E h perm d = .ok (p, d')) :
    p.matrix.rows = keptRows n (sortSet d') ∧
    ∃ extra, d' = d ++ extra ∧
      ∀ d2 p2 d2', specGetModelMatrix E h perm d2 = .ok (p2, d2') → d2' = d2 ++ extra := by
  obtain ⟨mc, j, m', hc, hcore, hfl, hd'⟩ := specGet_spec hs
  obtain ⟨hdrop, _, extra, h1, _, h3⟩ := core_drop hcore
  constructor
  · have := (core_rows hcore p (by rw [hfl]; simp)).1
    rw [this, hn, hdrop, hd']
  · refine ⟨extra, by rw [hd', h1], ?_⟩
    intro d2 p2 d2' hs2
    obtain ⟨mc2, j2, m2, hc2, hcore2, _, hd2⟩ := specGet_spec hs2
    rw [hc] at hc2
    simp only [Except.ok.injEq] at hc2
    subst hc2
    rw [hd2]
    exact h3 d2 j2 m2 hcore2

/-- one pass of the per-spec branch: the shared set only grows; every part was built with a set between the
one the pass started with and the one it ended with; a pass started with another set adds the same rows -/
theorem perSpecPass_spec {E : Env ν τ σ} {n : Nat} (hn : ∀ c, (E.world c).nrows = n) {perm : List String} :
    ∀ {L : List (HSpec τ σ)} {d d' : List Nat} {ps : List (PartH τ σ)},
    perSpecPass E perm d L = .ok (ps, d') →
    ps.length = L.length ∧
    (∃ extra, d' = d ++ extra ∧
      ∀ d2 ps2 d2', perSpecPass E perm d2 L = .ok (ps2, d2') → d2' = d2 ++ extra) ∧
    ∀ p ∈ ps, ∃ dk, (∀ i ∈ d, i ∈ dk) ∧ (∀ i ∈ dk, i ∈ d') ∧ p.matrix.rows = keptRows n (sortSet dk)
  | [], d, d', ps, h => by
    simp only [perSpecPass, Except.ok.injEq, Prod.mk.injEq] at h
    obtain ⟨rfl, rfl⟩ := h
    refine ⟨rfl, ⟨[], by simp, ?_⟩, by simp⟩
    intro d2 ps2 d2' h2
    simp only [perSpecPass, Except.ok.injEq, Prod.mk.injEq] at h2
    simp [h2.2]
  | x :: L, d, d', ps, h => by
    simp only [perSpecPass] at h
    cases hx : specGetModelMatrix E x perm d with
    | error e => simp [hx] at h
    | ok pd =>
      obtain ⟨p, d1⟩ := pd
      simp only [hx] at h
      cases hr : perSpecPass E perm d1 L with
      | error e => simp [hr] at h
      | ok r =>
        obtain ⟨ps', d''⟩ := r
        simp only [hr, Except.ok.injEq, Prod.mk.injEq] at h
        obtain ⟨rfl, rfl⟩ := h
        obtain ⟨hrows, e1, hd1, hdet1⟩ := specGet_rows hn hx
        obtain ⟨hlen, ⟨e2, hd2, hdet2⟩, hparts⟩ := perSpecPass_spec hn hr
        refine ⟨by simp [hlen], ⟨e1 ++ e2, by rw [hd2, hd1, List.append_assoc], ?_⟩, ?_⟩
        · intro d2 ps2 d2' h2
          simp only [perSpecPass] at h2
          cases hx2 : specGetModelMatrix E x perm d2 with
          | error e => simp [hx2] at h2
          | ok pd2 =>
            obtain ⟨p2, d12⟩ := pd2
            simp only [hx2] at h2
            cases hr2 : perSpecPass E perm d12 L with
            | error e => simp [hr2] at h2
            | ok r2 =>
              obtain ⟨ps2', d2''⟩ := r2
              simp only [hr2, Except.ok.injEq, Prod.mk.injEq] at h2
              rw [← h2.2, hdet2 d12 ps2' d2'' hr2, hdet1 d2 p2 d12 hx2, List.append_assoc]
        · intro q hq
          simp only [List.mem_cons] at hq
          rcases hq with rfl | hq
          · refine ⟨d1, ?_, ?_, hrows⟩
            · intro i hi; rw [hd1]; exact List.mem_append_left _ hi
            · intro i hi; rw [hd2]; exact List.mem_append_left _ hi
          · obtain ⟨dk, a, b, c⟩ := hparts q hq
            refine ⟨dk, ?_, b, c⟩
            intro i hi
            exact a i (by rw [hd1]; exact List.mem_append_left _ hi)

theorem materializeH_core {W : HWorld ν τ σ} {mc : MatClass} {params : Params} {F : Val (HSpec τ σ)} {ov : Overrides}
    {perm : List String} {caller : List Nat} {j : JointH ν τ σ} (h : materializeH W mc params F ov perm caller = .ok j) :
    ∃ m', core W mc params MatObj.empty F ov perm caller = .ok (j, m') := by
  unfold materializeH MatObj.call at h
  cases hc : core W mc params MatObj.empty F ov perm caller with
  | error e => simp [hc] at h
  | ok jm =>
    obtain ⟨j', m'⟩ := jm
    simp only [hc, Except.ok.injEq] at h
    subst h
    exact ⟨m', rfl⟩

end perspec


/-! ### `ModelSpecs.subset` / `differentiate` -/

section derive
variable {τ σ : Type}

theorem subsetLeaf_spec {h r : HSpec τ σ} {terms : List MTerm} (hs : subsetLeaf h terms = .ok r) :
    r.core.terms = terms ∧ r.core.state = h.core.state ∧ r.enc = h.enc ∧ r.materializer = h.materializer ∧
    r.params = h.params ∧ r.output = h.output ∧ r.efr = h.efr ∧ r.cluster = h.cluster ∧
    (∀ t ∈ terms, ∃ t' ∈ h.core.terms, termEq t t' = true) ∧
    ∃ str rows, h.core.struct = some str ∧ r.core.struct = some rows ∧
      List.Forall₂ (fun t s => s ∈ str ∧ termEq s.term t = true) terms rows := by
  unfold subsetLeaf at hs
  split at hs
  · simp at hs
  · rename_i hall
    cases hstr : h.core.struct with
    | none => simp [hstr] at hs
    | some str =>
      simp only [hstr] at hs
      split at hs
      · simp at hs
      · rename_i rows hm
        simp only [Except.ok.injEq] at hs
        subst hs
        refine ⟨rfl, rfl, rfl, rfl, rfl, rfl, rfl, rfl, ?_, str, rows, rfl, rfl, ?_⟩
        · intro t ht
          have : terms.all (fun t => h.core.terms.any (termEq t)) = true := by simpa using hall
          have := List.all_eq_true.mp this t ht
          obtain ⟨t', ht', he⟩ := List.any_eq_true.mp this
          exact ⟨t', ht', he⟩
        · have := mapL_spec _ _ _ hm
          refine this.imp ?_
          intro t s hts
          cases hf : str.find? (fun s => termEq s.term t) with
          | none => simp [hf] at hts
          | some s' =>
            simp only [hf, Except.ok.injEq] at hts
            subst hts
            exact ⟨List.mem_of_find?_eq_some hf, by simpa using List.find?_some hf⟩

theorem subsetAt_ok {S : Val (HSpec τ σ)} {terms : List MTerm} {ctx : Path} {r : HSpec τ σ}
    (h : subsetAt S terms ctx = .ok r) : ∃ x, lookupPathPy ctx S = .ok (.leaf x) ∧ subsetLeaf x terms = .ok r := by
  unfold subsetAt at h
  split at h
  · simp at h
  · simp at h
  · rename_i x hx; exact ⟨x, hx, h⟩
  · simp at h
  · simp at h

end derive


/-! ### the scoping code looks at kinds and flags only, not at the encodings -/

section metacongr
open FormulaicVerif.Proofs.C02 FormulaicVerif.Proofs.Scoped

/-- a map on evaluated factors that may change the encodings but nothing the scoping code reads -/
structure MetaPres (g : EvaledFactor → EvaledFactor) : Prop where
  expr : ∀ f, (g f).expr = f.expr
  present : ∀ f, (g f).present = f.present
  kind : ∀ f, (g f).kind = f.kind
  spans : ∀ f, (g f).spansIntercept = f.spansIntercept

variable {g : EvaledFactor → EvaledFactor}

theorem get_map (hg : MetaPres g) (c : Cache) (e : String) : Cache.get (c.map g) e = (c.get e).map g := by
  unfold Cache.get
  rw [List.find?_map]
  have : ((fun f => f.expr == e) ∘ g) = (fun f : EvaledFactor => f.expr == e) := by
    funext f; simp [Function.comp, hg.expr]
  rw [this]
  cases c.find? (fun f => f.expr == e) <;> rfl

theorem evaledFactors_map (hg : MetaPres g) (c : Cache) : ∀ (t : MTerm),
    evaledFactors (c.map g) t = (evaledFactors c t).map (List.map g)
  | [] => rfl
  | e :: r => by
    simp only [evaledFactors, get_map hg, evaledFactors_map hg c r]
    cases c.get e with
    | error x => rfl
    | ok f =>
      simp only [Except.map]
      cases evaledFactors c r with
      | error x => rfl
      | ok fs => simp only [hg.present]; split <;> rfl

theorem numericalKey_map (hg : MetaPres g) (c : Cache) : ∀ (t : MTerm), numericalKey (c.map g) t = numericalKey c t
  | [] => rfl
  | e :: r => by
    simp only [numericalKey, get_map hg, numericalKey_map hg c r]
    cases c.get e with
    | error x => rfl
    | ok f => simp only [Except.map, hg.kind]

theorem clusterLoop_map (hg : MetaPres g) (c : Cache) : ∀ (ts : List MTerm) (cl : List (List String × List MTerm)),
    clusterLoop (c.map g) cl ts = clusterLoop c cl ts
  | [], cl => rfl
  | t :: ts, cl => by
    simp only [clusterLoop, numericalKey_map hg]
    cases numericalKey c t with
    | error x => rfl
    | ok k => exact clusterLoop_map hg c ts _

theorem clusterTerms_map (hg : MetaPres g) (c : Cache) (b : Bool) (ts : List MTerm) :
    clusterTerms (c.map g) b ts = clusterTerms c b ts := by
  simp only [clusterTerms, clusterLoop_map hg]

theorem scaleOf_map (hg : MetaPres g) (efs : List EvaledFactor) : scaleOf (efs.map g) = scaleOf efs := by
  unfold scaleOf
  rw [List.foldl_map]
  congr 1
  funext s f
  rw [hg.kind]

theorem spannedChoices_map (hg : MetaPres g) : ∀ (efs : List EvaledFactor), spannedChoices (efs.map g) = spannedChoices efs
  | [] => rfl
  | f :: r => by
    simp only [List.map_cons, spannedChoices, hg.kind, hg.spans, hg.expr, spannedChoices_map hg r]

theorem spannedBy_map (hg : MetaPres g) (efs : List EvaledFactor) : spannedBy (efs.map g) = spannedBy efs := by
  simp only [spannedBy, spannedChoices_map hg, scaleOf_map hg]

theorem fullScoped_map (hg : MetaPres g) (efs : List EvaledFactor) : fullScoped (efs.map g) = fullScoped efs := by
  unfold fullScoped
  rw [scaleOf_map hg, List.filter_map, List.map_map]
  congr 1
  · congr 1
    · funext f; simp [Function.comp, hg.expr]
    · congr 1
      funext f
      simp only [Function.comp, hg.kind]

theorem scopeTerm_map (hg : MetaPres g) (c : Cache) (efr : Bool) (sp : List ST) (t : MTerm) :
    scopeTerm (c.map g) efr sp t = scopeTerm c efr sp t := by
  unfold scopeTerm
  rw [evaledFactors_map hg]
  cases evaledFactors c t with
  | error x => rfl
  | ok efs =>
    cases efs with
    | nil => rfl
    | cons f r =>
      simp only [Except.map, List.map_cons]
      have h1 := spannedBy_map hg (f :: r)
      have h2 := fullScoped_map hg (f :: r)
      simp only [List.map_cons] at h1 h2
      simp only [h1, h2]

theorem getScopedTerms_map (hg : MetaPres g) (c : Cache) (efr : Bool) : ∀ (ts : List MTerm) (sp : List ST),
    getScopedTerms (c.map g) efr sp ts = getScopedTerms c efr sp ts
  | [], sp => rfl
  | t :: ts, sp => by
    simp only [getScopedTerms, scopeTerm_map hg]
    cases scopeTerm c efr sp t with
    | error e => rfl
    | ok r => obtain ⟨sts, sp'⟩ := r; simp only [getScopedTerms_map hg c efr ts sp']

theorem fillEnc_metaPres (got : List (SF × Encoded)) : MetaPres (fillEnc got) :=
  ⟨fun _ => rfl, fun _ => rfl, fun _ => rfl, fun _ => rfl⟩

theorem partCache_eq (c : Cache) (got : List (SF × Encoded)) : ∃ g, MetaPres g ∧ partCache c got = c.map g :=
  ⟨fillEnc got, fillEnc_metaPres got, rfl⟩

/-- the scoped terms a part is built from do not change when the encodings are filled in -/
theorem scopedTermsOf_partCache {τ : Type} (o : Opts) (c : Cache) (got : List (SF × Encoded)) (spec : Spec τ) :
    scopedTermsOf o (partCache c got) spec = scopedTermsOf o c spec := by
  obtain ⟨g, hg, he⟩ := partCache_eq c got
  rw [he]
  unfold scopedTermsOf
  cases spec.struct with
  | none =>
    simp only [clusterTerms_map hg]
    cases clusterTerms c o.cluster spec.terms with
    | error x => rfl
    | ok ts => simp only [getScopedTerms_map hg]
  | some str => simp only [clusterTerms_map hg]

end metacongr


/-! ### the lazy encoder loop: every request leaves a record in the spec of the part -/

section encoders
variable {ν τ σ : Type}

theorem mem_keys_dictSet {γ} (k k' : String) (v : γ) : ∀ (d : List (String × γ)),
    k ∈ (St.dictSet d k' v).map (·.1) ↔ k ∈ d.map (·.1) ∨ k = k'
  | [] => by simp [St.dictSet]
  | (a, b) :: r => by
    simp only [St.dictSet]
    split
    · rename_i h
      have : a = k' := by simpa using h
      subst this
      simp only [List.map_cons, List.mem_cons]
      constructor
      · rintro (h | h)
        · exact .inl (.inl h)
        · exact .inl (.inr h)
      · rintro ((h | h) | h)
        · exact .inl h
        · exact .inr h
        · exact .inl h
    · simp only [List.map_cons, List.mem_cons, mem_keys_dictSet k k' v r]
      constructor
      · rintro (h | h | h)
        · exact .inl (.inl h)
        · exact .inl (.inr h)
        · exact .inr h
      · rintro ((h | h) | h)
        · exact .inl h
        · exact .inr (.inl h)
        · exact .inr (.inr h)

theorem mem_keys_setDefault {γ} (k k' : String) (v : γ) (d : List (String × γ)) :
    k ∈ (setDefault d k' v).map (·.1) ↔ k ∈ d.map (·.1) ∨ k = k' := by
  unfold setDefault
  split
  · rename_i h
    obtain ⟨kv, hkv, hk⟩ := List.any_eq_true.mp h
    have : kv.1 = k' := by simpa using hk
    constructor
    · exact fun h => .inl h
    · rintro (h | h)
      · exact h
      · rw [h, ← this]; exact List.mem_map.mpr ⟨kv, hkv, rfl⟩
  · simp

theorem mem_keys_of_lookup {κ γ} [BEq κ] [LawfulBEq κ] {k : κ} {v : γ} : ∀ {d : List (κ × γ)}, d.lookup k = some v →
    k ∈ d.map (·.1)
  | [], h => by simp at h
  | (a, b) :: r, h => by
    simp only [List.lookup] at h
    split at h
    · rename_i hk
      have : k = a := by simpa using hk
      simp [this]
    · simp [mem_keys_of_lookup h]

theorem lookup_of_mem_keys {γ} {k : String} : ∀ {d : List (String × γ)}, k ∈ d.map (·.1) → ∃ v, d.lookup k = some v
  | [], h => by simp at h
  | (a, b) :: r, h => by
    simp only [List.lookup]
    by_cases hk : k = a
    · subst hk; simp
    · have hb : (k == a) = false := by simpa using hk
      simp only [hb]
      simp only [List.map_cons, List.mem_cons, hk, false_or] at h
      exact lookup_of_mem_keys h

theorem encAfterSetdefault_keys (c : EncCaches σ) (enc : EncDict σ) (e k : String) :
    (k ∈ (encAfterSetdefault c enc e).map (·.1) → k ∈ enc.map (·.1) ∨ k = e) ∧
    (k ∈ enc.map (·.1) → k ∈ (encAfterSetdefault c enc e).map (·.1)) ∧
    (e ∈ c.states.map (·.1) → e ∈ (encAfterSetdefault c enc e).map (·.1)) := by
  unfold encAfterSetdefault
  cases hl : c.states.lookup e with
  | none =>
    refine ⟨fun h => .inl h, fun h => h, fun h => ?_⟩
    obtain ⟨v, hv⟩ := lookup_of_mem_keys h
    rw [hl] at hv; simp at hv
  | some s =>
    exact ⟨fun h => (mem_keys_setDefault k e s enc).mp h, fun h => (mem_keys_setDefault k e s enc).mpr (.inl h),
      fun _ => (mem_keys_setDefault e e s enc).mpr (.inr rfl)⟩

/-- every key of `encoded_cache` has its encoder state in `encoder_state_cache` (true of the empty caches, kept
by every step) -/
def CachesOK (c : EncCaches σ) : Prop := ∀ key ∈ c.encoded.map (·.1), key.1 ∈ c.states.map (·.1)

theorem cachesOK_empty : CachesOK (EncCaches.empty : EncCaches σ) := by
  intro key h; simp [EncCaches.empty] at h

theorem encodeStep_spec {W : HWorld ν τ σ} {drop : List Nat} {memo : List (String × Evald ν)} {a a' : EncAcc σ} {sf : SF}
    (hok : CachesOK a.caches) (h : encodeStep W drop memo a sf = .ok a') :
    CachesOK a'.caches ∧ sf.expr ∈ a'.enc.map (·.1) ∧
    (∀ k, k ∈ a'.enc.map (·.1) ↔ k ∈ a.enc.map (·.1) ∨ k = sf.expr) := by
  unfold encodeStep at h
  cases hm : memo.lookup sf.expr with
  | none => simp [hm] at h
  | some v =>
    simp only [hm] at h
    have hk1 := fun k => encAfterSetdefault_keys a.caches a.enc sf.expr k
    cases hc : cacheLookup a.caches sf.expr sf.reduced with
    | some x =>
      simp only [hc, Except.ok.injEq] at h
      subst h
      -- a hit: the key is in `encoded_cache`, hence its state in `encoder_state_cache`, hence (`setdefault`) in the spec
      have hin : sf.expr ∈ a.caches.states.map (·.1) := by
        unfold cacheLookup at hc
        cases h1 : a.caches.encoded.lookup (sf.expr, none) with
        | some y => exact hok _ (mem_keys_of_lookup h1)
        | none =>
          rw [h1] at hc
          exact hok _ (mem_keys_of_lookup hc)
      have hin1 := (hk1 sf.expr).2.2 hin
      refine ⟨hok, hin1, fun k => ⟨(hk1 k).1, ?_⟩⟩
      rintro (hk | rfl)
      · exact (hk1 k).2.1 hk
      · exact hin1
    | none =>
      simp only [hc] at h
      cases he : W.encode sf.expr v.values drop sf.reduced
          (((encAfterSetdefault a.caches a.enc sf.expr).lookup sf.expr).map (·.state)) with
      | error cls => simp [he] at h
      | ok xs =>
        obtain ⟨x, st'⟩ := xs
        simp only [he, Except.ok.injEq] at h
        subst h
        refine ⟨?_, (mem_keys_dictSet _ _ _ _).mpr (.inr rfl), fun k => ?_⟩
        · intro key hkey
          simp only [List.map_append, List.map_cons, List.map_nil, List.mem_append, List.mem_singleton] at hkey
          rcases hkey with hkey | hkey
          · exact (mem_keys_dictSet _ _ _ _).mpr (.inl (hok key hkey))
          · refine (mem_keys_dictSet _ _ _ _).mpr (.inr ?_)
            rw [hkey]; split <;> rfl
        · rw [mem_keys_dictSet]
          constructor
          · rintro (hk | hk)
            · exact (hk1 k).1 hk
            · exact .inr hk
          · rintro (hk | hk)
            · exact .inl ((hk1 k).2.1 hk)
            · exact .inr hk

/-- the whole loop of one part -/
theorem encodeLoop_spec {W : HWorld ν τ σ} {drop : List Nat} {memo : List (String × Evald ν)} :
    ∀ (trace : List SF) {a a' : EncAcc σ}, CachesOK a.caches → foldE (encodeStep W drop memo) a trace = .ok a' →
    CachesOK a'.caches ∧ (∀ sf ∈ trace, sf.expr ∈ a'.enc.map (·.1)) ∧
    (∀ k, k ∈ a'.enc.map (·.1) ↔ k ∈ a.enc.map (·.1) ∨ ∃ sf ∈ trace, k = sf.expr)
  | [], a, a', hok, h => by
    simp only [foldE, Except.ok.injEq] at h
    subst h
    exact ⟨hok, by simp, by simp⟩
  | sf :: r, a, a', hok, h => by
    simp only [foldE] at h
    cases hs : encodeStep W drop memo a sf with
    | error e => simp [hs] at h
    | ok a1 =>
      simp only [hs] at h
      obtain ⟨ok1, in1, keys1⟩ := encodeStep_spec hok hs
      obtain ⟨ok2, in2, keys2⟩ := encodeLoop_spec r ok1 h
      refine ⟨ok2, ?_, ?_⟩
      · intro x hx
        simp only [List.mem_cons] at hx
        rcases hx with rfl | hx
        · exact (keys2 _).mpr (.inl in1)
        · exact in2 x hx
      · intro k
        rw [keys2, keys1]
        simp only [List.mem_cons, exists_eq_or_imp]
        constructor
        · rintro ((h | h) | h)
          · exact .inl h
          · exact .inr (.inl h)
          · exact .inr (.inr h)
        · rintro (h | h | h)
          · exact .inl (.inl h)
          · exact .inl (.inr h)
          · exact .inr h

end encoders


/-! ### the recorded structure of a part lists exactly the scoped factors the part asked the encoders for -/

section recorded
open FormulaicVerif.Proofs.C02 FormulaicVerif.Proofs.Scoped
variable {ν τ σ : Type}

theorem recorded_is_scoped {o : Opts} {n : Nat} {cache : Cache} {drop : List Nat} {pooled : TState τ} {spec : Spec τ}
    {q : PartOut τ} {scp : List (MTerm × List ST)}
    (hb : buildPart o n cache drop pooled spec = .ok q) (hs : scopedTermsOf o cache spec = .ok scp) :
    ∃ str, q.spec.struct = some str ∧ str.map (fun s => (s.term, s.sts)) = scp := by
  obtain ⟨rs, hrows, _, _, hspec⟩ := buildPart_spec hb
  refine ⟨recordedStruct spec rs, by rw [hspec], ?_⟩
  unfold scopedTermsOf at hs
  unfold buildRows at hrows
  cases hst : spec.struct with
  | some str =>
    simp only [hst] at hs hrows
    cases hc : clusterTerms cache o.cluster spec.terms with
    | error x => simp [hc] at hs
    | ok ts =>
      simp only [hc, Except.ok.injEq] at hs
      simp only [recordedStruct, hst]
      exact hs
  | none =>
    simp only [hst] at hs hrows
    simp only [recordedStruct, hst]
    cases hbs : buildStructure (cfgOf o (n - drop.length) cache spec.terms) with
    | error e => simp [hbs] at hrows
    | ok rs' =>
      simp only [hbs, Except.ok.injEq] at hrows
      subst hrows
      obtain ⟨terms, scp', hc, hg, hbt⟩ := buildStructure_spec hbs
      simp only [cfgOf] at hc hg hbt
      simp only [hc, hg, Except.ok.injEq] at hs
      subst hs
      rw [← (buildTerms_spec hbt).1]
      simp [termStructs, List.map_map, Function.comp_def]

/-- one part: its spec records encoder state for every scoped factor of its recorded structure, and for nothing
else beyond what the spec brought along -/
theorem buildPartH_enc {W : HWorld ν τ σ} {mc : MatClass} {memo : List (String × Evald ν)} {drop : List Nat}
    {pooled : TState τ} {c c' : EncCaches σ} {h : HSpec τ σ} {p : PartH τ σ} (hok : CachesOK c)
    (hb : buildPartH W mc memo drop pooled c h = .ok (p, c')) :
    CachesOK c' ∧
    ∃ str, p.spec.core.struct = some str ∧
      (∀ s ∈ str, ∀ st ∈ s.sts, ∀ sf ∈ st.factors, sf.expr ∈ p.spec.enc.map (·.1)) ∧
      (∀ k ∈ p.spec.enc.map (·.1), k ∈ h.enc.map (·.1) ∨ ∃ s ∈ str, ∃ st ∈ s.sts, ∃ sf ∈ st.factors, k = sf.expr) ∧
      (∀ k ∈ h.enc.map (·.1), k ∈ p.spec.enc.map (·.1)) := by
  obtain ⟨scp, a, q, hscp, hfold, hq, hp, hc'⟩ := buildPartH_spec hb
  obtain ⟨ok', hin, hkeys⟩ := encodeLoop_spec (encodeTrace scp) hok hfold
  have hscp' : scopedTermsOf (optsOfLeaf mc h) (partCache (metaCache W memo) a.got) h.core = .ok scp := by
    rw [scopedTermsOf_partCache]; exact hscp
  obtain ⟨str, hstr, hmap⟩ := recorded_is_scoped hq hscp'
  have htrace : ∀ sf, sf ∈ encodeTrace scp ↔ ∃ s ∈ str, ∃ st ∈ s.sts, sf ∈ st.factors := by
    intro sf
    rw [← hmap]
    simp only [encodeTrace, List.mem_flatMap, List.mem_map]
    constructor
    · rintro ⟨pr, ⟨s, hs, rfl⟩, st, hst, hsf⟩
      exact ⟨s, hs, st, hst, hsf⟩
    · rintro ⟨s, hs, st, hst, hsf⟩
      exact ⟨_, ⟨s, hs, rfl⟩, st, hst, hsf⟩
  subst hp
  subst hc'
  refine ⟨ok', str, hstr, ?_, ?_, ?_⟩
  · intro s hs st hst sf hsf
    exact hin sf ((htrace sf).mpr ⟨s, hs, st, hst, hsf⟩)
  · intro k hk
    rcases (hkeys k).mp hk with h' | ⟨sf, hsf, rfl⟩
    · exact .inl h'
    · obtain ⟨s, hs, st, hst, hsf'⟩ := (htrace sf).mp hsf
      exact .inr ⟨s, hs, st, hst, sf, hsf', rfl⟩
  · intro k hk
    exact (hkeys k).mpr (.inl hk)

theorem buildLeaves_enc {W : HWorld ν τ σ} {mc : MatClass} {memo : List (String × Evald ν)} {drop : List Nat}
    {pooled : TState τ} : ∀ {L : List (HSpec τ σ)} {c c' : EncCaches σ} {ps : List (PartH τ σ)}, CachesOK c →
    buildLeaves W mc memo drop pooled c L = .ok (ps, c') →
    List.Forall₂ (fun h p => ∃ str, p.spec.core.struct = some str ∧
      (∀ s ∈ str, ∀ st ∈ s.sts, ∀ sf ∈ st.factors, sf.expr ∈ p.spec.enc.map (·.1)) ∧
      (∀ k ∈ p.spec.enc.map (·.1), k ∈ h.enc.map (·.1) ∨ ∃ s ∈ str, ∃ st ∈ s.sts, ∃ sf ∈ st.factors, k = sf.expr) ∧
      (∀ k ∈ h.enc.map (·.1), k ∈ p.spec.enc.map (·.1))) L ps
  | [], c, c', ps, _, h => by
    simp only [buildLeaves, Except.ok.injEq, Prod.mk.injEq] at h
    rw [← h.1]; exact .nil
  | x :: L, c, c', ps, hok, h => by
    simp only [buildLeaves] at h
    cases hb : buildPartH W mc memo drop pooled c x with
    | error e => simp [hb] at h
    | ok pc =>
      obtain ⟨p, c1⟩ := pc
      simp only [hb] at h
      cases hr : buildLeaves W mc memo drop pooled c1 L with
      | error e => simp [hr] at h
      | ok r =>
        obtain ⟨ps', c2⟩ := r
        simp only [hr, Except.ok.injEq, Prod.mk.injEq] at h
        rw [← h.1]
        obtain ⟨ok1, hp⟩ := buildPartH_enc hok hb
        exact .cons hp (buildLeaves_enc ok1 hr)

end recorded

end FormulaicVerif.Proofs.C07Hist
