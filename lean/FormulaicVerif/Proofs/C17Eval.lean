import FormulaicVerif.Proofs.C17Bfs
/-! Helper lemmas for C17: evaluation depends only on the free names; an unbound name in strict
position makes it fail; a `NameError` names an unbound free name. Not obligations. -/
namespace FormulaicVerif.Proofs.C17
open FormulaicVerif.Model.Variables FormulaicVerif.Spec.Variables
variable {ν : Type}

/-! ### coincidence -/
theorem bindEnv_congr (T : List String) (loc : List (String × ν)) (ρ ρ' : String → Option ν) (xs : List String)
    (h : ∀ id ∈ without T xs, ρ id = ρ' id) : ∀ id ∈ xs, bindEnv T loc ρ id = bindEnv T loc ρ' id := by
  intro id hid
  simp only [bindEnv]
  cases hc : T.contains id with
  | true => simp
  | false => simpa using h id ((mem_without_iff T xs id).2 ⟨hid, hc⟩)

mutual
theorem eval_congr (ops : Ops ν) (ρ ρ' : String → Option ν) :
    ∀ (e : Expr), (∀ id ∈ freeNames e, ρ id = ρ' id) → eval ops ρ e = eval ops ρ' e
  | .name id, h => by simp only [eval, h id (by simp [freeNames])]
  | .const _, _ => by simp only [eval]
  | .attr v a, h => by
    simp only [eval, eval_congr ops ρ ρ' v (fun id hi => h id (by simpa [freeNames] using hi))]
  | .call f args kws, h => by
    simp only [eval,
      eval_congr ops ρ ρ' f (fun id hi => h id (by simp [freeNames, hi])),
      evalList_congr ops ρ ρ' args (fun id hi => h id (by simp [freeNames, hi])),
      evalKws_congr ops ρ ρ' kws (fun id hi => h id (by simp [freeNames, hi]))]
  | .unop o x, h => by
    simp only [eval, eval_congr ops ρ ρ' x (fun id hi => h id (by simpa [freeNames] using hi))]
  | .binop o l r, h => by
    simp only [eval,
      eval_congr ops ρ ρ' l (fun id hi => h id (by simp [freeNames, hi])),
      eval_congr ops ρ ρ' r (fun id hi => h id (by simp [freeNames, hi]))]
  | .subscript v i, h => by
    simp only [eval,
      eval_congr ops ρ ρ' v (fun id hi => h id (by simp [freeNames, hi])),
      eval_congr ops ρ ρ' i (fun id hi => h id (by simp [freeNames, hi]))]
  | .seq k es, h => by
    simp only [eval, evalList_congr ops ρ ρ' es (fun id hi => h id (by simpa [freeNames] using hi))]
  | .lambda ps ds body, h => by
    have hb : ∀ b, eval ops (bindEnv ps b ρ) body = eval ops (bindEnv ps b ρ') body := fun b =>
      eval_congr ops _ _ body (bindEnv_congr ps b ρ ρ' _ (fun id hi => h id (by simp [freeNames, hi])))
    simp only [eval, evalList_congr ops ρ ρ' ds (fun id hi => h id (by simp [freeNames, hi])), hb]
  | .comp k elts [], h => by simp only [eval]
  | .comp k elts (.mk ts it ifs :: gs), h => by
    have hT : gensTargets (.mk ts it ifs :: gs) = ts ++ gensTargets gs := rfl
    simp only [freeNames, freeNamesGens, hT, if_true] at h
    have h1 := eval_congr ops ρ ρ' it (fun id hi => h id (by simp [hi]))
    have h2 : ∀ loc, evalConds ops (bindEnv (ts ++ gensTargets gs) loc ρ) ifs
        = evalConds ops (bindEnv (ts ++ gensTargets gs) loc ρ') ifs := fun loc =>
      evalConds_congr ops _ _ ifs (bindEnv_congr _ loc ρ ρ' _ (fun id hi => h id (by simp [hi])))
    have h3 : ∀ loc, evalList ops (bindEnv (ts ++ gensTargets gs) loc ρ) elts
        = evalList ops (bindEnv (ts ++ gensTargets gs) loc ρ') elts := fun loc =>
      evalList_congr ops _ _ elts (bindEnv_congr _ loc ρ ρ' _ (fun id hi => h id (by simp [hi])))
    have h4 : ∀ loc k, evalGens ops (ts ++ gensTargets gs) ρ loc gs k
        = evalGens ops (ts ++ gensTargets gs) ρ' loc gs k := fun loc k =>
      evalGens_congr ops _ ρ ρ' gs (fun id hi => h id (by simp [hi])) loc k
    simp only [eval, h1, h2, h3, h4]
theorem evalList_congr (ops : Ops ν) (ρ ρ' : String → Option ν) :
    ∀ (es : List Expr), (∀ id ∈ freeNamesList es, ρ id = ρ' id) → evalList ops ρ es = evalList ops ρ' es
  | [], _ => by simp only [evalList]
  | e :: es, h => by
    simp only [evalList,
      eval_congr ops ρ ρ' e (fun id hi => h id (by simp [freeNamesList, hi])),
      evalList_congr ops ρ ρ' es (fun id hi => h id (by simp [freeNamesList, hi]))]
theorem evalKws_congr (ops : Ops ν) (ρ ρ' : String → Option ν) :
    ∀ (ks : List (String × Expr)), (∀ id ∈ freeNamesKws ks, ρ id = ρ' id) → evalKws ops ρ ks = evalKws ops ρ' ks
  | [], _ => by simp only [evalKws]
  | k :: ks, h => by
    simp only [evalKws,
      eval_congr ops ρ ρ' k.2 (fun id hi => h id (by simp [freeNamesKws, hi])),
      evalKws_congr ops ρ ρ' ks (fun id hi => h id (by simp [freeNamesKws, hi]))]
theorem evalConds_congr (ops : Ops ν) (ρ ρ' : String → Option ν) :
    ∀ (cs : List Expr), (∀ id ∈ freeNamesList cs, ρ id = ρ' id) → evalConds ops ρ cs = evalConds ops ρ' cs
  | [], _ => by simp only [evalConds]
  | c :: cs, h => by
    simp only [evalConds,
      eval_congr ops ρ ρ' c (fun id hi => h id (by simp [freeNamesList, hi])),
      evalConds_congr ops ρ ρ' cs (fun id hi => h id (by simp [freeNamesList, hi]))]
theorem evalGens_congr (ops : Ops ν) (T : List String) (ρ ρ' : String → Option ν) :
    ∀ (gs : List Gen), (∀ id ∈ freeNamesGens T false gs, ρ id = ρ' id) →
      ∀ loc k, evalGens ops T ρ loc gs k = evalGens ops T ρ' loc gs k
  | [], _, _, _ => by simp only [evalGens]
  | .mk ts it ifs :: gs, h, loc, k => by
    simp only [freeNamesGens, Bool.false_eq_true, if_false] at h
    have h1 := eval_congr ops _ _ it (bindEnv_congr T loc ρ ρ' _ (fun id hi => h id (by simp [hi])))
    have h2 : ∀ loc', evalConds ops (bindEnv T loc' ρ) ifs = evalConds ops (bindEnv T loc' ρ') ifs := fun loc' =>
      evalConds_congr ops _ _ ifs (bindEnv_congr T loc' ρ ρ' _ (fun id hi => h id (by simp [hi])))
    have h3 : ∀ loc', evalGens ops T ρ loc' gs k = evalGens ops T ρ' loc' gs k := fun loc' =>
      evalGens_congr ops T ρ ρ' gs (fun id hi => h id (by simp [hi])) loc' k
    simp only [evalGens, h1, h2, h3]
end

/-! ### loops and scopes -/
def Fails {ε α : Type} (r : Except ε α) : Prop := ∃ e, r = .error e

theorem map_error {α β : Type} (r : Except EvalErr α) (f : α → β) (e : EvalErr) :
    r.map f = .error e ↔ r = .error e := by
  cases r <;> simp [Except.map]

theorem retag_nameError {α : Type} (T : List String) (r : Except EvalErr α) (x : String)
    (h : retag T r = .error (.nameError x)) : r = .error (.nameError x) ∧ T.contains x = false := by
  cases r with
  | ok v => simp [retag] at h
  | error e =>
    cases e with
    | nameError y =>
      simp only [retag] at h
      cases hc : T.contains y with
      | true => rw [hc] at h; simp at h
      | false =>
        rw [hc] at h
        simp only [Bool.false_eq_true, if_false, Except.error.injEq, EvalErr.nameError.injEq] at h
        subst h; exact ⟨rfl, hc⟩
    | unboundLocal y => simp [retag] at h
    | other w => simp [retag] at h

theorem forItems_error (items : List ν) (body : ν → Except EvalErr (List ν)) (e : EvalErr)
    (h : forItems items body = .error e) : ∃ x ∈ items, body x = .error e := by
  induction items with
  | nil => simp [forItems] at h
  | cons x xs ih =>
    simp only [forItems] at h
    cases hb : body x with
    | error e' =>
      rw [hb] at h
      have : e' = e := by simpa using h
      subst this; exact ⟨x, by simp, hb⟩
    | ok rs =>
      rw [hb] at h
      cases hr : forItems xs body with
      | error e' =>
        rw [hr] at h
        have : e' = e := by simpa using h
        subst this
        obtain ⟨y, hy, hby⟩ := ih hr
        exact ⟨y, by simp [hy], hby⟩
      | ok rest => rw [hr] at h; cases h

theorem liftOp_other (r : Except String ν) (e : EvalErr) (h : liftOp r = .error e) : ∃ w, e = .other w := by
  cases r with
  | ok v => simp [liftOp] at h
  | error w => simp only [liftOp, Except.error.injEq] at h; exact ⟨w, h.symm⟩

theorem bindTargets_other (ops : Ops ν) (ts : List String) (x : ν) (e : EvalErr)
    (h : bindTargets ops ts x = .error e) : ∃ w, e = .other w := by
  unfold bindTargets at h
  split at h
  · cases h
  · cases hu : liftOp (ops.unpack ts.length x) with
    | error e' =>
      rw [hu] at h
      have : e' = e := by simpa using h
      subst this; exact liftOp_other _ _ hu
    | ok vs =>
      rw [hu] at h
      simp only at h
      split at h
      · cases h
      · simp only [Except.error.injEq] at h; exact ⟨_, h.symm⟩

/-- where an error of one `for` clause comes from -/
theorem genLoop_error (ops : Ops ν) (ts : List String) (loc : List (String × ν)) (itv : ν)
    (conds : List (String × ν) → Except EvalErr Bool)
    (rest : List (String × ν) → Except EvalErr (List ν)) (e : EvalErr)
    (h : genLoop ops ts loc itv conds rest = .error e) :
    (∃ w, e = .other w) ∨ (∃ l, conds l = .error e) ∨ (∃ l, rest l = .error e) := by
  simp only [genLoop] at h
  cases hi : liftOp (ops.iter itv) with
  | error e' =>
    rw [hi] at h
    have : e' = e := by simpa using h
    subst this; exact Or.inl (liftOp_other _ _ hi)
  | ok items =>
    rw [hi] at h
    obtain ⟨x, _, hx⟩ := forItems_error _ _ _ h
    cases hb : bindTargets ops ts x with
    | error e' =>
      rw [hb] at hx
      have : e' = e := by simpa using hx
      subst this; exact Or.inl (bindTargets_other ops ts x _ hb)
    | ok bs =>
      rw [hb] at hx
      simp only at hx
      cases hc : conds (bs ++ loc) with
      | error e' =>
        rw [hc] at hx
        have : e' = e := by simpa using hx
        subst this; exact Or.inr (Or.inl ⟨_, hc⟩)
      | ok t =>
        rw [hc] at hx
        cases t with
        | false => simp at hx
        | true => exact Or.inr (Or.inr ⟨_, hx⟩)

/-! ### an unbound name in strict position makes the evaluation fail -/
mutual
theorem eval_unbound (ops : Ops ν) (ρ : String → Option ν) (x : String) (hx : ρ x = none) :
    ∀ (e : Expr), x ∈ strictNames e → Fails (eval ops ρ e)
  | .name id, h => by
    have : x = id := by simpa [strictNames] using h
    subst this
    exact ⟨.nameError x, by simp only [eval, hx]⟩
  | .const _, h => by simp [strictNames] at h
  | .attr v a, h => by
    obtain ⟨e, he⟩ := eval_unbound ops ρ x hx v (by simpa [strictNames] using h)
    exact ⟨e, by simp only [eval, he]⟩
  | .call f args kws, h => by
    have h' : x ∈ strictNames f ∨ x ∈ strictNamesList args ∨ x ∈ strictNamesKws kws := by
      simpa [strictNames, or_assoc] using h
    cases h1 : eval ops ρ f with
    | error e => exact ⟨e, by simp only [eval, h1]⟩
    | ok fv =>
      cases h2 : evalList ops ρ args with
      | error e => exact ⟨e, by simp only [eval, h1, h2]⟩
      | ok avs =>
        cases h3 : evalKws ops ρ kws with
        | error e => exact ⟨e, by simp only [eval, h1, h2, h3]⟩
        | ok kvs =>
          exfalso
          rcases h' with c1 | c2 | c3
          · obtain ⟨e, he⟩ := eval_unbound ops ρ x hx f c1; rw [h1] at he; cases he
          · obtain ⟨e, he⟩ := evalList_unbound ops ρ x hx args c2; rw [h2] at he; cases he
          · obtain ⟨e, he⟩ := evalKws_unbound ops ρ x hx kws c3; rw [h3] at he; cases he
  | .unop o y, h => by
    obtain ⟨e, he⟩ := eval_unbound ops ρ x hx y (by simpa [strictNames] using h)
    exact ⟨e, by simp only [eval, he]⟩
  | .binop o l r, h => by
    have h' : x ∈ strictNames l ∨ x ∈ strictNames r := by simpa [strictNames] using h
    cases h1 : eval ops ρ l with
    | error e => exact ⟨e, by simp only [eval, h1]⟩
    | ok lv =>
      cases h2 : eval ops ρ r with
      | error e => exact ⟨e, by simp only [eval, h1, h2]⟩
      | ok rv =>
        exfalso
        rcases h' with c1 | c2
        · obtain ⟨e, he⟩ := eval_unbound ops ρ x hx l c1; rw [h1] at he; cases he
        · obtain ⟨e, he⟩ := eval_unbound ops ρ x hx r c2; rw [h2] at he; cases he
  | .subscript v i, h => by
    have h' : x ∈ strictNames v ∨ x ∈ strictNames i := by simpa [strictNames] using h
    cases h1 : eval ops ρ v with
    | error e => exact ⟨e, by simp only [eval, h1]⟩
    | ok lv =>
      cases h2 : eval ops ρ i with
      | error e => exact ⟨e, by simp only [eval, h1, h2]⟩
      | ok rv =>
        exfalso
        rcases h' with c1 | c2
        · obtain ⟨e, he⟩ := eval_unbound ops ρ x hx v c1; rw [h1] at he; cases he
        · obtain ⟨e, he⟩ := eval_unbound ops ρ x hx i c2; rw [h2] at he; cases he
  | .seq k es, h => by
    obtain ⟨e, he⟩ := evalList_unbound ops ρ x hx es (by simpa [strictNames] using h)
    exact ⟨e, by simp only [eval, he]⟩
  | .lambda ps ds body, h => by
    obtain ⟨e, he⟩ := evalList_unbound ops ρ x hx ds (by simpa [strictNames] using h)
    exact ⟨e, by simp only [eval, he]⟩
  | .comp k elts [], h => by simp [strictNames] at h
  | .comp k elts (.mk ts it ifs :: gs), h => by
    obtain ⟨e, he⟩ := eval_unbound ops ρ x hx it (by simpa [strictNames] using h)
    exact ⟨e, by simp only [eval, he]⟩
theorem evalList_unbound (ops : Ops ν) (ρ : String → Option ν) (x : String) (hx : ρ x = none) :
    ∀ (es : List Expr), x ∈ strictNamesList es → Fails (evalList ops ρ es)
  | [], h => by simp [strictNamesList] at h
  | e :: es, h => by
    have h' : x ∈ strictNames e ∨ x ∈ strictNamesList es := by simpa [strictNamesList] using h
    cases h1 : eval ops ρ e with
    | error e' => exact ⟨e', by simp only [evalList, h1]⟩
    | ok v =>
      cases h2 : evalList ops ρ es with
      | error e' => exact ⟨e', by simp only [evalList, h1, h2]⟩
      | ok vs =>
        exfalso
        rcases h' with c1 | c2
        · obtain ⟨e', he⟩ := eval_unbound ops ρ x hx e c1; rw [h1] at he; cases he
        · obtain ⟨e', he⟩ := evalList_unbound ops ρ x hx es c2; rw [h2] at he; cases he
theorem evalKws_unbound (ops : Ops ν) (ρ : String → Option ν) (x : String) (hx : ρ x = none) :
    ∀ (ks : List (String × Expr)), x ∈ strictNamesKws ks → Fails (evalKws ops ρ ks)
  | [], h => by simp [strictNamesKws] at h
  | k :: ks, h => by
    have h' : x ∈ strictNames k.2 ∨ x ∈ strictNamesKws ks := by simpa [strictNamesKws] using h
    cases h1 : eval ops ρ k.2 with
    | error e' => exact ⟨e', by simp only [evalKws, h1]⟩
    | ok v =>
      cases h2 : evalKws ops ρ ks with
      | error e' => exact ⟨e', by simp only [evalKws, h1, h2]⟩
      | ok vs =>
        exfalso
        rcases h' with c1 | c2
        · obtain ⟨e', he⟩ := eval_unbound ops ρ x hx k.2 c1; rw [h1] at he; cases he
        · obtain ⟨e', he⟩ := evalKws_unbound ops ρ x hx ks c2; rw [h2] at he; cases he
end


/-! ### a `NameError` names an unbound free name -/
theorem bindEnv_free (T : List String) (loc : List (String × ν)) (ρ : String → Option ν) (x : String)
    (hT : T.contains x = false) : bindEnv T loc ρ x = ρ x := by
  simp only [bindEnv, hT]; rfl

theorem mem_without_of (T xs : List String) (x : String) (h : x ∈ xs) (hT : T.contains x = false) :
    x ∈ without T xs := (mem_without_iff T xs x).2 ⟨h, hT⟩

theorem liftOp_ne_nameError (r : Except String ν) (id : String) : liftOp r ≠ .error (.nameError id) := by
  cases r <;> simp [liftOp]

mutual
theorem eval_nameError_sound (ops : Ops ν) (ρ : String → Option ν) (x : String) :
    ∀ (e : Expr), eval ops ρ e = .error (.nameError x) → x ∈ freeNames e ∧ ρ x = none
  | .name id, h => by
    simp only [eval] at h
    cases hr : ρ id with
    | some v => rw [hr] at h; cases h
    | none =>
      rw [hr] at h
      have : id = x := by simpa using h
      subst this; exact ⟨by simp [freeNames], hr⟩
  | .const _, h => by simp [eval] at h
  | .attr v a, h => by
    simp only [eval] at h
    cases h1 : eval ops ρ v with
    | error e =>
      rw [h1] at h
      have : e = .nameError x := by simpa using h
      subst this
      have := eval_nameError_sound ops ρ x v h1
      exact ⟨by simp [freeNames, this.1], this.2⟩
    | ok vv => rw [h1] at h; exact absurd h (liftOp_ne_nameError _ _)
  | .call f args kws, h => by
    simp only [eval] at h
    cases h1 : eval ops ρ f with
    | error e =>
      rw [h1] at h
      have : e = .nameError x := by simpa using h
      subst this
      have := eval_nameError_sound ops ρ x f h1
      exact ⟨by simp [freeNames, this.1], this.2⟩
    | ok fv =>
      rw [h1] at h
      cases h2 : evalList ops ρ args with
      | error e =>
        rw [h2] at h
        have : e = .nameError x := by simpa using h
        subst this
        have := evalList_nameError_sound ops ρ x args h2
        exact ⟨by simp [freeNames, this.1], this.2⟩
      | ok avs =>
        rw [h2] at h
        cases h3 : evalKws ops ρ kws with
        | error e =>
          rw [h3] at h
          have : e = .nameError x := by simpa using h
          subst this
          have := evalKws_nameError_sound ops ρ x kws h3
          exact ⟨by simp [freeNames, this.1], this.2⟩
        | ok kvs => rw [h3] at h; exact absurd h (liftOp_ne_nameError _ _)
  | .unop o y, h => by
    simp only [eval] at h
    cases h1 : eval ops ρ y with
    | error e =>
      rw [h1] at h
      have : e = .nameError x := by simpa using h
      subst this
      have := eval_nameError_sound ops ρ x y h1
      exact ⟨by simp [freeNames, this.1], this.2⟩
    | ok vv => rw [h1] at h; exact absurd h (liftOp_ne_nameError _ _)
  | .binop o l r, h => by
    simp only [eval] at h
    cases h1 : eval ops ρ l with
    | error e =>
      rw [h1] at h
      have : e = .nameError x := by simpa using h
      subst this
      have := eval_nameError_sound ops ρ x l h1
      exact ⟨by simp [freeNames, this.1], this.2⟩
    | ok lv =>
      rw [h1] at h
      cases h2 : eval ops ρ r with
      | error e =>
        rw [h2] at h
        have : e = .nameError x := by simpa using h
        subst this
        have := eval_nameError_sound ops ρ x r h2
        exact ⟨by simp [freeNames, this.1], this.2⟩
      | ok rv => rw [h2] at h; exact absurd h (liftOp_ne_nameError _ _)
  | .subscript v i, h => by
    simp only [eval] at h
    cases h1 : eval ops ρ v with
    | error e =>
      rw [h1] at h
      have : e = .nameError x := by simpa using h
      subst this
      have := eval_nameError_sound ops ρ x v h1
      exact ⟨by simp [freeNames, this.1], this.2⟩
    | ok lv =>
      rw [h1] at h
      cases h2 : eval ops ρ i with
      | error e =>
        rw [h2] at h
        have : e = .nameError x := by simpa using h
        subst this
        have := eval_nameError_sound ops ρ x i h2
        exact ⟨by simp [freeNames, this.1], this.2⟩
      | ok rv => rw [h2] at h; exact absurd h (liftOp_ne_nameError _ _)
  | .seq k es, h => by
    simp only [eval] at h
    cases h1 : evalList ops ρ es with
    | error e =>
      rw [h1] at h
      have : e = .nameError x := by simpa using h
      subst this
      have := evalList_nameError_sound ops ρ x es h1
      exact ⟨by simp [freeNames, this.1], this.2⟩
    | ok vs => rw [h1] at h; cases h
  | .lambda ps ds body, h => by
    simp only [eval] at h
    cases h1 : evalList ops ρ ds with
    | error e =>
      rw [h1] at h
      have : e = .nameError x := by simpa using h
      subst this
      have := evalList_nameError_sound ops ρ x ds h1
      exact ⟨by simp [freeNames, this.1], this.2⟩
    | ok dvs => rw [h1] at h; cases h
  | .comp k elts [], h => by simp [eval] at h
  | .comp k elts (.mk ts it ifs :: gs), h => by
    have hfn : freeNames (.comp k elts (.mk ts it ifs :: gs)) =
        without (ts ++ gensTargets gs) (freeNamesList elts) ++
          (freeNames it ++ without (ts ++ gensTargets gs) (freeNamesList ifs) ++
            freeNamesGens (ts ++ gensTargets gs) false gs) := by
      simp only [freeNames, freeNamesGens, gensTargets, if_true]
    rw [hfn]
    simp only [eval] at h
    cases h1 : eval ops ρ it with
    | error e =>
      rw [h1] at h
      have : e = .nameError x := by simpa using h
      subst this
      have := eval_nameError_sound ops ρ x it h1
      exact ⟨by simp only [List.mem_append]; exact Or.inr (Or.inl (Or.inl this.1)), this.2⟩
    | ok itv =>
      rw [h1] at h
      simp only at h
      by_cases hk : (k == "GeneratorExp") = true
      · rw [if_pos hk] at h; cases h
      · rw [if_neg hk] at h
        obtain ⟨h2, hT⟩ := retag_nameError _ _ _ ((map_error _ _ _).1 h)
        rcases genLoop_error _ _ _ _ _ _ _ h2 with ⟨w, hw⟩ | ⟨l, hl⟩ | ⟨l, hl⟩
        · cases hw
        · have := evalConds_nameError_sound ops _ x ifs hl
          rw [bindEnv_free _ _ _ _ hT] at this
          exact ⟨by simp only [List.mem_append]; exact Or.inr (Or.inl (Or.inr (mem_without_of _ _ _ this.1 hT))), this.2⟩
        · rcases evalGens_nameError_sound ops _ ρ x hT gs l _ hl with ⟨h3, h4⟩ | ⟨l', hl'⟩
          · exact ⟨by simp only [List.mem_append]; exact Or.inr (Or.inr h3), h4⟩
          · cases h5 : evalList ops (bindEnv (ts ++ gensTargets gs) l' ρ) elts with
            | error e =>
              rw [h5] at hl'
              have : e = .nameError x := by simpa using hl'
              subst this
              have := evalList_nameError_sound ops _ x elts h5
              rw [bindEnv_free _ _ _ _ hT] at this
              exact ⟨by simp only [List.mem_append]; exact Or.inl (mem_without_of _ _ _ this.1 hT), this.2⟩
            | ok vs => rw [h5] at hl'; cases hl'
theorem evalList_nameError_sound (ops : Ops ν) (ρ : String → Option ν) (x : String) :
    ∀ (es : List Expr), evalList ops ρ es = .error (.nameError x) → x ∈ freeNamesList es ∧ ρ x = none
  | [], h => by simp [evalList] at h
  | e :: es, h => by
    simp only [evalList] at h
    cases h1 : eval ops ρ e with
    | error e' =>
      rw [h1] at h
      have : e' = .nameError x := by simpa using h
      subst this
      have := eval_nameError_sound ops ρ x e h1
      exact ⟨by simp [freeNamesList, this.1], this.2⟩
    | ok v =>
      rw [h1] at h
      cases h2 : evalList ops ρ es with
      | error e' =>
        rw [h2] at h
        have : e' = .nameError x := by simpa using h
        subst this
        have := evalList_nameError_sound ops ρ x es h2
        exact ⟨by simp [freeNamesList, this.1], this.2⟩
      | ok vs => rw [h2] at h; cases h
theorem evalKws_nameError_sound (ops : Ops ν) (ρ : String → Option ν) (x : String) :
    ∀ (ks : List (String × Expr)), evalKws ops ρ ks = .error (.nameError x) → x ∈ freeNamesKws ks ∧ ρ x = none
  | [], h => by simp [evalKws] at h
  | k :: ks, h => by
    simp only [evalKws] at h
    cases h1 : eval ops ρ k.2 with
    | error e' =>
      rw [h1] at h
      have : e' = .nameError x := by simpa using h
      subst this
      have := eval_nameError_sound ops ρ x k.2 h1
      exact ⟨by simp [freeNamesKws, this.1], this.2⟩
    | ok v =>
      rw [h1] at h
      cases h2 : evalKws ops ρ ks with
      | error e' =>
        rw [h2] at h
        have : e' = .nameError x := by simpa using h
        subst this
        have := evalKws_nameError_sound ops ρ x ks h2
        exact ⟨by simp [freeNamesKws, this.1], this.2⟩
      | ok vs => rw [h2] at h; cases h
theorem evalConds_nameError_sound (ops : Ops ν) (ρ : String → Option ν) (x : String) :
    ∀ (cs : List Expr), evalConds ops ρ cs = .error (.nameError x) → x ∈ freeNamesList cs ∧ ρ x = none
  | [], h => by simp [evalConds] at h
  | c :: cs, h => by
    simp only [evalConds] at h
    cases h1 : eval ops ρ c with
    | error e' =>
      rw [h1] at h
      have : e' = .nameError x := by simpa using h
      subst this
      have := eval_nameError_sound ops ρ x c h1
      exact ⟨by simp [freeNamesList, this.1], this.2⟩
    | ok v =>
      rw [h1] at h
      simp only at h
      cases h2 : liftOp (ops.truth v) with
      | error e' =>
        rw [h2] at h
        have : e' = .nameError x := by simpa using h
        subst this
        exact absurd h2 (liftOp_ne_nameError _ _)
      | ok t =>
        rw [h2] at h
        cases t with
        | false => cases h
        | true =>
          have := evalConds_nameError_sound ops ρ x cs h
          exact ⟨by simp [freeNamesList, this.1], this.2⟩
theorem evalGens_nameError_sound (ops : Ops ν) (T : List String) (ρ : String → Option ν) (x : String)
    (hT : T.contains x = false) :
    ∀ (gs : List Gen) (loc : List (String × ν)) (k : List (String × ν) → Except EvalErr (List ν)),
      evalGens ops T ρ loc gs k = .error (.nameError x) →
      (x ∈ freeNamesGens T false gs ∧ ρ x = none) ∨ ∃ l, k l = .error (.nameError x)
  | [], loc, k, h => Or.inr ⟨loc, by simpa [evalGens] using h⟩
  | .mk ts it ifs :: gs, loc, k, h => by
    simp only [evalGens] at h
    cases h1 : eval ops (bindEnv T loc ρ) it with
    | error e =>
      rw [h1] at h
      have : e = .nameError x := by simpa using h
      subst this
      have := eval_nameError_sound ops _ x it h1
      rw [bindEnv_free _ _ _ _ hT] at this
      exact Or.inl ⟨by
        simp only [freeNamesGens, Bool.false_eq_true, if_false, List.mem_append]
        exact Or.inl (Or.inl (mem_without_of _ _ _ this.1 hT)), this.2⟩
    | ok itv =>
      rw [h1] at h
      rcases genLoop_error _ _ _ _ _ _ _ h with ⟨w, hw⟩ | ⟨l, hl⟩ | ⟨l, hl⟩
      · cases hw
      · have := evalConds_nameError_sound ops _ x ifs hl
        rw [bindEnv_free _ _ _ _ hT] at this
        exact Or.inl ⟨by
          simp only [freeNamesGens, Bool.false_eq_true, if_false, List.mem_append]
          exact Or.inl (Or.inr (mem_without_of _ _ _ this.1 hT)), this.2⟩
      · rcases evalGens_nameError_sound ops T ρ x hT gs l k hl with ⟨h3, h4⟩ | h3
        · exact Or.inl ⟨by
            simp only [freeNamesGens, Bool.false_eq_true, if_false, List.mem_append]
            exact Or.inr h3, h4⟩
        · exact Or.inr h3
end

/-! ### with total operations every failure is a `NameError` (or an `UnboundLocalError`) -/
theorem liftOp_total_not_error (r : Except String ν) (h : ∃ v, r = .ok v) (x : EvalErr) :
    liftOp r ≠ .error x := by
  obtain ⟨v, hv⟩ := h; rw [hv]; simp [liftOp]

def IsNameError (x : EvalErr) : Prop := (∃ id, x = .nameError id) ∨ (∃ id, x = .unboundLocal id)

theorem bindTargets_total (ops : Ops ν) (ht : OpsTotal ops) (ts : List String) (x : ν) :
    ∃ bs, bindTargets ops ts x = .ok bs := by
  unfold bindTargets
  split
  · exact ⟨_, rfl⟩
  · obtain ⟨vs, hv, hl⟩ := ht.unpack ts.length x
    simp [hv, liftOp, hl]

theorem genLoop_error_total (ops : Ops ν) (ht : OpsTotal ops) (ts : List String) (loc : List (String × ν))
    (itv : ν) (conds : List (String × ν) → Except EvalErr Bool)
    (rest : List (String × ν) → Except EvalErr (List ν)) (e : EvalErr)
    (h : genLoop ops ts loc itv conds rest = .error e) :
    (∃ l, conds l = .error e) ∨ (∃ l, rest l = .error e) := by
  simp only [genLoop] at h
  obtain ⟨items, hi⟩ := ht.iter itv
  simp only [hi, liftOp] at h
  obtain ⟨x, _, hx⟩ := forItems_error _ _ _ h
  obtain ⟨bs, hb⟩ := bindTargets_total ops ht ts x
  rw [hb] at hx
  simp only at hx
  cases hc : conds (bs ++ loc) with
  | error e' =>
    rw [hc] at hx
    have : e' = e := by simpa using hx
    subst this; exact Or.inl ⟨_, hc⟩
  | ok t =>
    rw [hc] at hx
    cases t with
    | false => simp at hx
    | true => exact Or.inr ⟨_, hx⟩

theorem retag_error {α : Type} (T : List String) (r : Except EvalErr α) (e : EvalErr)
    (h : retag T r = .error e) : ∃ e', r = .error e' ∧ (IsNameError e' → IsNameError e) := by
  cases r with
  | ok v => simp [retag] at h
  | error e' =>
    refine ⟨e', rfl, fun _ => ?_⟩
    cases e' with
    | nameError y =>
      simp only [retag] at h
      cases hc : T.contains y with
      | true => rw [hc] at h; simp at h; exact Or.inr ⟨y, h.symm⟩
      | false => rw [hc] at h; simp at h; exact Or.inl ⟨y, h.symm⟩
    | unboundLocal y => simp [retag] at h; exact Or.inr ⟨y, h.symm⟩
    | other w =>
      rename_i hn
      rcases hn with ⟨id, hid⟩ | ⟨id, hid⟩ <;> cases hid

mutual
theorem eval_total_err (ops : Ops ν) (ht : OpsTotal ops) (ρ : String → Option ν) (x : EvalErr) :
    ∀ (e : Expr), eval ops ρ e = .error x → IsNameError x
  | .name id, h => by
    simp only [eval] at h
    cases hr : ρ id with
    | some v => rw [hr] at h; cases h
    | none => rw [hr] at h; exact Or.inl ⟨id, by simpa using h.symm⟩
  | .const _, h => by simp [eval] at h
  | .attr v a, h => by
    simp only [eval] at h
    cases h1 : eval ops ρ v with
    | error e =>
      rw [h1] at h
      have : e = x := by simpa using h
      subst this; exact eval_total_err ops ht ρ e v h1
    | ok vv => rw [h1] at h; exact absurd h (liftOp_total_not_error _ (ht.attr vv a) x)
  | .call f args kws, h => by
    simp only [eval] at h
    cases h1 : eval ops ρ f with
    | error e =>
      rw [h1] at h
      have : e = x := by simpa using h
      subst this; exact eval_total_err ops ht ρ e f h1
    | ok fv =>
      rw [h1] at h
      cases h2 : evalList ops ρ args with
      | error e =>
        rw [h2] at h
        have : e = x := by simpa using h
        subst this; exact evalList_total_err ops ht ρ e args h2
      | ok avs =>
        rw [h2] at h
        cases h3 : evalKws ops ρ kws with
        | error e =>
          rw [h3] at h
          have : e = x := by simpa using h
          subst this; exact evalKws_total_err ops ht ρ e kws h3
        | ok kvs => rw [h3] at h; exact absurd h (liftOp_total_not_error _ (ht.call fv avs kvs) x)
  | .unop o y, h => by
    simp only [eval] at h
    cases h1 : eval ops ρ y with
    | error e =>
      rw [h1] at h
      have : e = x := by simpa using h
      subst this; exact eval_total_err ops ht ρ e y h1
    | ok vv => rw [h1] at h; exact absurd h (liftOp_total_not_error _ (ht.unop o vv) x)
  | .binop o l r, h => by
    simp only [eval] at h
    cases h1 : eval ops ρ l with
    | error e =>
      rw [h1] at h
      have : e = x := by simpa using h
      subst this; exact eval_total_err ops ht ρ e l h1
    | ok lv =>
      rw [h1] at h
      cases h2 : eval ops ρ r with
      | error e =>
        rw [h2] at h
        have : e = x := by simpa using h
        subst this; exact eval_total_err ops ht ρ e r h2
      | ok rv => rw [h2] at h; exact absurd h (liftOp_total_not_error _ (ht.binop o lv rv) x)
  | .subscript v i, h => by
    simp only [eval] at h
    cases h1 : eval ops ρ v with
    | error e =>
      rw [h1] at h
      have : e = x := by simpa using h
      subst this; exact eval_total_err ops ht ρ e v h1
    | ok lv =>
      rw [h1] at h
      cases h2 : eval ops ρ i with
      | error e =>
        rw [h2] at h
        have : e = x := by simpa using h
        subst this; exact eval_total_err ops ht ρ e i h2
      | ok rv => rw [h2] at h; exact absurd h (liftOp_total_not_error _ (ht.subscript lv rv) x)
  | .seq k es, h => by
    simp only [eval] at h
    cases h1 : evalList ops ρ es with
    | error e =>
      rw [h1] at h
      have : e = x := by simpa using h
      subst this; exact evalList_total_err ops ht ρ e es h1
    | ok vs => rw [h1] at h; cases h
  | .lambda ps ds body, h => by
    simp only [eval] at h
    cases h1 : evalList ops ρ ds with
    | error e =>
      rw [h1] at h
      have : e = x := by simpa using h
      subst this; exact evalList_total_err ops ht ρ e ds h1
    | ok dvs => rw [h1] at h; cases h
  | .comp k elts [], h => by simp [eval] at h
  | .comp k elts (.mk ts it ifs :: gs), h => by
    simp only [eval] at h
    cases h1 : eval ops ρ it with
    | error e =>
      rw [h1] at h
      have : e = x := by simpa using h
      subst this; exact eval_total_err ops ht ρ e it h1
    | ok itv =>
      rw [h1] at h
      simp only at h
      by_cases hk : (k == "GeneratorExp") = true
      · rw [if_pos hk] at h; cases h
      · rw [if_neg hk] at h
        obtain ⟨e', h2, himp⟩ := retag_error _ _ _ ((map_error _ _ _).1 h)
        apply himp
        rcases genLoop_error_total ops ht _ _ _ _ _ _ h2 with ⟨l, hl⟩ | ⟨l, hl⟩
        · exact evalConds_total_err ops ht _ e' ifs hl
        · refine evalGens_total_err ops ht _ ρ e' gs l _ hl (fun l' e'' hl' => ?_)
          cases h5 : evalList ops (bindEnv (ts ++ gensTargets gs) l' ρ) elts with
          | error e3 =>
            rw [h5] at hl'
            have : e3 = e'' := by simpa using hl'
            subst this; exact evalList_total_err ops ht _ e3 elts h5
          | ok vs => rw [h5] at hl'; cases hl'
theorem evalList_total_err (ops : Ops ν) (ht : OpsTotal ops) (ρ : String → Option ν) (x : EvalErr) :
    ∀ (es : List Expr), evalList ops ρ es = .error x → IsNameError x
  | [], h => by simp [evalList] at h
  | e :: es, h => by
    simp only [evalList] at h
    cases h1 : eval ops ρ e with
    | error e' =>
      rw [h1] at h
      have : e' = x := by simpa using h
      subst this; exact eval_total_err ops ht ρ e' e h1
    | ok v =>
      rw [h1] at h
      cases h2 : evalList ops ρ es with
      | error e' =>
        rw [h2] at h
        have : e' = x := by simpa using h
        subst this; exact evalList_total_err ops ht ρ e' es h2
      | ok vs => rw [h2] at h; cases h
theorem evalKws_total_err (ops : Ops ν) (ht : OpsTotal ops) (ρ : String → Option ν) (x : EvalErr) :
    ∀ (ks : List (String × Expr)), evalKws ops ρ ks = .error x → IsNameError x
  | [], h => by simp [evalKws] at h
  | k :: ks, h => by
    simp only [evalKws] at h
    cases h1 : eval ops ρ k.2 with
    | error e' =>
      rw [h1] at h
      have : e' = x := by simpa using h
      subst this; exact eval_total_err ops ht ρ e' k.2 h1
    | ok v =>
      rw [h1] at h
      cases h2 : evalKws ops ρ ks with
      | error e' =>
        rw [h2] at h
        have : e' = x := by simpa using h
        subst this; exact evalKws_total_err ops ht ρ e' ks h2
      | ok vs => rw [h2] at h; cases h
theorem evalConds_total_err (ops : Ops ν) (ht : OpsTotal ops) (ρ : String → Option ν) (x : EvalErr) :
    ∀ (cs : List Expr), evalConds ops ρ cs = .error x → IsNameError x
  | [], h => by simp [evalConds] at h
  | c :: cs, h => by
    simp only [evalConds] at h
    cases h1 : eval ops ρ c with
    | error e' =>
      rw [h1] at h
      have : e' = x := by simpa using h
      subst this; exact eval_total_err ops ht ρ e' c h1
    | ok v =>
      rw [h1] at h
      simp only at h
      obtain ⟨t, ht'⟩ := ht.truth v
      simp only [ht', liftOp] at h
      cases t with
      | false => cases h
      | true => exact evalConds_total_err ops ht ρ x cs h
theorem evalGens_total_err (ops : Ops ν) (ht : OpsTotal ops) (T : List String) (ρ : String → Option ν)
    (x : EvalErr) :
    ∀ (gs : List Gen) (loc : List (String × ν)) (k : List (String × ν) → Except EvalErr (List ν)),
      evalGens ops T ρ loc gs k = .error x → (∀ l e, k l = .error e → IsNameError e) → IsNameError x
  | [], loc, k, h, hk => hk loc x (by simpa [evalGens] using h)
  | .mk ts it ifs :: gs, loc, k, h, hk => by
    simp only [evalGens] at h
    cases h1 : eval ops (bindEnv T loc ρ) it with
    | error e =>
      rw [h1] at h
      have : e = x := by simpa using h
      subst this; exact eval_total_err ops ht _ e it h1
    | ok itv =>
      rw [h1] at h
      rcases genLoop_error_total ops ht _ _ _ _ _ _ h with ⟨l, hl⟩ | ⟨l, hl⟩
      · exact evalConds_total_err ops ht _ x ifs hl
      · exact evalGens_total_err ops ht T ρ x gs l k hl hk
end

/-- with total operations, an evaluation in which every free name is bound succeeds — or reads a
comprehension target before it is bound -/
theorem eval_total (ops : Ops ν) (ht : OpsTotal ops) (ρ : String → Option ν) (e : Expr)
    (h : ∀ id ∈ freeNames e, ρ id ≠ none) :
    (∃ v, eval ops ρ e = .ok v) ∨ ∃ x, eval ops ρ e = .error (.unboundLocal x) := by
  cases he : eval ops ρ e with
  | ok v => exact Or.inl ⟨v, rfl⟩
  | error err =>
    rcases eval_total_err ops ht ρ err e he with ⟨id, hid⟩ | ⟨id, hid⟩
    · subst hid
      have := eval_nameError_sound ops ρ id e he
      exact absurd this.2 (h id this.1)
    · subst hid; exact Or.inr ⟨id, rfl⟩


/-! ### strict positions -/
mutual
theorem strict_sub_free (x : String) : ∀ (e : Expr), x ∈ strictNames e → x ∈ freeNames e
  | .name id, h => by simpa [strictNames, freeNames] using h
  | .const _, h => by simp [strictNames] at h
  | .attr v a, h => by
    simp only [strictNames] at h; simp only [freeNames]; exact strict_sub_free x v h
  | .call f args kws, h => by
    simp only [strictNames, List.mem_append] at h
    simp only [freeNames, List.mem_append]
    rcases h with (h | h) | h
    · exact Or.inl (Or.inl (strict_sub_free x f h))
    · exact Or.inl (Or.inr (strictList_sub_free x args h))
    · exact Or.inr (strictKws_sub_free x kws h)
  | .unop _ y, h => by
    simp only [strictNames] at h; simp only [freeNames]; exact strict_sub_free x y h
  | .binop _ l r, h => by
    simp only [strictNames, List.mem_append] at h
    simp only [freeNames, List.mem_append]
    rcases h with h | h
    · exact Or.inl (strict_sub_free x l h)
    · exact Or.inr (strict_sub_free x r h)
  | .subscript v i, h => by
    simp only [strictNames, List.mem_append] at h
    simp only [freeNames, List.mem_append]
    rcases h with h | h
    · exact Or.inl (strict_sub_free x v h)
    · exact Or.inr (strict_sub_free x i h)
  | .seq _ es, h => by
    simp only [strictNames] at h; simp only [freeNames]; exact strictList_sub_free x es h
  | .lambda ps ds body, h => by
    simp only [strictNames] at h
    simp only [freeNames, List.mem_append]
    exact Or.inl (strictList_sub_free x ds h)
  | .comp k elts [], h => by simp [strictNames] at h
  | .comp k elts (.mk ts it ifs :: gs), h => by
    simp only [strictNames] at h
    simp only [freeNames, freeNamesGens, if_true, List.mem_append]
    exact Or.inr (Or.inl (Or.inl (strict_sub_free x it h)))
theorem strictList_sub_free (x : String) : ∀ (es : List Expr), x ∈ strictNamesList es → x ∈ freeNamesList es
  | [], h => by simp [strictNamesList] at h
  | e :: es, h => by
    simp only [strictNamesList, List.mem_append] at h
    simp only [freeNamesList, List.mem_append]
    rcases h with h | h
    · exact Or.inl (strict_sub_free x e h)
    · exact Or.inr (strictList_sub_free x es h)
theorem strictKws_sub_free (x : String) :
    ∀ (ks : List (String × Expr)), x ∈ strictNamesKws ks → x ∈ freeNamesKws ks
  | [], h => by simp [strictNamesKws] at h
  | k :: ks, h => by
    simp only [strictNamesKws, List.mem_append] at h
    simp only [freeNamesKws, List.mem_append]
    rcases h with h | h
    · exact Or.inl (strict_sub_free x k.2 h)
    · exact Or.inr (strictKws_sub_free x ks h)
end

mutual
/-- in the strict fragment every free name is in strict position -/
theorem strict_eq_free : ∀ (e : Expr), noBinders e = true → strictNames e = freeNames e
  | .name id, _ => rfl
  | .const _, _ => rfl
  | .attr v a, h => by
    simp only [noBinders] at h; simp only [strictNames, freeNames, strict_eq_free v h]
  | .call f args kws, h => by
    simp only [noBinders, Bool.and_eq_true] at h
    simp only [strictNames, freeNames, strict_eq_free f h.1.1, strictList_eq_free args h.1.2,
      strictKws_eq_free kws h.2]
  | .unop _ y, h => by
    simp only [noBinders] at h; simp only [strictNames, freeNames, strict_eq_free y h]
  | .binop _ l r, h => by
    simp only [noBinders, Bool.and_eq_true] at h
    simp only [strictNames, freeNames, strict_eq_free l h.1, strict_eq_free r h.2]
  | .subscript v i, h => by
    simp only [noBinders, Bool.and_eq_true] at h
    simp only [strictNames, freeNames, strict_eq_free v h.1, strict_eq_free i h.2]
  | .seq _ es, h => by
    simp only [noBinders] at h; simp only [strictNames, freeNames, strictList_eq_free es h]
  | .lambda _ _ _, h => by simp [noBinders] at h
  | .comp _ _ _, h => by simp [noBinders] at h
theorem strictList_eq_free : ∀ (es : List Expr), noBindersList es = true → strictNamesList es = freeNamesList es
  | [], _ => rfl
  | e :: es, h => by
    simp only [noBindersList, Bool.and_eq_true] at h
    simp only [strictNamesList, freeNamesList, strict_eq_free e h.1, strictList_eq_free es h.2]
theorem strictKws_eq_free :
    ∀ (ks : List (String × Expr)), noBindersKws ks = true → strictNamesKws ks = freeNamesKws ks
  | [], _ => rfl
  | k :: ks, h => by
    simp only [noBindersKws, Bool.and_eq_true] at h
    simp only [strictNamesKws, freeNamesKws, strict_eq_free k.2 h.1, strictKws_eq_free ks h.2]
end

/-- a target of a comprehension is free in it only through the first iterable -/
theorem not_mem_freeNamesGens (T : List String) (x : String) (hx : T.contains x = true) :
    ∀ (gs : List Gen), x ∉ freeNamesGens T false gs
  | [] => by simp [freeNamesGens]
  | .mk _ it ifs :: gs => by
    simp only [freeNamesGens, Bool.false_eq_true, if_false, List.mem_append, mem_without_iff, hx]
    have := not_mem_freeNamesGens T x hx gs
    simp [this]

end FormulaicVerif.Proofs.C17
