import FormulaicVerif.Spec.Variables
/-! Helper lemmas for C17: evaluation depends only on the free names. Not obligations. -/
namespace FormulaicVerif.Proofs.C17
open FormulaicVerif.Model.Variables FormulaicVerif.Spec.Variables
variable {ν : Type}

/-! ### coincidence -/
mutual
theorem eval_congr (ops : Ops ν) (ρ ρ' : String → Option ν) :
    ∀ (e : Expr), (∀ id ∈ freeNames e, ρ id = ρ' id) → eval ops ρ e = eval ops ρ' e
  | .name id, h => by simp only [eval, h id (by simp [freeNames])]
  | .const _, _ => by simp only [eval]
  | .attr v a, h => by
    simp only [eval, eval_congr ops ρ ρ' v (fun id hi => h id (by simpa [freeNames] using hi))]
  | .call f args kws, h => by
    simp only [eval,
      eval_congr ops ρ ρ' f (fun id hi => h id (by simp [freeNames, hi])),
      evalList_congr ops ρ ρ' args (fun id hi => h id (by simp [freeNames, hi])),
      evalKws_congr ops ρ ρ' kws (fun id hi => h id (by simp [freeNames, hi]))]
  | .unop o x, h => by
    simp only [eval, eval_congr ops ρ ρ' x (fun id hi => h id (by simpa [freeNames] using hi))]
  | .binop o l r, h => by
    simp only [eval,
      eval_congr ops ρ ρ' l (fun id hi => h id (by simp [freeNames, hi])),
      eval_congr ops ρ ρ' r (fun id hi => h id (by simp [freeNames, hi]))]
  | .subscript v i, h => by
    simp only [eval,
      eval_congr ops ρ ρ' v (fun id hi => h id (by simp [freeNames, hi])),
      eval_congr ops ρ ρ' i (fun id hi => h id (by simp [freeNames, hi]))]
  | .seq k es, h => by
    simp only [eval, evalList_congr ops ρ ρ' es (fun id hi => h id (by simpa [freeNames] using hi))]
theorem evalList_congr (ops : Ops ν) (ρ ρ' : String → Option ν) :
    ∀ (es : List Expr), (∀ id ∈ freeNamesList es, ρ id = ρ' id) → evalList ops ρ es = evalList ops ρ' es
  | [], _ => by simp only [evalList]
  | e :: es, h => by
    simp only [evalList,
      eval_congr ops ρ ρ' e (fun id hi => h id (by simp [freeNamesList, hi])),
      evalList_congr ops ρ ρ' es (fun id hi => h id (by simp [freeNamesList, hi]))]
theorem evalKws_congr (ops : Ops ν) (ρ ρ' : String → Option ν) :
    ∀ (ks : List (String × Expr)), (∀ id ∈ freeNamesKws ks, ρ id = ρ' id) → evalKws ops ρ ks = evalKws ops ρ' ks
  | [], _ => by simp only [evalKws]
  | k :: ks, h => by
    simp only [evalKws,
      eval_congr ops ρ ρ' k.2 (fun id hi => h id (by simp [freeNamesKws, hi])),
      evalKws_congr ops ρ ρ' ks (fun id hi => h id (by simp [freeNamesKws, hi]))]
end

/-! ### an unbound name makes the evaluation fail -/
def Fails {ε α : Type} (r : Except ε α) : Prop := ∃ e, r = .error e

mutual
theorem eval_unbound (ops : Ops ν) (ρ : String → Option ν) (x : String) (hx : ρ x = none) :
    ∀ (e : Expr), x ∈ freeNames e → Fails (eval ops ρ e)
  | .name id, h => by
    have : x = id := by simpa [freeNames] using h
    subst this
    exact ⟨.nameError x, by simp only [eval, hx]⟩
  | .const _, h => by simp [freeNames] at h
  | .attr v a, h => by
    obtain ⟨e, he⟩ := eval_unbound ops ρ x hx v (by simpa [freeNames] using h)
    exact ⟨e, by simp only [eval, he]⟩
  | .call f args kws, h => by
    have h' : x ∈ freeNames f ∨ x ∈ freeNamesList args ∨ x ∈ freeNamesKws kws := by
      simpa [freeNames, or_assoc] using h
    cases h1 : eval ops ρ f with
    | error e => exact ⟨e, by simp only [eval, h1]⟩
    | ok fv =>
      cases h2 : evalList ops ρ args with
      | error e => exact ⟨e, by simp only [eval, h1, h2]⟩
      | ok avs =>
        cases h3 : evalKws ops ρ kws with
        | error e => exact ⟨e, by simp only [eval, h1, h2, h3]⟩
        | ok kvs =>
          exfalso
          rcases h' with c1 | c2 | c3
          · obtain ⟨e, he⟩ := eval_unbound ops ρ x hx f c1; rw [h1] at he; cases he
          · obtain ⟨e, he⟩ := evalList_unbound ops ρ x hx args c2; rw [h2] at he; cases he
          · obtain ⟨e, he⟩ := evalKws_unbound ops ρ x hx kws c3; rw [h3] at he; cases he
  | .unop o y, h => by
    obtain ⟨e, he⟩ := eval_unbound ops ρ x hx y (by simpa [freeNames] using h)
    exact ⟨e, by simp only [eval, he]⟩
  | .binop o l r, h => by
    have h' : x ∈ freeNames l ∨ x ∈ freeNames r := by simpa [freeNames] using h
    cases h1 : eval ops ρ l with
    | error e => exact ⟨e, by simp only [eval, h1]⟩
    | ok lv =>
      cases h2 : eval ops ρ r with
      | error e => exact ⟨e, by simp only [eval, h1, h2]⟩
      | ok rv =>
        exfalso
        rcases h' with c1 | c2
        · obtain ⟨e, he⟩ := eval_unbound ops ρ x hx l c1; rw [h1] at he; cases he
        · obtain ⟨e, he⟩ := eval_unbound ops ρ x hx r c2; rw [h2] at he; cases he
  | .subscript v i, h => by
    have h' : x ∈ freeNames v ∨ x ∈ freeNames i := by simpa [freeNames] using h
    cases h1 : eval ops ρ v with
    | error e => exact ⟨e, by simp only [eval, h1]⟩
    | ok lv =>
      cases h2 : eval ops ρ i with
      | error e => exact ⟨e, by simp only [eval, h1, h2]⟩
      | ok rv =>
        exfalso
        rcases h' with c1 | c2
        · obtain ⟨e, he⟩ := eval_unbound ops ρ x hx v c1; rw [h1] at he; cases he
        · obtain ⟨e, he⟩ := eval_unbound ops ρ x hx i c2; rw [h2] at he; cases he
  | .seq k es, h => by
    obtain ⟨e, he⟩ := evalList_unbound ops ρ x hx es (by simpa [freeNames] using h)
    exact ⟨e, by simp only [eval, he]⟩
theorem evalList_unbound (ops : Ops ν) (ρ : String → Option ν) (x : String) (hx : ρ x = none) :
    ∀ (es : List Expr), x ∈ freeNamesList es → Fails (evalList ops ρ es)
  | [], h => by simp [freeNamesList] at h
  | e :: es, h => by
    have h' : x ∈ freeNames e ∨ x ∈ freeNamesList es := by simpa [freeNamesList] using h
    cases h1 : eval ops ρ e with
    | error e' => exact ⟨e', by simp only [evalList, h1]⟩
    | ok v =>
      cases h2 : evalList ops ρ es with
      | error e' => exact ⟨e', by simp only [evalList, h1, h2]⟩
      | ok vs =>
        exfalso
        rcases h' with c1 | c2
        · obtain ⟨e', he⟩ := eval_unbound ops ρ x hx e c1; rw [h1] at he; cases he
        · obtain ⟨e', he⟩ := evalList_unbound ops ρ x hx es c2; rw [h2] at he; cases he
theorem evalKws_unbound (ops : Ops ν) (ρ : String → Option ν) (x : String) (hx : ρ x = none) :
    ∀ (ks : List (String × Expr)), x ∈ freeNamesKws ks → Fails (evalKws ops ρ ks)
  | [], h => by simp [freeNamesKws] at h
  | k :: ks, h => by
    have h' : x ∈ freeNames k.2 ∨ x ∈ freeNamesKws ks := by simpa [freeNamesKws] using h
    cases h1 : eval ops ρ k.2 with
    | error e' => exact ⟨e', by simp only [evalKws, h1]⟩
    | ok v =>
      cases h2 : evalKws ops ρ ks with
      | error e' => exact ⟨e', by simp only [evalKws, h1, h2]⟩
      | ok vs =>
        exfalso
        rcases h' with c1 | c2
        · obtain ⟨e', he⟩ := eval_unbound ops ρ x hx k.2 c1; rw [h1] at he; cases he
        · obtain ⟨e', he⟩ := evalKws_unbound ops ρ x hx ks c2; rw [h2] at he; cases he
end


/-! ### a `NameError` names an unbound free name -/
theorem liftOp_ne_nameError (r : Except String ν) (id : String) : liftOp r ≠ .error (.nameError id) := by
  cases r <;> simp [liftOp]

mutual
theorem eval_nameError_sound (ops : Ops ν) (ρ : String → Option ν) (x : String) :
    ∀ (e : Expr), eval ops ρ e = .error (.nameError x) → x ∈ freeNames e ∧ ρ x = none
  | .name id, h => by
    simp only [eval] at h
    cases hr : ρ id with
    | some v => rw [hr] at h; cases h
    | none =>
      rw [hr] at h
      have : id = x := by simpa using h
      subst this; exact ⟨by simp [freeNames], hr⟩
  | .const _, h => by simp [eval] at h
  | .attr v a, h => by
    simp only [eval] at h
    cases h1 : eval ops ρ v with
    | error e =>
      rw [h1] at h
      have : e = .nameError x := by simpa using h
      subst this
      have := eval_nameError_sound ops ρ x v h1
      exact ⟨by simp [freeNames, this.1], this.2⟩
    | ok vv => rw [h1] at h; exact absurd h (liftOp_ne_nameError _ _)
  | .call f args kws, h => by
    simp only [eval] at h
    cases h1 : eval ops ρ f with
    | error e =>
      rw [h1] at h
      have : e = .nameError x := by simpa using h
      subst this
      have := eval_nameError_sound ops ρ x f h1
      exact ⟨by simp [freeNames, this.1], this.2⟩
    | ok fv =>
      rw [h1] at h
      cases h2 : evalList ops ρ args with
      | error e =>
        rw [h2] at h
        have : e = .nameError x := by simpa using h
        subst this
        have := evalList_nameError_sound ops ρ x args h2
        exact ⟨by simp [freeNames, this.1], this.2⟩
      | ok avs =>
        rw [h2] at h
        cases h3 : evalKws ops ρ kws with
        | error e =>
          rw [h3] at h
          have : e = .nameError x := by simpa using h
          subst this
          have := evalKws_nameError_sound ops ρ x kws h3
          exact ⟨by simp [freeNames, this.1], this.2⟩
        | ok kvs => rw [h3] at h; exact absurd h (liftOp_ne_nameError _ _)
  | .unop o y, h => by
    simp only [eval] at h
    cases h1 : eval ops ρ y with
    | error e =>
      rw [h1] at h
      have : e = .nameError x := by simpa using h
      subst this
      have := eval_nameError_sound ops ρ x y h1
      exact ⟨by simp [freeNames, this.1], this.2⟩
    | ok vv => rw [h1] at h; exact absurd h (liftOp_ne_nameError _ _)
  | .binop o l r, h => by
    simp only [eval] at h
    cases h1 : eval ops ρ l with
    | error e =>
      rw [h1] at h
      have : e = .nameError x := by simpa using h
      subst this
      have := eval_nameError_sound ops ρ x l h1
      exact ⟨by simp [freeNames, this.1], this.2⟩
    | ok lv =>
      rw [h1] at h
      cases h2 : eval ops ρ r with
      | error e =>
        rw [h2] at h
        have : e = .nameError x := by simpa using h
        subst this
        have := eval_nameError_sound ops ρ x r h2
        exact ⟨by simp [freeNames, this.1], this.2⟩
      | ok rv => rw [h2] at h; exact absurd h (liftOp_ne_nameError _ _)
  | .subscript v i, h => by
    simp only [eval] at h
    cases h1 : eval ops ρ v with
    | error e =>
      rw [h1] at h
      have : e = .nameError x := by simpa using h
      subst this
      have := eval_nameError_sound ops ρ x v h1
      exact ⟨by simp [freeNames, this.1], this.2⟩
    | ok lv =>
      rw [h1] at h
      cases h2 : eval ops ρ i with
      | error e =>
        rw [h2] at h
        have : e = .nameError x := by simpa using h
        subst this
        have := eval_nameError_sound ops ρ x i h2
        exact ⟨by simp [freeNames, this.1], this.2⟩
      | ok rv => rw [h2] at h; exact absurd h (liftOp_ne_nameError _ _)
  | .seq k es, h => by
    simp only [eval] at h
    cases h1 : evalList ops ρ es with
    | error e =>
      rw [h1] at h
      have : e = .nameError x := by simpa using h
      subst this
      have := evalList_nameError_sound ops ρ x es h1
      exact ⟨by simp [freeNames, this.1], this.2⟩
    | ok vs => rw [h1] at h; cases h
theorem evalList_nameError_sound (ops : Ops ν) (ρ : String → Option ν) (x : String) :
    ∀ (es : List Expr), evalList ops ρ es = .error (.nameError x) → x ∈ freeNamesList es ∧ ρ x = none
  | [], h => by simp [evalList] at h
  | e :: es, h => by
    simp only [evalList] at h
    cases h1 : eval ops ρ e with
    | error e' =>
      rw [h1] at h
      have : e' = .nameError x := by simpa using h
      subst this
      have := eval_nameError_sound ops ρ x e h1
      exact ⟨by simp [freeNamesList, this.1], this.2⟩
    | ok v =>
      rw [h1] at h
      cases h2 : evalList ops ρ es with
      | error e' =>
        rw [h2] at h
        have : e' = .nameError x := by simpa using h
        subst this
        have := evalList_nameError_sound ops ρ x es h2
        exact ⟨by simp [freeNamesList, this.1], this.2⟩
      | ok vs => rw [h2] at h; cases h
theorem evalKws_nameError_sound (ops : Ops ν) (ρ : String → Option ν) (x : String) :
    ∀ (ks : List (String × Expr)), evalKws ops ρ ks = .error (.nameError x) → x ∈ freeNamesKws ks ∧ ρ x = none
  | [], h => by simp [evalKws] at h
  | k :: ks, h => by
    simp only [evalKws] at h
    cases h1 : eval ops ρ k.2 with
    | error e' =>
      rw [h1] at h
      have : e' = .nameError x := by simpa using h
      subst this
      have := eval_nameError_sound ops ρ x k.2 h1
      exact ⟨by simp [freeNamesKws, this.1], this.2⟩
    | ok v =>
      rw [h1] at h
      cases h2 : evalKws ops ρ ks with
      | error e' =>
        rw [h2] at h
        have : e' = .nameError x := by simpa using h
        subst this
        have := evalKws_nameError_sound ops ρ x ks h2
        exact ⟨by simp [freeNamesKws, this.1], this.2⟩
      | ok vs => rw [h2] at h; cases h
end

/-! ### with total operations, bound names suffice -/
theorem liftOp_ok_of (r : Except String ν) (h : ∃ v, r = .ok v) : ∃ v, liftOp r = .ok v := by
  obtain ⟨v, hv⟩ := h; exact ⟨v, by rw [hv]; rfl⟩

mutual
theorem eval_total (ops : Ops ν) (ht : OpsTotal ops) (ρ : String → Option ν) :
    ∀ (e : Expr), (∀ id ∈ freeNames e, ρ id ≠ none) → ∃ v, eval ops ρ e = .ok v
  | .name id, h => by
    cases hr : ρ id with
    | none => exact absurd hr (h id (by simp [freeNames]))
    | some v => exact ⟨v, by simp only [eval, hr]⟩
  | .const r, _ => ⟨ops.const r, by simp only [eval]⟩
  | .attr v a, h => by
    obtain ⟨x, hx⟩ := eval_total ops ht ρ v (fun id hi => h id (by simpa [freeNames] using hi))
    obtain ⟨r, hr⟩ := liftOp_ok_of _ (ht.attr x a)
    exact ⟨r, by simp only [eval, hx, hr]⟩
  | .call f args kws, h => by
    obtain ⟨fv, h1⟩ := eval_total ops ht ρ f (fun id hi => h id (by simp [freeNames, hi]))
    obtain ⟨avs, h2⟩ := evalList_total ops ht ρ args (fun id hi => h id (by simp [freeNames, hi]))
    obtain ⟨kvs, h3⟩ := evalKws_total ops ht ρ kws (fun id hi => h id (by simp [freeNames, hi]))
    obtain ⟨r, hr⟩ := liftOp_ok_of _ (ht.call fv avs kvs)
    exact ⟨r, by simp only [eval, h1, h2, h3, hr]⟩
  | .unop o y, h => by
    obtain ⟨x, hx⟩ := eval_total ops ht ρ y (fun id hi => h id (by simpa [freeNames] using hi))
    obtain ⟨r, hr⟩ := liftOp_ok_of _ (ht.unop o x)
    exact ⟨r, by simp only [eval, hx, hr]⟩
  | .binop o l r, h => by
    obtain ⟨lv, h1⟩ := eval_total ops ht ρ l (fun id hi => h id (by simp [freeNames, hi]))
    obtain ⟨rv, h2⟩ := eval_total ops ht ρ r (fun id hi => h id (by simp [freeNames, hi]))
    obtain ⟨x, hr⟩ := liftOp_ok_of _ (ht.binop o lv rv)
    exact ⟨x, by simp only [eval, h1, h2, hr]⟩
  | .subscript v i, h => by
    obtain ⟨lv, h1⟩ := eval_total ops ht ρ v (fun id hi => h id (by simp [freeNames, hi]))
    obtain ⟨rv, h2⟩ := eval_total ops ht ρ i (fun id hi => h id (by simp [freeNames, hi]))
    obtain ⟨x, hr⟩ := liftOp_ok_of _ (ht.subscript lv rv)
    exact ⟨x, by simp only [eval, h1, h2, hr]⟩
  | .seq k es, h => by
    obtain ⟨vs, h1⟩ := evalList_total ops ht ρ es (fun id hi => h id (by simpa [freeNames] using hi))
    exact ⟨ops.seq k vs, by simp only [eval, h1]⟩
theorem evalList_total (ops : Ops ν) (ht : OpsTotal ops) (ρ : String → Option ν) :
    ∀ (es : List Expr), (∀ id ∈ freeNamesList es, ρ id ≠ none) → ∃ vs, evalList ops ρ es = .ok vs
  | [], _ => ⟨[], by simp only [evalList]⟩
  | e :: es, h => by
    obtain ⟨v, h1⟩ := eval_total ops ht ρ e (fun id hi => h id (by simp [freeNamesList, hi]))
    obtain ⟨vs, h2⟩ := evalList_total ops ht ρ es (fun id hi => h id (by simp [freeNamesList, hi]))
    exact ⟨v :: vs, by simp only [evalList, h1, h2]⟩
theorem evalKws_total (ops : Ops ν) (ht : OpsTotal ops) (ρ : String → Option ν) :
    ∀ (ks : List (String × Expr)), (∀ id ∈ freeNamesKws ks, ρ id ≠ none) → ∃ vs, evalKws ops ρ ks = .ok vs
  | [], _ => ⟨[], by simp only [evalKws]⟩
  | k :: ks, h => by
    obtain ⟨v, h1⟩ := eval_total ops ht ρ k.2 (fun id hi => h id (by simp [freeNamesKws, hi]))
    obtain ⟨vs, h2⟩ := evalKws_total ops ht ρ ks (fun id hi => h id (by simp [freeNamesKws, hi]))
    exact ⟨(k.1, v) :: vs, by simp only [evalKws, h1, h2]⟩
end


/-! ### with total operations every failure is a `NameError` -/
def IsNameError (x : EvalErr) : Prop := ∃ id, x = .nameError id

theorem liftOp_total_not_error (r : Except String ν) (h : ∃ v, r = .ok v) (x : EvalErr) :
    liftOp r ≠ .error x := by
  obtain ⟨v, hv⟩ := h; rw [hv]; simp [liftOp]

mutual
theorem eval_total_err (ops : Ops ν) (ht : OpsTotal ops) (ρ : String → Option ν) (x : EvalErr) :
    ∀ (e : Expr), eval ops ρ e = .error x → IsNameError x
  | .name id, h => by
    simp only [eval] at h
    cases hr : ρ id with
    | some v => rw [hr] at h; cases h
    | none => rw [hr] at h; exact ⟨id, by simpa using h.symm⟩
  | .const _, h => by simp [eval] at h
  | .attr v a, h => by
    simp only [eval] at h
    cases h1 : eval ops ρ v with
    | error e =>
      rw [h1] at h
      have : e = x := by simpa using h
      subst this; exact eval_total_err ops ht ρ e v h1
    | ok vv => rw [h1] at h; exact absurd h (liftOp_total_not_error _ (ht.attr vv a) x)
  | .call f args kws, h => by
    simp only [eval] at h
    cases h1 : eval ops ρ f with
    | error e =>
      rw [h1] at h
      have : e = x := by simpa using h
      subst this; exact eval_total_err ops ht ρ e f h1
    | ok fv =>
      rw [h1] at h
      cases h2 : evalList ops ρ args with
      | error e =>
        rw [h2] at h
        have : e = x := by simpa using h
        subst this; exact evalList_total_err ops ht ρ e args h2
      | ok avs =>
        rw [h2] at h
        cases h3 : evalKws ops ρ kws with
        | error e =>
          rw [h3] at h
          have : e = x := by simpa using h
          subst this; exact evalKws_total_err ops ht ρ e kws h3
        | ok kvs => rw [h3] at h; exact absurd h (liftOp_total_not_error _ (ht.call fv avs kvs) x)
  | .unop o y, h => by
    simp only [eval] at h
    cases h1 : eval ops ρ y with
    | error e =>
      rw [h1] at h
      have : e = x := by simpa using h
      subst this; exact eval_total_err ops ht ρ e y h1
    | ok vv => rw [h1] at h; exact absurd h (liftOp_total_not_error _ (ht.unop o vv) x)
  | .binop o l r, h => by
    simp only [eval] at h
    cases h1 : eval ops ρ l with
    | error e =>
      rw [h1] at h
      have : e = x := by simpa using h
      subst this; exact eval_total_err ops ht ρ e l h1
    | ok lv =>
      rw [h1] at h
      cases h2 : eval ops ρ r with
      | error e =>
        rw [h2] at h
        have : e = x := by simpa using h
        subst this; exact eval_total_err ops ht ρ e r h2
      | ok rv => rw [h2] at h; exact absurd h (liftOp_total_not_error _ (ht.binop o lv rv) x)
  | .subscript v i, h => by
    simp only [eval] at h
    cases h1 : eval ops ρ v with
    | error e =>
      rw [h1] at h
      have : e = x := by simpa using h
      subst this; exact eval_total_err ops ht ρ e v h1
    | ok lv =>
      rw [h1] at h
      cases h2 : eval ops ρ i with
      | error e =>
        rw [h2] at h
        have : e = x := by simpa using h
        subst this; exact eval_total_err ops ht ρ e i h2
      | ok rv => rw [h2] at h; exact absurd h (liftOp_total_not_error _ (ht.subscript lv rv) x)
  | .seq k es, h => by
    simp only [eval] at h
    cases h1 : evalList ops ρ es with
    | error e =>
      rw [h1] at h
      have : e = x := by simpa using h
      subst this; exact evalList_total_err ops ht ρ e es h1
    | ok vs => rw [h1] at h; cases h
theorem evalList_total_err (ops : Ops ν) (ht : OpsTotal ops) (ρ : String → Option ν) (x : EvalErr) :
    ∀ (es : List Expr), evalList ops ρ es = .error x → IsNameError x
  | [], h => by simp [evalList] at h
  | e :: es, h => by
    simp only [evalList] at h
    cases h1 : eval ops ρ e with
    | error e' =>
      rw [h1] at h
      have : e' = x := by simpa using h
      subst this; exact eval_total_err ops ht ρ e' e h1
    | ok v =>
      rw [h1] at h
      cases h2 : evalList ops ρ es with
      | error e' =>
        rw [h2] at h
        have : e' = x := by simpa using h
        subst this; exact evalList_total_err ops ht ρ e' es h2
      | ok vs => rw [h2] at h; cases h
theorem evalKws_total_err (ops : Ops ν) (ht : OpsTotal ops) (ρ : String → Option ν) (x : EvalErr) :
    ∀ (ks : List (String × Expr)), evalKws ops ρ ks = .error x → IsNameError x
  | [], h => by simp [evalKws] at h
  | k :: ks, h => by
    simp only [evalKws] at h
    cases h1 : eval ops ρ k.2 with
    | error e' =>
      rw [h1] at h
      have : e' = x := by simpa using h
      subst this; exact eval_total_err ops ht ρ e' k.2 h1
    | ok v =>
      rw [h1] at h
      cases h2 : evalKws ops ρ ks with
      | error e' =>
        rw [h2] at h
        have : e' = x := by simpa using h
        subst this; exact evalKws_total_err ops ht ρ e' ks h2
      | ok vs => rw [h2] at h; cases h
end

end FormulaicVerif.Proofs.C17
