import FormulaicVerif.Proofs.C02NestedColumns
import FormulaicVerif.Proofs.C02Pipeline
/-! Helper lemmas for C02 over factor values of any shape: what each stage of `nbuildStructure`
contributes. The dictionary and glue lemmas are those of `Proofs/C02Pipeline.lean` restated for
path-labelled columns; the lemmas on clustering, scoping, the literal scale and pointwise products
are reused from there unchanged (the scoping functions are literally the same, run on `toCache`).
New here: soundness of the recursive flattening (`flatten_sound`) and of the encoder stages. -/
namespace FormulaicVerif.Proofs.C02N
open FormulaicVerif.Model FormulaicVerif.Model.Nest FormulaicVerif.Spec FormulaicVerif.Spec.Nest
open FormulaicVerif.Proofs.C02 FormulaicVerif.Proofs.Scoped

theorem mem_ndictSet {d : List NEntry} {x e : NEntry} (h : e ∈ ndictSet d x) : e ∈ d ∨ e = x := by
  induction d with
  | nil => simp [ndictSet] at h; exact .inr h
  | cons y r ih =>
    simp only [ndictSet] at h
    split at h
    · simp only [List.mem_cons] at h ⊢
      rcases h with h | h
      · exact .inr h
      · exact .inl (.inr h)
    · simp only [List.mem_cons] at h ⊢
      rcases h with h | h
      · exact .inl (.inl h)
      · rcases ih h with h | h
        · exact .inl (.inr h)
        · exact .inr h

theorem mem_foldl_ndictSet {new d : List NEntry} {e : NEntry} (h : e ∈ new.foldl ndictSet d) : e ∈ d ∨ e ∈ new := by
  induction new generalizing d with
  | nil => exact .inl h
  | cons x r ih =>
    rcases ih h with h | h
    · rcases mem_ndictSet h with h | h
      · exact .inl h
      · exact .inr (by simp [h])
    · exact .inr (by simp [h])

theorem mem_ndictUpdate {d new : List NEntry} {e : NEntry} (h : e ∈ ndictUpdate d new) : e ∈ d ∨ e ∈ new :=
  mem_foldl_ndictSet h

theorem mem_ndictOfList {l : List NEntry} {e : NEntry} (h : e ∈ ndictOfList l) : e ∈ l := by
  rcases mem_ndictUpdate h with h | h
  · simp at h
  · exact h

theorem mem_nitemSet {d : List NItem} {x e : NItem} (h : e ∈ nitemSet d x) : e ∈ d ∨ e = x := by
  induction d with
  | nil => simp [nitemSet] at h; exact .inr h
  | cons y r ih =>
    simp only [nitemSet] at h
    split at h
    · simp only [List.mem_cons] at h ⊢
      rcases h with h | h
      · exact .inr h
      · exact .inl (.inr h)
    · simp only [List.mem_cons] at h ⊢
      rcases h with h | h
      · exact .inl (.inl h)
      · rcases ih h with h | h
        · exact .inl (.inr h)
        · exact .inr h

theorem RCache.get_ok {c : RCache} {e : String} {f : RFactor} (h : c.get e = .ok f) :
    f.expr = e ∧ f ∈ c := by
  unfold RCache.get at h
  cases hf : c.find? (fun f => f.expr == e) with
  | none => simp [hf] at h
  | some g =>
    simp only [hf, Except.ok.injEq] at h
    subst h
    have := List.find?_some hf
    exact ⟨by simpa using this, List.mem_of_find?_eq_some hf⟩

theorem nencodeFactors_spec {c : RCache} {sfs : List SF} {fss : List (List NItem)}
    (h : nencodeFactors c sfs = .ok fss) :
    fss.length = sfs.length ∧
    ∀ items ∈ fss, ∃ sf ∈ sfs, ∃ f, c.get sf.expr = .ok f ∧ encodeFactor f sf.reduced = .ok items := by
  induction sfs generalizing fss with
  | nil => simp [nencodeFactors] at h; subst h; simp
  | cons sf r ih =>
    simp only [nencodeFactors] at h
    cases hg : c.get sf.expr with
    | error x => simp [hg] at h
    | ok f =>
      simp only [hg] at h
      cases he : encodeFactor f sf.reduced with
      | error x => simp [he] at h
      | ok items =>
        simp only [he] at h
        cases hr : nencodeFactors c r with
        | error x => simp [hr] at h
        | ok rest =>
          simp only [hr, Except.ok.injEq] at h
          subst h
          obtain ⟨hl, hm⟩ := ih hr
          refine ⟨by simp [hl], ?_⟩
          intro its hits
          simp only [List.mem_cons] at hits
          rcases hits with rfl | hits
          · exact ⟨sf, by simp, f, hg, he⟩
          · obtain ⟨sf', hsf', f', h1, h2⟩ := hm its hits
            exact ⟨sf', by simp [hsf'], f', h1, h2⟩

theorem ncolumnsFor_eq (v : Variant) (fs : List (List NItem)) (s : Rat) : ncolumnsFor v fs s = ncolumnsBase fs s := by
  cases v
  · rfl
  · exact ncolumnsFast_eq_base fs s

theorem ntermColumns_mem {c : RCache} {v : Variant} {n : Nat} {sts : List ST} {acc es : List NEntry}
    (h : ntermColumns c v n acc sts = .ok es) {e : NEntry} (he : e ∈ es) :
    e ∈ acc ∨ ∃ st ∈ sts, ∃ es', nscopedTermColumns c v n st = .ok es' ∧ e ∈ es' := by
  induction sts generalizing acc with
  | nil => simp [ntermColumns] at h; subst h; exact .inl he
  | cons st r ih =>
    simp only [ntermColumns] at h
    cases hs : nscopedTermColumns c v n st with
    | error x => simp [hs] at h
    | ok es' =>
      simp only [hs] at h
      rcases ih h with h' | ⟨st', hst', es'', h1, h2⟩
      · rcases mem_ndictUpdate h' with h' | h'
        · exact .inl h'
        · exact .inr ⟨st, by simp, es', hs, h'⟩
      · exact .inr ⟨st', by simp [hst'], es'', h1, h2⟩

theorem nbuildTerms_spec {c : RCache} {v : Variant} {n : Nat} {scp : List (MTerm × List ST)}
    {rs : List NTermResult} (h : nbuildTerms c v n scp = .ok rs) :
    rs.map (fun r => (r.term, r.sts)) = scp ∧
    ∀ r ∈ rs, ntermColumns c v n [] r.sts = .ok r.cols := by
  induction scp generalizing rs with
  | nil => simp [nbuildTerms] at h; subst h; simp
  | cons x rest ih =>
    obtain ⟨t, sts⟩ := x
    simp only [nbuildTerms] at h
    cases ht : ntermColumns c v n [] sts with
    | error x => simp [ht] at h
    | ok es =>
      simp only [ht] at h
      cases hr : nbuildTerms c v n rest with
      | error x => simp [hr] at h
      | ok rs' =>
        simp only [hr, Except.ok.injEq] at h
        subst h
        obtain ⟨h1, h2⟩ := ih hr
        refine ⟨by simp [h1], ?_⟩
        intro r hr'
        simp only [List.mem_cons] at hr'
        rcases hr' with rfl | hr'
        · exact ht
        · exact h2 r hr'

theorem mem_ncombineColumns {b : Bool} {cols : List NEntry} {e : NEntry} (h : e ∈ ncombineColumns b cols) : e ∈ cols := by
  unfold ncombineColumns at h
  cases b with
  | false => simpa using h
  | true =>
    simp only [if_true] at h
    rcases mem_ndictUpdate h with h | h
    · simp at h
    · exact h

theorem ndictSet_of_not_mem {d : List NEntry} {e : NEntry} (h : e.name ∉ d.map (·.name)) : ndictSet d e = d ++ [e] := by
  induction d with
  | nil => rfl
  | cons x r ih =>
    simp only [List.map_cons, List.mem_cons, not_or] at h
    have : ¬ x.name = e.name := fun e' => h.1 e'.symm
    simp only [ndictSet, this, if_false, ih h.2, List.cons_append]

theorem ndictSet_names (d : List NEntry) (e : NEntry) :
    (ndictSet d e).map (·.name) = if e.name ∈ d.map (·.name) then d.map (·.name) else d.map (·.name) ++ [e.name] := by
  induction d with
  | nil => simp [ndictSet]
  | cons x r ih =>
    simp only [ndictSet]
    by_cases hx : x.name = e.name
    · simp [hx]
    · have hx' : ¬ e.name = x.name := fun h => hx h.symm
      simp only [hx, if_false, List.map_cons, ih, List.mem_cons, hx', false_or]
      split <;> simp

theorem ndictSet_nodup {d : List NEntry} (e : NEntry) (h : (d.map (·.name)).Nodup) : ((ndictSet d e).map (·.name)).Nodup := by
  rw [ndictSet_names]
  split
  · exact h
  · rename_i hn
    rw [List.nodup_append]
    exact ⟨h, by simp, by intro a ha b hb; simp at hb; subst hb; exact fun e' => hn (e' ▸ ha)⟩

theorem foldl_ndictSet_nodup (l d : List NEntry) (h : (d.map (·.name)).Nodup) : ((l.foldl ndictSet d).map (·.name)).Nodup := by
  induction l generalizing d with
  | nil => exact h
  | cons x r ih => exact ih _ (ndictSet_nodup x h)

theorem foldl_ndictSet_append (l d : List NEntry) (h : ((d ++ l).map (·.name)).Nodup) : l.foldl ndictSet d = d ++ l := by
  induction l generalizing d with
  | nil => simp
  | cons x r ih =>
    have hx : x.name ∉ d.map (·.name) := by
      simp only [List.map_append, List.map_cons] at h
      rw [List.nodup_append] at h
      intro hm
      exact h.2.2 _ hm _ (by simp) rfl
    simp only [List.foldl_cons, ndictSet_of_not_mem hx]
    rw [ih]
    · simp
    · simpa using h

/-- re-inserting an already built dictionary into an empty one gives it back -/
theorem ndictUpdate_ndictUpdate_nil (l : List NEntry) : ndictUpdate [] (ndictUpdate [] l) = ndictUpdate [] l := by
  have h := foldl_ndictSet_nodup l [] (by simp)
  have := foldl_ndictSet_append (l.foldl ndictSet []) [] (by simpa using h)
  simpa [ndictUpdate] using this

/-- a list of entries with pairwise distinct names is its own dictionary -/
theorem ndictOfList_of_nodup (l : List NEntry) (h : (l.map (·.name)).Nodup) : ndictOfList l = l := by
  have := foldl_ndictSet_append l [] (by simpa using h)
  simpa [ndictOfList, ndictUpdate] using this

/-! ### the recursive flattening names what it emits -/

theorem mem_nitemUpdate {d new : List NItem} {e : NItem} (h : e ∈ nitemUpdate d new) : e ∈ d ∨ e ∈ new := by
  unfold nitemUpdate at h
  induction new generalizing d with
  | nil => exact .inl h
  | cons x r ih =>
    rcases ih h with h | h
    · rcases mem_nitemSet h with h | h
      · exact .inl h
      · exact .inr (by simp [h])
    · exact .inr (by simp [h])

mutual
/-- every item of `_flatten_encoded_evaled_factor(name, v)` is a leaf of `v`: its label is the key
path that leads to its column, its name is what the formats on that path print -/
theorem flattenVal_sound (expr : String) (red : Bool) :
    ∀ (v : Val) (name : String) (path : List Field) (it : NItem),
      it ∈ flattenVal expr red name path v →
      ∃ q, it.part = ⟨expr, path ++ q, red⟩ ∧ Leaf v name q it.name it.col
  | .col c, name, path, it, h => by
    simp only [flattenVal, List.mem_singleton] at h
    subst h
    exact ⟨[], by simp, Leaf.col c name⟩
  | .dict es m, name, path, it, h => by
    simp only [flattenVal] at h
    rcases flattenEnts_sound expr red (fmtOfMeta m) name path es [] it h with h0 | ⟨k, v, r, hmem, hleaf, hpart⟩
    · simp at h0
    · exact ⟨k :: r, hpart, Leaf.dict hmem hleaf⟩
theorem flattenEnts_sound (expr : String) (red : Bool) (fmt : Fmt) (name : String) (path : List Field) :
    ∀ (es : Ents) (acc : List NItem) (it : NItem),
      it ∈ flattenEnts expr red fmt name path es acc →
      it ∈ acc ∨ ∃ k v r, EntsMem k v es ∧ Leaf v (fmt.format name k.text) r it.name it.col ∧
        it.part = ⟨expr, path ++ k :: r, red⟩
  | .nil, acc, it, h => by
    simp only [flattenEnts] at h
    exact .inl h
  | .cons k v rest, acc, it, h => by
    simp only [flattenEnts] at h
    rcases flattenEnts_sound expr red fmt name path rest _ it h with h1 | ⟨k', v', r, hm, hl, hp⟩
    · rcases mem_nitemUpdate h1 with h2 | h2
      · exact .inl h2
      · obtain ⟨q, hq, hl⟩ := flattenVal_sound expr red v _ (path ++ [k]) it h2
        exact .inr ⟨k, v, q, .head _, hl, by simp [hq]⟩
    · exact .inr ⟨k', v', r, .tail _ _ hm, hl, hp⟩
end

/-- what `_encode_evaled_factor` returns: every `(name, column)` is a leaf of the factor's encoded
value tree, labelled with its key path -/
theorem encodeFactor_sound {f : RFactor} {r : Bool} {items : List NItem} (h : encodeFactor f r = .ok items) :
    ∃ v, encodedTree f r = .ok v ∧ ∀ it ∈ items, it.part.expr = f.expr ∧ it.part.reduced = r ∧
      Leaf v f.expr it.part.path it.name it.col := by
  unfold encodeFactor at h
  cases hv : encodedTree f r with
  | error x => simp [hv] at h
  | ok v =>
    simp only [hv, Except.ok.injEq] at h
    subst h
    refine ⟨v, rfl, ?_⟩
    intro it hit
    obtain ⟨q, hq, hl⟩ := flattenVal_sound f.expr r v f.expr [] it hit
    rw [hq]
    exact ⟨rfl, rfl, by simpa using hl⟩

/-- every item of a Kronecker choice names the column it holds and is printed as its label says -/
theorem nkron_items_sound {c : RCache} {sfs : List SF} {fss : List (List NItem)}
    (h : nencodeFactors c sfs = .ok fss) {p : List NItem} (hp : p ∈ kron fss) :
    ∀ it ∈ p, NamesLeaf c it.part it.name it.col := by
  intro it hit
  obtain ⟨items, hitems, hx⟩ := mem_of_mem_kron hp hit
  obtain ⟨sf, _, f, hg, henc⟩ := (nencodeFactors_spec h).2 items hitems
  have hfe := (RCache.get_ok hg).1
  have hc : c.get f.expr = .ok f := by rw [hfe]; exact hg
  obtain ⟨v, hv, hall⟩ := encodeFactor_sound henc
  obtain ⟨h1, h2, h3⟩ := hall it hx
  refine ⟨f, by rw [h1]; exact hc, v, by rw [h2]; exact hv, ?_⟩
  rw [h1]; exact h3

/-! ### scoped-term columns, structure -/

/-- the columns one scoped term contributes: the intercept, or the Kronecker entries of its encoded factors -/
theorem nscopedTermColumns_spec {c : RCache} {v : Variant} {n : Nat} {st : ST} {es : List NEntry}
    (h : nscopedTermColumns c v n st = .ok es) :
    (st.factors = [] ∧ es = [⟨"Intercept", [], Col.smul st.scale (Col.ones n)⟩]) ∨
    (st.factors ≠ [] ∧ ∃ fss, nencodeFactors c st.factors = .ok fss ∧
      es = ndictOfList ((kron fss).map (nentryOf n st.scale))) := by
  unfold nscopedTermColumns at h
  by_cases he : st.factors.isEmpty = true
  · simp only [he, if_true, Except.ok.injEq] at h
    exact .inl ⟨by simpa using he, h.symm⟩
  · have he' : st.factors.isEmpty = false := by simpa using he
    have hne : st.factors ≠ [] := by simpa using he
    simp only [he', Bool.false_eq_true, if_false] at h
    cases hf : nencodeFactors c st.factors with
    | error x => simp [hf] at h
    | ok fss =>
      simp only [hf, ncolumnsFor_eq] at h
      have hl := (nencodeFactors_spec hf).1
      have hfss : fss ≠ [] := by
        intro e; rw [e] at hl
        exact hne (List.length_eq_zero_iff.mp hl.symm)
      rw [ncolumnsBase_eq fss st.scale hfss] at h
      simp only [Except.ok.injEq] at h
      refine .inr ⟨hne, fss, rfl, ?_⟩
      rw [← h]
      congr 1
      apply List.map_congr_left
      intro p hp
      exact nentryOf_irrel _ _ _ _ (ne_nil_of_mem_kron hfss hp)

/-- unfolding of `nbuildStructure` -/
theorem nbuildStructure_spec {cfg : NConfig} {rs : List NTermResult} (h : nbuildStructure cfg = .ok rs) :
    ∃ terms scp, clusterTerms (toCache cfg.cache) cfg.clusterByNumerical cfg.terms = .ok terms ∧
      getScopedTerms (toCache cfg.cache) cfg.ensureFullRank [] terms = .ok scp ∧
      nbuildTerms cfg.cache cfg.variant cfg.nrows scp = .ok rs := by
  unfold nbuildStructure at h
  cases hc : clusterTerms (toCache cfg.cache) cfg.clusterByNumerical cfg.terms with
  | error x => simp [hc] at h
  | ok terms =>
    simp only [hc] at h
    cases hg : getScopedTerms (toCache cfg.cache) cfg.ensureFullRank [] terms with
    | error x => simp [hg] at h
    | ok scp =>
      simp only [hg] at h
      exact ⟨terms, scp, rfl, hg, h⟩

/-- where a term result comes from -/
theorem ntermResult_spec {cfg : NConfig} {rs : List NTermResult} (h : nbuildStructure cfg = .ok rs)
    {r : NTermResult} (hr : r ∈ rs) :
    r.term ∈ cfg.terms ∧
    (∃ sp sp', scopeTerm (toCache cfg.cache) cfg.ensureFullRank sp r.term = .ok (r.sts, sp')) ∧
    ntermColumns cfg.cache cfg.variant cfg.nrows [] r.sts = .ok r.cols := by
  obtain ⟨terms, scp, hc, hg, hb⟩ := nbuildStructure_spec h
  obtain ⟨h1, h2⟩ := nbuildTerms_spec hb
  obtain ⟨g1, g2⟩ := getScopedTerms_spec hg
  have hmem : (r.term, r.sts) ∈ scp := by
    rw [← h1]; exact List.mem_map.mpr ⟨r, hr, rfl⟩
  refine ⟨?_, g2 _ hmem, h2 r hr⟩
  apply clusterTerms_mem hc
  rw [← g1]
  exact List.mem_map.mpr ⟨_, hmem, rfl⟩

/-- where an emitted column comes from: the intercept of a factor-free scoped term, or one Kronecker
choice of the encoded factors of a scoped term -/
theorem nentry_provenance {cfg : NConfig} {rs : List NTermResult} (h : nbuildStructure cfg = .ok rs)
    {r : NTermResult} (hr : r ∈ rs) {e : NEntry} (he : e ∈ r.cols) :
    ∃ st ∈ r.sts,
      (st.factors = [] ∧ e = ⟨"Intercept", [], Col.smul st.scale (Col.ones cfg.nrows)⟩) ∨
      (st.factors ≠ [] ∧ ∃ fss, nencodeFactors cfg.cache st.factors = .ok fss ∧ fss ≠ [] ∧
        ∃ p ∈ kron fss, e = nentryOf cfg.nrows st.scale p) := by
  obtain ⟨_, _, ht⟩ := ntermResult_spec h hr
  rcases ntermColumns_mem ht he with h0 | ⟨st, hst, es, hes, hin⟩
  · simp at h0
  · refine ⟨st, hst, ?_⟩
    rcases nscopedTermColumns_spec hes with ⟨h1, h2⟩ | ⟨h1, fss, h2, h3⟩
    · left; subst h2; simp only [List.mem_singleton] at hin; exact ⟨h1, hin⟩
    · right
      subst h3
      have := mem_ndictOfList hin
      obtain ⟨p, hp, rfl⟩ := List.mem_map.mp this
      have hl := (nencodeFactors_spec h2).1
      have hne : fss ≠ [] := by
        intro e0; rw [e0] at hl; exact h1 (List.length_eq_zero_iff.mp hl.symm)
      exact ⟨h1, fss, h2, hne, p, hp, rfl⟩

theorem nbuildMatrix_mem {cfg : NConfig} {asDict : Bool} {out : List NEntry} (h : nbuildMatrix cfg asDict = .ok out)
    {e : NEntry} (he : e ∈ out) : ∃ rs, nbuildStructure cfg = .ok rs ∧ ∃ r ∈ rs, e ∈ r.cols := by
  unfold nbuildMatrix at h
  cases hs : nbuildStructure cfg with
  | error x => simp [hs] at h
  | ok rs =>
    simp only [hs, Except.ok.injEq] at h
    subst h
    have := mem_ncombineColumns he
    simp only [nallColumns, List.mem_flatMap] at this
    exact ⟨rs, rfl, this⟩

/-! ### the scoping view of the cache -/

theorem toCache_get_ok {c : RCache} {e : String} {f : RFactor} (h : c.get e = .ok f) :
    (toCache c).get e = .ok (toEvaled f) := by
  unfold RCache.get at h
  unfold Cache.get toCache
  rw [List.find?_map]
  cases hf : c.find? (fun f => f.expr == e) with
  | none => simp [hf] at h
  | some g =>
    simp only [hf, Except.ok.injEq] at h
    subst h
    have : ((fun f : EvaledFactor => f.expr == e) ∘ toEvaled) = (fun f : RFactor => f.expr == e) := rfl
    simp [this, hf]

theorem toCache_get_error {c : RCache} {e : String} {x : EErr} (h : c.get e = .error x) :
    (toCache c).get e = .error .keyError := by
  unfold RCache.get at h
  unfold Cache.get toCache
  rw [List.find?_map]
  cases hf : c.find? (fun f => f.expr == e) with
  | some g => simp [hf] at h
  | none =>
    have : ((fun f : EvaledFactor => f.expr == e) ∘ toEvaled) = (fun f : RFactor => f.expr == e) := rfl
    simp [this, hf]

/-- the evaluated factors that scoping sees are the scoping views of the present factors -/
theorem evaledFactors_toCache {c : RCache} {t : MTerm} {efs : List EvaledFactor}
    (h : evaledFactors (toCache c) t = .ok efs) :
    ∃ fs, presentFactors c t = .ok fs ∧ efs = fs.map toEvaled ∧ (∀ f ∈ fs, c.get f.expr = .ok f) ∧
      (fs.map (·.expr)).Sublist t := by
  induction t generalizing efs with
  | nil => simp [evaledFactors] at h; subst h; exact ⟨[], rfl, rfl, by simp, by simp⟩
  | cons e r ih =>
    simp only [evaledFactors] at h
    cases hg : c.get e with
    | error x => simp [toCache_get_error hg] at h
    | ok f =>
      simp only [toCache_get_ok hg] at h
      cases hr : evaledFactors (toCache c) r with
      | error x => simp [hr] at h
      | ok efs' =>
        simp only [hr, Except.ok.injEq] at h
        obtain ⟨fs, h1, h2, h3, h4⟩ := ih hr
        have hfe := (RCache.get_ok hg).1
        simp only [presentFactors, hg, h1]
        have hp : (toEvaled f).present = f.present := rfl
        rw [hp] at h
        subst h
        by_cases hpr : f.present = true
        · refine ⟨f :: fs, by simp [hpr], by simp [hpr, h2], ?_, ?_⟩
          · intro g hg'
            simp only [List.mem_cons] at hg'
            rcases hg' with rfl | hg'
            · rw [hfe]; exact hg
            · exact h3 g hg'
          · simp only [List.map_cons, hfe]
            exact h4.cons_cons e
        · have hpr' : f.present = false := by simpa using hpr
          exact ⟨fs, by simp [hpr'], by simp [hpr', h2], h3, h4.cons e⟩

theorem nonConstant_map_toEvaled (fs : List RFactor) :
    nonConstant (fs.map toEvaled) = (nonConstantR fs).map toEvaled := by
  unfold nonConstant nonConstantR
  rw [List.filter_map]
  rfl

theorem nencodeFactors_full {c : RCache} {fs : List RFactor} (h : ∀ f ∈ fs, c.get f.expr = .ok f) :
    nencodeFactors c (fs.map (fun f => ⟨f.expr, false⟩)) = nfullEncodings fs := by
  induction fs with
  | nil => rfl
  | cons f r ih =>
    simp only [List.map_cons, nencodeFactors, nfullEncodings, h f (by simp), ih (fun g hg => h g (by simp [hg]))]
    cases encodeFactor f false <;> rfl

end FormulaicVerif.Proofs.C02N
