import FormulaicVerif.Proofs.C12
import FormulaicVerif.Proofs.C12Cubic
import FormulaicVerif.Proofs.C12Piece

/-! Helper lemmas for C12 (not obligations): the model's free design-matrix row on a closed knot
interval is the list of values of the cubic pieces `crPiece` / `ccPiece` (natural / cyclic). -/

namespace FormulaicVerif.Proofs.C12
open FormulaicVerif.Model.CubicSpline FormulaicVerif.Model.BSpline FormulaicVerif.Spec.CubicSpline

/-- entry `(i, c)` of a matrix given as a list of rows (0 outside) -/
def Ffn (F : List (List Rat)) (i c : ℕ) : ℚ := (F.getD i []).getD c 0

/-- the piece of column `c` of the natural design matrix on `[k_j, k_{j+1}]`: values of the unit
vector `e_c`, second derivatives from column `c` of `F` -/
def crPiece (knots : List Rat) (F : List (List Rat)) (j c : ℕ) : Piece ℚ :=
  { kl := knotFn knots j, kr := knotFn knots (j + 1), yl := delta j c, yr := delta (j + 1) c,
    ml := Ffn F j c, mr := Ffn F (j + 1) c }

/-- cyclic successor of node `j` among `m` nodes -/
def csucc (m j : ℕ) : ℕ := if j + 1 = m then 0 else j + 1

/-- the piece of column `c` of the cyclic design matrix (`len(knots) − 1` nodes, the last knot is
node 0 again) on `[k_j, k_{j+1}]` -/
def ccPiece (knots : List Rat) (F : List (List Rat)) (j c : ℕ) : Piece ℚ :=
  { kl := knotFn knots j, kr := knotFn knots (j + 1), yl := delta j c,
    yr := delta (csucc (knots.length - 1) j) c,
    ml := Ffn F j c, mr := Ffn F (csucc (knots.length - 1) j) c }

theorem searchsorted_between : ∀ (l : List Rat), l.Pairwise (· < ·) → ∀ j (hj : j + 1 < l.length) (x : ℚ),
    l[j] < x → x ≤ l[j + 1] → searchsorted l x = j + 1 := by
  intro l
  induction l with
  | nil => intro _ j hj; simp at hj
  | cons a t ih =>
    intro hs j hj x h1 h2
    rw [List.pairwise_cons] at hs
    unfold searchsorted at ih ⊢
    cases j with
    | zero =>
      simp only [List.getElem_cons_zero] at h1
      simp only [List.filter_cons, h1, decide_true, if_true, List.length_cons]
      have : t.filter (fun k => decide (k < x)) = [] := by
        rw [List.filter_eq_nil_iff]
        intro b hb
        have h0 : 0 < t.length := by simpa using hj
        have hx : x ≤ t[0] := by simpa using h2
        have : t[0] ≤ b := by
          rcases List.getElem_of_mem hb with ⟨i, hi, rfl⟩
          rcases Nat.eq_zero_or_pos i with rfl | hpos
          · exact le_refl _
          · exact le_of_lt (List.pairwise_iff_getElem.1 hs.2 0 i h0 hi hpos)
        simp [not_lt.2 (le_trans hx this)]
      rw [this]; rfl
    | succ j =>
      have hj' : j + 1 < t.length := by simpa using hj
      simp only [List.getElem_cons_succ] at h1 h2
      have ha : a < x := lt_trans (hs.1 _ (List.getElem_mem (by omega))) h1
      simp only [List.filter_cons, ha, decide_true, if_true, List.length_cons]
      rw [ih hs.2 j hj' x h1 h2]

theorem zip_range_getD {β : Type} (L : List β) (d : β) :
    (List.range L.length).zip L = (List.range L.length).map (fun c => (c, L.getD c d)) := by
  apply List.ext_getElem?
  intro k
  by_cases hk : k < L.length
  · simp [hk, List.getD_eq_getElem?_getD]
  · simp [hk]


theorem lowerBound_between (l : List Rat) (hs : l.Pairwise (· < ·)) (j : ℕ) (hj : j + 1 < l.length)
    (x : ℚ) (h1 : l[j] < x) (h2 : x ≤ l[j + 1]) : lowerBound l x = j := by
  unfold lowerBound
  simp only [searchsorted_between l hs j hj x h1 h2]
  have : j + 1 ≠ l.length := by omega
  simp [this]

/-- strictly inside a knot interval (right end included) the model's base functions are the
four cubic base functions of that interval -/
theorem baseFunctions_between (l : List Rat) (hs : l.Pairwise (· < ·)) (j : ℕ) (hj : j + 1 < l.length)
    (x : ℚ) (h1 : l[j] < x) (h2 : x ≤ l[j + 1]) :
    baseFunctions l x = .ok
      { ajm := (l[j + 1] - x) / (l[j + 1] - l[j]), ajp := (x - l[j]) / (l[j + 1] - l[j]),
        cjm := (l[j + 1] - x) * (l[j + 1] - x) * (l[j + 1] - x) / (6 * (l[j + 1] - l[j]))
                - (l[j + 1] - l[j]) * (l[j + 1] - x) / 6,
        cjp := (x - l[j]) * (x - l[j]) * (x - l[j]) / (6 * (l[j + 1] - l[j]))
                - (l[j + 1] - l[j]) * (x - l[j]) / 6,
        j := j } := by
  have hne : l ≠ [] := by intro h; simp [h] at hj
  obtain ⟨mn, hmn⟩ := minOf_isSome hne
  obtain ⟨mx, hmx⟩ := maxOf_isSome hne
  have hx1 : mn ≤ x := le_trans (minOf_le hmn _ (List.getElem_mem (by omega : j < l.length))) (le_of_lt h1)
  have hx2 : x ≤ mx := le_trans h2 (le_maxOf hmx _ (List.getElem_mem hj))
  have hj0 : j < l.length := by omega
  unfold baseFunctions
  simp only [lowerBound_between l hs j hj x h1 h2, List.getElem?_eq_getElem hj0,
    List.getElem?_eq_getElem hj, hmn, hmx, not_lt.2 hx1, not_lt.2 hx2, if_false]

/-- `combine` written as a map over the column index -/
theorem combine_eq_map (n j j1 : ℕ) (b : Base) (Fj Fj1 : List Rat)
    (h1 : Fj.length = n) (h2 : Fj1.length = n) :
    combine n j j1 b Fj Fj1 = (List.range n).map (fun c =>
      b.ajm * delta j c + b.ajp * delta j1 c + b.cjm * Fj.getD c 0 + b.cjp * Fj1.getD c 0) := by
  unfold combine
  have hl : (Fj.zip Fj1).length = n := by simp [h1, h2]
  have hz := zip_range_getD (Fj.zip Fj1) ((0 : Rat), (0 : Rat))
  rw [hl] at hz
  rw [hz, List.map_map]
  apply List.map_congr_left
  intro c hc
  have hc' : c < n := by simpa using hc
  have e : (Fj.zip Fj1).getD c (0, 0) = (Fj.getD c 0, Fj1.getD c 0) := by
    simp [List.getD_eq_getElem?_getD, h1, h2, hc']
  simp only [Function.comp]
  rw [e]


theorem knotFn_eq (l : List Rat) (j : ℕ) (hj : j < l.length) : knotFn l j = l[j] := by
  simp [knotFn, List.getD_eq_getElem?_getD, hj]

theorem Ffn_eq (F : List (List Rat)) (i c : ℕ) (r : List Rat) (h : F[i]? = some r) :
    Ffn F i c = r.getD c 0 := by
  simp [Ffn, List.getD_eq_getElem?_getD, h]

/-- generic form: the row computed with base interval `j` and second row index `j1` -/
theorem freeRowCore_between (l : List Rat) (hs : l.Pairwise (· < ·)) (j : ℕ) (hj : j + 1 < l.length)
    (x : ℚ) (h1 : l[j] < x) (h2 : x ≤ l[j + 1]) (n : ℕ) (wrap : Bool) (F : List (List Rat))
    (hF : F.length = n) (hFr : ∀ r ∈ F, r.length = n)
    (hnn : n = if wrap then l.length - 1 else l.length) :
    freeRowCore l n wrap F x = .ok ((List.range n).map (fun c =>
      (Piece.val { kl := knotFn l j, kr := knotFn l (j + 1), yl := delta j c,
                   yr := delta (if wrap then csucc n j else j + 1) c, ml := Ffn F j c,
                   mr := Ffn F (if wrap then csucc n j else j + 1) c } x))) := by
  unfold freeRowCore
  rw [baseFunctions_between l hs j hj x h1 h2]
  simp only
  have hjn : j < n := by cases wrap <;> simp at hnn <;> omega
  set j1 := (if (wrap && j + 1 == n) = true then 0 else j + 1) with hj1
  have hj1e : j1 = if wrap then csucc n j else j + 1 := by
    rw [hj1]; unfold csucc
    cases wrap <;> simp
  have hj1n : j1 < n := by
    rw [hj1e]; unfold csucc
    cases wrap
    · simp at hnn ⊢; omega
    · simp only [if_true]; split <;> omega
  obtain ⟨Fj, hFj⟩ : ∃ r, F[j]? = some r := ⟨F[j], List.getElem?_eq_getElem (hF ▸ hjn)⟩
  obtain ⟨Fj1, hFj1⟩ : ∃ r, F[j1]? = some r := ⟨F[j1], List.getElem?_eq_getElem (hF ▸ hj1n)⟩
  have l1 : Fj.length = n := hFr _ (List.mem_of_getElem? hFj)
  have l2 : Fj1.length = n := hFr _ (List.mem_of_getElem? hFj1)
  simp only [hFj, hFj1, l1, l2, and_self, if_true]
  rw [combine_eq_map _ _ _ _ _ _ l1 l2]
  congr 1
  apply List.map_congr_left
  intro c _
  rw [← hj1e, Ffn_eq F j c Fj hFj, Ffn_eq F j1 c Fj1 hFj1, knotFn_eq l j (by omega), knotFn_eq l (j + 1) hj]
  simp only [Piece.val, Piece.h]


theorem crPiece_h_ne (l : List Rat) (hs : l.Pairwise (· < ·)) (F : List (List Rat)) (j c : ℕ)
    (hj : j + 1 < l.length) : (crPiece l F j c).h ≠ 0 := by
  simp only [Piece.h, crPiece, knotFn_eq l j (by omega), knotFn_eq l (j + 1) hj]
  exact sub_ne_zero.2 (ne_of_gt (List.pairwise_iff_getElem.1 hs j (j + 1) (by omega) hj (by omega)))

theorem ccPiece_h_ne (l : List Rat) (hs : l.Pairwise (· < ·)) (F : List (List Rat)) (j c : ℕ)
    (hj : j + 1 < l.length) : (ccPiece l F j c).h ≠ 0 := by
  simp only [Piece.h, ccPiece, knotFn_eq l j (by omega), knotFn_eq l (j + 1) hj]
  exact sub_ne_zero.2 (ne_of_gt (List.pairwise_iff_getElem.1 hs j (j + 1) (by omega) hj (by omega)))

/-- **the natural design-matrix row on a closed knot interval is the list of piece values** -/
theorem freeRow_nat_piece (l : List Rat) (hs : l.Pairwise (· < ·)) (hn : 2 ≤ l.length)
    (F : List (List Rat)) (hF : F.length = l.length) (hFr : ∀ r ∈ F, r.length = l.length)
    (j : ℕ) (hj : j + 1 < l.length) (x : ℚ) (h1 : l[j] ≤ x) (h2 : x ≤ l[j + 1]) :
    freeRow l false F x = .ok ((List.range l.length).map (fun c => (crPiece l F j c).val x)) := by
  unfold freeRow
  simp only [Bool.false_eq_true, if_false]
  rcases lt_or_eq_of_le h1 with hlt | heq
  · have := freeRowCore_between l hs j hj x hlt h2 l.length false F hF hFr (by simp)
    simpa [crPiece] using this
  · subst heq
    rw [freeRowCore_at l hs hn j (by omega) l.length false F hF hFr (by simp)]
    congr 1
    apply List.map_congr_left
    intro c _
    have := Piece.val_left (crPiece l F j c) (crPiece_h_ne l hs F j c hj)
    simp only [crPiece, knotFn_eq l j (by omega : j < l.length)] at this
    simp only [crPiece, knotFn_eq l j (by omega : j < l.length)]
    rw [this]; simp

theorem mapCyclic_inside (x mn mx : ℚ) (h : mn < mx) (h1 : mn ≤ x) (h2 : x ≤ mx) :
    mapCyclic x mn mx = .ok x := by
  unfold mapCyclic
  simp [not_le.2 h, not_lt.2 h1, not_lt.2 h2]

/-- **the cyclic design-matrix row on a closed knot interval is the list of piece values** -/
theorem freeRow_cyc_piece (l : List Rat) (hs : l.Pairwise (· < ·)) (hn : 2 ≤ l.length)
    (F : List (List Rat)) (hF : F.length = l.length - 1) (hFr : ∀ r ∈ F, r.length = l.length - 1)
    (j : ℕ) (hj : j + 1 < l.length) (x : ℚ) (h1 : l[j] ≤ x) (h2 : x ≤ l[j + 1]) :
    freeRow l true F x = .ok ((List.range (l.length - 1)).map (fun c => (ccPiece l F j c).val x)) := by
  have hne : l ≠ [] := by intro h; simp [h] at hn
  obtain ⟨mn, hmn⟩ := minOf_isSome hne
  obtain ⟨mx, hmx⟩ := maxOf_isSome hne
  have hs' := List.pairwise_iff_getElem.1 hs
  have hx1 : mn ≤ x := le_trans (minOf_le hmn _ (List.getElem_mem (by omega : j < l.length))) h1
  have hx2 : x ≤ mx := le_trans h2 (le_maxOf hmx _ (List.getElem_mem hj))
  have hlt : mn < mx := lt_of_le_of_lt (minOf_le hmn _ (List.getElem_mem (by omega : 0 < l.length)))
    (lt_of_lt_of_le (hs' 0 1 (by omega) (by omega) (by omega))
      (le_maxOf hmx _ (List.getElem_mem (by omega : 1 < l.length))))
  unfold freeRow
  simp only [if_true, hmn, hmx, mapCyclic_inside x mn mx hlt hx1 hx2]
  rcases lt_or_eq_of_le h1 with hlt' | heq
  · have := freeRowCore_between l hs j hj x hlt' h2 (l.length - 1) true F hF hFr (by simp)
    simpa [ccPiece] using this
  · subst heq
    rw [freeRowCore_at l hs hn j (by omega) (l.length - 1) true F hF hFr (by simp)]
    congr 1
    apply List.map_congr_left
    intro c _
    have := Piece.val_left (ccPiece l F j c) (ccPiece_h_ne l hs F j c hj)
    simp only [ccPiece, knotFn_eq l j (by omega : j < l.length)] at this
    simp only [ccPiece, knotFn_eq l j (by omega : j < l.length)]
    rw [this]
    have : ¬ (j + 1 = l.length) := by omega
    simp [this]

end FormulaicVerif.Proofs.C12
