import FormulaicVerif.Proofs.C03
/-! C03: the factors of every emitted scoped term are factors of its term that have values and are not constants.
Core Lean only. -/
namespace FormulaicVerif.Proofs.C03Cover
open FormulaicVerif.Model FormulaicVerif.Spec FormulaicVerif.Proofs.C03 FormulaicVerif.Proofs.C02
  FormulaicVerif.Proofs.Scoped

theorem mem_dedupSF {l : List SF} {x : SF} (h : x ∈ dedupSF l) : x ∈ l := by
  induction l with
  | nil => simp [dedupSF] at h
  | cons a r ih =>
    simp only [dedupSF, List.mem_cons, List.mem_filter] at h
    rcases h with rfl | ⟨h, _⟩
    · simp
    · simp [ih h]

/-- an evaluated factor that carries data: not a constant -/
def isData (f : EvaledFactor) : Prop := ∀ v, f.kind ≠ .constant v

theorem mem_spannedChoices {efs : List EvaledFactor} {ch : List SF} (hch : ch ∈ spannedChoices efs) {sf : SF}
    (hsf : sf ∈ ch) : ∃ f ∈ efs, f.expr = sf.expr ∧ isData f := by
  induction efs generalizing ch with
  | nil => simp [spannedChoices] at hch; subst hch; simp at hsf
  | cons f r ih =>
    simp only [spannedChoices] at hch
    cases hk : f.kind with
    | constant v =>
      simp only [hk] at hch
      obtain ⟨g, hg, h1, h2⟩ := ih hch hsf
      exact ⟨g, by simp [hg], h1, h2⟩
    | numerical =>
      simp only [hk] at hch
      have hd : isData f := by intro v; rw [hk]; simp
      split at hch
      · rcases List.mem_append.mp hch with h | h
        · obtain ⟨t, ht, rfl⟩ := List.mem_map.mp h
          simp only [List.mem_cons] at hsf
          rcases hsf with rfl | hsf
          · exact ⟨f, by simp, rfl, hd⟩
          · obtain ⟨g, hg, h1, h2⟩ := ih ht hsf
            exact ⟨g, by simp [hg], h1, h2⟩
        · obtain ⟨g, hg, h1, h2⟩ := ih h hsf
          exact ⟨g, by simp [hg], h1, h2⟩
      · obtain ⟨t, ht, rfl⟩ := List.mem_map.mp hch
        simp only [List.mem_cons] at hsf
        rcases hsf with rfl | hsf
        · exact ⟨f, by simp, rfl, hd⟩
        · obtain ⟨g, hg, h1, h2⟩ := ih ht hsf
          exact ⟨g, by simp [hg], h1, h2⟩
    | categorical =>
      simp only [hk] at hch
      have hd : isData f := by intro v; rw [hk]; simp
      split at hch
      · rcases List.mem_append.mp hch with h | h
        · obtain ⟨t, ht, rfl⟩ := List.mem_map.mp h
          simp only [List.mem_cons] at hsf
          rcases hsf with rfl | hsf
          · exact ⟨f, by simp, rfl, hd⟩
          · obtain ⟨g, hg, h1, h2⟩ := ih ht hsf
            exact ⟨g, by simp [hg], h1, h2⟩
        · obtain ⟨g, hg, h1, h2⟩ := ih h hsf
          exact ⟨g, by simp [hg], h1, h2⟩
      · obtain ⟨t, ht, rfl⟩ := List.mem_map.mp hch
        simp only [List.mem_cons] at hsf
        rcases hsf with rfl | hsf
        · exact ⟨f, by simp, rfl, hd⟩
        · obtain ⟨g, hg, h1, h2⟩ := ih ht hsf
          exact ⟨g, by simp [hg], h1, h2⟩

/-- every factor of every scoped term that `_get_scoped_terms` yields for a term is one of the term's factors with
values, and not a constant -/
theorem scopeTerm_factors {c : Cache} {efr : Bool} {spanned : List ST} {t : MTerm} {sts spanned' : List ST}
    (h : scopeTerm c efr spanned t = .ok (sts, spanned')) :
    ∀ st ∈ sts, ∀ sf ∈ st.factors, ∃ f, c.get sf.expr = .ok f ∧ f.present = true ∧ isData f := by
  unfold scopeTerm at h
  cases he : evaledFactors c t with
  | error x => simp [he] at h
  | ok efs =>
    have hpres : ∀ f ∈ efs, c.get f.expr = .ok f ∧ f.present = true := by
      clear h
      induction t generalizing efs with
      | nil => simp [evaledFactors] at he; subst he; simp
      | cons e r ih =>
        simp only [evaledFactors] at he
        cases hg : c.get e with
        | error x => simp [hg] at he
        | ok g =>
          simp only [hg] at he
          cases hr : evaledFactors c r with
          | error x => simp [hr] at he
          | ok fs =>
            simp only [hr, Except.ok.injEq] at he
            have hge := (Cache.get_ok hg).1
            by_cases hp : g.present = true
            · simp only [hp, if_true] at he
              subst he
              intro f hf
              simp only [List.mem_cons] at hf
              rcases hf with rfl | hf
              · exact ⟨by rw [hge]; exact hg, hp⟩
              · exact ih fs hr f hf
            · simp only [hp, Bool.false_eq_true, if_false] at he
              subst he
              exact ih fs hr
    have hP : ∀ st : ST, (∀ sf ∈ st.factors, ∃ f ∈ efs, f.expr = sf.expr ∧ isData f) →
        ∀ sf ∈ st.factors, ∃ f, c.get sf.expr = .ok f ∧ f.present = true ∧ isData f := by
      intro st hst sf hsf
      obtain ⟨f, hf, h1, h2⟩ := hst sf hsf
      exact ⟨f, by rw [← h1]; exact (hpres f hf).1, (hpres f hf).2, h2⟩
    cases efs with
    | nil =>
      simp only [he, Except.ok.injEq, Prod.mk.injEq] at h
      intro st hst
      rw [← h.1] at hst
      simp at hst
    | cons f0 r0 =>
      simp only [he] at h
      cases efr with
      | false =>
        simp only [Bool.false_eq_true, if_false, Except.ok.injEq, Prod.mk.injEq] at h
        intro st hst
        rw [← h.1] at hst
        simp only [List.mem_singleton] at hst
        subst hst
        apply hP
        intro sf hsf
        simp only [fullScoped, ST.new] at hsf
        have := mem_dedupSF hsf
        obtain ⟨g, hg, rfl⟩ := List.mem_map.mp this
        obtain ⟨hg1, hg2⟩ := List.mem_filter.mp hg
        refine ⟨g, hg1, rfl, ?_⟩
        intro v hv
        rw [hv] at hg2
        simp at hg2
      | true =>
        simp only [if_true] at h
        cases hs : simplify (simplifyFuel (osDiff (spannedBy (f0 :: r0)) spanned)) (osDiff (spannedBy (f0 :: r0)) spanned) with
        | none => simp [hs] at h
        | some out =>
          simp only [hs, Except.ok.injEq, Prod.mk.injEq] at h
          intro st hst
          rw [← h.1] at hst
          apply hP
          refine simplify_all (fun st => ∀ sf ∈ st.factors, ∃ f ∈ f0 :: r0, f.expr = sf.expr ∧ isData f) ?_ _ _ _ hs ?_ st hst
          · intro f st hst sf hsf
            simp only [mkFull, ST.new] at hsf
            have := mem_dedupSF hsf
            obtain ⟨g, hg, hge⟩ := List.mem_map.mp this
            by_cases hgf : g = f
            · simp only [hgf, if_true] at hge
              subst hge
              subst hgf
              exact hst g hg
            · simp only [hgf, if_false] at hge
              subst hge
              exact hst g hg
          · intro st hst sf hsf
            have hsp := mem_osDiff hst
            unfold spannedBy at hsp
            have := mem_osOfList hsp
            obtain ⟨ch, hch, rfl⟩ := List.mem_map.mp this
            simp only [ST.new] at hsf
            exact mem_spannedChoices hch (mem_dedupSF hsf)

/-- the same for the whole structure -/
theorem structure_factors {cfg : Config} {rs : List TermResult} (h : buildStructure cfg = .ok rs) :
    ∀ st ∈ rs.flatMap (·.sts), ∀ sf ∈ st.factors,
      ∃ f, cfg.cache.get sf.expr = .ok f ∧ f.present = true ∧ isData f := by
  intro st hst
  obtain ⟨r, hr, hin⟩ := List.mem_flatMap.mp hst
  obtain ⟨_, ⟨sp, sp', hscope⟩, _⟩ := termResult_spec h hr
  exact scopeTerm_factors hscope st hin

end FormulaicVerif.Proofs.C03Cover
