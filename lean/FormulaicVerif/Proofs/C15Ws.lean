import FormulaicVerif.Model.Parser
/-! Helper lemmas for C15: token texts and kinds do not depend on source positions, and unquoted
whitespace at a safe gap does not change them. -/
namespace FormulaicVerif.Proofs.C15Ws
open FormulaicVerif FormulaicVerif.Model

/-- forget the source span of a token -/
def erase (t : Tok) : Tok := { t with start := none, stop := none }

/-- two lexer states that differ only in recorded spans -/
structure E (a b : LexState) : Prop where
  qc : a.qc = b.qc
  take : a.take = b.take
  text : a.tok.text = b.tok.text
  kind : a.tok.kind = b.tok.kind
  out : a.out.map erase = b.out.map erase

/-- two step results agree up to spans (and up to the position carried by an error) -/
def R : Except LexErr LexState → Except LexErr LexState → Prop
  | .ok a, .ok b => E a b
  | .error _, .error _ => True
  | _, _ => False

theorem E.nonempty {a b : LexState} (h : E a b) : a.tok.nonempty = b.tok.nonempty := by
  simp [Tok.nonempty, h.text]

theorem erase_eq {t u : Tok} (h1 : t.text = u.text) (h2 : t.kind = u.kind) : erase t = erase u := by
  cases t; cases u; simp_all [erase]

theorem E_update {a b : LexState} (h : E a b) (c : Char) (i j : Nat) (k : Option TKind) (q : List Char) (t : Nat) :
    E { a with tok := a.tok.update c i k, qc := q, take := t } { b with tok := b.tok.update c j k, qc := q, take := t } :=
  ⟨rfl, rfl, by simp [Tok.update, h.text], by simp [Tok.update, h.kind], h.out⟩

theorem E_upd {a b : LexState} (h : E a b) (c : Char) (i j : Nat) (k : Option TKind) :
    E { a with tok := a.tok.update c i k } { b with tok := b.tok.update c j k } :=
  ⟨h.qc, h.take, by simp [Tok.update, h.text], by simp [Tok.update, h.kind], h.out⟩

theorem E_flush {a b : LexState} (h : E a b) : E a.flush b.flush := by
  unfold LexState.flush
  rw [← h.nonempty]
  by_cases hn : a.tok.nonempty = true
  · simp only [hn, if_true]
    exact ⟨h.qc, h.take, rfl, rfl, by simp [h.out, erase_eq h.text h.kind]⟩
  · simp only [hn]; exact h

theorem E_flushIf {a b : LexState} (h : E a b) (c : Bool) :
    E (if c = true then a.flush else a) (if c = true then b.flush else b) := by
  cases c <;> simp [h, E_flush h]

theorem quoteBranch_R {a b : LexState} (h : E a b) (c : Char) (i j : Nat) :
    R (if (!a.tok.nonempty) = true then Except.ok { a with tok := a.tok.update c i (some .value), qc := [c] }
       else Except.error (.unexpectedQuote i))
      (if (!b.tok.nonempty) = true then Except.ok { b with tok := b.tok.update c j (some .value), qc := [c] }
       else Except.error (.unexpectedQuote j)) := by
  rw [← h.nonempty]
  by_cases hn : (!a.tok.nonempty) = true
  · simp only [hn, if_true, R]
    exact ⟨rfl, h.take, by simp [Tok.update, h.text], by simp [Tok.update], h.out⟩
  · have hn' : (!a.tok.nonempty) = false := by simpa using hn
    simp only [hn', Bool.false_eq_true, if_false, R]

theorem wordBranch_R {a b : LexState} (h : E a b) (c : Char) (i j : Nat) :
    R (if (!(a.tok.kind == none || a.tok.kind == some .value || a.tok.kind == some .name)) = true then
         Except.error (.unexpectedKind i)
       else Except.ok { a with tok := a.tok.update c i (some (if (isNumericChar c && (a.tok.kind == none || a.tok.kind == some .value)) = true then TKind.value else TKind.name)) })
      (if (!(b.tok.kind == none || b.tok.kind == some .value || b.tok.kind == some .name)) = true then
         Except.error (.unexpectedKind j)
       else Except.ok { b with tok := b.tok.update c j (some (if (isNumericChar c && (b.tok.kind == none || b.tok.kind == some .value)) = true then TKind.value else TKind.name)) }) := by
  rw [← h.kind]
  by_cases hk : (!(a.tok.kind == none || a.tok.kind == some .value || a.tok.kind == some .name)) = true
  · simp only [hk, if_true, R]
  · have hk' : (!(a.tok.kind == none || a.tok.kind == some .value || a.tok.kind == some .name)) = false := by simpa using hk
    simp only [hk', Bool.false_eq_true, if_false, R]
    exact E_upd h c i j _

theorem lexPlain_R {s s' : LexState} (h : E s s') (i j : Nat) (ci : CharInfo) :
    R (lexPlain s i ci) (lexPlain s' j ci) := by
  unfold lexPlain
  rw [← h.nonempty, ← h.kind]
  by_cases h1 : ci.space = true
  · simp only [h1, if_true]
    by_cases h2 : (s.tok.nonempty && s.tok.kind != some .operator) = true
    · simp only [h2, if_true, R]; exact E_flush h
    · simp only [h2, R]; exact h
  · simp only [h1, Bool.false_eq_true, if_false]
    by_cases h3 : (ci.c == '"' || ci.c == '\'') = true
    · simp only [h3, if_true]
      exact quoteBranch_R (E_flushIf h _) ci.c i j
    · simp only [h3, Bool.false_eq_true, if_false]
      by_cases h4 : ci.word = true
      · simp only [h4, if_true]
        exact wordBranch_R (E_flushIf h _) ci.c i j
      · simp only [h4, Bool.false_eq_true, if_false, R]
        exact E_upd (E_flushIf h (s.tok.nonempty && s.tok.kind != some .operator)) ci.c i j _

theorem E_open {a b : LexState} (h : E a b) (k : TKind) (i j : Nat) (q : List Char) :
    E { (if a.tok.nonempty = true then { a with out := a.tok :: a.out } else a) with tok := Tok.opened k i, qc := q }
      { (if b.tok.nonempty = true then { b with out := b.tok :: b.out } else b) with tok := Tok.opened k j, qc := q } := by
  rw [← h.nonempty]
  by_cases hn : a.tok.nonempty = true
  · simp only [hn, if_true]
    exact ⟨rfl, h.take, rfl, rfl, by simp [h.out, erase_eq h.text h.kind]⟩
  · simp only [hn]
    exact ⟨rfl, h.take, rfl, rfl, h.out⟩

theorem E_ctx {a b : LexState} (h : E a b) (c : Char) (i j : Nat) :
    E { a.flush with out := (Tok.fresh.update c i (some .context)) :: a.flush.out }
      { b.flush with out := (Tok.fresh.update c j (some .context)) :: b.flush.out } := by
  have hf := E_flush h
  exact ⟨hf.qc, hf.take, hf.text, hf.kind, by simp [hf.out, erase, Tok.update, Tok.fresh]⟩

theorem lexTop_R {s s' : LexState} (h : E s s') (i j : Nat) (ci : CharInfo) :
    R (lexTop s i ci) (lexTop s' j ci) := by
  unfold lexTop
  rw [← h.kind]
  by_cases h1 : (ci.c == '%') = true
  · simp only [h1, if_true, R]; exact E_open h _ i j _
  · simp only [h1, Bool.false_eq_true, if_false]
    by_cases h2 : (ci.c == '{') = true
    · simp only [h2, if_true, R]; exact E_open h _ i j _
    · simp only [h2, Bool.false_eq_true, if_false]
      by_cases h3 : (ci.c == '`') = true
      · simp only [h3, if_true, R]; exact E_open h _ i j _
      · simp only [h3, Bool.false_eq_true, if_false]
        by_cases h4 : (ci.c == '(' || ci.c == '[') = true
        · simp only [h4, if_true]
          by_cases h5 : (s.tok.kind == some .name || s.tok.kind == some .python) = true
          · simp only [h5, if_true, R]
            exact ⟨rfl, h.take, by simp [Tok.update, h.text], by simp [Tok.update], h.out⟩
          · simp only [h5, Bool.false_eq_true, if_false, R]; exact E_ctx h _ i j
        · simp only [h4, Bool.false_eq_true, if_false]
          by_cases h6 : (ci.c == ')' || ci.c == ']') = true
          · simp only [h6, if_true, R]; exact E_ctx h _ i j
          · simp only [h6, Bool.false_eq_true, if_false]; exact lexPlain_R h i j ci

theorem lexQuoted_R {s s' : LexState} (h : E s s') (i j : Nat) (ci : CharInfo) (top : Char) (rest : List Char) :
    R (lexQuoted s i ci top rest) (lexQuoted s' j ci top rest) := by
  unfold lexQuoted
  rw [← h.nonempty, ← h.qc]
  by_cases h1 : (ci.c == '\\') = true
  · simp only [h1, if_true, R]
    exact ⟨rfl, rfl, by simp [Tok.update, h.text], by simp [Tok.update, h.kind], h.out⟩
  · simp only [h1, Bool.false_eq_true, if_false]
    by_cases h2 : ((top == '}' || top == '`' || top == '%') && ci.c == top) = true
    · simp only [h2, if_true]
      by_cases h3 : s.tok.nonempty = true
      · simp only [h3, if_true]
        by_cases h4 : (!rest.isEmpty) = true
        · simp only [h4, if_true, R]
          exact ⟨rfl, h.take, by simp [Tok.update, h.text], by simp [Tok.update, h.kind], h.out⟩
        · simp only [h4, Bool.false_eq_true, if_false, R]
          exact ⟨rfl, h.take, rfl, rfl, by simp [h.out, erase_eq h.text h.kind]⟩
      · simp only [h3, Bool.false_eq_true, if_false]
        by_cases h5 : rest.isEmpty = true
        · simp only [h5, if_true, R]; exact ⟨rfl, h.take, rfl, rfl, h.out⟩
        · simp only [h5, Bool.false_eq_true, if_false, R]; exact ⟨rfl, h.take, h.text, h.kind, h.out⟩
    · simp only [h2, Bool.false_eq_true, if_false]
      by_cases h6 : (ci.c == top) = true
      · simp only [h6, if_true, R]
        exact ⟨rfl, h.take, by simp [Tok.update, h.text], by simp [Tok.update, h.kind], h.out⟩
      · simp only [h6, Bool.false_eq_true, if_false, R]
        exact ⟨rfl, h.take, by simp [Tok.update, h.text], by simp [Tok.update, h.kind], h.out⟩

theorem lexStep_R {s s' : LexState} (h : E s s') (i j : Nat) (ci : CharInfo) :
    R (lexStep s i ci) (lexStep s' j ci) := by
  unfold lexStep
  rw [← h.take, ← h.qc]
  by_cases h1 : s.take > 0
  · simp only [h1, if_true, R]
    exact ⟨rfl, rfl, by simp [Tok.update, h.text], by simp [Tok.update, h.kind], h.out⟩
  · simp only [h1, if_false]
    cases hq : s.qc with
    | nil => exact lexTop_R h i j ci
    | cons top rest => exact lexQuoted_R h i j ci top rest

theorem E_refl (s : LexState) : E s s := ⟨rfl, rfl, rfl, rfl, rfl⟩

theorem lexLoop_R (cs : List CharInfo) : ∀ (i j : Nat) (s s' : LexState), E s s' →
    E (lexLoop cs i s).1 (lexLoop cs j s').1 ∧ (lexLoop cs i s).2.isSome = (lexLoop cs j s').2.isSome := by
  induction cs with
  | nil => intro i j s s' h; exact ⟨h, rfl⟩
  | cons ci cs ih =>
    intro i j s s' h
    have hr := lexStep_R h i j ci
    unfold lexLoop
    cases h1 : lexStep s i ci with
    | error e =>
      cases h2 : lexStep s' j ci with
      | error e' => exact ⟨h, rfl⟩
      | ok b => rw [h1, h2] at hr; exact absurd hr (by simp [R])
    | ok a =>
      cases h2 : lexStep s' j ci with
      | error e' => rw [h1, h2] at hr; exact absurd hr (by simp [R])
      | ok b =>
        rw [h1, h2] at hr
        exact ih (i + 1) (j + 1) a b hr

theorem lexLoop_append (u v : List CharInfo) : ∀ (i : Nat) (s s1 : LexState),
    lexLoop u i s = (s1, none) → lexLoop (u ++ v) i s = lexLoop v (i + u.length) s1 := by
  induction u with
  | nil => intro i s s1 h; simp [lexLoop] at h; subst h; simp
  | cons c u ih =>
    intro i s s1 h
    cases hs : lexStep s i c with
    | error e => simp [lexLoop, hs] at h
    | ok a =>
      have h' : lexLoop u (i + 1) a = (s1, none) := by simpa [lexLoop, hs] using h
      have := ih (i + 1) a s1 h'
      simp only [List.cons_append, lexLoop, hs, this, List.length_cons]
      congr 1
      omega

/-- the token list (texts and kinds) that a final lexer state stands for -/
def outcome (p : LexState × Option LexErr) : Option (List Tok) :=
  match p with
  | (_, some _) => none
  | (s, none) =>
    if !s.qc.isEmpty then none
    else some ((if s.tok.nonempty then (s.tok :: s.out).reverse else s.out.reverse).map erase)

theorem tokenize_outcome (cs : List CharInfo) :
    (tokenize cs).toOption.map (·.map erase) = outcome (lexLoop cs 0 {}) := by
  unfold tokenize tokenizeStream outcome
  cases h : lexLoop cs 0 {} with
  | mk s e =>
    cases e with
    | some e => simp [Except.toOption]
    | none =>
      by_cases hq : (!s.qc.isEmpty) = true
      · simp [hq, Except.toOption]
      · by_cases hn : s.tok.nonempty = true <;> simp [hq, hn, Except.toOption]

theorem outcome_congr {a b : LexState} {e e' : Option LexErr} (h : E a b) (he : e.isSome = e'.isSome) :
    outcome (a, e) = outcome (b, e') := by
  cases e with
  | some x =>
    cases e' with
    | some y => rfl
    | none => simp at he
  | none =>
    cases e' with
    | some y => simp at he
    | none =>
      simp only [outcome, h.qc, ← h.nonempty]
      by_cases hq : (!b.qc.isEmpty) = true
      · simp [hq]
      · simp only [hq, Bool.false_eq_true, if_false]
        by_cases hn : a.tok.nonempty = true
        · simp only [hn, if_true, List.reverse_cons, List.map_append, List.map_reverse, List.map_cons, List.map_nil]
          rw [h.out, erase_eq h.text h.kind]
        · simp only [hn, Bool.false_eq_true, if_false, List.map_reverse]
          rw [h.out]

/-- **Whitespace insensitivity.** Inserting one unquoted whitespace character at a point where no
quote context is open and the pending token is empty or an operator (i.e. around operators and
grouping brackets, between tokens) leaves the token texts and kinds unchanged — and a string is
rejected with it iff it is rejected without it. By induction this gives invariance under any
re-spacing at such points. -/
theorem ws_insensitive (u v : List CharInfo) (w : CharInfo) (s : LexState)
    (hu : lexLoop u 0 {} = (s, none)) (hq : s.qc = []) (ht : s.take = 0)
    (hsp : w.space = true) (hc : w.c ∉ ['%', '{', '`', '(', '[', ')', ']'])
    (hp : s.tok.nonempty = false ∨ s.tok.kind = some .operator) :
    (tokenize (u ++ w :: v)).toOption.map (·.map erase) = (tokenize (u ++ v)).toOption.map (·.map erase) := by
  rw [tokenize_outcome, tokenize_outcome, lexLoop_append u (w :: v) 0 {} s hu, lexLoop_append u v 0 {} s hu]
  have hstep : lexStep s (0 + u.length) w = .ok s := by
    simp only [List.mem_cons, List.mem_nil_iff, or_false, not_or] at hc
    obtain ⟨c1, c2, c3, c4, c5, c6, c7⟩ := hc
    have f1 : (w.c == '%') = false := by simpa using c1
    have f2 : (w.c == '{') = false := by simpa using c2
    have f3 : (w.c == '`') = false := by simpa using c3
    have f4 : (w.c == '(') = false := by simpa using c4
    have f5 : (w.c == '[') = false := by simpa using c5
    have f6 : (w.c == ')') = false := by simpa using c6
    have f7 : (w.c == ']') = false := by simpa using c7
    unfold lexStep lexTop lexPlain
    simp only [ht, Nat.lt_irrefl, if_false, hq, f1, f2, f3, f4, f5, f6, f7, Bool.false_eq_true, Bool.or_self, hsp, if_true]
    rcases hp with hp | hp <;> simp [hp]
  have hl : lexLoop (w :: v) (0 + u.length) s = lexLoop v (0 + u.length + 1) s := by
    simp only [lexLoop, hstep]
  rw [hl]
  obtain ⟨h1, h2⟩ := lexLoop_R v (0 + u.length + 1) (0 + u.length) s s (E_refl s)
  have : lexLoop v (0 + u.length + 1) s = ((lexLoop v (0 + u.length + 1) s).1, (lexLoop v (0 + u.length + 1) s).2) := rfl
  rw [this]
  have : lexLoop v (0 + u.length) s = ((lexLoop v (0 + u.length) s).1, (lexLoop v (0 + u.length) s).2) := rfl
  rw [this]
  exact outcome_congr h1 h2

end FormulaicVerif.Proofs.C15Ws
