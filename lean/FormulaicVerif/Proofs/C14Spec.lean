import FormulaicVerif.Model.FormulaSpec
import FormulaicVerif.Proofs.C14Multistage
/-! C14 for `Formula(<non-string specification>)`: lists, tuples, dictionaries, keyword structure. -/
namespace FormulaicVerif.Proofs.C14Spec
open FormulaicVerif FormulaicVerif.Model.FormulaSpec
open FormulaicVerif.Model hiding Item simplify
open FormulaicVerif.Proofs.C14Multistage

/-- the Python normaliser of a string leaf raises nothing but SyntaxError -/
def NormOk (s : Src) : Prop := ∀ t x, s.env.norm t = .error x → x = .syntaxError

def itemOk : Item → Prop
  | .str s => NormOk s
  | _ => True

mutual
/-- no structure key starts with an underscore, and every string leaf has a well-behaved normaliser -/
def specOk : Spec → Prop
  | .str s => NormOk s
  | .list items => ∀ it ∈ items, itemOk it
  | .tuple xs => specsOk xs
  | .dict kv => fieldsOk kv
  | _ => True
def specsOk : List Spec → Prop
  | [] => True
  | x :: xs => specOk x ∧ specsOk xs
def fieldsOk : List (String × Spec) → Prop
  | [] => True
  | (k, s) :: rest => badKey k = false ∧ specOk s ∧ fieldsOk rest
end

/-- the conclusion: an internal exception is the NotImplementedError, and one of the two parsers has
the MULTISTAGE flag -/
def Concl (P N : ParseCfg) (k : String) : Prop :=
  k = "NotImplementedError" ∧ (P.multistage = true ∨ N.multistage = true)

theorem parse_internal (P : ParseCfg) (s : Src) (hs : NormOk s) (k : String)
    (h : parseTerms P s.env s.cs = .error (.internal k)) : k = "NotImplementedError" ∧ P.multistage = true := by
  obtain ⟨h1, _⟩ := parseTerms_internal P s.env hs s.cs k h
  refine ⟨h1, ?_⟩
  cases hms : P.multistage with
  | true => rfl
  | false => exact absurd h (Proofs.C14General.parseTerms_no_internal P hms s.env hs s.cs k)

theorem strFormula_internal (P : ParseCfg) (s : Src) (hs : NormOk s) (k : String)
    (h : strFormula P s = .error (.internal k)) : k = "NotImplementedError" ∧ P.multistage = true := by
  unfold strFormula at h
  cases hp : parseTerms P s.env s.cs with
  | ok v => rw [hp] at h; cases h
  | error e =>
    rw [hp] at h
    cases e with
    | «syntax» w => cases h
    | pySyntax => cases h
    | internal k' =>
      simp only [ofParse] at h
      injection h with h; injection h with h; subst h
      exact parse_internal P s hs k' hp

theorem listTerms_internal (N : ParseCfg) : ∀ (items : List Item), (∀ it ∈ items, itemOk it) → ∀ k,
    listTerms N items = .error (.internal k) → k = "NotImplementedError" ∧ N.multistage = true := by
  intro items
  induction items with
  | nil => intro _ k h; simp [listTerms] at h
  | cons it rest ih =>
    intro hok k h
    cases it with
    | str s =>
      simp only [listTerms] at h
      cases hp : parseTerms N s.env s.cs with
      | error e =>
        rw [hp] at h
        simp only at h
        cases e with
        | «syntax» w => cases h
        | pySyntax => cases h
        | internal k' =>
          simp only [ofParse] at h
          injection h with h; injection h with h; subst h
          exact parse_internal N s (hok (.str s) (by simp)) k' hp
      | ok v =>
        rw [hp] at h
        simp only at h
        cases hr : listTerms N rest with
        | error e =>
          rw [hr] at h
          simp only at h
          injection h with h; subst h
          exact ih (fun it h' => hok it (List.mem_cons_of_mem _ h')) k hr
        | ok p =>
          rw [hr] at h
          obtain ⟨ts, good⟩ := p
          simp only at h
          split at h <;> cases h
    | term t =>
      simp only [listTerms] at h
      cases hr : listTerms N rest with
      | error e =>
        rw [hr] at h
        simp only at h
        injection h with h; subst h
        exact ih (fun it h' => hok it (List.mem_cons_of_mem _ h')) k hr
      | ok p => rw [hr] at h; obtain ⟨ts, good⟩ := p; simp only at h; cases h
    | other =>
      simp only [listTerms] at h
      cases hr : listTerms N rest with
      | error e =>
        rw [hr] at h
        simp only at h
        injection h with h; subst h
        exact ih (fun it h' => hok it (List.mem_cons_of_mem _ h')) k hr
      | ok p => rw [hr] at h; obtain ⟨ts, good⟩ := p; simp only at h; cases h

theorem listFormula_internal (N : ParseCfg) (items : List Item) (hok : ∀ it ∈ items, itemOk it) (k : String)
    (h : listFormula N items = .error (.internal k)) : k = "NotImplementedError" ∧ N.multistage = true := by
  unfold listFormula at h
  cases hr : listTerms N items with
  | error e =>
    rw [hr] at h
    simp only at h
    injection h with h; subst h
    exact listTerms_internal N items hok k hr
  | ok p =>
    rw [hr] at h
    obtain ⟨ts, good⟩ := p
    cases good <;> simp at h

theorem fieldsOk_noBad : ∀ (kv : List (String × Spec)), fieldsOk kv → kv.any (fun p => badKey p.1) = false := by
  intro kv
  induction kv with
  | nil => intro _; rfl
  | cons p rest ih =>
    intro h
    obtain ⟨k, s⟩ := p
    rw [fieldsOk] at h
    simp only [List.any_cons, h.1, Bool.false_or]
    exact ih h.2.2

mutual
theorem fromSpec_internal (b : Bool) (P N : ParseCfg) : ∀ (spec : Spec), specOk spec → ∀ k,
    fromSpec b P N spec = .error (.internal k) → Concl P N k
  | .formula v, _, k, h => by rw [fromSpec] at h; cases h
  | .other, _, k, h => by rw [fromSpec] at h; cases h
  | .str s, hok, k, h => by
    rw [fromSpec] at h
    rw [specOk] at hok
    obtain ⟨h1, h2⟩ := strFormula_internal P s hok k h
    exact ⟨h1, Or.inl h2⟩
  | .list items, hok, k, h => by
    rw [fromSpec] at h
    rw [specOk] at hok
    obtain ⟨h1, h2⟩ := listFormula_internal N items hok k h
    exact ⟨h1, Or.inr h2⟩
  | .tuple xs, hok, k, h => by
    rw [fromSpec] at h
    rw [specOk] at hok
    cases ht : tupleVals P N xs with
    | error e =>
      rw [ht] at h
      simp only at h
      injection h with h; subst h
      exact tupleVals_internal P N xs hok k ht
    | ok vs => rw [ht] at h; cases h
  | .dict kv, hok, k, h => by
    rw [fromSpec] at h
    rw [specOk] at hok
    rw [fieldsOk_noBad kv hok] at h
    simp only [Bool.false_eq_true, if_false] at h
    cases h1 : fieldVals false P N kv with
    | error e =>
      rw [h1] at h
      simp only at h
      injection h with h; subst h
      exact fieldVals_internal false P N kv hok k h1
    | ok fs =>
      rw [h1] at h
      simp only at h
      cases h2 : fieldVals true P N kv with
      | error e =>
        rw [h2] at h
        simp only at h
        injection h with h; subst h
        exact fieldVals_internal true P N kv hok k h2
      | ok rs => rw [h2] at h; cases h
theorem tupleVals_internal (P N : ParseCfg) : ∀ (xs : List Spec), specsOk xs → ∀ k,
    tupleVals P N xs = .error (.internal k) → Concl P N k
  | [], _, k, h => by rw [tupleVals] at h; cases h
  | x :: xs, hok, k, h => by
    rw [tupleVals] at h
    rw [specsOk] at hok
    cases hx : fromSpec true P N x with
    | error e =>
      rw [hx] at h
      simp only at h
      injection h with h; subst h
      exact fromSpec_internal true P N x hok.1 k hx
    | ok v =>
      rw [hx] at h
      simp only at h
      cases hr : tupleVals P N xs with
      | error e =>
        rw [hr] at h
        simp only at h
        injection h with h; subst h
        exact tupleVals_internal P N xs hok.2 k hr
      | ok vs => rw [hr] at h; cases h
theorem fieldVals_internal (roots : Bool) (P N : ParseCfg) : ∀ (kv : List (String × Spec)), fieldsOk kv → ∀ k,
    fieldVals roots P N kv = .error (.internal k) → Concl P N k
  | [], _, k, h => by rw [fieldVals] at h; cases h
  | (key, s) :: rest, hok, k, h => by
    rw [fieldVals] at h
    rw [fieldsOk] at hok
    split at h
    · exact fieldVals_internal roots P N rest hok.2.2 k h
    · cases hx : fromSpec true (if key == "root" then P else N) N s with
      | error e =>
        rw [hx] at h
        simp only at h
        injection h with h; subst h
        obtain ⟨c1, c2⟩ := fromSpec_internal true (if key == "root" then P else N) N s hok.2.1 k hx
        refine ⟨c1, ?_⟩
        rcases c2 with c2 | c2
        · split at c2
          · exact Or.inl c2
          · exact Or.inr c2
        · exact Or.inr c2
      | ok v =>
        rw [hx] at h
        simp only at h
        cases hr : fieldVals roots P N rest with
        | error e =>
          rw [hr] at h
          simp only at h
          injection h with h; subst h
          exact fieldVals_internal roots P N rest hok.2.2 k hr
        | ok fs => rw [hr] at h; cases h
end

theorem fieldsOk_append : ∀ (a b : List (String × Spec)), fieldsOk a → fieldsOk b → fieldsOk (a ++ b) := by
  intro a
  induction a with
  | nil => intro b _ hb; exact hb
  | cons p rest ih =>
    intro b ha hb
    obtain ⟨k, s⟩ := p
    rw [fieldsOk] at ha
    rw [List.cons_append, fieldsOk]
    exact ⟨ha.1, ha.2.1, ih b ha.2.2 hb⟩

/-- **`Formula(root?, _parser=P, _nested_parser=N, **kw)`**: for every specification tree (strings,
`Term`s, `Formula` objects, leaves that are no specification, lists, tuples, dictionaries; unbounded
nesting) whose structure keys do not start with an underscore, the outcome is a formula, the parsing
error, a fragment's SyntaxError or `FormulaInvalidError` — an internal exception only as the
`NotImplementedError` of finding C14-F1 under a parser with the MULTISTAGE flag -/
theorem formulaCall_internal (P N : Option ParseCfg) (root : Option Spec) (kw : List (String × Spec))
    (hroot : ∀ r, root = some r → specOk r) (hkw : fieldsOk kw) (k : String)
    (h : formulaCall P N root kw = .error (.internal k)) :
    Concl (parsersOf P N).1 (parsersOf P N).2 k := by
  unfold formulaCall at h
  generalize parsersOf P N = pn at h ⊢
  obtain ⟨p, n⟩ := pn
  simp only at h ⊢
  cases kw with
  | nil =>
    cases root with
    | none => cases h
    | some r => exact fromSpec_internal false p n r (hroot r rfl) k h
  | cons q rest =>
    simp only at h
    have key : ∀ (kv : List (String × Spec)), fieldsOk kv →
        (if (kv.any fun q => badKey q.1) = true then Except.error (FErr.internal "ValueError")
         else match fieldVals false p n kv with
          | .error e => .error e
          | .ok fs => match fieldVals true p n kv with
            | .error e => .error e
            | .ok rs => .ok (finalize true (.struct (fs ++ rs)))) = Except.error (FErr.internal k) →
        Concl p n k := by
      intro kv hkv h
      rw [fieldsOk_noBad _ hkv] at h
      simp only [Bool.false_eq_true, if_false] at h
      cases h1 : fieldVals false p n kv with
      | error e =>
        rw [h1] at h
        simp only at h
        injection h with h; subst h
        exact fieldVals_internal false p n _ hkv k h1
      | ok fs =>
        rw [h1] at h
        simp only at h
        cases h2 : fieldVals true p n kv with
        | error e =>
          rw [h2] at h
          simp only at h
          injection h with h; subst h
          exact fieldVals_internal true p n _ hkv k h2
        | ok rs => rw [h2] at h; cases h
    cases root with
    | none =>
      have h0 : fieldsOk ([] : List (String × Spec)) := by rw [fieldsOk]; trivial
      exact key _ (fieldsOk_append _ [] hkw h0) h
    | some r =>
      have h1 : fieldsOk [("root", r)] := by
        rw [fieldsOk, fieldsOk]
        exact ⟨by simp [badKey], hroot r rfl, trivial⟩
      exact key _ (fieldsOk_append _ [("root", r)] hkw h1) h


/-! ### the fuel of `_simplify` -/

theorem depthList_ge : ∀ (vs : List Val) (x : Val), x ∈ vs → valDepth x ≤ valDepth.depthList vs := by
  intro vs
  induction vs with
  | nil => intro x hx; cases hx
  | cons v vs ih =>
    intro x hx
    rw [valDepth.depthList]
    rcases List.mem_cons.mp hx with rfl | hx
    · exact Nat.le_max_left _ _
    · exact Nat.le_trans (ih x hx) (Nat.le_max_right _ _)

theorem depthFields_ge : ∀ (fs : List (String × Val)) (p : String × Val), p ∈ fs → valDepth p.2 ≤ valDepth.depthFields fs := by
  intro fs
  induction fs with
  | nil => intro p hp; cases hp
  | cons q fs ih =>
    intro p hp
    obtain ⟨k, v⟩ := q
    rw [valDepth.depthFields]
    rcases List.mem_cons.mp hp with rfl | hp
    · exact Nat.le_max_left _ _
    · exact Nat.le_trans (ih p hp) (Nat.le_max_right _ _)

/-- one more unit of fuel changes nothing once the fuel exceeds the depth of the value -/
theorem simplify_succ : ∀ (fuel : Nat) (u : Bool) (v : Val), valDepth v < fuel →
    simplify (fuel + 1) u v = simplify fuel u v := by
  intro fuel
  induction fuel with
  | zero => intro u v h; omega
  | succ f ih =>
    intro u v h
    cases v with
    | set ts => simp [simplify]
    | tuple vs =>
      rw [valDepth] at h
      simp only [simplify]
      congr 1
      apply List.map_congr_left
      intro x hx
      exact ih true x (by have := depthList_ge vs x hx; omega)
    | struct fs =>
      rw [valDepth] at h
      have hmap : fs.map (fun p => (p.1, simplify (f + 1) true p.2)) = fs.map (fun p => (p.1, simplify f true p.2)) := by
        apply List.map_congr_left
        intro p hp
        have := depthFields_ge fs p hp
        rw [ih true p.2 (by omega)]
      by_cases hfs : ∃ r, fs = [("root", r)]
      · obtain ⟨r, rfl⟩ := hfs
        have hr : valDepth r < f := by
          have := depthFields_ge [("root", r)] ("root", r) (by simp)
          simp only at this
          omega
        have hroot : ∀ (n : Nat) (w : Bool), simplify (n + 1) w (.struct [("root", r)]) =
            (if !r.isTuple && (w || r.isStruct) then simplify n w r else .struct [("root", simplify n true r)]) := by
          intro n w
          rw [FormulaSpec.simplify.eq_def]
          rfl
        rw [hroot, hroot, ih u r hr, ih true r hr]
      · have hgen : ∀ (n : Nat), simplify (n + 1) u (.struct fs) =
            .struct (fs.map (fun p => (p.1, simplify n true p.2))) := by
          intro n
          rw [FormulaSpec.simplify.eq_def]
          simp only
          split
          · rename_i r
            exact absurd ⟨r, rfl⟩ hfs
          · rfl
        rw [hgen, hgen, hmap]

/-- **the fuel of `_simplify` suffices**: any fuel above the depth of the value gives the same result -/
theorem simplify_fuel (v : Val) (u : Bool) : ∀ (extra : Nat),
    simplify (valDepth v + 1 + extra) u v = simplify (valDepth v + 1) u v := by
  intro extra
  induction extra with
  | zero => rfl
  | succ n ih =>
    rw [← ih]
    exact simplify_succ (valDepth v + 1 + n) u v (by omega)

end FormulaicVerif.Proofs.C14Spec
