import FormulaicVerif.Model.Encode2
import FormulaicVerif.Proofs.C08Levels
/-! Helper lemmas for C08 on `Model/Encode2.lean`: every cell that a call puts into its matrix is a
number (invariants of the two caches), a call with the reset does not look at the caches it finds.
-/
namespace FormulaicVerif.Proofs.C08Hist
open FormulaicVerif.Model FormulaicVerif.Model.Encode FormulaicVerif.Model.PyLevels FormulaicVerif.Model.Enc2

/-- the kind table classifies text and categorical dtypes as CATEGORICAL (the hypothesis of the
`cells_numeric` theorems; `Props.C08.liveTableOK` discharges it for the generated table) -/
def TableOK (tbl : List KindRow) : Prop :=
  ∀ r ∈ tbl, (r.family = .text ∨ r.family = .categorical) → ∀ m, kindFor r m = .categorical

theorem lookupRow_mem {tbl : List KindRow} {d : String} {r : KindRow} (h : lookupRow tbl d = some r) : r ∈ tbl :=
  List.mem_of_find?_eq_some h

theorem lookupBy_mem {κ α : Type} [DecidableEq κ] {k : κ} {a : α} :
    ∀ {l : List (κ × α)}, lookupBy k l = some a → (k, a) ∈ l
  | [], h => by simp [lookupBy] at h
  | (k', a') :: r, h => by
    simp only [lookupBy] at h
    split at h
    · rename_i hk
      simp only [Option.some.injEq] at h
      subst hk; subst h
      exact List.mem_cons_self
    · exact List.mem_cons_of_mem _ (lookupBy_mem h)

theorem mem_applyMask {α : Type} {x : α} : ∀ {mask : List Bool} {l : List α}, x ∈ applyMask mask l → x ∈ l
  | [], _, h => by simp [applyMask] at h
  | _ :: _, [], h => by
    rename_i b m
    cases b <;> simp [applyMask] at h
  | true :: m, y :: ys, h => by
    simp only [applyMask, List.mem_cons] at h
    rcases h with h | h
    · exact h ▸ List.mem_cons_self
    · exact List.mem_cons_of_mem _ (mem_applyMask h)
  | false :: m, y :: ys, h => by
    simp only [applyMask] at h
    exact List.mem_cons_of_mem _ (mem_applyMask h)

theorem mem_dropAt {α : Type} {x : α} : ∀ {n : Nat} {l : List α}, x ∈ dropAt n l → x ∈ l
  | _, [], h => by simp [dropAt] at h
  | 0, _ :: _, h => by
    simp only [dropAt] at h
    exact List.mem_cons_of_mem _ h
  | n + 1, y :: ys, h => by
    simp only [dropAt, List.mem_cons] at h
    rcases h with h | h
    · exact h ▸ List.mem_cons_self
    · exact List.mem_cons_of_mem _ (mem_dropAt h)

/-! ### good cache content -/

/-- a non-categorical evaluated factor holds numbers only -/
def GoodEF (ef : EvalF) : Prop :=
  ef.categorical = false → ∀ v ∈ ef.vals, (numCell v).isNumber = true

def GoodEnc (out : Output) (enc : Enc) : Prop :=
  enc.out = out ∧ ∀ fld ∈ enc.fields, ∀ x ∈ fld.2, x.isNumber = true

def GoodCaches (out : Output) (c : Caches) : Prop :=
  (∀ p ∈ c.factorCache, GoodEF p.2) ∧ (∀ p ∈ c.encodedCache, GoodEnc out p.2)

theorem goodCaches_empty (out : Output) : GoodCaches out Caches.empty :=
  ⟨fun p h => by simp [Caches.empty] at h, fun p h => by simp [Caches.empty] at h⟩

theorem numCell_of_valOK {fam : DFamily} {dtype : String} {x : PyVal}
    (hfam : fam = .numeric ∨ fam = .bool) (h : valOK fam dtype x = true) : (numCell (some x)).isNumber = true := by
  rcases hfam with rfl | rfl
  · cases x <;> simp [valOK] at h <;> rfl
  · cases x <;> simp [valOK] at h
    rfl

theorem evalFactor_good {tbl : List KindRow} (htbl : TableOK tbl) {m : Mat} {frame : List Enc2.In} {f : FactorId}
    {ef : EvalF} (h : evalFactor tbl m frame f = .ok ef) : GoodEF ef := by
  unfold evalFactor at h
  cases hc : findCol frame f.name with
  | none => simp [hc] at h
  | some c =>
    simp only [hc] at h
    cases hr : lookupRow tbl c.dtype with
    | none => simp [hr] at h
    | some r =>
      simp only [hr] at h
      by_cases hok : c.familyOK r = true
      · simp only [hok, Bool.not_true, Bool.false_eq_true, if_false] at h
        by_cases hC : f.isC = true
        · simp only [hC, if_true, Except.ok.injEq] at h
          subst h
          intro hcat; cases hcat
        · simp only [hC, Bool.false_eq_true, if_false] at h
          cases hk : kindFor r m with
          | error => simp [hk] at h
          | categorical =>
            simp only [hk, Except.ok.injEq] at h
            subst h
            intro hcat; cases hcat
          | numerical =>
            simp only [hk, Except.ok.injEq] at h
            subst h
            intro _ v hv
            have hfam : r.family = .numeric ∨ r.family = .bool := by
              cases hf : r.family with
              | text =>
                have := htbl r (lookupRow_mem hr) (Or.inl hf) m
                rw [hk] at this; cases this
              | categorical =>
                have := htbl r (lookupRow_mem hr) (Or.inr hf) m
                rw [hk] at this; cases this
              | numeric => exact Or.inl rfl
              | bool => exact Or.inr rfl
            cases v with
            | none => rfl
            | some x =>
              simp only [Enc2.In.familyOK, Bool.and_eq_true, List.all_eq_true] at hok
              have := hok.2 (some x) hv
              exact numCell_of_valOK hfam this
      · simp [hok] at h

theorem mem_dummiesFrom {codes : List (Option Nat)} {fld : String × List Cell} :
    ∀ {labels : List String} {j : Nat}, fld ∈ dummiesFrom j labels codes → ∃ i, fld.2 = indicatorAt i codes
  | [], _, h => by simp [dummiesFrom] at h
  | lab :: r, j, h => by
    simp only [dummiesFrom, List.mem_cons] at h
    rcases h with h | h
    · exact ⟨j, by rw [h]⟩
    · exact mem_dummiesFrom h

theorem indicatorAt_numeric (j : Nat) (codes : List (Option Nat)) : ∀ x ∈ indicatorAt j codes, x.isNumber = true := by
  intro x hx
  simp only [indicatorAt, List.mem_map] at hx
  obtain ⟨c, _, rfl⟩ := hx
  split <;> rfl

theorem dummies_numeric {labels : List String} {codes : List (Option Nat)} :
    ∀ fld ∈ dummies labels codes, ∀ x ∈ fld.2, x.isNumber = true := by
  intro fld h x hx
  obtain ⟨i, hi⟩ := mem_dummiesFrom h
  rw [hi] at hx
  exact indicatorAt_numeric i codes x hx

theorem applyTreatment_good {out : Output} {base : Option PyVal} {reduced : Bool} {lvls : List PyVal}
    {full : List (String × List Cell)} {enc : Enc} (hfull : ∀ fld ∈ full, ∀ x ∈ fld.2, x.isNumber = true)
    (h : applyTreatment out base reduced lvls full = .ok enc) : GoodEnc out enc := by
  unfold applyTreatment at h
  split at h
  · simp only [Except.ok.injEq] at h
    subst h
    exact ⟨rfl, fun fld hf => by simp at hf⟩
  · cases hb : baseIndex base lvls with
    | none => simp [hb] at h
    | some bi =>
      simp only [hb, Except.ok.injEq] at h
      subst h
      refine ⟨rfl, ?_⟩
      intro fld hf
      cases reduced with
      | true => exact hfull fld (mem_dropAt (by simpa using hf))
      | false => exact hfull fld (by simpa using hf)

theorem customColumn_numeric (cu : Custom) (c : Nat) : ∀ (codes : List (Option Nat)) (cells : List Cell),
    customColumn cu c codes = some cells → ∀ x ∈ cells, x.isNumber = true
  | [], cells, h => by
    simp only [customColumn, Option.some.injEq] at h
    subst h
    intro x hx; cases hx
  | code :: r, cells, h => by
    simp only [customColumn] at h
    cases hq : codeWeight cu c code with
    | none => simp [hq] at h
    | some q =>
      cases hr : customColumn cu c r with
      | none => simp [hq, hr] at h
      | some rest =>
        simp only [hq, hr, Option.some.injEq] at h
        subst h
        intro x hx
        rcases List.mem_cons.mp hx with rfl | hx
        · rfl
        · exact customColumn_numeric cu c r rest hr x hx

theorem customColumns_numeric (cu : Custom) (codes : List (Option Nat)) : ∀ (names : List String) (c : Nat)
    (cols : List (String × List Cell)), customColumns cu codes c names = some cols →
    ∀ fld ∈ cols, ∀ x ∈ fld.2, x.isNumber = true
  | [], _, cols, h => by
    simp only [customColumns, Option.some.injEq] at h
    subst h
    intro fld hf; cases hf
  | nm :: r, c, cols, h => by
    simp only [customColumns] at h
    cases h1 : customColumn cu c codes with
    | none => simp [h1] at h
    | some cells =>
      cases h2 : customColumns cu codes (c + 1) r with
      | none => simp [h1, h2] at h
      | some more =>
        simp only [h1, h2, Option.some.injEq] at h
        subst h
        intro fld hf
        rcases List.mem_cons.mp hf with rfl | hf
        · exact customColumn_numeric cu c codes cells h1
        · exact customColumns_numeric cu codes r (c + 1) more h2 fld hf

theorem applyCustom_good {out : Output} {cu : Custom} {reduced : Bool} {lvls : List PyVal} {codes : List (Option Nat)}
    {enc : Enc} (h : applyCustom out cu reduced lvls codes = .ok enc) : GoodEnc out enc := by
  unfold applyCustom at h
  cases hs : cu.shape with
  | none => simp [hs] at h
  | some p =>
    obtain ⟨nl, nc⟩ := p
    simp only [hs] at h
    split at h
    · simp only [Except.ok.injEq] at h
      subst h
      exact ⟨rfl, fun fld hf => by simp at hf⟩
    · split at h
      · cases h
      · cases hc : customColumns cu codes 0 (cu.names nc) with
        | none => simp [hc] at h
        | some cols =>
          simp only [hc, Except.ok.injEq] at h
          subst h
          exact ⟨rfl, customColumns_numeric cu codes _ 0 cols hc⟩

theorem encodeCategorical_good {out : Output} {f : FactorId} {declared : Option (List PyVal)}
    {rows : List (Option PyVal)} {reduced : Bool} {enc : Enc}
    (h : encodeCategorical out f declared rows reduced = .ok enc) : GoodEnc out enc := by
  unfold encodeCategorical at h
  split at h
  · cases h
  · cases hl : labelsOf (levelsOf rows declared) with
    | error e => simp [hl] at h
    | ok labels =>
      simp only [hl] at h
      split at h
      · cases hcu : f.custom with
        | some cu =>
          simp only [hcu] at h
          exact applyCustom_good h
        | none =>
          simp only [hcu] at h
          exact applyTreatment_good dummies_numeric h
      · simp only [Except.ok.injEq] at h
        subst h
        exact ⟨rfl, dummies_numeric⟩

theorem encodeFactor_good {out : Output} {f : FactorId} {ef : EvalF} (hef : GoodEF ef) {mask : List Bool}
    {reduced : Bool} {enc : Enc} (h : encodeFactor out f ef mask reduced = .ok enc) : GoodEnc out enc := by
  unfold encodeFactor at h
  split at h
  · exact encodeCategorical_good h
  · rename_i hcat
    have hcat' : ef.categorical = false := by simpa using hcat
    simp only [Except.ok.injEq] at h
    subst h
    refine ⟨rfl, ?_⟩
    intro fld hf x hx
    simp only [List.mem_singleton] at hf
    subst hf
    simp only [List.mem_map] at hx
    obtain ⟨v, hv, rfl⟩ := hx
    exact hef hcat' v (mem_applyMask hv)

theorem encodeCached_good {out : Output} {mask : List Bool} {f : FactorId} {reduced : Bool} {c c' : Caches}
    {r : Except Enc2.Err Enc} (hc : GoodCaches out c) (h : encodeCached out mask f reduced c = (c', r)) :
    GoodCaches out c' ∧ c'.factorCache = c.factorCache ∧ ∀ enc, r = .ok enc → GoodEnc out enc := by
  unfold encodeCached at h
  cases hf : lookupBy f c.factorCache with
  | none =>
    simp only [hf, Prod.mk.injEq] at h
    obtain ⟨rfl, rfl⟩ := h
    exact ⟨hc, rfl, fun enc he => by cases he⟩
  | some ef =>
    simp only [hf] at h
    cases he : lookupBy (f, reduced) c.encodedCache with
    | some enc =>
      simp only [he, Prod.mk.injEq] at h
      obtain ⟨rfl, rfl⟩ := h
      refine ⟨hc, rfl, ?_⟩
      intro enc' henc
      simp only [Except.ok.injEq] at henc
      subst henc
      exact hc.2 _ (lookupBy_mem he)
    | none =>
      simp only [he] at h
      cases hx : encodeFactor out f ef mask reduced with
      | error e =>
        simp only [hx, Prod.mk.injEq] at h
        obtain ⟨rfl, rfl⟩ := h
        exact ⟨hc, rfl, fun enc he => by cases he⟩
      | ok enc =>
        simp only [hx, Prod.mk.injEq] at h
        obtain ⟨rfl, rfl⟩ := h
        have hg : GoodEnc out enc := encodeFactor_good (hc.1 _ (lookupBy_mem hf)) hx
        refine ⟨⟨hc.1, ?_⟩, rfl, ?_⟩
        · intro p hp
          rcases List.mem_append.mp hp with hp | hp
          · exact hc.2 p hp
          · simp only [List.mem_singleton] at hp
            subst hp
            exact hg
        · intro enc' henc
          simp only [Except.ok.injEq] at henc
          subst henc
          exact hg

theorem scaleCell_numeric (k : Rat) {x : Cell} (h : x.isNumber = true) : (scaleCell k x).isNumber = true := by
  cases x <;> simp_all [scaleCell, Cell.isNumber]

theorem finishTerm_numeric {out : Output} {t : Term} {reduced : Bool} {enc : Enc} (hg : GoodEnc out enc) :
    ∀ oc ∈ finishTerm out t reduced enc, ∀ x ∈ oc.2, x.isNumber = true := by
  intro oc hoc x hx
  simp only [finishTerm, List.mem_map] at hoc
  obtain ⟨fld, hfld, rfl⟩ := hoc
  have hfld' : fld ∈ enc.fields := by
    split at hfld
    · exact List.mem_of_mem_drop hfld
    · exact hfld
  have hcells := hg.2 fld hfld'
  simp only [hg.1, if_true] at hx
  cases hs : t.scale with
  | none =>
    simp only [hs] at hx
    exact hcells x hx
  | some sc =>
    simp only [hs, List.mem_map] at hx
    obtain ⟨y, hy, rfl⟩ := hx
    exact scaleCell_numeric _ (hcells y hy)

theorem encodeTerms_numeric {out : Output} {mask : List Bool} {efr : Bool} :
    ∀ (terms : List Term) (spanned : Bool) (c c' : Caches) (r : Except Enc2.Err (List OutCol)),
      GoodCaches out c → encodeTerms out mask efr spanned terms c = (c', r) →
      ∀ M, r = .ok M → ∀ oc ∈ M, ∀ x ∈ oc.2, x.isNumber = true
  | [], _, c, c', r, _, h => by
    simp only [encodeTerms, Prod.mk.injEq] at h
    obtain ⟨_, rfl⟩ := h
    intro M hM
    simp only [Except.ok.injEq] at hM
    subst hM
    intro oc hoc; cases hoc
  | t :: rest, spanned, c, c', r, hc, h => by
    simp only [encodeTerms] at h
    cases h1 : encodeCached out mask t.fid (isCategorical c t.fid && efr && spanned) c with
    | mk c1 r1 =>
      obtain ⟨hc1, _, hr1⟩ := encodeCached_good hc h1
      simp only [h1] at h
      cases r1 with
      | error e =>
        simp only [Prod.mk.injEq] at h
        obtain ⟨_, rfl⟩ := h
        intro M hM; cases hM
      | ok enc =>
        simp only at h
        cases h2 : encodeTerms out mask efr (spanned || isCategorical c t.fid) rest c1 with
        | mk c2 r2 =>
          simp only [h2] at h
          cases r2 with
          | error e =>
            simp only [Prod.mk.injEq] at h
            obtain ⟨_, rfl⟩ := h
            intro M hM; cases hM
          | ok more =>
            simp only [Prod.mk.injEq] at h
            obtain ⟨_, rfl⟩ := h
            intro M hM
            simp only [Except.ok.injEq] at hM
            subst hM
            intro oc hoc
            rcases List.mem_append.mp hoc with hoc | hoc
            · exact finishTerm_numeric (hr1 enc rfl) oc hoc
            · exact encodeTerms_numeric rest _ c1 c2 (.ok more) hc1 h2 more rfl oc hoc

theorem evaluateOne_good {tbl : List KindRow} (htbl : TableOK tbl) {m : Mat} {frame : List Enc2.In} {na : NA}
    {f : FactorId} {fc fc' : List (FactorId × EvalF)} {nulls : List Bool} {r : Except Enc2.Err (List Bool)}
    (hfc : ∀ p ∈ fc, GoodEF p.2) (h : evaluateOne tbl m frame na f fc nulls = (fc', r)) :
    ∀ p ∈ fc', GoodEF p.2 := by
  unfold evaluateOne at h
  cases hl : lookupBy f fc with
  | some ef =>
    simp only [hl, Prod.mk.injEq] at h
    obtain ⟨rfl, _⟩ := h
    exact hfc
  | none =>
    simp only [hl] at h
    cases he : evalFactor tbl m frame f with
    | error e =>
      simp only [he, Prod.mk.injEq] at h
      obtain ⟨rfl, _⟩ := h
      exact hfc
    | ok ef =>
      simp only [he] at h
      cases hn : checkNulls na ef.vals nulls with
      | error e =>
        simp only [hn, Prod.mk.injEq] at h
        obtain ⟨rfl, _⟩ := h
        exact hfc
      | ok nulls' =>
        simp only [hn, Prod.mk.injEq] at h
        obtain ⟨rfl, _⟩ := h
        intro p hp
        rcases List.mem_append.mp hp with hp | hp
        · exact hfc p hp
        · simp only [List.mem_singleton] at hp
          subst hp
          exact evalFactor_good htbl he

theorem evaluateAll_good {tbl : List KindRow} (htbl : TableOK tbl) {m : Mat} {frame : List Enc2.In} {na : NA} :
    ∀ (fs : List FactorId) (fc fc' : List (FactorId × EvalF)) (nulls : List Bool) (r : Except Enc2.Err (List Bool)),
      (∀ p ∈ fc, GoodEF p.2) → evaluateAll tbl m frame na fs fc nulls = (fc', r) → ∀ p ∈ fc', GoodEF p.2
  | [], fc, fc', nulls, r, hfc, h => by
    simp only [evaluateAll, Prod.mk.injEq] at h
    obtain ⟨rfl, _⟩ := h
    exact hfc
  | f :: rest, fc, fc', nulls, r, hfc, h => by
    simp only [evaluateAll] at h
    cases h1 : evaluateOne tbl m frame na f fc nulls with
    | mk fc1 r1 =>
      have hg := evaluateOne_good htbl hfc h1
      simp only [h1] at h
      cases r1 with
      | error e =>
        simp only [Prod.mk.injEq] at h
        obtain ⟨rfl, _⟩ := h
        exact hg
      | ok nulls' =>
        simp only at h
        exact evaluateAll_good htbl rest fc1 fc' nulls' r hg h

theorem combine_ok {out : Output} {n : Nat} {cols M : List OutCol} (h : combine out n cols = .ok M) : M = cols := by
  unfold combine at h
  by_cases h2 : cols.all (fun c => c.2.length == n) = true
  · simp only [h2, if_true, Except.ok.injEq] at h
    exact h.symm
  · simp [h2] at h

/-- every cell of the matrix a call with the reset returns is a number -/
theorem getModelMatrixOn_numeric {tbl : List KindRow} (htbl : TableOK tbl) (m : Mat) (nrows : Nat)
    (frame : List Enc2.In) (k : Call) (c0 : Caches) (M : List OutCol)
    (h : (getModelMatrixOn true tbl m nrows frame k c0).2 = .ok M) : ∀ oc ∈ M, ∀ x ∈ oc.2, x.isNumber = true := by
  unfold getModelMatrixOn at h
  simp only [if_true] at h
  cases h1 : evaluateAll tbl m frame k.na (k.terms.map (·.fid)) Caches.empty.factorCache (List.replicate nrows false) with
  | mk fc r1 =>
    have hfc := evaluateAll_good htbl _ _ fc _ r1 (goodCaches_empty k.out).1 h1
    simp only [h1] at h
    cases r1 with
    | error e => simp at h
    | ok nulls =>
      simp only at h
      cases h2 : encodeTerms k.out (nulls.map (!·)) k.efr k.intercept k.terms { Caches.empty with factorCache := fc } with
      | mk c2 r2 =>
        simp only [h2] at h
        cases r2 with
        | error e => simp at h
        | ok body =>
          have hM := combine_ok (out := k.out) h
          subst hM
          have hbody := encodeTerms_numeric k.terms k.intercept _ c2 (.ok body)
            (⟨hfc, fun p hp => by simp [Caches.empty] at hp⟩ : GoodCaches k.out { Caches.empty with factorCache := fc })
            h2 body rfl
          intro oc hoc
          rcases List.mem_append.mp hoc with hoc | hoc
          · split at hoc
            · simp only [List.mem_singleton] at hoc
              subst hoc
              intro x hx
              rw [List.mem_replicate] at hx
              rw [hx.2]; rfl
            · cases hoc
          · exact hbody oc hoc

/-- with the reset, a call does not look at the caches it finds -/
theorem getModelMatrixOn_reset (tbl : List KindRow) (m : Mat) (nrows : Nat) (frame : List Enc2.In) (k : Call)
    (c0 : Caches) : getModelMatrixOn true tbl m nrows frame k c0 = getModelMatrixOn true tbl m nrows frame k Caches.empty := by
  simp [getModelMatrixOn]

theorem runHistory_fresh (tbl : List KindRow) (m : Mat) (nrows : Nat) (frame : List Enc2.In) :
    ∀ (calls : List Call) (c0 : Caches),
      runHistory true tbl m nrows frame calls c0 = calls.map (freshMatrix tbl m nrows frame)
  | [], _ => rfl
  | k :: rest, c0 => by
    simp only [runHistory, List.map_cons]
    rw [getModelMatrixOn_reset tbl m nrows frame k c0]
    cases h : getModelMatrixOn true tbl m nrows frame k Caches.empty with
    | mk c' r =>
      simp only [freshMatrix, h]
      rw [runHistory_fresh tbl m nrows frame rest c']

/-! ### the dummy columns are the indicators of the levels -/

theorem dummiesFrom_getElem? (codes : List (Option Nat)) : ∀ (labels : List String) (j i : Nat),
    (dummiesFrom j labels codes)[i]? = (labels[i]?).map (fun lab => (lab, indicatorAt (j + i) codes))
  | [], _, _ => by simp [dummiesFrom]
  | lab :: r, j, 0 => by simp [dummiesFrom]
  | lab :: r, j, i + 1 => by
    simp only [dummiesFrom, List.getElem?_cons_succ]
    rw [dummiesFrom_getElem? codes r (j + 1) i]
    congr 2
    funext lab'
    congr 2
    omega

theorem dummies_length (labels : List String) (codes : List (Option Nat)) :
    (dummies labels codes).length = labels.length := by
  have : ∀ (labels : List String) (j : Nat), (dummiesFrom j labels codes).length = labels.length := by
    intro labels
    induction labels with
    | nil => intro j; rfl
    | cons lab r ih => intro j; simp [dummiesFrom, ih]
  exact this labels 0

/-- cell `i` of the dummy column of level `j`: 1 exactly when row `i` holds a value equal (Python
`==`) to that level, 0 otherwise (also for a null row and for a value that is not a level) -/
theorem dummy_cell {lvls : List PyVal} (hd : lvls.Pairwise (fun a b => a.key ≠ b.key)) {j : Nat} {l : PyVal}
    (hl : lvls[j]? = some l) (rows : List (Option PyVal)) (i : Nat) (v : Option PyVal) (hv : rows[i]? = some v) :
    (indicatorAt j (recode lvls rows))[i]? =
      some (if rowHolds l v = true then Cell.num 1 else Cell.num 0) := by
  simp only [indicatorAt, recode, List.getElem?_map, hv, Option.map_some, Option.some.injEq]
  cases v with
  | none => simp [rowHolds]
  | some x =>
    simp only [Option.bind_some, rowHolds]
    by_cases hk : l.key = x.key
    · have hc := C08Levels.codeOf_eq hd hl hk
      simp [pyEq, hk, hc]
    · have hne : codeOf lvls x ≠ some j := by
        intro hc
        obtain ⟨l', hl', hk'⟩ := C08Levels.codeOf_some hc
        rw [hl] at hl'
        cases hl'
        exact hk hk'
      simp [pyEq, hk, hne]

end FormulaicVerif.Proofs.C08Hist
