import FormulaicVerif.Model.NestedMatrix
import FormulaicVerif.Spec.Matrix
/-! Reference notions for C02 over factor values of any shape (short and readable on purpose).
`kron`, `rowProd`, `colProd`, `literalScale`, `nonConstant` are those of `Spec/Matrix.lean`. -/
namespace FormulaicVerif.Spec.Nest
open FormulaicVerif.Model FormulaicVerif.Model.Nest FormulaicVerif.Spec

/-- `(k, v)` is an item of the dict -/
inductive EntsMem (k : Field) (v : Val) : Ents → Prop
  | head (r : Ents) : EntsMem k v (.cons k v r)
  | tail (k' : Field) (v' : Val) {r : Ents} : EntsMem k v r → EntsMem k v (.cons k' v' r)

/-- `Leaf v name path name' col`: following the keys `path` inside the value `v` ends at the column
`col`; and when `v` itself is printed as `name`, that column is printed as `name'` — every dict on
the way applies its own format template (`get_format()` of its metadata, the class default when it
has none) to the name so far and the key. This is the naming rule `name[key][key]…` of the property,
for arbitrary templates. -/
inductive Leaf : Val → String → List Field → String → Col → Prop
  | col (c : Col) (name : String) : Leaf (.col c) name [] name c
  | dict {es : Ents} {m : Option Meta} {k : Field} {v : Val} {name name' : String} {r : List Field}
      {c : Col} : EntsMem k v es → Leaf v ((fmtOfMeta m).format name k.text) r name' c →
      Leaf (.dict es m) name (k :: r) name' c

/-- `LeafAt v path col`: following the keys `path` inside `v` ends at the column `col` (names ignored) -/
inductive LeafAt : Val → List Field → Col → Prop
  | col (c : Col) : LeafAt (.col c) [] c
  | dict {es : Ents} {m : Option Meta} {k : Field} {v : Val} {r : List Field} {c : Col} :
      EntsMem k v es → LeafAt v r c → LeafAt (.dict es m) (k :: r) c

/-- `name[k1][k2]…`: what the default format template makes of a key path -/
def bracketName (name : String) (path : List Field) : String :=
  path.foldl (fun n k => n ++ "[" ++ k.text ++ "]") name

mutual
/-- every dict inside the value uses the default format template (it has no metadata, or metadata
whose `get_format()` is the default) -/
def valAllDefault : Val → Bool
  | .col _ => true
  | .dict es m => (fmtOfMeta m == Gen.defaultFormat) && entsAllDefault es
def entsAllDefault : Ents → Bool
  | .nil => true
  | .cons _ v r => valAllDefault v && entsAllDefault r
end

/-- the structural label part `p` names the column `col`, printed `name`: `col` is the leaf at
`p.path` of the encoded value (full or reduced, as `p.reduced` says) of the cached factor `p.expr`,
and `name` is what the formats on that path make of the factor's expression -/
def NamesLeaf (c : RCache) (p : NPart) (name : String) (col : Col) : Prop :=
  ∃ f, c.get p.expr = .ok f ∧ ∃ v, encodedTree f p.reduced = .ok v ∧ Leaf v p.expr p.path name col

/-- the full (not rank-reduced) encodings of a list of factors -/
def nfullEncodings : List RFactor → Except EErr (List (List NItem))
  | [] => .ok []
  | f :: r =>
    match encodeFactor f false with
    | .error e => .error e
    | .ok items =>
      match nfullEncodings r with
      | .error e => .error e
      | .ok rest => .ok (items :: rest)

/-- insertion-ordered dictionary built from a list of columns -/
def ndictOfList (es : List NEntry) : List NEntry := ndictUpdate [] es

/-- the matrix column for one choice of encoded columns: name, structural label, scaled product -/
def nentryOf (n : Nat) (scale : Rat) (p : List NItem) : NEntry :=
  ⟨joinColon (p.map (·.name)), p.map (·.part), Col.smul scale (colProd n (p.map (·.col)))⟩

/-- the non-constant factors of a term that have values, in term order -/
def presentFactors (c : RCache) : MTerm → Except EErr (List RFactor)
  | [] => .ok []
  | e :: r =>
    match c.get e with
    | .error x => .error x
    | .ok f =>
      match presentFactors c r with
      | .error x => .error x
      | .ok fs => .ok (if f.present then f :: fs else fs)

/-- the non-constant ones among them -/
def nonConstantR (fs : List RFactor) : List RFactor :=
  fs.filter (fun f => match f.kind with | .constant _ => false | _ => true)

/-- the literal scale of a term: the product of its constant factors (left to right) -/
def rliteralScale (fs : List RFactor) : Rat := literalScale (fs.map toEvaled)

/-- the full encoding of a factor read off the DATA: one indicator per level, in level order, named
`factor[level]`, for a categorical column; the column itself, named `factor`, for a numerical single
column (`none`: a factor of another shape) -/
def dataEncoding (f : RFactor) : Option (List NItem) :=
  match f.kind, f.raw with
  | .categorical, .cat levels codes =>
    some (levels.zipIdx.map (fun lj =>
      ⟨f.expr ++ "[" ++ lj.1.text ++ "]", ⟨f.expr, [lj.1], false⟩, indicator codes lj.2⟩))
  | .numerical, .val (.col c) => some [⟨f.expr, ⟨f.expr, [], false⟩, c⟩]
  | _, _ => none

/-- a factor the materializer encodes by itself (not pre-encoded, no encoder closure, nothing
forwarded) and, when categorical, whose levels print differently -/
def PlainFactor (f : RFactor) : Prop :=
  f.md.encoded = false ∧ f.ext = none ∧ f.md.hasEncoder = false ∧
    match f.raw with
    | .cat levels _ => (levels.map (·.text)).Nodup
    | _ => True

end FormulaicVerif.Spec.Nest
