import FormulaicVerif.Proofs.C01TopLevel
/-! # The documented DENOTATION of a formula (reference semantics for C01)

The grammar is the documented one (docsite `guides/grammar.md`), by precedence levels
(`Proofs/C01Grammar.lean`, `Proofs/C01TopLevel.lean`):

    Formula := Side | Side ~ Side | ~ Side        Side := Sum | Sum '|' Side
    Sum   := [sign] Prod | Sum (+|-) Prod         Prod := Inter | Prod (*|/|%in%) Inter
    Inter := Pow | Inter : Pow                    Pow  := Atom | Atom (**|^) Pow
    Atom  := token | ( Sum )                      token: a name, a quoted name, a Python fragment, a number

and this file says what each construct MEANS, as ordered term sets (first-appearance order, identity of
a term = its set of factors):

* a token denotes the one-term set of its factor; parentheses mean nothing;
* `a ** n` / `a ^ n`: `n` must be a positive integer literal; the products of `n`-tuples of terms of `a`;
* `a : b` the pairwise products; `a * b = a ∪ b ∪ a:b`; `a / b = a ∪ (∏a):b`; `b %in% a = a / b`;
* `a + b` the union, `a - b` the difference; a leading `+` means nothing, a leading `-` the empty set;
* a part of the RIGHT-hand side (and of a one-sided formula) is read from left to right STARTING FROM
  the intercept `{1}` when the parser is configured with `include_intercept` (`foldSum`): `x + z - 1`
  denotes `(({1} ∪ x) ∪ z) \ {1}`, `- x` denotes `{1} \ x`; a left-hand part, and every part when the
  intercept is off, is read starting from nothing (`denSum`);
* `p₀ | p₁ | …` denotes the tuple of the parts (a single part: the part itself), `l ~ r` the structure
  `{lhs: l, rhs: r}`, a one-sided formula `{root: r}`; `|` needs MULTIPART, the two-sided `~` TWOSIDED;
* finally every part is validated (`checkVal`: no bare literal other than 1, no string literal, no term
  repeated with a different numeric scaling).

Errors are values (`Except`): a construct whose operand is rejected is rejected, left operand first.
The set operations (`osetUnion`, `osetDiff`, `osetProd`, `powTerms`, `nestedProduct`, `power`) are the
ones defined next to the evaluator in `Model/Eval.lean` (each a few lines); their algebra is the subject
of C01.8 and C01.10 in `Props/C01.lean`. NOT in this grammar: the `.` wildcard, the literal `0`
(`replace_tokens` turns it into `- 1` before anything else: C01.6i), `[ … ~ … ]` stages, and a sign
anywhere but in front of the first summand of a `Sum` (sign RUNS are collapsed first: C01.2). -/
namespace FormulaicVerif.Spec.Denote
open FormulaicVerif FormulaicVerif.Model FormulaicVerif.Proofs.ShuntC FormulaicVerif.Proofs.C01Grammar
open FormulaicVerif.Proofs.C01TopLevel (partsToks partsVal tildeSym)

/-! ### arithmetic levels -/

def denMul (op : MulOp) (x y : List Term) : Except ParseErr (List Term) :=
  match op with
  | .times => .ok (osetUnion (osetUnion x y) (osetProd x y))
  | .div => nestedProduct x y
  | .isin => nestedProduct y x

def denAdd (op : AddOp) (x y : List Term) : List Term :=
  match op with
  | .plus => osetUnion x y
  | .minus => osetDiff x y

mutual
def denAtom : Atom → Except ParseErr (List Term)
  | .tok t _ => .ok [termOfTok t]
  | .paren s => denSum s
def denPow : Pow → Except ParseErr (List Term)
  | .atom a => denAtom a
  | .pow _ a p =>
    match denAtom a with
    | .error e => .error e
    | .ok x => match denPow p with
      | .error e => .error e
      | .ok n => power x n
def denInter : Inter → Except ParseErr (List Term)
  | .pow p => denPow p
  | .inter i p =>
    match denInter i with
    | .error e => .error e
    | .ok x => match denPow p with
      | .error e => .error e
      | .ok y => .ok (osetProd x y)
def denProd : Prod → Except ParseErr (List Term)
  | .inter i => denInter i
  | .mul op p i =>
    match denProd p with
    | .error e => .error e
    | .ok x => match denInter i with
      | .error e => .error e
      | .ok y => denMul op x y
/-- a `Sum` read starting from nothing (left-hand parts; every part when the intercept is off) -/
def denSum : Sum → Except ParseErr (List Term)
  | .first none p => denProd p
  | .first (some .plus) p => denProd p
  | .first (some .minus) p => (denProd p).map (fun _ => [])
  | .add op s p =>
    match denSum s with
    | .error e => .error e
    | .ok x => match denProd p with
      | .error e => .error e
      | .ok y => .ok (denAdd op x y)
end

/-- a `Sum` read from left to right starting from `start`: the first summand is added to (`+`, no
sign) or removed from (`-`) `start`, then every further summand in turn -/
def foldSum (start : List Term) : Sum → Except ParseErr (List Term)
  | .first none p => (denProd p).map (osetUnion start)
  | .first (some sg) p => (denProd p).map (denAdd sg start)
  | .add op s p =>
    match foldSum start s with
    | .error e => .error e
    | .ok x => match denProd p with
      | .error e => .error e
      | .ok y => .ok (denAdd op x y)

def intercept : Term := [Factor.mk "1" .literal]

/-- a right-hand part: from `{1}` with the implicit intercept, from nothing without -/
def denRhs (includeIntercept : Bool) (s : Sum) : Except ParseErr (List Term) :=
  if includeIntercept then foldSum [intercept] s else denSum s

/-! ### sides and formulas -/

/-- the denotations of the parts of a side, in order; the first rejected part rejects the side -/
def denParts (den : Sum → Except ParseErr (List Term)) : List Sum → Except ParseErr (List (List Term))
  | [] => .ok []
  | q :: qs =>
    match den q with
    | .error e => .error e
    | .ok x => match denParts den qs with
      | .error e => .error e
      | .ok xs => .ok (x :: xs)

/-- `p | q₁ | … | qₙ`: the term set of `p` for `n = 0`, else the tuple of the `n + 1` term sets -/
def denSide (den : Sum → Except ParseErr (List Term)) (p : Sum) (tail : List Sum) : Except ParseErr Val :=
  match den p with
  | .error e => .error e
  | .ok x => match denParts den tail with
    | .error e => .error e
    | .ok xs => .ok (partsVal x xs)

/-- a formula of the documented grammar -/
inductive Formula
  | one (p : Sum) (tail : List Sum)                                -- `p | q₁ | …`
  | tilde (p : Sum) (tail : List Sum)                              -- `~ p | q₁ | …`
  | two (l : Sum) (ltail : List Sum) (p : Sum) (tail : List Sum)   -- `l | l₁ | … ~ p | q₁ | …`

/-- its token sequence -/
def Formula.toks : Formula → List Tok
  | .one p tail => partsToks p tail
  | .tilde p tail => opTok tildeSym :: partsToks p tail
  | .two l ltail p tail => partsToks l ltail ++ opTok tildeSym :: partsToks p tail

/-- what the feature flags allow: `|` needs MULTIPART, the two-sided `~` needs TWOSIDED -/
def Formula.Enabled (cfg : ParseCfg) : Formula → Prop
  | .one _ tail => tail = [] ∨ cfg.multipart = true
  | .tilde _ tail => tail = [] ∨ cfg.multipart = true
  | .two _ ltail _ tail => cfg.twosided = true ∧ ((ltail = [] ∧ tail = []) ∨ cfg.multipart = true)

/-- the structure a formula denotes, before validation -/
def denStruct (cfg : ParseCfg) : Formula → Except ParseErr Val
  | .one p tail => (denSide (denRhs cfg.includeIntercept) p tail).map (fun v => .struct [("root", v)])
  | .tilde p tail => (denSide (denRhs cfg.includeIntercept) p tail).map (fun v => .struct [("root", v)])
  | .two l ltail p tail =>
    match denSide denSum l ltail with
    | .error e => .error e
    | .ok vl => match denSide (denRhs cfg.includeIntercept) p tail with
      | .error e => .error e
      | .ok vr => .ok (.struct [("lhs", vl), ("rhs", vr)])

/-- validation of every part (`check_terms`): a rejected structure stays rejected -/
def validate : Except ParseErr Val → Except ParseErr Val
  | .error e => .error e
  | .ok v => match checkVal v with
    | .error e => .error e
    | .ok _ => .ok v

/-- **the documented denotation of a formula**: its structure of ordered term sets, validated -/
def denoteFormula (cfg : ParseCfg) (f : Formula) : Except ParseErr Val := validate (denStruct cfg f)

end FormulaicVerif.Spec.Denote
