import FormulaicVerif.Model.HeapX
import FormulaicVerif.Spec.Purity
/-! # Reference semantics for extended histories (C18): spec VALUES + formula objects

The value semantics of `Spec/Purity.lean` extended by the only mutable objects a CALLER can edit:
the formula objects.  An environment holds the contents of the formula objects, the values of the
specs handed out and, for each of them, which formula object it holds.  Building, reusing, updating
and subsetting never write to anything that exists (they append); only `edit` / `editOf` — the
caller's own edits — change a formula object, and with it the `formula` field of exactly the spec
values that hold it.  `Props/C18.lean` proves that the store model `Model.HeapX.xstep` computes this. -/

namespace FormulaicVerif.Spec.PurityX
open FormulaicVerif.Model.Heap FormulaicVerif.Model.HeapX FormulaicVerif.Spec.Purity

structure XEnv (F E : Type) where
  forms : List Formula
  specs : List (PSpec F E)
  fref : List Nat

def XEnv.init {F E : Type} : XEnv F E := ⟨[], [], []⟩

section
variable {F E : Type}

def pgrow (env : XEnv F E) (r : List (PSpec F E) × Outcome F E) (refs : List Nat) (forms : List Formula) :
    XEnv F E × XOutcome F E :=
  (⟨forms, r.1, env.fref ++ refs.take (r.1.length - env.specs.length)⟩, liftOut r.2)

def prewrite (specs : List (PSpec F E)) (fref : List Nat) (fid : Nat) (f : Formula) : List (PSpec F E) :=
  (specs.zip fref).map fun p => if p.2 = fid then { p.1 with formula := f } else p.1

def prewriteAll (specs : List (PSpec F E)) (fref : List Nat) (fid : Nat) (f : Formula) : List (PSpec F E) :=
  prewrite specs fref fid f ++ specs.drop fref.length

def peditForm (env : XEnv F E) (fid : Nat) (e : Edit) : XEnv F E × XOutcome F E :=
  match env.forms[fid]? with
  | none => (env, .error .badFormula)
  | some f =>
    match applyEdit f e with
    | .error x => (env, .error x)
    | .ok f' => (⟨env.forms.set fid f', prewriteAll env.specs env.fref fid f', env.fref⟩, .ok [])

variable (P : Params F E)

def xpstep (env : XEnv F E) : XOp → XEnv F E × XOutcome F E
  | .formula f => (⟨env.forms ++ [f], env.specs, env.fref⟩, .ok [])
  | .newSpec fid cfg =>
    match env.forms[fid]? with
    | none => (env, .error .badFormula)
    | some f => pgrow env (pstep P env.specs (.newSpec f cfg)) [fid] env.forms
  | .update h u =>
    match derefAll env.forms u.formula.toList, env.fref[h]? with
    | none, _ => (env, .error .badFormula)
    | some _, none => (env, .error (.base .badHandle))
    | some fs, some r =>
      if u.resetState then
        match env.specs[h]? with
        | none => (env, .error (.base .badHandle))
        | some s =>
          (⟨env.forms, env.specs ++ [{ pApplyUpd (baseUpd u fs.head?) s with t := Dict.empty, e := Dict.empty }],
            env.fref ++ [refAfter (some u) r]⟩, .ok [])
      else
        pgrow env (pstep P env.specs (.update h (baseUpd u fs.head?))) [refAfter (some u) r] env.forms
  | .subset h picks =>
    let r := pstep P env.specs (.subset h (reorder picks))
    pgrow env r [env.forms.length]
      (if env.specs.length < r.1.length then env.forms ++ [reorder picks] else env.forms)
  | .build fids cfg d =>
    match derefAll env.forms fids with
    | none => (env, .error .badFormula)
    | some fs => pgrow env (pstep P env.specs (.build fs cfg d)) fids env.forms
  | .call hs u d =>
    match derefAll env.forms (updForms u), lookupAll env.fref hs with
    | none, _ => (env, .error .badFormula)
    | some _, none => (env, .error (.base .badHandle))
    | some fs, some rs =>
      pgrow env (pstep P env.specs (.call hs (u.map fun u => baseUpd u fs.head?) d))
        (rs.map (refAfter u)) env.forms
  | .edit fid e => peditForm env fid e
  | .editOf h e =>
    match env.fref[h]? with
    | none => (env, .error (.base .badHandle))
    | some fid => peditForm env fid e

def xprun : XEnv F E → List XOp → List (XOutcome F E)
  | _, [] => []
  | env, op :: ops => (xpstep P env op).2 :: xprun (xpstep P env op).1 ops

def xpfinal : XEnv F E → List XOp → XEnv F E
  | env, [] => env
  | env, op :: ops => xpfinal (xpstep P env op).1 ops

/-- the spec handles and formula objects an operation names -/
def xhandlesOf : XOp → List Nat
  | .formula _ => []
  | .newSpec _ _ => []
  | .update h _ => [h]
  | .subset h _ => [h]
  | .build _ _ _ => []
  | .call hs _ _ => hs
  | .edit _ _ => []
  | .editOf h _ => [h]

/-- the formula objects an operation reads (`fref`: which object each spec holds) -/
def xformsOf (fref : List Nat) : XOp → List Nat
  | .formula _ => []
  | .newSpec fid _ => [fid]
  | .update _ u => u.formula.toList
  | .subset _ _ => []
  | .build fids _ _ => fids
  | .call _ u _ => updForms u
  | .edit fid _ => [fid]
  | .editOf h _ => (fref[h]?).toList

end
end FormulaicVerif.Spec.PurityX
