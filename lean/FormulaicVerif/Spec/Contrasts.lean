import FormulaicVerif.Model.Contrasts
/-! # Reference semantics for C11: the textbook / R contrast matrices and their inverses

`n` levels, rows `i < n` (levels), columns `j < n - 1` (contrasts), all 0-based.

* `contr.treatment(n, base = b+1)`: the identity with column `b` removed; `contr.SAS(n)`: `b = n-1`.
* `contr.sum(n)`: identity on the first `n-1` rows, last row `-1`.
* `contr.helmert(n)` (R; "reverse Helmert" at UCLA): column `j` is `-1` on rows `0..j`, `j+1` on row
  `j+1`, `0` below. Scaled: divided by `j+2` (coefficients = level mean − mean of previous levels).
* forward Helmert: column `j` is `0` above row `j`, `n-1-j` on row `j`, `-1` below; scaled: `/(n-j)`.
* backward difference (`MASS::contr.sdif(n)`): column `j` is `-(n-1-j)/n` on rows `0..j` and
  `(j+1)/n` below; forward difference: its negative.
* `contr.poly(n, scores)`: orthogonal polynomial contrasts — column `k` is the monic polynomial of
  degree `k+1` in the scores that is orthogonal (over the scores) to every polynomial of lower
  degree, scaled to unit length. The unnormalised columns are characterised by
  `Spec.IsMonicOrthogonalFamily`.

`coef` is the closed-form inverse of `[1 | coding]`: row `0` is the intercept's weights, row `r+1`
the weights of contrast `r` (this is what `get_coefficient_matrix` reports).
-/

namespace FormulaicVerif.Spec.Contrasts
open FormulaicVerif.Model.Contrasts

/-- R's `contr.helmert(n)[i, j]` -/
def helmertR (i j : Nat) : Rat := if i ≤ j then -1 else if i = j + 1 then (j : Rat) + 1 else 0
/-- forward Helmert (level `j` against the mean of the later levels), integer form -/
def helmertF (n i j : Nat) : Rat := if i < j then 0 else if i = j then (n : Rat) - 1 - j else -1
/-- `MASS::contr.sdif(n)[i, j]` -/
def sdif (n i j : Nat) : Rat := if i ≤ j then -((n : Rat) - 1 - j) / n else ((j : Rat) + 1) / n

/-- the textbook coding matrices -/
def coding (k : Kind) (n i j : Nat) : Rat :=
  match k with
  | .treatment b => if i = skip b j then 1 else 0
  | .sum => if i = n - 1 then -1 else if i = j then 1 else 0
  | .helmert true false => helmertR i j
  | .helmert true true => helmertR i j / ((j : Rat) + 2)
  | .helmert false false => helmertF n i j
  | .helmert false true => helmertF n i j / ((n : Rat) - j)
  | .diff true => sdif n i j
  | .diff false => - sdif n i j
  | .poly x => polyP n x (j + 1) i

/-- squared length of column `c` of `[1 | coding]` for the codings with mutually orthogonal columns -/
def colNorm2 (k : Kind) (n c : Nat) : Rat :=
  if c = 0 then n else
  let j : Rat := ((c - 1 : Nat) : Rat)
  match k with
  | .helmert true false => (j + 1) * (j + 2)
  | .helmert true true => (j + 1) / (j + 2)
  | .helmert false false => ((n : Rat) - 1 - j) * ((n : Rat) - j)
  | .helmert false true => ((n : Rat) - 1 - j) / ((n : Rat) - j)
  | .poly x => polyNorm2 n x c
  | _ => 1

/-- closed-form coefficient matrix: the inverse of `[1 | coding]` -/
def coef (k : Kind) (n r i : Nat) : Rat :=
  match k with
  | .treatment b =>
      if r = 0 then (if i = b then 1 else 0)
      else (if i = skip b (r - 1) then 1 else 0) - (if i = b then 1 else 0)
  | .sum =>
      if r = 0 then 1 / (n : Rat) else (if i = r - 1 then 1 else 0) - 1 / (n : Rat)
  | .diff bw =>
      if r = 0 then 1 / (n : Rat)
      else (if bw then 1 else -1) * ((if i = r then 1 else 0) - (if i = r - 1 then 1 else 0))
  | .helmert _ _ | .poly _ =>
      -- orthogonal columns: the inverse is the transpose with each row divided by its squared length
      aug k n i r / colNorm2 k n r

/-- Characterisation of the unnormalised `contr.poly` columns `p 0, p 1, …, p (n-1)` for scores `x`:
`p k` is the evaluation of a monic polynomial of degree `k`, stated without a polynomial type as
"`p k − x·p (k-1)` is a combination of `p 0 … p (k-1)`", and distinct columns are orthogonal. -/
structure IsMonicOrthogonalFamily (n : Nat) (x : Nat → Rat) (p : Nat → Nat → Rat) : Prop where
  zero : ∀ i, p 0 i = 1
  monic : ∀ k, k + 1 < n → ∃ c : Nat → Rat, ∀ i, i < n →
    p (k + 1) i = x i * p k i - sumTo (k + 1) (fun l => c l * p l i)
  orth : ∀ k l, k < n → l < n → k ≠ l → sumTo n (fun i => p k i * p l i) = 0

/-- the row that a datum selects from an `n × w` matrix `m` (rows in the order of the levels): the row of its level,
or zeros for a null / a value outside the levels -/
def selectedRow (cats : List Label) (m : List (List Rat)) (w : Nat) (d : Option Label) : List Rat :=
  match d with
  | none => List.replicate w 0
  | some l =>
      match indexOf? l cats with
      | none => List.replicate w 0
      | some i =>
          match m[i]? with
          | some row => row
          | none => List.replicate w 0


end FormulaicVerif.Spec.Contrasts
