import FormulaicVerif.Model.Structured
import FormulaicVerif.Model.Term
import FormulaicVerif.Model.SimpleFormula
/-! Reference notions the C19 container laws are stated against. -/
namespace FormulaicVerif.Spec.Containers
open FormulaicVerif.Model.St

/-- keep the first occurrence of every element, in order -/
def firstOcc : List String → List String
  | [] => []
  | x :: xs => x :: (firstOcc xs).filter (fun y => !(y == x))

variable {α : Type}

mutual
/-- every `Structured` of the value has its `root` key (if any) last — true of everything that
came out of the constructor -/
def RootLast : Val α → Prop
  | .leaf _ => True
  | .tup vs => RootLastT vs
  | .node kvs => rootLast kvs = kvs ∧ RootLastI kvs
def RootLastT : List (Val α) → Prop
  | [] => True
  | v :: vs => RootLast v ∧ RootLastT vs
def RootLastI : Items α → Prop
  | [] => True
  | (_, v) :: r => RootLast v ∧ RootLastI r
end

/-- the keys of the objects handed to `_merge`, first occurrence first -/
def unionKeys (objs : List (Val α)) : List String :=
  firstOcc (objs.flatMap (fun o => (itemsOf o).map (·.1)))

/-- the values the objects hold under `k`, in object order -/
def valuesAt (k : String) (objs : List (Val α)) : List (Val α) :=
  objs.filterMap (fun o => (itemsOf o).lookup k)

/-- the ordering invariant of a `DEGREE`-ordered formula: degrees never decrease -/
def SortedDeg (l : List FormulaicVerif.Model.Term) : Prop :=
  l.Pairwise (fun a b => FormulaicVerif.Model.Term.degree a ≤ FormulaicVerif.Model.Term.degree b)

/-- the ordering invariant of a `SORT`-ordered formula: no term is `Term.__lt__` an earlier one -/
def SortedLt (l : List FormulaicVerif.Model.Term) : Prop :=
  l.Pairwise (fun a b => FormulaicVerif.Model.SFm.termLt b a = false)

/-- the factors of a term are in expression order -/
def FactorsSorted (t : FormulaicVerif.Model.Term) : Prop := t.Pairwise (fun x y => x.expr ≤ y.expr)

/-- the ordering invariant that goes with each ordering method -/
def OrderingInv : FormulaicVerif.Model.SFm.Ordering → List FormulaicVerif.Model.Term → Prop
  | .none, _ => True
  | .degree, l => SortedDeg l
  | .sort, l => SortedLt l ∧ ∀ t ∈ l, FactorsSorted t

end FormulaicVerif.Spec.Containers
