import FormulaicVerif.Model.LayeredOps
/-! Reference notion for `LayeredMapping.named_layers` (C19, section 7): which layer a name stands for. -/
namespace FormulaicVerif.Spec.LayeredNames
open FormulaicVerif.Model.LMap

variable {ν : Type}

/-- the first DIRECT child `LayeredMapping` (top first) whose name is `n` -/
def findDirect (n : String) : List (Layer ν) → Option (Layer ν)
  | [] => none
  | .dict _ :: r => findDirect n r
  | .lm name muts layers :: r =>
    if named name = some n then some (.lm name muts layers) else findDirect n r

mutual
/-- the layer the name `n` stands for in a mapping: the mapping itself if that is its name, else its
first direct child of that name, else whatever the name stands for inside the first child (top
first) in which it stands for anything -/
def findNamed (n : String) : Layer ν → Option (Layer ν)
  | .dict _ => none
  | .lm name muts layers =>
    if named name = some n then some (.lm name muts layers)
    else match findDirect n layers with
      | some l => some l
      | none => findNested n layers
def findNested (n : String) : List (Layer ν) → Option (Layer ν)
  | [] => none
  | l :: r =>
    match findNamed n l with
    | some x => some x
    | none => findNested n r
end

end FormulaicVerif.Spec.LayeredNames
