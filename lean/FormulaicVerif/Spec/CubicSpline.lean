import Mathlib.Algebra.Field.Basic
/-! # Reference semantics for C12, cubic regression splines: one polynomial piece

On the knot interval `[kl, kr]` (width `h = kr − kl`) a cubic spline in the "values and second
derivatives" parametrisation (Wood, *Generalized Additive Models*, 2006, §4.1.2) is

  `s(x) = a⁻(x)·yl + a⁺(x)·yr + c⁻(x)·ml + c⁺(x)·mr`
  `a⁻ = (kr − x)/h`, `a⁺ = (x − kl)/h`,
  `c⁻ = (kr − x)³/(6h) − h(kr − x)/6`, `c⁺ = (x − kl)³/(6h) − h(x − kl)/6`

where `yl, yr` are the values and `ml, mr` the second derivatives at the two ends.  `d1` and `d2`
are the first and second derivative of `val` written out as polynomials in `x`
(`a⁻' = −1/h`, `a⁺' = 1/h`, `c⁻' = −(3a⁻² − 1)h/6`, `c⁺' = (3a⁺² − 1)h/6`; the second derivative
is the linear interpolant of `ml`, `mr`).  That they ARE the derivatives is proved, not assumed:
`Proofs/C12Piece.lean` exhibits `val` as a `Polynomial` of degree ≤ 3 whose
`Polynomial.derivative` evaluates to `d1` and whose second derivative evaluates to `d2`, and
(over `ℝ`) gives `HasDerivAt`. -/

namespace FormulaicVerif.Spec.CubicSpline

structure Piece (α : Type) where
  /-- left / right knot -/
  kl : α
  kr : α
  /-- value at the left / right knot -/
  yl : α
  yr : α
  /-- second derivative at the left / right knot -/
  ml : α
  mr : α

variable {α : Type} [Field α]

namespace Piece

def h (p : Piece α) : α := p.kr - p.kl

def val (p : Piece α) (x : α) : α :=
  (p.kr - x) / p.h * p.yl + (x - p.kl) / p.h * p.yr
    + ((p.kr - x) * (p.kr - x) * (p.kr - x) / (6 * p.h) - p.h * (p.kr - x) / 6) * p.ml
    + ((x - p.kl) * (x - p.kl) * (x - p.kl) / (6 * p.h) - p.h * (x - p.kl) / 6) * p.mr

/-- first derivative of `val` -/
def d1 (p : Piece α) (x : α) : α :=
  -(1 / p.h) * p.yl + 1 / p.h * p.yr
    + (-(3 * ((p.kr - x) * (p.kr - x)) / (6 * p.h)) + p.h / 6) * p.ml
    + (3 * ((x - p.kl) * (x - p.kl)) / (6 * p.h) - p.h / 6) * p.mr

/-- second derivative of `val`: the linear interpolant of `ml`, `mr` -/
def d2 (p : Piece α) (x : α) : α := (p.kr - x) / p.h * p.ml + (x - p.kl) / p.h * p.mr

end Piece

/-- the tridiagonal equation at a knot with left spacing `hl`, right spacing `hr`, values
`y₀ y₁ y₂` and second derivatives `m₀ m₁ m₂` at the previous / this / the next knot:
row of `B·m = D·y` in `_get_natural_f` / `_get_cyclic_f` -/
def TriEq (hl hr y0 y1 y2 m0 m1 m2 : α) : Prop :=
  hl / 6 * m0 + (hl + hr) / 3 * m1 + hr / 6 * m2 = (y2 - y1) / hr - (y1 - y0) / hl

end FormulaicVerif.Spec.CubicSpline
