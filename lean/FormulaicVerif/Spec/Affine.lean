import FormulaicVerif.Model.Constraints
/-! Reference semantics for C16: arithmetic expressions over the column names with exact rational
evaluation, and what a specification *says* (its list of written constraints).

`eval` is partial: a division whose divisor evaluates to zero has no value. -/
namespace FormulaicVerif.Spec.Affine
open FormulaicVerif.Model.Constraints

inductive Expr
  | var (name : String)
  | lit (q : Rat)
  | pos (e : Expr)
  | neg (e : Expr)
  | add (l r : Expr)
  | sub (l r : Expr)
  | mul (l r : Expr)
  | div (l r : Expr)
  | eqn (l r : Expr)      -- `l = r`, read as the residual `l - r`
deriving Repr

/-- `⟦e⟧ env` -/
def eval (env : String → Rat) : Expr → Option Rat
  | .var v => some (env v)
  | .lit q => some q
  | .pos e => eval env e
  | .neg e => match eval env e with
    | some a => some (-a)
    | none => none
  | .add l r => match eval env l, eval env r with
    | some a, some b => some (a + b)
    | _, _ => none
  | .sub l r => match eval env l, eval env r with
    | some a, some b => some (a - b)
    | _, _ => none
  | .mul l r => match eval env l, eval env r with
    | some a, some b => some (a * b)
    | _, _ => none
  | .div l r => match eval env l, eval env r with
    | some a, some b => if b = 0 then none else some (a / b)
    | _, _ => none
  | .eqn l r => match eval env l, eval env r with
    | some a, some b => some (a - b)
    | _, _ => none

/-- left- and right-hand side of a written constraint (`e` alone means `e = 0`) -/
def Expr.lhs : Expr → Expr
  | .eqn l _ => l
  | e => e

def Expr.rhs : Expr → Expr
  | .eqn _ r => r
  | _ => .lit 0

/-- `A_i · x` for a row and a vector `x` (indexed from 0) -/
def dot : List Rat → (Nat → Rat) → Rat
  | [], _ => 0
  | a :: r, x => a * x 0 + dot r (fun j => x (j + 1))

/-- value of the column called `v` in the vector `x` (columns are named by `names`; for a
duplicated name the code's `dict(zip(names, …))` keeps the last one, see `colIndex`) -/
def colValue (names : List String) (x : Nat → Rat) (v : String) : Rat :=
  match colIndex names v with
  | some j => x j
  | none => 0

/-! ## What a parsed specification says -/

/-- the scalar expression a tree denotes (`none`: it contains a `,` or a non-numeric literal) -/
def exprOf : Node → Option Expr
  | .leaf k t => match k with
    | .value => match literalEval t with
      | .ok q => some (.lit q)
      | .error _ => none
    | _ => some (.var t)
  | .un op a => match exprOf a with
    | none => none
    | some e => match op with
      | .pos => some (.pos e)
      | .neg => some (.neg e)
  | .bin op l r => match exprOf l, exprOf r with
    | some a, some b => match op with
      | .comma => none
      | .eq => some (.eqn a b)
      | .add => some (.add a b)
      | .sub => some (.sub a b)
      | .mul => some (.mul a b)
      | .div => some (.div a b)
    | _, _ => none

/-- the constraints of one string in the order written: `,` separates them (parentheses around
groups of constraints do not matter) -/
def constraintsOf : Node → Option (List Expr)
  | .bin .comma l r => match constraintsOf l, constraintsOf r with
    | some a, some b => some (a ++ b)
    | _, _ => none
  | .leaf k t => (exprOf (.leaf k t)).map (fun e => [e])
  | .un op a => (exprOf (.un op a)).map (fun e => [e])
  | .bin op l r => (exprOf (.bin op l r)).map (fun e => [e])

def writtenIn : Parsed → Option (List Expr)
  | .empty => some []
  | .ast n => constraintsOf n
  | .error _ => none

def writtenDict (parse : String → Parsed) : List (String × Rat) → Option (List (Expr × Rat))
  | [] => some []
  | (k, c) :: rest => match writtenIn (parse k), writtenDict parse rest with
    | some es, some more => some (es.map (fun e => (e, c)) ++ more)
    | _, _ => none

/-- the written constraints of a specification, each with the value it is set equal to
(0 for the string forms; the mapped value for the mapping form). A list of strings is, by the
library's definition, the string obtained by joining with commas. -/
def written (parse : String → Parsed) : Spec → Option (List (Expr × Rat))
  | .str s => (writtenIn (parse s)).map (fun es => es.map (fun e => (e, 0)))
  | .list ss => (writtenIn (parse (",".intercalate ss))).map (fun es => es.map (fun e => (e, 0)))
  | .dict items => writtenDict parse items

/-- the row `(r, c)` expresses the constraint `e = off`:  `r·x − c = ⟦lhs e⟧x − ⟦rhs e⟧x − off` for every `x`,
both sides of `e` having a value (no division by zero) -/
def RowExpresses (names : List String) (row : List Rat × Rat) (eo : Expr × Rat) : Prop :=
  row.1.length = names.length ∧
  ∀ x : Nat → Rat, ∃ vl vr,
    eval (colValue names x) eo.1.lhs = some vl ∧ eval (colValue names x) eo.1.rhs = some vr ∧
    dot row.1 x - row.2 = vl - vr - eo.2

/-! ## Syntactic non-linearity -/

/-- the subtree mentions a column (a NAME or PYTHON leaf) -/
def mentionsVar : Node → Bool
  | .leaf k _ => k != .value
  | .un _ a => mentionsVar a
  | .bin _ l r => mentionsVar l || mentionsVar r

/-- somewhere in the tree: a product of two column-mentioning subexpressions, or a division by one -/
def nonlinear : Node → Bool
  | .leaf _ _ => false
  | .un _ a => nonlinear a
  | .bin op l r =>
    (op == .mul && mentionsVar l && mentionsVar r) || (op == .div && mentionsVar r) || nonlinear l || nonlinear r

/-- the column names a tree mentions (NAME and PYTHON leaves), left to right, with repetitions -/
def namesOf : Node → List String
  | .leaf k t => match k with
    | .value => []
    | _ => [t]
  | .un _ a => namesOf a
  | .bin _ l r => namesOf l ++ namesOf r

/-- the all-zero assignment: a divisor that mentions no column has the same value everywhere, so
"defined at 0" says that no constant divisor is zero -/
def env0 : String → Rat := fun _ => 0

/-- the assignment that gives the column called `v` the value 1 and every other name 0 -/
def indicator (v : String) : String → Rat := fun w => if w = v then 1 else 0

/-- **which trees are accepted** (characterisation proved in `Proofs/C16Accept.lean`): the tree is a
comma-separated list of scalar expressions with numeric literals, no product of two column-mentioning
subexpressions and no division by one, no division by a constant zero, and every name is a column -/
def acceptable (names : List String) (n : Node) : Prop :=
  ∃ es, constraintsOf n = some es ∧ nonlinear n = false ∧ (∀ e ∈ es, (eval env0 e).isSome = true) ∧
    ∀ x ∈ namesOf n, (colIndex names x).isSome = true

def parsedAcceptable (names : List String) : Parsed → Prop
  | .empty => True
  | .ast n => acceptable names n
  | .error _ => False

/-- the specification is accepted: every string it makes the library parse is; a mapping is not empty -/
def specAcceptable (names : List String) (parse : String → Parsed) : Spec → Prop
  | .str s => parsedAcceptable names (parse s)
  | .list ss => parsedAcceptable names (parse (",".intercalate ss))
  | .dict items => items ≠ [] ∧ ∀ kv ∈ items, parsedAcceptable names (parse kv.1)

/-- the linear combination `c₀*n₀ + c₁*n₁ + … + 0` a row of numbers stands for -/
def linExpr : List String → List Rat → Expr
  | n :: ns, c :: cs => .add (.mul (.lit c) (.var n)) (linExpr ns cs)
  | _, _ => .lit 0

/-! ### the formula a row of numbers stands for, as a tree with numeric-literal leaves -/

/-- the text of a natural number as a VALUE token: its decimal digits and a point (`12.`; with the point
Python's rule against leading zeros does not apply, so no case distinction is needed) -/
def numeral (n : Nat) : String := String.ofList (Nat.toDigits 10 n ++ ['.'])

def natNode (n : Nat) : Node := .leaf .value (numeral n)

/-- a rational as a tree: `p. / q.` or `-(p. / q.)` -/
def ratNode (q : Rat) : Node :=
  if q.num < 0 then .un .neg (.bin .div (natNode q.num.natAbs) (natNode q.den))
  else .bin .div (natNode q.num.natAbs) (natNode q.den)

/-- `c₀ * n₀ + (c₁ * n₁ + (… + 0.))` -/
def linNode : List String → List Rat → Node
  | n :: ns, c :: cs => .bin .add (.bin .mul (ratNode c) (.leaf .name n)) (linNode ns cs)
  | _, _ => natNode 0

/-- the constraint `c₀ * n₀ + … = c` a row `(cs, c)` of a matrix form stands for -/
def rowNode (names : List String) (cs : List Rat) (c : Rat) : Node := .bin .eq (linNode names cs) (ratNode c)

/-- some string the specification makes the library parse is syntactically non-linear -/
def specNonlinear (parse : String → Parsed) : Spec → Prop
  | .str s => ∃ n, parse s = .ast n ∧ nonlinear n = true
  | .list ss => ∃ n, parse (",".intercalate ss) = .ast n ∧ nonlinear n = true
  | .dict items => ∃ kv ∈ items, ∃ n, parse kv.1 = .ast n ∧ nonlinear n = true

end FormulaicVerif.Spec.Affine
