import FormulaicVerif.Model.Heap
/-! # Reference semantics for C18: specs as VALUES (no store, no aliasing, no mutation)

A spec value carries its two dictionaries by value.  An operation is a function from the values of
the specs it names to its outcome and the values of the specs it hands out; nothing that already
exists can change, because there is nothing to write to.  `Props/C18.lean` proves that the store
model of `Model/Heap.lean` (in-place writes to shared cells) computes exactly this. -/

namespace FormulaicVerif.Spec.Purity
open FormulaicVerif.Model.Heap

structure PSpec (F E : Type) where
  formula : Formula
  cfg : Cfg
  struct : Option (List (StructEntry E))
  t : Dict F
  e : Dict E

section
variable {F E : Type}

def PSpec.recorded (s : PSpec F E) : Option (List (StructEntry E)) :=
  match s.struct with
  | some (x :: xs) => some (x :: xs)
  | _ => none

def PSpec.termsToBuild (s : PSpec F E) (d : Data) : List TermKey :=
  match s.recorded with
  | some st => st.map fun e => ⟨e.term, e.origin, e.efr, e.data⟩
  | none => s.formula.map fun t => ⟨t, s.formula, s.cfg.efr, d⟩

variable (P : Params F E)

/-- encoder dictionary of the spec being built × encoding caches of the call × columns so far -/
abbrev PEncSt (F E : Type) := Dict E × Caches E × Except Err (List (ColInfo F E))

/-- what `dict.setdefault(f, cached)` adds: the cached state of the factor, when there is one and the
dictionary has no entry for the factor yet.  (Kept as a separate, data-valued definition so that it is
computed once: dictionaries are functions here, and a function-valued definition that starts with
these two look-ups would repeat them at every later look-up of its result.) -/
def pRecordAdd (cell : Dict E) (esc : Dict E) (f : Factor) : Option E :=
  match esc f with
  | none => none
  | some v =>
    match cell f with
    | some _ => none
    | none => some v

def pRecordApply (cell : Dict E) (f : Factor) : Option E → Dict E
  | none => cell
  | some v => cell.set f v

/-- `dict.setdefault` with the cached state of the factor, if there is one -/
def pRecordState (cell : Dict E) (esc : Dict E) (f : Factor) : Dict E :=
  pRecordApply cell f (pRecordAdd cell esc f)

def pEncodeFactor (d : Data) (kept : List Nat) (cache : Dict (List (String × F)))
    (st : PEncSt F E) (fr : Factor × Bool) : PEncSt F E :=
  match st.2.2 with
  | .error _ => st
  | .ok acc =>
    match cache fr.1 with
    | none => (st.1, st.2.1, .error .keyError)
    | some fits =>
      let c1 := pRecordApply st.1 fr.1 (pRecordAdd st.1 st.2.1.2 fr.1)   -- = `pRecordState st.1 st.2.1.2 fr.1`
      match st.2.1.1 fr.1 fr.2 with
      | some enc => (c1, st.2.1, .ok (acc ++ [⟨fr.1, fr.2, fits, enc⟩]))
      | none =>
        let enc := match c1 fr.1 with
          | some v => v
          | none => P.encFit fr.1 d kept
        (c1.set fr.1 enc, (st.2.1.1.set fr.1 fr.2 enc, st.2.1.2.set fr.1 enc),
          .ok (acc ++ [⟨fr.1, fr.2, fits, enc⟩]))

def pEncodeTerm (d : Data) (kept : List Nat) (cache : Dict (List (String × F)))
    (st : PEncSt F E) (k : TermKey) : PEncSt F E :=
  match st.2.2 with
  | .error _ => st
  | .ok _ =>
    if (TermKey.factors P k).all (fun fr => (cache fr.1).isSome) then
      (TermKey.factors P k).foldl (pEncodeFactor P d kept cache) st
    else (st.1, st.2.1, .error .keyError)

/-- encoded-cache of the call × results so far -/
abbrev PBuildSt (F E : Type) := Caches E × Except Err (List (Part F E × PSpec F E))

def pBuildOne (d : Data) (kept : List Nat) (cache : Dict (List (String × F)))
    (st : PBuildSt F E) (p : PSpec F E) : PBuildSt F E :=
  match st.2 with
  | .error _ => st
  | .ok acc =>
    let r := (p.termsToBuild d).foldl (pEncodeTerm P d kept cache) (p.e, st.1, .ok [])
    match r.2.2 with
    | .error e => (r.2.1, .error e)
    | .ok cols =>
      match p.recorded with
      | some s =>
        let part : Part F E := ⟨p.formula, p.cfg, d, kept, s.map (·.term), cols, s⟩
        if P.encodingFails part then (r.2.1, .error .encoding)
        else (r.2.1, .ok (acc ++ [(part, { p with struct := some s, e := r.1 })]))
      | none =>
        let s := newStructure P (p.termsToBuild d) r.2.1.1
        (r.2.1, .ok (acc ++ [(⟨p.formula, p.cfg, d, kept, p.formula, cols, s⟩,
          { p with struct := some s, e := r.1 })]))

def pFactorsOf (ss : List (PSpec F E)) : List Factor :=
  ss.flatMap fun s => s.formula.flatten

/-- materialise the spec values `ss` on data set `d`: the parts and the values of the specs attached
to them; a function of its arguments only -/
def pureCall (ss : List (PSpec F E)) (d : Data) (order : List Factor) :
    Except Err (List (Part F E × PSpec F E)) :=
  match ss with
  | [] => .error .inconsistent
  | p0 :: ps =>
    if (p0 :: ps).all (fun p => p.cfg == p0.cfg) then
      let pooled : Dict F := (p0 :: ps).foldl (fun acc p => acc.update p.t) Dict.empty
      match evaluateAll P d p0.cfg.na ⟨Dict.empty, fun _ => false, pooled⟩ order with
      | .error e => .error e
      | .ok ev =>
        let kept := (List.range (P.nrows d)).filter fun i => !ev.drops i
        ((p0 :: ps).map fun p => { p with t := p.t.update ev.state }).foldl
          (pBuildOne P d kept ev.cache) (Caches.empty, .ok []) |>.2
    else .error .inconsistent

def pApplyUpd (u : Upd) (s : PSpec F E) : PSpec F E :=
  { formula := match u.formula with
      | some f => f
      | none => s.formula,
    cfg := ⟨match u.efr with
      | some b => b
      | none => s.cfg.efr, match u.na with
      | some a => a
      | none => s.cfg.na⟩,
    struct := if u.clearStruct then none else s.struct,
    t := s.t, e := s.e }

def pSubset (s : PSpec F E) (terms : List Term) : Except Err (PSpec F E) :=
  if terms.all (fun t => s.formula.contains t) then
    match s.struct with
    | none => .error .noStructure
    | some st =>
      match terms.mapM (fun t => st.find? (fun e => e.term == t)) with
      | none => .error .keyError
      | some es => .ok { s with formula := terms, struct := some es }
  else .error .missingTerms

def pPublish (env : List (PSpec F E)) (r : Except Err (List (Part F E × PSpec F E))) :
    List (PSpec F E) × Outcome F E :=
  match r with
  | .error e => (env, .error e)
  | .ok l => (env ++ l.map (·.2), .ok (l.map (·.1)))

/-- one operation on an environment of spec VALUES (the environment only gives names to values;
it is append-only) -/
def pstep (env : List (PSpec F E)) : Op → List (PSpec F E) × Outcome F E
  | .newSpec f cfg => (env ++ [⟨f, cfg, none, Dict.empty, Dict.empty⟩], .ok [])
  | .update h u =>
    match env[h]? with
    | none => (env, .error .badHandle)
    | some s => (env ++ [pApplyUpd u s], .ok [])
  | .subset h terms =>
    match env[h]? with
    | none => (env, .error .badHandle)
    | some s =>
      match pSubset s terms with
      | .error e => (env, .error e)
      | .ok s' => (env ++ [s'], .ok [])
  | .build fs cfg d =>
    let ss : List (PSpec F E) := fs.map fun f => ⟨f, cfg, none, Dict.empty, Dict.empty⟩
    pPublish env (pureCall P ss d (pFactorsOf ss))
  | .call hs u d =>
    match lookupAll env hs with
    | none => (env, .error .badHandle)
    | some ss =>
      let ss' := match u with
        | some u => ss.map (pApplyUpd u)
        | none => ss
      pPublish env (pureCall P ss' d (pFactorsOf ss'))

/-- the spec handles an operation names -/
def handlesOf : Op → List Nat
  | .newSpec _ _ => []
  | .update h _ => [h]
  | .subset h _ => [h]
  | .build _ _ _ => []
  | .call hs _ _ => hs

def prun : List (PSpec F E) → List Op → List (Outcome F E)
  | _, [] => []
  | env, op :: ops => (pstep P env op).2 :: prun (pstep P env op).1 ops

def pfinal : List (PSpec F E) → List Op → List (PSpec F E)
  | env, [] => env
  | env, op :: ops => pfinal (pstep P env op).1 ops

end
end FormulaicVerif.Spec.Purity
