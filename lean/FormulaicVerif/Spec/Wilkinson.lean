import FormulaicVerif.Model.Operator
/-! The documented operator table (docsite `guides/grammar.md`): each block of the table has higher
precedence than the next; binary operators are left-associative except `**`/`^`; unary `+`/`-`
share the precedence of binary `+`/`-`; `|` and `~` are structural; feature flags disable the
two-sided `~`, the multi-part `|` and the multi-stage `[ ~ ]` operators.

This is written from the documentation, independently of the source. The property theorem
`Props.C01.table_is_documented` compares it with the table regenerated from the live resolver. -/
namespace FormulaicVerif.Spec.Wilkinson
open FormulaicVerif.Model

def bin (s : String) (p : Int) (a : Assoc) : OpSpec :=
  { symbol := s, arity := 2, prec := p, assoc := a, fixity := .infix, structural := false, disabled := false, ctx := .always }

def pre (s : String) (p : Int) : OpSpec :=
  { symbol := s, arity := 1, prec := p, assoc := .right, fixity := .prefix, structural := false, disabled := false, ctx := .always }

/-- documented table for a feature-flag subset; candidates of one symbol in descending (precedence, arity) order -/
def documentedTable (twosided multipart multistage : Bool) : OpTable :=
  [ ("~", [ { symbol := "~", arity := 2, prec := -100, assoc := .none, fixity := .infix, structural := true,
              disabled := !twosided, ctx := .emptyCtx },
            { symbol := "~", arity := 2, prec := -100, assoc := .none, fixity := .infix, structural := true,
              disabled := !multistage, ctx := .lastIsSquare },
            { symbol := "~", arity := 1, prec := -100, assoc := .none, fixity := .prefix, structural := true,
              disabled := false, ctx := .emptyCtx } ]),
    ("|", [ { symbol := "|", arity := 2, prec := -50, assoc := .none, fixity := .infix, structural := true,
              disabled := !multipart, ctx := .allTildeBar } ]),
    ("+", [ bin "+" 100 .left, pre "+" 100 ]),
    ("-", [ bin "-" 100 .left, pre "-" 100 ]),
    ("*", [ bin "*" 200 .left ]),
    ("/", [ bin "/" 200 .left ]),
    ("in", [ bin "in" 200 .left ]),
    (":", [ bin ":" 300 .left ]),
    ("**", [ bin "**" 500 .right ]),
    ("^", [ bin "^" 500 .right ]),
    (".", [ { symbol := ".", arity := 0, prec := 1000, assoc := .none, fixity := .postfix, structural := false,
              disabled := false, ctx := .always } ]) ]

end FormulaicVerif.Spec.Wilkinson
