import FormulaicVerif.Model.CalcMat
import FormulaicVerif.Spec.DerivativeSem
import Mathlib.Algebra.Ring.Rat
/-! Reference notions for the materialisation clause of C20: the column a numeric term denotes
(row by row the product of its factors' values), and the term-by-term column list of a numeric
formula with and without rank reduction. -/
namespace FormulaicVerif.Spec.NumMat
open FormulaicVerif.Model FormulaicVerif.Model.CalcMat FormulaicVerif.Spec

/-- the evaluated value of the factor `e` (first entry, as `factor_cache[e]`) -/
def lookup (env : Env) (e : String) : Option NumVal := (env.find? (fun p => p.1 == e)).map (·.2)

/-- the value of every factor in row `r` (a constant has the same value in every row) -/
def rowEnv (env : Env) (r : Nat) : String → Rat := fun e =>
  match lookup env e with
  | some (.const v) => v
  | some (.col c) => c.getD r 0
  | none => 0

/-- the column a term denotes: row by row the product of its factors -/
def termCol (env : Env) (n : Nat) (t : Term) : Col := (List.range n).map (fun r => evalProd (rowEnv env r) t)

/-- every factor of the term has been evaluated, columns have one entry per row -/
def Covers (env : Env) (n : Nat) (t : Term) : Prop :=
  ∀ f ∈ t, ∃ v, lookup env f.expr = some v ∧ ∀ c, v = .col c → c.length = n

/-- the literals `0` and `1` that `differentiate_term` writes evaluate to the numbers 0 and 1 -/
def HasLiterals (env : Env) : Prop :=
  lookup env "0" = some (.const 0) ∧ lookup env "1" = some (.const 1)

/-- is the factor `e` a (non-constant) column -/
def isVar (env : Env) (e : String) : Bool :=
  match lookup env e with
  | some (.col _) => true
  | _ => false

/-- the variable (non-constant) factor expressions of a term, in term order -/
def vars (env : Env) (t : Term) : List String := (exprs t).filter (isVar env)

/-- the value of a constant factor -/
def constVal (env : Env) (e : String) : Option Rat :=
  match lookup env e with
  | some (.const v) => some v
  | _ => none

/-- the literal scale of a term: the product of its constant factors -/
def scaleT (env : Env) (t : Term) : Rat := ((exprs t).filterMap (constVal env)).foldl (· * ·) 1

/-- the scoped term the materializer forms for a numeric term: all variable factors, full rank -/
def stOf (env : Env) (t : Term) : ST := ⟨(vars env t).map (fun e => ⟨e, false⟩), scaleT env t⟩

/-- term by term, the column VALUES of a numeric formula (`spanned`: what earlier terms span; only
consulted with rank reduction on): a term without factors has no column; with rank reduction a term
whose variable factors (as a set) are those of an earlier non-zero-scaled term has none either;
every other term has exactly one column, `termCol` -/
def specCols (env : Env) (n : Nat) (efr : Bool) : List ST → List Term → List (List Col)
  | _, [] => []
  | spanned, t :: ts =>
    if t = [] then [] :: specCols env n efr spanned ts
    else if efr && osMem spanned (stOf env t) then [] :: specCols env n efr spanned ts
    else [termCol env n t] ::
      specCols env n efr (if efr && decide (scaleT env t ≠ 0) then spanned ++ [stOf env t] else spanned) ts

end FormulaicVerif.Spec.NumMat
