import FormulaicVerif.Spec.Matrix
/-! Reference reading of the model matrix used by C03: the columns a list of scoped terms DENOTES (the
intercept for a factor-free scoped term, else one column per choice of one encoded column per factor, the
first factor varying fastest), without the dictionary semantics of `scoped_cols` / `_combine_columns`; and
the (decidable) statement that no two printed names collide, under which the emitted matrix IS that list. -/
namespace FormulaicVerif.Spec.C03
open FormulaicVerif.Model FormulaicVerif.Spec

/-- the columns one scoped term denotes -/
def stEntries (c : Cache) (nrows : Nat) (st : ST) : Except MErr (List Entry) :=
  if st.factors.isEmpty then .ok [⟨"Intercept", [], Col.smul st.scale (Col.ones nrows)⟩]
  else
    match encodeFactors c st.factors with
    | .error x => .error x
    | .ok fss => .ok ((kron fss).map (entryOf nrows st.scale))

/-- the columns a list of scoped terms denotes, in order -/
def refColumns (c : Cache) (nrows : Nat) : List ST → Except MErr (List Entry)
  | [] => .ok []
  | st :: r =>
    match stEntries c nrows st with
    | .error x => .error x
    | .ok es =>
      match refColumns c nrows r with
      | .error x => .error x
      | .ok rest => .ok (es ++ rest)

/-- the printed names of the columns these scoped terms denote are pairwise different -/
def namesDistinct (c : Cache) (nrows : Nat) (sts : List ST) : Bool :=
  match refColumns c nrows sts with
  | .ok es => decide (es.map (·.name)).Nodup
  | .error _ => true

/-- freedom from printed-name collisions: within every term (the `scoped_cols` dict), and — when the output
is assembled through a `{name: column}` dict (`asDict`) — across the whole matrix -/
def noCollision (cfg : Config) (asDict : Bool) : Bool :=
  match buildStructure cfg with
  | .error _ => true
  | .ok rs =>
    rs.all (fun r => namesDistinct cfg.cache cfg.nrows r.sts) &&
      (!asDict || namesDistinct cfg.cache cfg.nrows (rs.flatMap (·.sts)))

/-- the values of a matrix column as a vector indexed by the rows -/
def colVec (nrows : Nat) (e : Entry) : Fin nrows → Rat := fun r => e.col.getD r.val 0

end FormulaicVerif.Spec.C03
