import Mathlib.Algebra.Order.Field.Basic
/-! # Reference semantics for C12: B-splines by the Cox–de Boor recursion

The definition is de Boor's (A Practical Guide to Splines, ch. IX), on an ARBITRARY knot sequence
`t : ℕ → α` over any field with a linear order:

  `B_{i,0}(x)   = 1 if t_i ≤ x < t_{i+1} else 0`
  `B_{i,k}(x)   = ω_{i,k}(x) · B_{i,k-1}(x) + (1 − ω_{i+1,k}(x)) · B_{i+1,k-1}(x)`
  `ω_{i,k}(x)   = (x − t_i) / (t_{i+k} − t_i)` if `t_{i+k} ≠ t_i`, else `0`.

The degree-0 functions are a parameter `b0` of the recursion so that the two conventions used by
design matrices can be expressed: `ind` closes the last interval on the right (so that the basis
is a partition of unity on the CLOSED interval `[t_d, t_r]`), `indExt` extends the first and the
last polynomial piece to `−∞` / `+∞` (R's `bs` outside the boundary knots). -/

namespace FormulaicVerif.Spec.BSpline

variable {α : Type} [Field α] [LinearOrder α]

/-- `ω_{i,k}(x)`, with the convention `0/0 := 0` -/
def omega (t : ℕ → α) (i k : ℕ) (x : α) : α :=
  if t (i + k) ≠ t i then (x - t i) / (t (i + k) - t i) else 0

/-- Cox–de Boor: `B t b0 x k i = B_{i,k}(x)` built on the degree-0 functions `b0`. -/
def B (t : ℕ → α) (b0 : ℕ → α) (x : α) : ℕ → ℕ → α
  | 0, i => b0 i
  | k + 1, i =>
    omega t i (k + 1) x * B t b0 x k i + (1 - omega t (i + 1) (k + 1) x) * B t b0 x k (i + 1)

/-- indicator of `[t_i, t_{i+1})`; the interval whose right end is the knot with index `r` is
closed: `[t_{r-1}, t_r]`. -/
def ind (t : ℕ → α) (r : ℕ) (x : α) (i : ℕ) : α :=
  if t i ≤ x ∧ (if i + 1 = r then x ≤ t (i + 1) else x < t (i + 1)) then 1 else 0

/-- as `ind` (half-open everywhere), but the interval starting at index `l` reaches down to `−∞`
and the interval ending at index `r` reaches up to `+∞`. -/
def indExt (t : ℕ → α) (l r : ℕ) (x : α) (i : ℕ) : α :=
  if (i = l ∨ t i ≤ x) ∧ (i + 1 = r ∨ x < t (i + 1)) then 1 else 0

/-- degree-0 row on a knot vector of length `n` (there are `n − 1` intervals), for a spline of
degree `d` whose basic interval is `[t_d, t_r]` -/
def b0 (t : ℕ → α) (n d r : ℕ) (ext : Bool) (x : α) (i : ℕ) : α :=
  if i + 1 < n then (if ext then indExt t d r x i else ind t r x i) else 0

/-- the unit row `e_j` -/
def unit (j : ℕ) (i : ℕ) : α := if i = j then 1 else 0

end FormulaicVerif.Spec.BSpline
