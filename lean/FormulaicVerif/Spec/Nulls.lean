import FormulaicVerif.Model.Nulls
/-! Reference semantics for C06: which rows of an evaluated factor count as null, which rows the
property says must remain, and what a part of the output must then look like. Deliberately tiny:
positions are filtered with `List.filter`, rows are read with `xs[i]?`, a value is looked at cell by
cell. -/
namespace FormulaicVerif.Spec.Nulls
open FormulaicVerif.Model.Nulls

/-- the positions `0 … n-1` that are not in `removed`, ascending (original order) -/
def keptPositions (n : Nat) (removed : List Nat) : List Nat :=
  (List.range n).filter (fun i => !removed.contains i)

/-- the entries of `xs` at the positions `ps`, in the order of `ps` -/
def rowsAt {ρ : Type} (xs : List ρ) (ps : List Nat) : List ρ :=
  ps.filterMap (fun i => xs[i]?)

/-! ## Which rows of a value are null -/

/-- cell `i` of a column exists and is null -/
def cellNull {ρ : Type} (cells : List (Cell ρ)) (i : Nat) : Bool :=
  match cells[i]? with
  | some c => c.null
  | none => false

/-- row `i` of a table of `n` rows (stored by column) has a null cell -/
def tableNull {ρ : Type} (n : Nat) (cols : List (List (Cell ρ))) (i : Nat) : Bool :=
  decide (i < n) && cols.any (fun col => cellNull col i)

mutual
/-- Row `i` of the evaluated factor contains a null cell: in the column itself, in any column of
a 2-d array / data frame / sparse matrix, in any member (hidden ones included) of a dict. Constants
have no rows. -/
def rowNull {ρ : Type} : Value ρ → Nat → Bool
  | .pylist cells, i => cellNull cells i
  | .nwSeries cells, i => cellNull cells i
  | .series cells, i => cellNull cells i
  | .array1 cells, i => cellNull cells i
  | .array2 n cols, i => tableNull n cols i
  | .frame n cols, i => tableNull n cols i
  | .sparse _ n cols, i => tableNull n cols i
  | .dict items, i => rowNullItems items i
  | .none, _ => false
  | .scalar _ _, _ => false
  | .array0 _, _ => false
  | .arrayN _, _ => false
  | .other, _ => false
def rowNullItems {ρ : Type} : List (Bool × Value ρ) → Nat → Bool
  | [], _ => false
  | (_, x) :: r, i => rowNull x i || rowNullItems r i
end

mutual
/-- `find_nulls` (of the tree under test) has an answer for the value: it contains no constant
(scalar or 0-d array) that is null, no array of more than two dimensions and no object of an
unknown type — anywhere, members of dicts included. -/
def Checkable {ρ : Type} : Value ρ → Prop
  | .scalar .pyStr _ => True
  | .scalar .pyNum c => c.null = false
  | .scalar .npNum c => c.null = false
  | .array0 c => c.null = false
  | .arrayN _ => False
  | .other => False
  | .dict items => CheckableItems items
  | .none => True
  | .pylist _ => True
  | .nwSeries _ => True
  | .series _ => True
  | .array1 _ => True
  | .array2 _ _ => True
  | .frame _ _ => True
  | .sparse _ _ _ => True
def CheckableItems {ρ : Type} : List (Bool × Value ρ) → Prop
  | [] => True
  | (_, x) :: r => Checkable x ∧ CheckableItems r
end

/-! ## Well-formed evaluated factors -/

/-- a column of `n` cells, or a constant that is not null -/
def LeafOK {ρ : Type} (n : Nat) : Value ρ → Prop
  | .pylist cells => cells.length = n
  | .nwSeries cells => cells.length = n
  | .series cells => cells.length = n
  | .array1 cells => cells.length = n
  | .scalar .pyStr _ => True
  | .scalar .pyNum c => c.null = false
  | .scalar .npNum c => c.null = false
  | _ => False

mutual
/-- what may sit in a dict: columns of `n` cells, non-null constants, dicts of those -/
def MemberOK {ρ : Type} (n : Nat) : Value ρ → Prop
  | .dict items => MembersOK n items
  | .pylist cells => cells.length = n
  | .nwSeries cells => cells.length = n
  | .series cells => cells.length = n
  | .array1 cells => cells.length = n
  | .scalar .pyStr _ => True
  | .scalar .pyNum c => c.null = false
  | .scalar .npNum c => c.null = false
  | .none => False
  | .array0 _ => False
  | .array2 _ _ => False
  | .arrayN _ => False
  | .frame _ _ => False
  | .sparse _ _ _ => False
  | .other => False
def MembersOK {ρ : Type} (n : Nat) : List (Bool × Value ρ) → Prop
  | [] => True
  | (_, x) :: r => MemberOK n x ∧ MembersOK n r
end

/-- an evaluated factor that can be turned into columns of a matrix over `n` rows: a column, a
non-null constant, a 2-d array or a data frame with `n` rows, a (nested) dict of columns and
constants, or `None` (which contributes no column) -/
def ValueOK {ρ : Type} (n : Nat) : Value ρ → Prop
  | .array2 k cols => k = n ∧ ∀ c ∈ cols, c.length = n
  | .frame k cols => k = n ∧ ∀ c ∈ cols, c.length = n
  | .none => True
  | x => MemberOK n x

/-- … `C()` / `hashed()` are applied to single columns, and a value declared to be of kind
`constant` is a scalar that is not null -/
def FactorOK {ρ : Type} (n : Nat) (f : Factor ρ) : Prop :=
  match f.encoder with
  | .default => ValueOK n f.value
  | .constant => ∃ k c, f.value = .scalar k c ∧ LeafOK n (.scalar k c)
  | _ => ∃ s cells, colCells f.value = some (s, cells) ∧ cells.length = n

/-! ## Positional removal on a value -/

/-- the value has rows, `n` of them: a column of `n` cells, or an array / sparse matrix with
`shape[0] = n` whose columns all have `n` cells -/
def HasRows {ρ : Type} (n : Nat) : Value ρ → Prop
  | .pylist cells => cells.length = n
  | .nwSeries cells => cells.length = n
  | .series cells => cells.length = n
  | .array1 cells => cells.length = n
  | .array2 k cols => k = n ∧ ∀ c ∈ cols, c.length = n
  | .arrayN k => k = n
  | .sparse _ k cols => k = n ∧ ∀ c ∈ cols, c.length = n
  | _ => False

/-- the value restricted to the rows at positions `K`, in the order of `K`: what a positional
removal that keeps exactly those rows must return (same type, same columns) -/
def keepRows {ρ : Type} (K : List Nat) : Value ρ → Value ρ
  | .pylist cells => .pylist (rowsAt cells K)
  | .nwSeries cells => .nwSeries (rowsAt cells K)
  | .series cells => .series (rowsAt cells K)
  | .array1 cells => .array1 (rowsAt cells K)
  | .array2 _ cols => .array2 K.length (cols.map (fun c => rowsAt c K))
  | .arrayN _ => .arrayN K.length
  | .sparse csc _ cols => .sparse csc K.length (cols.map (fun c => rowsAt c K))
  | x => x

/-! ## The columns of a value -/

mutual
/-- the columns of a dict member, in order; hidden members have none -/
def memberColumns {ρ : Type} : Value ρ → List (ColShape ρ)
  | .dict items => itemColumns items
  | .none => [.bad]
  | .scalar _ c => [.const c]
  | .pylist cells => [.vec cells]
  | .nwSeries cells => [.vec cells]
  | .series cells => [.vec cells]
  | .array0 _ => [.bad]
  | .array1 cells => [.vec cells]
  | .array2 _ _ => [.bad]
  | .arrayN _ => [.bad]
  | .frame _ _ => [.bad]
  | .sparse _ _ _ => [.bad]
  | .other => [.bad]
def itemColumns {ρ : Type} : List (Bool × Value ρ) → List (ColShape ρ)
  | [] => []
  | (hidden, x) :: r => (if hidden then [] else memberColumns x) ++ itemColumns r
end

/-- the columns an evaluated factor contributes to the matrix -/
def columns {ρ : Type} : Value ρ → List (ColShape ρ)
  | .array2 _ cols => cols.map .vec
  | .frame _ cols => cols.map .vec
  | .none => []
  | x => memberColumns x

/-- the cells of a column when exactly the rows at positions `K` remain -/
def shapeRows {ρ : Type} (K : List Nat) : ColShape ρ → List (Cell ρ)
  | .vec cells => rowsAt cells K
  | .const c => List.replicate K.length c
  | .bad => []

/-- what `find_nulls` returns for the factor (nothing when it raises) -/
def nullsOf {ρ : Type} (f : Factor ρ) : List Nat :=
  match findNulls current f.value with
  | .ok ns => ns
  | .error _ => []

/-- rows in which some evaluated factor of the part is null -/
def partNulls {ρ : Type} (p : Part ρ) : List Nat := p.factors.flatMap nullsOf

/-- rows in which some evaluated factor (of any part) is null -/
def allNulls {ρ : Type} (parts : List (Part ρ)) : List Nat :=
  (parts.flatMap (·.factors)).flatMap nullsOf

/-- rows the caller listed for dropping -/
def callerRows : Option DropSet → List Nat
  | some s => s
  | none => []

/-- What one part of the output must be when exactly the rows at positions `K` remain: every
column of every factor contributes its cells at `K` (so output row `j` is input row `K[j]`;
constants fill the rows that remain), the intercept has one entry per remaining row, and pandas
output — `output="pandas"`, and the native pandas frame that `output="narwhals"` hands back for
pandas-backed data — carries the labels of the rows at `K` (a frame without row labels gets a fresh
`RangeIndex`). -/
def expectedMatrix {L ρ : Type} (labels : List L) (K : List Nat) (o : Output) (p : Part ρ) :
    Matrix L ρ :=
  { nrows := K.length
    intercept := if p.intercept then some K.length else none
    cols := p.factors.map (fun f => (columns f.value).map (shapeRows K))
    index :=
      match o, p.mat with
      | .pandas, .pandas => .labels (rowsAt labels K)
      | .pandas, .narwhals => .labels (rowsAt labels K)
      | .narwhals, .narwhals => .labels (rowsAt labels K)   -- (the native pandas frame)
      | .pandas, .arrow => .range K.length
      | _, _ => .none }

/-- the cells of a column when all `n` rows remain -/
def shapeAll {ρ : Type} (n : Nat) : ColShape ρ → List (Cell ρ)
  | .vec cells => cells
  | .const c => List.replicate n c
  | .bad => []

/-- the part with every input row in it -/
def fullMatrix {L ρ : Type} (labels : List L) (n : Nat) (o : Output) (p : Part ρ) : Matrix L ρ :=
  { nrows := n
    intercept := if p.intercept then some n else none
    cols := p.factors.map (fun f => (columns f.value).map (shapeAll n))
    index :=
      match o, p.mat with
      | .pandas, .pandas => .labels labels
      | .pandas, .narwhals => .labels labels
      | .narwhals, .narwhals => .labels labels
      | .pandas, .arrow => .range n
      | _, _ => .none }

/-- well-formed input: every evaluated factor is made of columns with one cell per row and
constants that are not null -/
def WF {ρ : Type} (n : Nat) (parts : List (Part ρ)) : Prop :=
  ∀ p ∈ parts, ∀ f ∈ p.factors, FactorOK n f

/-- the caller's argument is a set (no repeats) of row positions -/
def CallerOK (n : Nat) : Option DropSet → Prop
  | some s => s.Nodup ∧ ∀ i ∈ s, i < n
  | none => True

/-- Does the entry point make ONE `FormulaMaterializer.get_model_matrix` call for all parts?
(`false`: `ModelSpecs` whose parts name different materializers — one call per part). -/
def oneCall (c : CallRec) : Bool :=
  match c.entry with
  | .modelSpec => true
  | .materializer => true
  | .modelSpecs => c.joint
  | .sugar => !c.structured || c.joint
  | .formula => !c.structured || c.joint

/-- ONE PASS of the per-spec branch of `ModelSpecs.get_model_matrix` (one call per part): part `k`
sees the shared set as updated by the parts before it (or a fresh set each time when none is
shared). The branch makes a second pass when the set grew (`Model.Nulls.call`); the result of both
passes together is that of the joint call (`Props.C06.per_part_calls`). -/
def perPartExpected {L ρ : Type} (labels : List L) (n : Nat) (o : Output) :
    List (Part ρ) → Option DropSet → List (Matrix L ρ) × Option DropSet
  | [], d => ([], d)
  | p :: r, d =>
    let d1 := setUpdate (callerRows d) (partNulls p)
    let rest := perPartExpected labels n o r (carry d d1)
    (expectedMatrix labels (keptPositions n d1) o p :: rest.1, rest.2)

end FormulaicVerif.Spec.Nulls
