import FormulaicVerif.Model.Nulls
/-! Reference semantics for C06: which rows the property says must remain, and what a part of the
output must then look like. Deliberately tiny: positions are filtered with `List.filter`, rows are
read with `xs[i]?`. -/
namespace FormulaicVerif.Spec.Nulls
open FormulaicVerif.Model.Nulls

/-- the positions `0 … n-1` that are not in `removed`, ascending (original order) -/
def keptPositions (n : Nat) (removed : List Nat) : List Nat :=
  (List.range n).filter (fun i => !removed.contains i)

/-- the entries of `xs` at the positions `ps`, in the order of `ps` -/
def rowsAt {ρ : Type} (xs : List ρ) (ps : List Nat) : List ρ :=
  ps.filterMap (fun i => xs[i]?)

/-- rows in which some evaluated factor of the part is null -/
def partNulls {ρ : Type} (p : Part ρ) : List Nat := p.factors.flatMap (·.nulls)

/-- rows in which some evaluated factor (of any part) is null -/
def allNulls {ρ : Type} (parts : List (Part ρ)) : List Nat :=
  (parts.flatMap (·.factors)).flatMap (·.nulls)

/-- rows the caller listed for dropping -/
def callerRows : Option DropSet → List Nat
  | some s => s
  | none => []

/-- What one part of the output must be when exactly the rows at positions `K` remain: every
factor contributes its cells at `K` (so output row `j` is input row `K[j]`), the intercept has
one entry per remaining row, and pandas output carries the labels of the rows at `K`
(a frame without row labels gets a fresh `RangeIndex`). -/
def expectedMatrix {L ρ : Type} (labels : List L) (K : List Nat) (o : Output) (p : Part ρ) :
    Matrix L ρ :=
  { nrows := K.length
    intercept := if p.intercept then some K.length else none
    cols := p.factors.map (fun f => rowsAt f.vals K)
    index :=
      match o, p.mat with
      | .pandas, .pandas => .labels (rowsAt labels K)
      | .pandas, .narwhals => .labels (rowsAt labels K)
      | .pandas, .arrow => .range K.length
      | _, _ => .none }

/-- the part with every input row in it -/
def fullMatrix {L ρ : Type} (labels : List L) (n : Nat) (o : Output) (p : Part ρ) : Matrix L ρ :=
  { nrows := n
    intercept := if p.intercept then some n else none
    cols := p.factors.map (·.vals)
    index :=
      match o, p.mat with
      | .pandas, .pandas => .labels labels
      | .pandas, .narwhals => .labels labels
      | .pandas, .arrow => .range n
      | _, _ => .none }

/-- well-formed input: every factor has one cell per row and `find_nulls` only names rows -/
def WF {ρ : Type} (n : Nat) (parts : List (Part ρ)) : Prop :=
  ∀ p ∈ parts, ∀ f ∈ p.factors, f.vals.length = n ∧ ∀ i ∈ f.nulls, i < n

/-- the caller's argument is a set (no repeats) of row positions -/
def CallerOK (n : Nat) : Option DropSet → Prop
  | some s => s.Nodup ∧ ∀ i ∈ s, i < n
  | none => True

/-- Does the entry point make ONE `FormulaMaterializer.get_model_matrix` call for all parts?
(`false`: `ModelSpecs` whose parts name different materializers — one call per part). -/
def oneCall (c : CallRec) : Bool :=
  match c.entry with
  | .modelSpec => true
  | .materializer => true
  | .modelSpecs => c.joint
  | .sugar => !c.structured || c.joint
  | .formula => !c.structured || c.joint

/-- one call per part: part `k` sees the caller's set as updated by the parts before it (or a
fresh set when the caller passed none) -/
def perPartExpected {L ρ : Type} (labels : List L) (n : Nat) (o : Output) :
    List (Part ρ) → Option DropSet → List (Matrix L ρ) × Option DropSet
  | [], d => ([], d)
  | p :: r, d =>
    let d1 := setUpdate (callerRows d) (partNulls p)
    let rest := perPartExpected labels n o r (carry d d1)
    (expectedMatrix labels (keptPositions n d1) o p :: rest.1, rest.2)

end FormulaicVerif.Spec.Nulls
