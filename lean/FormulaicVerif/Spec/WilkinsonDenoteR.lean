import FormulaicVerif.Proofs.C01DenoteR
/-! # The documented denotation, with runs of signs and the literal `0`

`Spec/WilkinsonDenote.lean` extended to the grammar of `Proofs/C01GrammarR.lean`
(`SumR := [signs] Summand | SumR signs Summand`, `Summand := ProdR | 0`, runs and zeros at any depth):

* a RUN of signs means the ONE sign given by the parity of its `-` (`--` is `+`, `-+-` is `+`, `+-` is `-`);
* the literal `0` is the intercept with the opposite sign: `+ 0` removes the intercept (`\ {1}`), `- 0` adds it
  (`∪ {1}`) — "removal by `-1` / `+0`";
* the wildcard `.` denotes `dv`, the columns of the data that the left-hand side does not use (`dotValue`:
  the available variables in first-occurrence order minus the variables of the left-hand side; a rejection
  when the context says nothing about the available variables) — the same value at every occurrence;
* everything else as in `Spec/WilkinsonDenote.lean`: a right-hand part is read from `{1}` with the implicit
  intercept (`foldSumR`), a left-hand part from nothing (`denSumR`). -/
namespace FormulaicVerif.Spec.DenoteR
open FormulaicVerif FormulaicVerif.Model FormulaicVerif.Proofs.C01Grammar FormulaicVerif.Proofs.C01GrammarR
open FormulaicVerif.Proofs.C01Runs FormulaicVerif.Proofs.C01DenoteR
open FormulaicVerif.Spec.Denote
open FormulaicVerif.Proofs.C01TopLevel (partsVal)

/-- the sign of an optional run: none is `+` -/
def signOf : Option Run → AddOp
  | none => .plus
  | some r => runOp r.cs

def flip : AddOp → AddOp
  | .plus => .minus
  | .minus => .plus

/-- a unary sign applied to a term set, read from nothing: `+x = x`, `-x = ∅` -/
def unary (sg : AddOp) (x : List Term) : List Term :=
  match sg with
  | .plus => x
  | .minus => []

mutual
def denAtomR (dv : Except ParseErr (List Term)) : AtomR → Except ParseErr (List Term)
  | .tok t _ => .ok [termOfTok t]
  | .paren s => denSumR dv s
  | .dot => dv
def denPowR (dv : Except ParseErr (List Term)) : PowR → Except ParseErr (List Term)
  | .atom a => denAtomR dv a
  | .pow _ a p =>
    match denAtomR dv a with
    | .error e => .error e
    | .ok x => match denPowR dv p with
      | .error e => .error e
      | .ok n => power x n
def denInterR (dv : Except ParseErr (List Term)) : InterR → Except ParseErr (List Term)
  | .pow p => denPowR dv p
  | .inter i p =>
    match denInterR dv i with
    | .error e => .error e
    | .ok x => match denPowR dv p with
      | .error e => .error e
      | .ok y => .ok (osetProd x y)
def denProdR (dv : Except ParseErr (List Term)) : ProdR → Except ParseErr (List Term)
  | .inter i => denInterR dv i
  | .mul op p i =>
    match denProdR dv p with
    | .error e => .error e
    | .ok x => match denInterR dv i with
      | .error e => .error e
      | .ok y => denMul op x y
/-- a sum read starting from nothing -/
def denSumR (dv : Except ParseErr (List Term)) : SumR → Except ParseErr (List Term)
  | .first none p => denProdR dv p
  | .first (some r) p => (denProdR dv p).map (unary (runOp r.cs))
  | .firstZero sg => .ok (unary (flip (signOf sg)) [intercept])
  | .add r s p =>
    match denSumR dv s with
    | .error e => .error e
    | .ok x => match denProdR dv p with
      | .error e => .error e
      | .ok y => .ok (denAdd (runOp r.cs) x y)
  | .addZero r s => (denSumR dv s).map (fun x => denAdd (flip (runOp r.cs)) x [intercept])
end

/-- a sum read from left to right starting from `start` -/
def foldSumR (dv : Except ParseErr (List Term)) (start : List Term) : SumR → Except ParseErr (List Term)
  | .first sg p => (denProdR dv p).map (denAdd (signOf sg) start)
  | .firstZero sg => .ok (denAdd (flip (signOf sg)) start [intercept])
  | .add r s p =>
    match foldSumR dv start s with
    | .error e => .error e
    | .ok x => match denProdR dv p with
      | .error e => .error e
      | .ok y => .ok (denAdd (runOp r.cs) x y)
  | .addZero r s => (foldSumR dv start s).map (fun x => denAdd (flip (runOp r.cs)) x [intercept])

def denRhsR (dv : Except ParseErr (List Term)) (includeIntercept : Bool) (s : SumR) : Except ParseErr (List Term) :=
  if includeIntercept then foldSumR dv [intercept] s else denSumR dv s

def denPartsR (den : SumR → Except ParseErr (List Term)) : List SumR → Except ParseErr (List (List Term))
  | [] => .ok []
  | q :: qs =>
    match den q with
    | .error e => .error e
    | .ok x => match denPartsR den qs with
      | .error e => .error e
      | .ok xs => .ok (x :: xs)

def denSideR (den : SumR → Except ParseErr (List Term)) (p : SumR) (tail : List SumR) : Except ParseErr Val :=
  match den p with
  | .error e => .error e
  | .ok x => match denPartsR den tail with
    | .error e => .error e
    | .ok xs => .ok (partsVal x xs)

def denStructR (cfg : ParseCfg) (dv : Except ParseErr (List Term)) : FormulaR → Except ParseErr Val
  | .one p tail => (denSideR (denRhsR dv cfg.includeIntercept) p tail).map (fun v => .struct [("root", v)])
  | .tilde p tail => (denSideR (denRhsR dv cfg.includeIntercept) p tail).map (fun v => .struct [("root", v)])
  | .two l ltail p tail =>
    match denSideR (denSumR dv) l ltail with
    | .error e => .error e
    | .ok vl => match denSideR (denRhsR dv cfg.includeIntercept) p tail with
      | .error e => .error e
      | .ok vr => .ok (.struct [("lhs", vl), ("rhs", vr)])

/-- **the documented denotation of a formula with sign runs and zeros**, validated -/
def denoteFormulaR (cfg : ParseCfg) (dv : Except ParseErr (List Term)) (f : FormulaR) : Except ParseErr Val :=
  validate (denStructR cfg dv f)

/-- **what `.` denotes**: the available variables (first occurrences, in order) that the left-hand side does
not use, one term each; a parsing error if the context does not say which variables are available
(`insert_unused_terms`; `Props/C17.lean` C17.6a–c is about this expansion) -/
def dotValue (available : Option (List String)) (usedLhs : List String) : Except ParseErr (List Term) :=
  match available with
  | none => .error (.syntax "`.` needs the available variables")
  | some av => .ok (oset (((dedupBy id av).filter (fun v => !usedLhs.contains v)).map (fun v => [Factor.mk v .lookup])))

/-- the variables of the left-hand side (`__formulaic_variables_used_lhs__`): names, and the data variables of
Python fragments (`env.pyvars`, a parameter), of the tokens in front of the `~` -/
def lhsVars (env : PyEnv) : FormulaR → List String
  | .two l ltail _ _ => lhsVariables env (partsWith SumR.raw l ltail)
  | _ => []

/-- the value of `.` for this formula in this environment -/
def dotOf (env : PyEnv) (f : FormulaR) : Except ParseErr (List Term) := dotValue env.available (lhsVars env f)

/-! ### formulas without `.` -/
mutual
def _root_.FormulaicVerif.Proofs.C01GrammarR.AtomR.NoDot : AtomR → Prop
  | .tok _ _ => True
  | .paren s => s.NoDot
  | .dot => False
def _root_.FormulaicVerif.Proofs.C01GrammarR.PowR.NoDot : PowR → Prop
  | .atom a => a.NoDot
  | .pow _ a p => a.NoDot ∧ p.NoDot
def _root_.FormulaicVerif.Proofs.C01GrammarR.InterR.NoDot : InterR → Prop
  | .pow p => p.NoDot
  | .inter i p => i.NoDot ∧ p.NoDot
def _root_.FormulaicVerif.Proofs.C01GrammarR.ProdR.NoDot : ProdR → Prop
  | .inter i => i.NoDot
  | .mul _ p i => p.NoDot ∧ i.NoDot
def _root_.FormulaicVerif.Proofs.C01GrammarR.SumR.NoDot : SumR → Prop
  | .first _ p => p.NoDot
  | .firstZero _ => True
  | .add _ s p => s.NoDot ∧ p.NoDot
  | .addZero _ s => s.NoDot
end

/-- the formula does not contain the wildcard `.` -/
def _root_.FormulaicVerif.Proofs.C01DenoteR.FormulaR.NoDot : FormulaR → Prop
  | .one p tail => p.NoDot ∧ ∀ q ∈ tail, q.NoDot
  | .tilde p tail => p.NoDot ∧ ∀ q ∈ tail, q.NoDot
  | .two l ltail p tail => (l.NoDot ∧ ∀ q ∈ ltail, q.NoDot) ∧ (p.NoDot ∧ ∀ q ∈ tail, q.NoDot)

/-- what the feature flags allow -/
def FormulaR.Enabled (cfg : ParseCfg) : FormulaR → Prop
  | .one _ tail => tail = [] ∨ cfg.multipart = true
  | .tilde _ tail => tail = [] ∨ cfg.multipart = true
  | .two _ ltail _ tail => cfg.twosided = true ∧ ((ltail = [] ∧ tail = []) ∨ cfg.multipart = true)

end FormulaicVerif.Spec.DenoteR
