import FormulaicVerif.Model.StructuredOps
/-! Reference notions for the container protocol of `Structured` (C19, section 6). -/
namespace FormulaicVerif.Spec.ContainerOps
open FormulaicVerif.Model.St FormulaicVerif.Model.StOps

/-- two path elements that can never address the same child of one object: different keys, or
indices of the same sign that differ (an index and a key never both resolve on one object) -/
def Apart : Key → Key → Prop
  | .str a, .str b => a ≠ b
  | .int i, .int j => ((0 ≤ i ∧ 0 ≤ j) ∨ (i < 0 ∧ j < 0)) ∧ i ≠ j
  | .str _, .int _ => True
  | .int _, .str _ => True
  | _, .none => True
  | .none, _ => True

variable {α : Type}

mutual
/-- every `Structured` inside the value has unique keys, none of which starts with `_` — what the
constructor and `__setitem__` guarantee -/
def GoodKeys : Val α → Prop
  | .leaf _ => True
  | .tup vs => GoodKeysT vs
  | .node kvs => (kvs.map (·.1)).Nodup ∧ kvs.all (fun kv => !badKey kv.1) = true ∧ GoodKeysI kvs
def GoodKeysT : List (Val α) → Prop
  | [] => True
  | v :: vs => GoodKeys v ∧ GoodKeysT vs
def GoodKeysI : Items α → Prop
  | [] => True
  | (_, v) :: r => GoodKeys v ∧ GoodKeysI r
end

/-- the values an operation brings into the structure -/
def Op.newVal : Op α → Option (Val α)
  | .set _ v => some v
  | .setattr _ v => some v
  | _ => none

/-- operations that can change the object at all -/
def Op.mutating : Op α → Bool
  | .set _ _ => true
  | .setattr _ _ => true
  | _ => false

end FormulaicVerif.Spec.ContainerOps
