import FormulaicVerif.Model.Materialize
/-! Reference notions the C02 / C03 properties are stated against (short and readable on purpose). -/
namespace FormulaicVerif.Spec
open FormulaicVerif.Model

/-- row-wise Kronecker enumeration: every way to pick one entry per factor, in the order in which
the FIRST factor varies fastest -/
def kron {α} : List (List α) → List (List α)
  | [] => [[]]
  | f :: rest => (kron rest).flatMap (fun tail => f.map (· :: tail))

/-- the product of the `i`-th entries of the given columns -/
def rowProd (cols : List Col) (i : Nat) : Rat := (cols.map (·.getD i 0)).foldr (· * ·) 1

/-- element-wise product of a list of columns (`ones n` for the empty list) -/
def colProd (n : Nat) : List Col → Col
  | [] => Col.ones n
  | c :: cs => cs.foldl Col.mul c

/-- `col` is the column that the structural label part `p` names: the column stored under
`p.field` in the encoding (reduced or full, as `p.reduced` says) of the cached factor `p.expr` -/
def NamesColumn (c : Cache) (p : Part) (col : Col) : Prop :=
  ∃ f, c.get p.expr = .ok f ∧
    match (if p.reduced then f.encReduced else f.encFull).val, p.field with
    | .single c', none => col = c'
    | .dict cols, some fld => (fld, col) ∈ cols
    | _, _ => False

/-- the format template `_flatten_encoded_evaled_factor` uses for an encoding -/
def formatOf (e : Encoded) (reduced : Bool) : Fmt :=
  if (e.spansIntercept && reduced) || e.reducedMeta then e.fmtReduced.getD e.fmt else e.fmt

/-- how a structural label part is printed: the bare factor expression for a single-column
encoding, else the factor's format template applied to expression and field -/
def printedPart (c : Cache) (p : Part) : String :=
  match c.get p.expr, p.field with
  | .ok f, some fld =>
    (formatOf (if p.reduced then f.encReduced else f.encFull) p.reduced).format p.expr fld.text
  | _, _ => p.expr

/-- the literal scale of a term: the product of its constant factors (left to right) -/
def literalScale (efs : List EvaledFactor) : Rat :=
  (efs.filterMap (fun f => match f.kind with | .constant v => some v | _ => none)).foldl (· * ·) 1

/-- the non-constant evaluated factors of a term, in term order -/
def nonConstant (efs : List EvaledFactor) : List EvaledFactor :=
  efs.filter (fun f => match f.kind with | .constant _ => false | _ => true)

/-- the full (not rank-reduced) encodings of a list of factors, as `_encode_evaled_factor(…, reduced_rank=False)` flattens them -/
def fullEncodings : List EvaledFactor → Except MErr (List (List Item))
  | [] => .ok []
  | f :: r =>
    match encodeEvaledFactor f false with
    | .error e => .error e
    | .ok items =>
      match fullEncodings r with
      | .error e => .error e
      | .ok rest => .ok (items :: rest)

/-- insertion-ordered dictionary built from a list of entries (later entries with the same name
replace the values of the earlier one in place) -/
def dictOfList (es : List Entry) : List Entry := dictUpdate [] es

/-- the matrix column for one choice of encoded columns: name, structural label, scaled product -/
def entryOf (n : Nat) (scale : Rat) (p : List Item) : Entry :=
  ⟨joinColon (p.map (·.name)), p.map (·.part), Col.smul scale (colProd n (p.map (·.col)))⟩

end FormulaicVerif.Spec
