import FormulaicVerif.Model.Term
/-! Reference semantics for C20: the partial derivative of a product of distinct factors.
A term is the product of its factors (the empty product is `1`); `none` stands for `0`. -/
namespace FormulaicVerif.Spec
open FormulaicVerif.Model

/-- ∂/∂v of a product of distinct factors: `0` when `v` does not occur, the product with `v`
removed when it does -/
def dFactors (fs : List Factor) (v : String) : Option (List Factor) :=
  if fs.any (fun f => f.expr == v) then some (fs.filter (fun f => !(f.expr == v))) else none

/-- successive differentiation, left to right; the derivative of `0` is `0` -/
def dMany : Option (List Factor) → List String → Option (List Factor)
  | none, _ => none
  | some fs, [] => some fs
  | some fs, v :: vs => dMany (dFactors fs v) vs

/-- how a derivative is written as a term: `0`, `1` for the empty product, otherwise the factors -/
def render : Option (List Factor) → Term
  | none => [litZero]
  | some [] => [litOne]
  | some fs => fs

/-- the reference derivative of a whole term list: term by term, same length, same order -/
def dTerms (ts : List Term) (wrt : List String) : List Term :=
  ts.map (fun t => render (dMany (some t) wrt))

end FormulaicVerif.Spec
