import FormulaicVerif.Model.Replay
/-! Reference notions property C04 is stated against. -/
namespace FormulaicVerif.Spec.Replay
open FormulaicVerif.Model FormulaicVerif.Model.Replay

/-- The laws of the state-first protocol.  `Good` singles out the recorded states that are complete
(a state in which a statistic is still missing would be fitted on the next call; every state a fit
leaves behind is good). -/
structure Lawful {α β σ ε : Type} (t : T α β σ ε) (Good : σ → Prop) : Prop where
  /-- what a fit records is a complete state -/
  fit_good : ∀ xs st out, t.fit xs = .ok (st, out) → Good st
  /-- replaying the recorded state on the data it was fitted on reproduces the fitted output and
  leaves the state as it is -/
  after_fit : ∀ xs st out, t.fit xs = .ok (st, out) → t.run st xs = .ok (out, st)
  /-- a replay applies `row st` to every row and does not touch the state -/
  rowwise : ∀ st xs out st', Good st → t.run st xs = .ok (out, st') → out = xs.map (t.row st) ∧ st' = st
  /-- a replay that succeeds on some rows succeeds on every frame made of such rows -/
  closed : ∀ st xs ys r, Good st → t.run st xs = .ok r → (∀ y ∈ ys, y ∈ xs) → ∃ r', t.run st ys = .ok r'

end FormulaicVerif.Spec.Replay

namespace FormulaicVerif.Model.Replay

/-- the rows `is` of keyed columns -/
def selCols (is : List Nat) (cs : List (Field × List Rat)) : List (Field × List Rat) :=
  cs.map (fun p => (p.1, select is p.2))

/-- the rows `is` of a factor value -/
def Value.select (is : List Nat) : Value → Value
  | .vec v => .vec (Replay.select is v)
  | .cols d m cs => .cols d m (selCols is cs)

/-- the rows `is` of a matrix column -/
def selEntry (is : List Nat) (e : Entry) : Entry := { e with col := select is e.col }

/-- every column has `n` entries -/
def Value.Len (n : Nat) : Value → Prop
  | .vec v => v.length = n
  | .cols _ _ cs => ∀ p ∈ cs, p.2.length = n

/-- what the decorator's wrapper dispatches on: a vector, a dict with its keys
(`isinstance(data, dict)`), or a 2-D array with its number of columns -/
inductive Shape
  | vec
  | dict (keys : List Field)
  | arr (width : Nat)
deriving DecidableEq, Repr

def Value.shape : Value → Shape
  | .vec _ => .vec
  | .cols true _ cs => .dict (cs.map (·.1))
  | .cols false _ cs => .arr cs.length

/-- the shape of the result of a stateful call, from the transform, its recorded state and the
shape of its argument: `scale`-family → the shape of the argument (vector → vector; dict → dict with
the same keys; array → array of the same width); `poly` → `degree` columns; `bs`/`cr`/`cc` → the keys
their recorded knots give -/
def resultShape (tr : Tr) (p : Params) (st : TState) (arg : Option Shape) : Option Shape :=
  match tr, st with
  | .scale _ _ _, .scale _ => some .vec
  | .scale _ _ _, .keyed _ => arg
  | .scale _ _ _, .arr _ => arg
  | .poly d _, .poly _ => some (.arr d)
  | .bs a, .bs s => some (.dict ((bsKeys a s).map natField))
  | .cs _, .cs s => some (.dict (csKeys p.getQ2 s))
  | _, _ => none

/-- The shape of the value of an expression as the RECORDED states determine it (no data needed).
`none`: a call without recorded state (or with the state of another transform). -/
def shapeOf (env : Env) (ts : TStates) : Expr → Option Shape
  | .col _ => some .vec
  | .binc _ _ _ => some .vec
  | .bin _ _ _ => some .vec
  | .elem _ _ => some .vec
  | .call text a =>
    match env.call (stateKey env.norm text), getKey ts (stateKey env.norm text) with
    | some (tr, p), some st => resultShape tr p st (shapeOf env ts a)
    | _, _ => none

end FormulaicVerif.Model.Replay

namespace FormulaicVerif.Spec.Replay
open FormulaicVerif.Model FormulaicVerif.Model.Replay

/-- a state that some fit has recorded -/
def Reachable {α β σ ε : Type} (t : T α β σ ε) (st : σ) : Prop := ∃ xs out, t.fit xs = .ok (st, out)

/-- all three statistics of the `scale` family are recorded -/
def ScaleComplete (s : Scale.State Rat) : Prop := s.ddof.isSome ∧ s.center.isSome ∧ s.scale.isSome

instance (s : Scale.State Rat) : Decidable (ScaleComplete s) := by unfold ScaleComplete; infer_instance

/-- the recorded state of a stateful call is complete for the transform it belongs to: nothing
would be fitted by the next call -/
def Complete (p : Params) : Tr → TState → Prop
  | .scale _ _ _, .scale s => ScaleComplete s
  | .poly d raw, .poly s => Reachable (polyT p.sqrt d raw) s
  | .bs _, .bs _ => True
  | .cs _, .cs _ => True
  | _, _ => False

/-- a nested per-key state / per-column state of a `scale`-family call in which every recorded
sub-state is complete -/
def NestedComplete : Tr → TState → Prop
  | .scale _ _ _, .keyed m => ∀ k s, getKey m k = some s → ScaleComplete s
  | .scale _ _ _, .arr ss => ∀ s ∈ ss, ScaleComplete s
  | _, _ => False

/-- nothing recorded is half-fitted: a complete state of the transform, or a nested state all of
whose recorded sub-states are complete -/
def CompleteAny (p : Params) (tr : Tr) (st : TState) : Prop := Complete p tr st ∨ NestedComplete tr st

/-- the recorded state of a stateful call is what a replay on an argument of shape `sh` reads:
for a vector a complete state of the transform; for a dict a nested state with a complete entry for
every visible key of the dict; for a 2-D array one complete state per column -/
def ReadyFor (p : Params) (tr : Tr) (st : TState) : Shape → Prop
  | .vec => Complete p tr st
  | .dict ks =>
    match tr, st with
    | .scale _ _ _, .keyed m => ∀ k ∈ ks, k.hidden = false → ∃ s, getKey m k = some s ∧ ScaleComplete s
    | _, _ => False
  | .arr w =>
    match tr, st with
    | .scale _ _ _, .arr ss => ss.length = w ∧ ∀ s ∈ ss, ScaleComplete s
    | _, _ => False

/-- the call nodes of an expression find a complete recorded state under their key -/
def ExprReady (env : Env) (ts : TStates) : Expr → Prop
  | .col _ => True
  | .binc _ a _ => ExprReady env ts a
  | .bin _ a b => ExprReady env ts a ∧ ExprReady env ts b
  | .elem _ a => ExprReady env ts a
  | .call text a => ExprReady env ts a ∧
      ∃ tr p st sh, env.call (stateKey env.norm text) = some (tr, p) ∧
        getKey ts (stateKey env.norm text) = some st ∧ shapeOf env ts a = some sh ∧ ReadyFor p tr st sh

/-- a factor finds everything a replay reads: complete transform states, recorded categories -/
def FactorReady (env : Env) (ts : TStates) (es : EStates) (x : String) : Prop :=
  match env.sem x with
  | some (.num e) => ExprReady env ts e
  | some (.cat _ _ _) => ∃ cats, getKey es x = some cats
  | _ => True

/-- the spec carries the complete state of a fit of its formula (true of every spec attached to a
model matrix: `Props.C04.fit_ready`) -/
def Ready (env : Env) (s : Spec) : Prop :=
  ∀ x ∈ s.formula.flatten, FactorReady env s.transformState s.encoderState x

/-- every recorded transform state is complete for the call it is keyed by -/
def StatesComplete (env : Env) (ts : TStates) : Prop :=
  ∀ k tr p st, env.call k = some (tr, p) → getKey ts k = some st → CompleteAny p tr st

/-- `ts'` extends `ts`: same value under every key of `ts` -/
def Extends {κ σ : Type} [DecidableEq κ] (ts ts' : List (κ × σ)) : Prop :=
  ∀ k v, getKey ts k = some v → getKey ts' k = some v

/-- one recorded state extends another: the same state, or a nested per-key state with more keys -/
def StExt (a b : TState) : Prop :=
  a = b ∨ ∃ m m', a = .keyed m ∧ b = .keyed m' ∧ Extends m m'

/-- `ts'` extends the transform-state dictionary `ts`: every key of `ts` is still there, with the
same state (or, for a nested per-key state, an extension of it) -/
def TExtends (ts ts' : TStates) : Prop :=
  ∀ k v, getKey ts k = some v → ∃ v', getKey ts' k = some v' ∧ StExt v v'

end FormulaicVerif.Spec.Replay
