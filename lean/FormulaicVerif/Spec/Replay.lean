import FormulaicVerif.Model.Replay
/-! Reference notions property C04 is stated against. -/
namespace FormulaicVerif.Spec.Replay
open FormulaicVerif.Model FormulaicVerif.Model.Replay

/-- The laws of the state-first protocol.  `Good` singles out the recorded states that are complete
(a state in which a statistic is still missing would be fitted on the next call; every state a fit
leaves behind is good). -/
structure Lawful {α β σ ε : Type} (t : T α β σ ε) (Good : σ → Prop) : Prop where
  /-- what a fit records is a complete state -/
  fit_good : ∀ xs st out, t.fit xs = .ok (st, out) → Good st
  /-- replaying the recorded state on the data it was fitted on reproduces the fitted output and
  leaves the state as it is -/
  after_fit : ∀ xs st out, t.fit xs = .ok (st, out) → t.run st xs = .ok (out, st)
  /-- a replay applies `row st` to every row and does not touch the state -/
  rowwise : ∀ st xs out st', Good st → t.run st xs = .ok (out, st') → out = xs.map (t.row st) ∧ st' = st
  /-- a replay that succeeds on some rows succeeds on every frame made of such rows -/
  closed : ∀ st xs ys r, Good st → t.run st xs = .ok r → (∀ y ∈ ys, y ∈ xs) → ∃ r', t.run st ys = .ok r'

end FormulaicVerif.Spec.Replay

namespace FormulaicVerif.Model.Replay

/-- the rows `is` of keyed columns -/
def selCols (is : List Nat) (cs : List (Field × List Rat)) : List (Field × List Rat) :=
  cs.map (fun p => (p.1, select is p.2))

/-- the rows `is` of a factor value -/
def Value.select (is : List Nat) : Value → Value
  | .vec v => .vec (Replay.select is v)
  | .cols d m cs => .cols d m (selCols is cs)

/-- the rows `is` of a matrix column -/
def selEntry (is : List Nat) (e : Entry) : Entry := { e with col := select is e.col }

/-- every column has `n` entries -/
def Value.Len (n : Nat) : Value → Prop
  | .vec v => v.length = n
  | .cols _ _ cs => ∀ p ∈ cs, p.2.length = n

end FormulaicVerif.Model.Replay

namespace FormulaicVerif.Spec.Replay
open FormulaicVerif.Model FormulaicVerif.Model.Replay

/-- a state that some fit has recorded -/
def Reachable {α β σ ε : Type} (t : T α β σ ε) (st : σ) : Prop := ∃ xs out, t.fit xs = .ok (st, out)

/-- all three statistics of the `scale` family are recorded -/
def ScaleComplete (s : Scale.State Rat) : Prop := s.ddof.isSome ∧ s.center.isSome ∧ s.scale.isSome

instance (s : Scale.State Rat) : Decidable (ScaleComplete s) := by unfold ScaleComplete; infer_instance

/-- the recorded state of a stateful call is complete for the transform it belongs to: nothing
would be fitted by the next call -/
def Complete (p : Params) : Tr → TState → Prop
  | .scale _ _ _, .scale s => ScaleComplete s
  | .poly d raw, .poly s => Reachable (polyT p.sqrt d raw) s
  | .bs _, .bs _ => True
  | .cs _, .cs _ => True
  | _, _ => False

/-- the call nodes of an expression find a complete recorded state under their key -/
def ExprReady (env : Env) (ts : TStates) : Expr → Prop
  | .col _ => True
  | .binc _ a _ => ExprReady env ts a
  | .bin _ a b => ExprReady env ts a ∧ ExprReady env ts b
  | .elem _ a => ExprReady env ts a
  | .call text a => ExprReady env ts a ∧
      ∃ tr p st, env.call (stateKey env.norm text) = some (tr, p) ∧
        getKey ts (stateKey env.norm text) = some st ∧ Complete p tr st

/-- a factor finds everything a replay reads: complete transform states, recorded categories -/
def FactorReady (env : Env) (ts : TStates) (es : EStates) (x : String) : Prop :=
  match env.sem x with
  | some (.num e) => ExprReady env ts e
  | some (.cat _ _ _) => ∃ cats, getKey es x = some cats
  | _ => True

/-- the spec carries the complete state of a fit of its formula (true of every spec attached to a
model matrix: `Props.C04.fit_ready`) -/
def Ready (env : Env) (s : Spec) : Prop :=
  ∀ x ∈ s.formula.flatten, FactorReady env s.transformState s.encoderState x

/-- every recorded transform state is complete for the call it is keyed by -/
def StatesComplete (env : Env) (ts : TStates) : Prop :=
  ∀ k tr p st, env.call k = some (tr, p) → getKey ts k = some st → Complete p tr st

/-- `ts'` extends `ts`: same value under every key of `ts` -/
def Extends {κ σ : Type} [DecidableEq κ] (ts ts' : List (κ × σ)) : Prop :=
  ∀ k v, getKey ts k = some v → getKey ts' k = some v

end FormulaicVerif.Spec.Replay
