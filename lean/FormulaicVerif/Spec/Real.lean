import FormulaicVerif.Model.Elementwise
import Mathlib.Analysis.SpecialFunctions.Pow.Real
import Mathlib.Analysis.SpecialFunctions.Log.Base
import Mathlib.Analysis.SpecialFunctions.Sqrt
/-! Reference semantics over `ℝ` for C13: the statistics `scale` is specified by, and the real
function each elementwise name denotes. -/
namespace FormulaicVerif.Spec.Real
open FormulaicVerif.Model.Elementwise

/-- arithmetic mean -/
noncomputable def mean (xs : List ℝ) : ℝ := xs.sum / xs.length

/-- standard deviation with `ddof` delta degrees of freedom:  √( Σ (x - mean)² / (n - ddof) ) -/
noncomputable def std (ddof : ℝ) (xs : List ℝ) : ℝ :=
  Real.sqrt ((xs.map (fun x => (x - mean xs) ^ 2)).sum / (xs.length - ddof))

/-- the function a name denotes: `exp10 x = 10 ^ x`, `exp2 x = 2 ^ x`, `log2 = log_2`, `log10 = log_10` -/
noncomputable def denote : RealFn → ℝ → ℝ
  | .log => Real.log
  | .log2 => Real.logb 2
  | .log10 => Real.logb 10
  | .exp => Real.exp
  | .exp2 => fun x => (2 : ℝ) ^ x
  | .exp10 => fun x => (10 : ℝ) ^ x

end FormulaicVerif.Spec.Real
