import FormulaicVerif.Model.Crossed
import FormulaicVerif.Spec.MatrixRef
/-! Decidable well-formedness of a design description of `Model.Crossed`: the executable form of the hypotheses of
`Props.C03.crossed_model_full_rank_same_span` (`Proofs/C03CrossedMain.lean` proves that the checks imply them). The
engine evaluates `certified` for every `crossed` case of the correspondence. Core Lean only. -/
namespace FormulaicVerif.Spec.C03Check
open FormulaicVerif.Model FormulaicVerif.Spec FormulaicVerif.Spec.C03 FormulaicVerif.Model.Crossed
open FormulaicVerif.Model.Contrasts (Label Contrast)

def isAxisB : FactorSpec → Bool
  | .column _ _ => true
  | .wrapped _ _ _ => true
  | _ => false

def specColB : FactorSpec → Nat
  | .column _ c => c
  | .wrapped _ c _ => c
  | _ => 0

/-- flattening loses nothing: as many entries as the coding table has columns -/
def noLossB (ev : Evaled) (n : Nat) : Bool :=
  (match encodeEvaledFactor ev.ef false with
    | .ok tab => tab.length == n
    | .error _ => true) &&
  (match encodeEvaledFactor ev.ef true with
    | .ok tab => tab.length == n - 1
    | .error _ => true)

/-- a numeric column takes two different values -/
def twoValuesB (vs : List Rat) : Bool :=
  (List.range vs.length).any (fun a => (List.range vs.length).any (fun b => vs[a]?.getD 0 != vs[b]?.getD 0))

def scoresDistinctB : Contrast → Bool
  | .poly (some sc) => decide sc.Nodup
  | _ => true

def isOkB {ε α} : Except ε α → Bool
  | .ok _ => true
  | .error _ => false

def inferOKB (d : Design) (levels : List Label) (decl : Bool) (c : Nat) : Bool :=
  decl || decide (Contrasts.inferLevels (labelColumn levels c (rows d)) = levels)

def axisOKB (d : Design) (spec : FactorSpec) (ev : Evaled) : Bool :=
  match d.columns[specColB spec]?, spec with
  | some (.num vs), .column _ _ => twoValuesB vs
  | some (.cat levels decl), .column _ c =>
    !levels.isEmpty && decide levels.Nodup && inferOKB d levels decl c && ev.errFull.isNone && noLossB ev levels.length
  | some (.cat levels decl), .wrapped _ c ct =>
    !levels.isEmpty && decide levels.Nodup && inferOKB d levels decl c && ev.errFull.isNone && ev.errReduced.isNone &&
      scoresDistinctB ct && isOkB (ct.kind levels) && isOkB (Contrasts.getCodingMatrix ct levels false d.sparse) &&
      isOkB (Contrasts.getCodingMatrix ct levels true d.sparse) && noLossB ev levels.length
  | _, _ => false

def axesOfB (d : Design) (evs : List Evaled) : List (FactorSpec × Evaled) :=
  (d.factors.zip evs).filter (fun p => isAxisB p.1)

def designOKB (d : Design) (evs : List Evaled) : Bool :=
  decide ((evs.map (·.ef)).map (·.expr)).Nodup &&
  decide ((axesOfB d evs).map (fun p => specColB p.1)).Nodup &&
  d.columns.all (fun col => decide (0 < col.size)) &&
  (axesOfB d evs).all (fun p => axisOKB d p.1 p.2)

/-- no term is scaled by zero -/
def nonzeroScaleB (c : Cache) (t : MTerm) : Bool :=
  match evaledFactors c t with
  | .ok efs => literalScale efs != 0
  | .error _ => true

/-- every hypothesis of `crossed_model_full_rank_same_span` holds for this design, term list, clustering and output
assembly -/
def certified (d : Design) (terms : List MTerm) (cluster asDict : Bool) : Bool :=
  match evalFactors d d.factors with
  | .error _ => false
  | .ok evs =>
    designOKB d evs && terms.all (fun t => decide t.Nodup) && terms.all (nonzeroScaleB (evs.map (·.ef))) &&
      noCollision (configOf d evs terms true cluster) asDict && noCollision (configOf d evs terms false cluster) asDict

end FormulaicVerif.Spec.C03Check
