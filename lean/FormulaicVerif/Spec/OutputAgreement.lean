import FormulaicVerif.Model.Sparse
import FormulaicVerif.Model.EntryPoints
/-! # C05 — the property as ONE reading of the model: which numbers a call yields

A call goes through the plumbing (`Model/EntryPoints.lean`: entry point → the requests that reach
`FormulaMaterializer.get_model_matrix`); every prepared leaf of a request is then materialised by
the column pipeline of its OUTPUT TYPE (`Model/Sparse.lean`: the sparse pipeline for `"sparse"`,
the dense one for `"pandas"`, `"numpy"` and `"narwhals"`). `valuesVia` composes the two: for an entry
point and a call it gives, request by request and leaf by leaf, the column names and the dense
reading of the value matrix. What a formula evaluates to on the call's data (its terms with their
scale and evaluated factors, the row count) is the content of properties C02/C06 and is a parameter
here (`content`). Core Lean only. -/
namespace FormulaicVerif.Spec.OutputAgreement
open FormulaicVerif.Model FormulaicVerif.Model.Sparse FormulaicVerif.Model.EntryPoints

/-- what formula `f` evaluates to on the data of the call -/
structure Content where
  nrows : Nat
  terms : List STerm

/-- names and numbers (dense reading) of the matrix of one prepared leaf -/
def valuesOf (content : Nat → Content) (ms : MSpec) : Except MErr (List String × List Col) :=
  if ms.output = some "sparse" then
    (sparsePipeline (content ms.formula).nrows (content ms.formula).terms).map (fun r => (r.1, r.2.toDense))
  else densePipeline (content ms.formula).terms

/-- request by request, leaf by leaf: key of the leaf and its matrix -/
def valuesOfRequests (content : Nat → Content) (rs : List Request) :
    List (List (String × Except MErr (List String × List Col))) :=
  rs.map (fun q => q.specs.map (fun l => (l.1, valuesOf content l.2)))

/-- the numbers entry point `e` yields for call `c` -/
def valuesVia (env : Env) (content : Nat → Content) (e : EntryPoints.Entry) (c : Call) :
    Except Err (List (List (String × Except MErr (List String × List Col)))) :=
  (requestVia env e c).map (valuesOfRequests content)

/-- the same call asking for output type `o` (`output=o` as the last keyword) -/
def withOutput (c : Call) (o : String) : Call := { c with overrides := c.overrides ++ [.output (some o)] }

end FormulaicVerif.Spec.OutputAgreement
