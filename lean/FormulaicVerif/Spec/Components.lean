import FormulaicVerif.Model.Materialize
import FormulaicVerif.Model.Term
/-! Structural components of scoped terms (C03), as in the patsy construction: the full coding of a
factor that spans the intercept is `1 ⊕ (reduced coding)`, so a scoped term with optional (full,
intercept-spanning) factors is the direct sum of one component per choice of presence of each
optional factor. A component is identified by the sorted tuple of the factor expressions present. -/
namespace FormulaicVerif.Spec
open FormulaicVerif.Model

/-- `spans_intercept` of a cached factor -/
def spansOf (c : Cache) (e : String) : Bool :=
  match c.get e with
  | .ok f => f.spansIntercept
  | .error _ => false

/-- optional in a component: full-coded and spanning the intercept; every other factor (reduced
coding, numerical, non-spanning categorical) is present in every component -/
def optionalSF (spans : String → Bool) (f : SF) : Bool := !f.reduced && spans f.expr

/-- all choices of presence for the optional factors, factors kept in the scoped term's order -/
def rawComps (spans : String → Bool) : List SF → List (List String)
  | [] => [[]]
  | f :: r =>
    if optionalSF spans f then (rawComps spans r).map (f.expr :: ·) ++ rawComps spans r
    else (rawComps spans r).map (f.expr :: ·)

/-- the structural components of a scoped term (each as a sorted tuple of factor expressions) -/
def comps (spans : String → Bool) (st : ST) : List (List String) :=
  (rawComps spans st.factors).map sortStrings

/-- the components of a list of scoped terms, with multiplicity -/
def compsAll (spans : String → Bool) (ts : List ST) : List (List String) := ts.flatMap (comps spans)

/-- well-formed scoped term: every factor expression occurs once, and only intercept-spanning
factors are ever marked reduced -/
def STWF (spans : String → Bool) (st : ST) : Prop :=
  (st.factors.map (·.expr)).Nodup ∧ ∀ f ∈ st.factors, f.reduced = true → spans f.expr = true

end FormulaicVerif.Spec
