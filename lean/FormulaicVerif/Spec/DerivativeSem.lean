import FormulaicVerif.Spec.Derivative
import Mathlib.Algebra.Ring.Basic
/-! Reference semantics for C20, second clause: the value of a term (product of its factors) in a
commutative ring, shifting one variable, and iterated exact finite differences. -/
namespace FormulaicVerif.Spec
open FormulaicVerif.Model

section
variable {R : Type} [CommRing R]

/-- value of a product of factors under an assignment of values to factor expressions -/
def evalProd (env : String → R) : List Factor → R
  | [] => 1
  | f :: r => env f.expr * evalProd env r

/-- value of a derivative: `none` is `0` -/
def evalD (env : String → R) : Option (List Factor) → R
  | none => 0
  | some fs => evalProd env fs

/-- the assignment with `h` added to the variable `v` -/
def shift (env : String → R) (v : String) (h : R) : String → R :=
  fun k => if k = v then env k + h else env k

/-- the iterated exact finite difference of the term's value: one variable after the other, each
with its own step (for the list `[(v₁,h₁), …]`: `Δ_{v₁,h₁} (Δ_{v₂,h₂} (… ⟦t⟧))`) -/
def fdMany (fs : List Factor) : (String → R) → List (String × R) → R
  | env, [] => evalProd env fs
  | env, (v, h) :: rest => fdMany fs (shift env v h) rest - fdMany fs env rest

end

/-- one more differentiation of an already differentiated term (`0` stays `0`) -/
def dOpt (d : Option (List Factor)) (v : String) : Option (List Factor) :=
  match d with
  | none => none
  | some fs => dFactors fs v

end FormulaicVerif.Spec
