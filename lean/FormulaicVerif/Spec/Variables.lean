import FormulaicVerif.Model.Variables
/-! Reference notions the C17 theorems are stated against: which layer a key comes from, which data
columns an evaluation reads, where each `Name` node of an expression ends up in the extracted
variables, and the side conditions under which the reported sets are exact. -/
namespace FormulaicVerif.Spec.Variables
open FormulaicVerif.Model.Variables FormulaicVerif.Model.LMap

variable {ν : Type}

/-- the caller's context written out top first as one association list (nested layers expanded) -/
def contextItems (L : Layers ν) : List (String × ν) := L.context.flat

/-- the value of key `k`: data first, then the caller's context, then the transforms -/
def valueOf (L : Layers ν) (k : String) : Option ν :=
  (L.data ++ contextItems L ++ L.transforms).lookup k

/-- value and name of the first of data, context, transforms that contains `k`. Inside the context
the name is the path of layer names from `context` down to the layer holding the key
(`Layer.getNamed`, the model of `get_with_layer_name` of C19); it is exactly `context` when no
sub-layer of the caller's context is named (`Props.C17.context_source`). -/
def firstLayer (L : Layers ν) (k : String) : Option (ν × Option String) :=
  match L.data.lookup k with
  | some v => some (v, some "data")
  | none => match L.context.getNamed ["context"] (some "context") k with
    | some x => some x
    | none => match L.transforms.lookup k with
      | some v => some (v, some "transforms")
      | none => none

mutual
/-- no `LayeredMapping` inside the layer carries a (truthy) name -/
def allUnnamed : Layer ν → Bool
  | .dict _ => true
  | .lm name _ layers => (named name).isNone && allUnnamedL layers
def allUnnamedL : List (Layer ν) → Bool
  | [] => true
  | l :: r => allUnnamed l && allUnnamedL r
end

/-- what CPython finds for a key: the three layers, then the builtins -/
def lookupAll (L : Layers ν) (k : String) : Option ν :=
  match valueOf L k with
  | some v => some v
  | none => L.builtins.lookup k

def dataKeys (L : Layers ν) : List String := L.data.map (·.1)

/-- no layer below the data binds `v` (removing the data column really unbinds the name) -/
def Unshadowed (L : Layers ν) (v : String) : Prop :=
  (contextItems L).lookup v = none ∧ L.transforms.lookup v = none ∧ L.builtins.lookup v = none

/-! ### occurrences of names in an expression -/

/-- one `Name` node together with the attribute chain that `_get_ast_node_variables` reports it
under: `base` = the identifier, `chain` = `base` or `base.attr…`, `callable` = the chain is called -/
structure Occ where
  base : String
  chain : String
  callable : Bool
deriving DecidableEq, Repr

/-- a `Name`/`Attribute` chain: its base identifier and dotted name -/
abbrev chainOcc : Expr → Option (String × String) := chain

/-- the occurrences whose base is not one of the names `b` -/
def freeOf (b : List String) (os : List Occ) : List Occ := os.filter (fun o => !b.contains o.base)

mutual
/-- every FREE `Name` node of the expression exactly once, with its chain (depth first): a `lambda`
removes the occurrences of its parameters from its body, a comprehension those of its targets from
everything but its first iterable -/
def occs : Expr → List Occ
  | .name id => [⟨id, id, false⟩]
  | .const _ => []
  | .attr v a =>
    match chainOcc (.attr v a) with
    | some p => [⟨p.1, p.2, false⟩]
    | none => occs v
  | .call f args kws =>
    match chainOcc f with
    | some p => ⟨p.1, p.2, true⟩ :: (occsList args ++ occsKws kws)
    | none => occs f ++ (occsList args ++ occsKws kws)
  | .unop _ x => occs x
  | .binop _ l r => occs l ++ occs r
  | .subscript v i => occs v ++ occs i
  | .seq _ es => occsList es
  | .lambda ps ds body => occsList ds ++ freeOf ps (occs body)
  | .comp _ elts gens => freeOf (gensTargets gens) (occsList elts) ++ occsGens (gensTargets gens) true gens
def occsList : List Expr → List Occ
  | [] => []
  | e :: es => occs e ++ occsList es
def occsKws : List (String × Expr) → List Occ
  | [] => []
  | k :: ks => occs k.2 ++ occsKws ks
def occsGens (T : List String) : Bool → List Gen → List Occ
  | _, [] => []
  | first, .mk _ it ifs :: gs =>
    (if first then occs it else freeOf T (occs it)) ++ freeOf T (occsList ifs) ++ occsGens T false gs
end

/-- the variable `_get_ast_node_variables` appends for an occurrence -/
def Occ.toVar (aliases : List (String × String)) (o : Occ) : Var :=
  if o.callable then Var.ofCallable (unalias aliases o.chain) else Var.ofValue (unalias aliases o.chain)

/-! ### what an evaluation reads -/

/-- the environment keys a factor reads: its name (lookup), or the back-quoted originals of the
identifiers of all `Name` nodes (Python) -/
def factorReads (f : PFactor) : List String :=
  match f.kind with
  | .lookup => [f.expr]
  | .literal => []
  | .python none => []
  | .python (some c) => (freeNames c.ast).map (unalias c.aliases)

/-- the keys a factor reads in STRICT position (`Model.Variables.strictNames`): removing one of them
makes the evaluation fail whatever the operations do -/
def factorStrictReads (f : PFactor) : List String :=
  match f.kind with
  | .lookup => [f.expr]
  | .literal => []
  | .python none => []
  | .python (some c) => (strictNames c.ast).map (unalias c.aliases)

/-- the data columns the formula reads -/
def usedColumns (L : Layers ν) (fs : List PFactor) : List String :=
  (fs.flatMap factorReads).filter (fun k => (dataKeys L).contains k)

/-! ### the contract of `sanitize_variable_names` (checked per case by the harness) -/

/-- the alias table maps fresh identifiers to the back-quoted names: sanitised names are pairwise
distinct, are bound nowhere (the `while new_name in env` loop), are not themselves back-quoted names,
no dotted chain is a sanitised name, and a name that had to be sanitised is not a builtin -/
structure AliasOK (L : Layers ν) (c : PyCode) : Prop where
  nodup : (c.aliases.map (·.1)).Nodup
  fresh : ∀ a ∈ c.aliases, a.1 ≠ a.2 →
    lookupAll L a.1 = none ∧ L.builtins.lookup a.2 = none ∧ ∀ b ∈ c.aliases, b.2 ≠ a.1
  chains : ∀ o ∈ occs c.ast, o.chain ≠ o.base → c.aliases.lookup o.chain = none
  /-- (not part of the sanitiser's contract) no layer binds a name `stateful_eval` reserves for
  itself and no sanitised name is one: otherwise every Python factor is rejected with a
  `RuntimeError` (`Props.C17.reserved_names_rejected`) -/
  noReserved : ∀ r ∈ Gen.reservedNames, valueOf L r = none ∧ c.aliases.lookup r = none

def FactorOK (L : Layers ν) (f : PFactor) : Prop :=
  match f.kind with
  | .python (some c) => AliasOK L c
  | _ => True

/-! ### side conditions of exactness (each one is a finding or an assumption of C17) -/

/-- data columns are used inside Python code as bare names only -/
structure PlainUse (L : Layers ν) (c : PyCode) : Prop where
  /-- no attribute access / method call on a data column (finding C17-F2) -/
  noAttrOnData : ∀ o ∈ occs c.ast, o.chain ≠ o.base → unalias c.aliases o.base ∉ dataKeys L
  /-- no back-quoted name with a '.' (finding C17-F3) -/
  noDotQuoted : ∀ o ∈ occs c.ast, o.chain = o.base →
    root (unalias c.aliases o.base) = unalias c.aliases o.base
  /-- no dotted chain spells the name of a data column -/
  noCollision : ∀ o ∈ occs c.ast, o.chain ≠ o.base → unalias c.aliases o.chain ∉ dataKeys L

def FactorPlain (L : Layers ν) (f : PFactor) : Prop :=
  match f.kind with
  | .python (some c) => PlainUse L c
  | _ => True

/-- additionally needed before materialisation: no data column is named like a transform
(finding C17-F1) or called -/
structure PlainBefore (L : Layers ν) (c : PyCode) : Prop where
  noTransformNamed : ∀ o ∈ occs c.ast, unalias c.aliases o.base ∈ dataKeys L →
    isTransformRoot (unalias c.aliases o.base) = false
  noCallableData : ∀ o ∈ occs c.ast, o.callable = true → unalias c.aliases o.chain ∉ dataKeys L

def FactorPlainBefore (L : Layers ν) (f : PFactor) : Prop :=
  match f.kind with
  | .python (some c) => PlainBefore L c
  | _ => True

/-- `v` is never the name of a dotted chain (removing a column cannot affect `x.attr`) -/
def BareVar (fs : List PFactor) (v : String) : Prop :=
  ∀ f ∈ fs, ∀ c, f.kind = .python (some c) →
    ∀ o ∈ occs c.ast, unalias c.aliases o.chain = v → o.chain = o.base

/-- operations on values never fail (then an unbound name is the only way to fail) -/
structure OpsTotal (ops : Ops ν) : Prop where
  attr : ∀ v a, ∃ r, ops.attr v a = .ok r
  call : ∀ f as ks, ∃ r, ops.call f as ks = .ok r
  unop : ∀ o v, ∃ r, ops.unop o v = .ok r
  binop : ∀ o l r, ∃ x, ops.binop o l r = .ok x
  subscript : ∀ v i, ∃ r, ops.subscript v i = .ok r
  iter : ∀ v, ∃ r, ops.iter v = .ok r
  truth : ∀ v, ∃ r, ops.truth v = .ok r
  unpack : ∀ n v, ∃ r, ops.unpack n v = .ok r ∧ r.length = n

mutual
/-- the expression has no binding construct (no `lambda`, no comprehension): the strict fragment -/
def noBinders : Expr → Bool
  | .name _ => true
  | .const _ => true
  | .attr v _ => noBinders v
  | .call f args kws => noBinders f && noBindersList args && noBindersKws kws
  | .unop _ x => noBinders x
  | .binop _ l r => noBinders l && noBinders r
  | .subscript v i => noBinders v && noBinders i
  | .seq _ es => noBindersList es
  | .lambda _ _ _ => false
  | .comp _ _ _ => false
def noBindersList : List Expr → Bool
  | [] => true
  | e :: es => noBinders e && noBindersList es
def noBindersKws : List (String × Expr) → Bool
  | [] => true
  | k :: ks => noBinders k.2 && noBindersKws ks
end

/-- the Python code of the factor (if any) is in the strict fragment -/
def FactorStrict (f : PFactor) : Prop :=
  match f.kind with
  | .python (some c) => noBinders c.ast = true
  | _ => True

/-- if `v` is read at all it is (also) read in strict position: it is not mentioned ONLY inside
lambda bodies or inside comprehensions apart from their first iterable -/
def NotOnlyLazy (fs : List PFactor) (v : String) : Prop :=
  v ∈ fs.flatMap factorReads → v ∈ fs.flatMap factorStrictReads

/-- `v` is read in strict position by some factor (it is not only mentioned inside a lambda body or
inside a comprehension: such a read need not happen) -/
def StrictRead (fs : List PFactor) (v : String) : Prop := v ∈ fs.flatMap factorStrictReads

end FormulaicVerif.Spec.Variables
