import FormulaicVerif.Model.ContrastsCache
/-! Reference semantics for a contrast factor that is used several times in one materialization:
each use is answered by a stand-alone `encode_contrasts(data, contrasts, levels=…, reduced_rank=r)`
on the original data — no memory of earlier uses. The first failing use aborts. -/
namespace FormulaicVerif.Spec.ContrastsCache
open FormulaicVerif.Model.Contrasts FormulaicVerif.Model.ContrastsExt FormulaicVerif.Model.ContrastsCache

/-- the categories the factor is encoded with: the explicit `levels=` or the sorted distinct values -/
def categories (f : Factor) : List Label :=
  match f.levels with
  | some ls => ls
  | none => inferLevels f.data

def direct (f : Factor) (q : Request) : Except MErr Encoded :=
  match xEncodeContrasts f.data f.contrast f.levels q.reduced f.output with
  | .ok (e, _) => .ok e
  | .error e => .error (.encode e)

def each (f : Factor) : List Request → Except MErr (List Encoded)
  | [] => .ok []
  | q :: qs =>
      match direct f q with
      | .error e => .error e
      | .ok out =>
          match each f qs with
          | .error e => .error e
          | .ok rest => .ok (out :: rest)

end FormulaicVerif.Spec.ContrastsCache
