import FormulaicVerif.Model.Materialize
import FormulaicVerif.Model.Contrasts
import FormulaicVerif.Gen.FactorMeta
/-! # The model matrix on a fully crossed design, computed from the design alone (C03)

`Model/Materialize.lean` receives the evaluated and encoded factors from the harness as data. Here the
factor cache itself is computed by the model, for the data the property C03 speaks about: a data frame
that contains every combination of the levels of its categorical columns and of the values of its
numeric columns (`itertools.product`, the LAST column varying fastest, exactly as the harness builds it).

What is mirrored (as written, quirks included):
* `FormulaMaterializer._evaluate_factor`: a looked-up column is categorical (spans the intercept) or
  numerical; `C(col, contr)` is categorical with its own encoder; a numeric literal is a constant; a name
  bound to `None` evaluates to a factor without values (`values.__wrapped__ is None`);
* `PandasMaterializer/NarwhalsMaterializer._encode_categorical` (a bare categorical column is ALWAYS
  encoded with `reduced_rank=False`, treatment contrasts; the reference column is deleted later by
  `_encode_evaled_factor`) and the encoder closure of `transforms.contrasts.C` (encodes with the requested
  rank); both through `encode_contrasts` / `Contrasts.apply`, i.e. through the model of
  `transforms/contrasts.py` that C11 proves things about (`Model/Contrasts.lean`: dummies, coding matrix,
  column names, `get_spans_intercept`, `get_drop_field`, `get_factor_format`, the empty short-circuit);
* `as_columns` of the encoded frame (`{column name: column}` in column order);
* `str.format` of the two-placeholder templates (`parseFmt`);
* since the repair "a category level whose name starts with `__` keeps its indicator column" the keys of an encoded
  factor are never hidden (`Model.flattenDict` no longer filters).

Everything downstream (`_get_scoped_terms`, …, `_combine_columns`) is `Model.buildMatrix` unchanged. -/
namespace FormulaicVerif.Model.Crossed
open FormulaicVerif.Model
open FormulaicVerif.Model.Contrasts (Label Contrast)

/-! ### the design -/

/-- a column of the data frame -/
inductive Column
  | cat (levels : List Label) (declared : Bool)
      -- categorical column taking every one of `levels`; `declared`: a `pandas.Categorical` with these
      -- categories in this order, else a plain object column (pandas infers the sorted distinct values)
  | num (values : List Rat)   -- numeric column taking every one of `values`
deriving Repr

def Column.size : Column → Nat
  | .cat ls _ => ls.length
  | .num vs => vs.length

/-- a factor expression of the formula and what it evaluates to -/
inductive FactorSpec
  | column (expr : String) (col : Nat)                    -- lookup of the `col`-th data column
  | wrapped (expr : String) (col : Nat) (c : Contrast)    -- `C(<col-th column>, <contrast>)`
  | literal (expr : String) (v : Rat)                     -- numeric literal
  | null (expr : String)                                  -- a name bound to `None`
deriving Repr

def FactorSpec.expr : FactorSpec → String
  | .column e _ | .wrapped e _ _ | .literal e _ | .null e => e

structure Design where
  columns : List Column
  factors : List FactorSpec
  sparse : Bool            -- `spec.output == "sparse"`
deriving Repr

inductive Err
  | contrasts (e : Contrasts.Err)   -- whatever `encode_contrasts` raised
  | index                           -- a factor names a column that is not there (KeyError / NameError)
  | kind                            -- `C(…)`/categorical encoding asked of a numeric column and vice versa
deriving DecidableEq, Repr

/-- the rows of the frame: `itertools.product(*columns)` over level indices, last column fastest -/
def rows (d : Design) : List (List Nat) := iproduct (d.columns.map (fun c => List.range c.size))

/-- the `col`-th categorical data column along the rows (`none`: a null; never produced here) -/
def labelColumn (levels : List Label) (col : Nat) (rs : List (List Nat)) : List (Option Label) :=
  rs.map (fun r => match r[col]? with | some l => levels[l]? | none => none)

/-- the `col`-th numeric data column along the rows -/
def numColumn (values : List Rat) (col : Nat) : List (List Nat) → Except Err Col
  | [] => .ok []
  | r :: rest =>
    match r[col]? with
    | none => .error .index
    | some l =>
      match values[l]? with
      | none => .error .index
      | some v =>
        match numColumn values col rest with
        | .error e => .error e
        | .ok vs => .ok (v :: vs)

/-! ### `str.format` templates -/

/-- read a placeholder name up to `}` -/
def takeField : List Char → List Char → (List Char × List Char)
  | acc, [] => (acc.reverse, [])
  | acc, '}' :: r => (acc.reverse, r)
  | acc, c :: r => takeField (c :: acc) r

/-- parse a template over `{name}` and `{field}` into segments (fuel = length of the input) -/
def parseFmtAux : Nat → List Char → List Char → Fmt
  | 0, lit, _ => if lit.isEmpty then [] else [.lit (String.ofList lit.reverse)]
  | _ + 1, lit, [] => if lit.isEmpty then [] else [.lit (String.ofList lit.reverse)]
  | n + 1, lit, '{' :: r =>
    let (nm, rest) := takeField [] r
    let seg : Seg := if String.ofList nm = "name" then .name else .field
    (if lit.isEmpty then [] else [.lit (String.ofList lit.reverse)]) ++ seg :: parseFmtAux n [] rest
  | n + 1, lit, c :: r => parseFmtAux n (c :: lit) r

def parseFmt (s : String) : Fmt := parseFmtAux (s.length + 1) [] s.toList

/-- `format_reduced`: a falsy (empty) template counts as absent -/
def parseFmtOpt (s : String) : Option Fmt := if s.isEmpty then none else some (parseFmt s)

/-! ### labels as dictionary keys -/

/-- a level label as a key of the encoded dict: `str(key)` and `isinstance(key, str)` -/
def fieldOfLabel : Label → Field
  | .str s => ⟨s, true⟩
  | .int i => ⟨toString i, false⟩

/-! ### encoders -/

/-- `as_columns(frame)`: `{name: column}` in column order, from the row-major values -/
def asColumns (names : List Label) (values : List (List Rat)) : List (Field × Col) :=
  (List.range names.length).zip names |>.map (fun jn => (fieldOfLabel jn.2, Contrasts.column values jn.1))

/-- the object `_encode_evaled_factor` holds for an encoding delivered by `Contrasts.apply` -/
def ofContrasts (e : Contrasts.Encoded) : Encoded :=
  { val := .dict (asColumns e.columnNames e.values),
    spansIntercept := e.spansIntercept,
    dropField := e.dropField.map fieldOfLabel,
    reducedMeta := false,
    fmt := parseFmt e.format,
    fmtReduced := parseFmtOpt e.formatReduced }

/-- `encode_contrasts(column, contrasts, levels=None, reduced_rank=…)` on the `col`-th column
(`levels=None` → the declared categories, or what pandas infers from the values) -/
def encodeCat (d : Design) (levels : List Label) (declared : Bool) (col : Nat) (c : Contrast) (reduced : Bool) :
    Except Err Encoded :=
  match Contrasts.encodeContrasts (labelColumn levels col (rows d)) c (if declared then some levels else none)
      reduced (if d.sparse then "sparse" else "pandas") with
  | .error e => .error (.contrasts e)
  | .ok (enc, _) => .ok (ofContrasts enc)

/-- metadata of a numerical / constant factor: the `FactorValuesMetadata` defaults, read from the live package
(`Gen/FactorMeta.lean`: default template, `spans_intercept`, `reduced`; `drop_field` and `format_reduced` default to
`None`) -/
def plainEncoded (c : Col) : Encoded :=
  { val := .single c, spansIntercept := FormulaicVerif.Gen.defaultSpansIntercept, dropField := none,
    reducedMeta := FormulaicVerif.Gen.defaultReduced, fmt := FormulaicVerif.Gen.defaultFormat, fmtReduced := none }

/-- an evaluated factor with its two encodings; an encoding that cannot be built is kept as the exception it
raises (encodings are LAZY in the code: `_encode_evaled_factor(…, reduced_rank=r)` runs only for the scoped
factors that are emitted), with a placeholder in the cache entry that nothing reads in that case -/
structure Evaled where
  ef : EvaledFactor
  errFull : Option Err
  errReduced : Option Err
deriving Repr

def splitEnc : Except Err Encoded → Encoded × Option Err
  | .ok e => (e, none)
  | .error x => (plainEncoded [], some x)

/-- `_evaluate_factor` + both cache entries of `_encode_evaled_factor` for one factor expression -/
def evalFactor (d : Design) : FactorSpec → Except Err Evaled
  | .literal e v => .ok ⟨⟨e, true, .constant v, false, plainEncoded [], plainEncoded []⟩, none, none⟩
  | .null e => .ok ⟨⟨e, false, .numerical, false, plainEncoded [], plainEncoded []⟩, none, none⟩
  | .column e col =>
    match d.columns[col]? with
    | none => .error .index
    | some (.num vs) =>
      match numColumn vs col (rows d) with
      | .error x => .error x
      | .ok c => .ok ⟨⟨e, true, .numerical, false, plainEncoded c, plainEncoded c⟩, none, none⟩
    | some (.cat ls decl) =>
      -- `_encode_categorical`: always `reduced_rank=False`, treatment contrasts, for both cache keys
      let enc := splitEnc (encodeCat d ls decl col (.treatment none) false)
      .ok ⟨⟨e, true, .categorical, true, enc.1, enc.1⟩, enc.2, enc.2⟩
  | .wrapped e col c =>
    match d.columns[col]? with
    | none => .error .index
    | some (.num _) => .error .kind
    | some (.cat ls decl) =>
      let full := splitEnc (encodeCat d ls decl col c false)
      let red := splitEnc (encodeCat d ls decl col c true)
      .ok ⟨⟨e, true, .categorical, true, full.1, red.1⟩, full.2, red.2⟩

/-- step 2 of `get_model_matrix`: every factor of the formula evaluated -/
def evalFactors (d : Design) : List FactorSpec → Except Err (List Evaled)
  | [] => .ok []
  | f :: r =>
    match evalFactor d f with
    | .error x => .error x
    | .ok ef =>
      match evalFactors d r with
      | .error x => .error x
      | .ok rest => .ok (ef :: rest)

/-- the configuration `Model.buildMatrix` runs on -/
def configOf (d : Design) (evs : List Evaled) (terms : List MTerm) (efr cluster : Bool) : Config :=
  { cache := evs.map (·.ef), terms := terms, ensureFullRank := efr, clusterByNumerical := cluster,
    variant := .fast, nrows := (rows d).length }

def config (d : Design) (terms : List MTerm) (efr cluster : Bool) : Except Err Config :=
  match evalFactors d d.factors with
  | .error x => .error x
  | .ok evs => .ok (configOf d evs terms efr cluster)

/-- the exception of the first emitted scoped factor whose encoding cannot be built -/
def encodingError (evs : List Evaled) : List SF → Option Err
  | [] => none
  | sf :: r =>
    match evs.find? (fun ev => ev.ef.expr == sf.expr) with
    | some ev =>
      match (if sf.reduced then ev.errReduced else ev.errFull) with
      | some x => some x
      | none => encodingError evs r
    | none => encodingError evs r

inductive RunErr
  | design (e : Err)
  | scope (e : ScopeErr)
deriving DecidableEq, Repr

/-- steps 0–3 on the design: the structure with its columns -/
def designStructure (d : Design) (terms : List MTerm) (efr cluster : Bool) : Except RunErr (List TermResult) :=
  match evalFactors d d.factors with
  | .error e => .error (.design e)
  | .ok evs =>
    match buildStructure (configOf d evs terms efr cluster) with
    | .error e => .error (.scope e)
    | .ok rs =>
      match encodingError evs (rs.flatMap (fun r => r.sts.flatMap (·.factors))) with
      | some x => .error (.design x)
      | none => .ok rs

/-- the whole matrix from the design: names, structural labels, values for every row -/
def matrix (d : Design) (terms : List MTerm) (efr cluster asDict : Bool) : Except RunErr (List Entry) :=
  match designStructure d terms efr cluster with
  | .error e => .error e
  | .ok rs => .ok (combineColumns asDict (allColumns rs))

end FormulaicVerif.Model.Crossed
