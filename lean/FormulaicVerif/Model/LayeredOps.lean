import FormulaicVerif.Model.LayeredMapping
/-! `formulaic/utils/layered_mapping.py` — what `Model/LayeredMapping.lean` leaves out:
`named_layers`, attribute access to named layers (`__getattr__`), `get_layer_name_for_key`, and the
`collections.abc.MutableMapping` mixin methods that WRITE (`pop`, `popitem`, `clear`, `update`,
`setdefault`), which are compositions of `__getitem__`/`__setitem__`/`__delitem__`/`__iter__`.

Mirrored as written:
* `named_layers`: walk `reversed(self._layers)`; a nested `LayeredMapping` first contributes its own
  `named_layers` (`dict.update`, so layers nearer the top overwrite), direct children with a truthy
  name are collected in `local` and written over that, and finally `self` under its own name;
* `__getattr__(attr)`: `named_layers[attr]` or `AttributeError`;
* `pop(key[, default])`: `self[key]` (any layer) then `del self[key]` (private layer only): a key
  that lives only in a supplied layer raises `KeyError` AFTER the successful read, nothing changes;
* `popitem()`: first key of `iter(self)`; `clear()`: `popitem()` until it raises `KeyError` — it
  stops as soon as the first key is not in the private layer (the model loops with fuel
  `len(_mutations) + 1`, see `Props.C19.lm_clear_private`);
* `setdefault`, `update` through `__getitem__`/`__setitem__`.
`named_layers` is a `cached_property`; the model recomputes it (the cache is only ever stale through
aliasing, which the model excludes: `with_layers(inplace=True)` deletes it). -/
namespace FormulaicVerif.Model.LMapX
open FormulaicVerif.Model.LMap

variable {ν : Type}

/-! ## `named_layers` -/

mutual
/-- `layer.named_layers` as an insertion-ordered dict (`[]` for a plain mapping, which has no such
attribute and is skipped by the `isinstance` test) -/
def namedOf : Layer ν → List (String × Layer ν)
  | .dict _ => []
  | .lm name muts layers =>
    let r := namedL layers
    let d := St.dictUpdate r.1 r.2
    match named name with
    | some n => St.dictSet d n (.lm name muts layers)
    | none => d
/-- `(named_layers, local)` after the loop over `reversed(layers)` -/
def namedL : List (Layer ν) → List (String × Layer ν) × List (String × Layer ν)
  | [] => ([], [])
  | l :: rest =>
    let r := namedL rest
    match l with
    | .dict _ => r
    | .lm name muts layers =>
      let loc := match named name with
        | some n => St.dictSet r.2 n (.lm name muts layers)
        | none => r.2
      (St.dictUpdate r.1 (namedOf (.lm name muts layers)), loc)
end

/-- `m.named_layers` -/
def namedLayers (m : LM ν) : List (String × Layer ν) := namedOf m.toLayer

inductive Err where
  | keyError | attributeError
deriving DecidableEq, Repr, Inhabited

/-- `getattr(m, attr)` for a name that is not a real attribute -/
def getAttr (m : LM ν) (attr : String) : Except Err (Layer ν) :=
  match (namedLayers m).lookup attr with
  | some l => .ok l
  | none => .error .attributeError

/-- `m.get_layer_name_for_key(key)` -/
def layerNameForKey (m : LM ν) (k : String) : Option String :=
  match m.getWithLayerName k with
  | some (_, n) => n
  | none => none

/-! ## the writing mixin methods -/

/-- `m.pop(key)` / `m.pop(key, default)`: new state and returned value -/
def pop (m : LM ν) (k : String) (default : Option ν) : Except Err (LM ν × ν) :=
  match m.get k with
  | none =>
    match default with
    | some d => .ok (m, d)
    | none => .error .keyError
  | some v =>
    match m.del k with
    | .ok m' => .ok (m', v)
    | .error _ => .error .keyError

/-- `m.popitem()` -/
def popitem (m : LM ν) : Except Err (LM ν × (String × ν)) :=
  match m.iter with
  | [] => .error .keyError
  | k :: _ =>
    match m.get k with
    | none => .error .keyError
    | some v =>
      match m.del k with
      | .ok m' => .ok (m', (k, v))
      | .error _ => .error .keyError

/-- the `while True: self.popitem()` loop of `clear()` -/
def clearLoop : Nat → LM ν → Option (LM ν)
  | 0, _ => none
  | fuel + 1, m =>
    match popitem m with
    | .ok (m', _) => clearLoop fuel m'
    | .error _ => some m

/-- `m.clear()` (`none` only if the fuel were too small: excluded by `lm_clear_private`) -/
def clear (m : LM ν) : Option (LM ν) := clearLoop (m.muts.length + 1) m

/-- `m.setdefault(key, default)`: new state and returned value -/
def setdefault (m : LM ν) (k : String) (d : ν) : LM ν × ν :=
  match m.get k with
  | some v => (m, v)
  | none => (m.set k d, d)

/-- `m.update(pairs)` -/
def update (m : LM ν) (pairs : List (String × ν)) : LM ν :=
  pairs.foldl (fun m kv => m.set kv.1 kv.2) m

/-! ## writes made by the OWNER of a supplied layer (the mapping is a live view of its layers) -/

mutual
/-- apply `f` to the layer reached by the index path (into `_layers` lists); anything else is left alone -/
def updLayer (f : Layer ν → Layer ν) : List Nat → Layer ν → Layer ν
  | [], l => f l
  | i :: p, .lm n m ls => .lm n m (updList f i p ls)
  | _ :: _, .dict d => .dict d
def updList (f : Layer ν → Layer ν) : Nat → List Nat → List (Layer ν) → List (Layer ν)
  | _, _, [] => []
  | 0, p, l :: r => updLayer f p l :: r
  | i + 1, p, l :: r => l :: updList f i p r
end

/-- `layer[k] = v` done by whoever owns the layer (a nested `LayeredMapping` writes its private layer) -/
def extSetL (k : String) (v : ν) : Layer ν → Layer ν
  | .dict d => .dict (dictSet d k v)
  | .lm n m ls => .lm n (dictSet m k v) ls

/-- the owner removes `k` from the layer (from the private layer of a nested `LayeredMapping`) if it is there -/
def extDelL (k : String) : Layer ν → Layer ν
  | .dict d => .dict (dictDel d k)
  | .lm n m ls => .lm n (dictDel m k) ls

/-- the state of `m` after the owner of the layer at `path` wrote it: only that layer changes -/
def extWrite (m : LM ν) (path : List Nat) (k : String) (v : Option ν) : LM ν :=
  match path with
  | [] => m
  | i :: p =>
    { m with layers := updList (match v with
        | some x => extSetL k x
        | none => extDelL k) i p m.layers }

/-! ## histories -/

inductive Op (ν : Type) where
  | base (op : LMap.Op ν)
  | pop (k : String) (default : Option ν)
  | popitem
  | clear
  | setdefault (k : String) (d : ν)
  | update (pairs : List (String × ν))
  | ext (path : List Nat) (k : String) (v : Option ν)   -- not an operation OF the mapping: its layer's owner writes

/-- what the operation returns -/
inductive Res (ν : Type) where
  | none
  | val (v : ν)
  | item (k : String) (v : ν)

/-- one operation; a failing operation raises and leaves the object unchanged -/
def step (m : LM ν) : Op ν → Except Err (LM ν × Res ν)
  | .base op =>
    match LMap.step m op with
    | .ok m' => .ok (m', .none)
    | .error _ => .error .keyError
  | .pop k d => (pop m k d).map (fun r => (r.1, .val r.2))
  | .popitem => (popitem m).map (fun r => (r.1, .item r.2.1 r.2.2))
  | .clear =>
    match clear m with
    | some m' => .ok (m', .none)
    | none => .ok (m, .none)   -- unreachable (`lm_clear_private`)
  | .setdefault k d => let r := setdefault m k d; .ok (r.1, .val r.2)
  | .update pairs => .ok (update m pairs, .none)
  | .ext path k v => .ok (extWrite m path k v, .none)

/-- a whole sequence, exceptions caught by the caller (state unchanged on error) -/
def run (m : LM ν) : List (Op ν) → LM ν
  | [] => m
  | op :: ops =>
    match step m op with
    | .ok r => run r.1 ops
    | .error _ => run m ops

/-- the states after each operation, with the result or error -/
def trace (m : LM ν) : List (Op ν) → List (LM ν × Except Err (Res ν))
  | [] => []
  | op :: ops =>
    match step m op with
    | .ok r => (r.1, .ok r.2) :: trace r.1 ops
    | .error e => (m, .error e) :: trace m ops

/-- the operations after which the supplied layers may differ: `with_layers`, and writes by a layer's owner -/
def Op.isWithLayers : Op ν → Bool
  | .base (.withLayers _ _ _ _) => true
  | .ext _ _ _ => true
  | _ => false

end FormulaicVerif.Model.LMapX
