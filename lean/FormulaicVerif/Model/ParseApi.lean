import FormulaicVerif.Model.Parser
import FormulaicVerif.Gen.ParseApi
/-! The public entry points of the parser around `get_terms` (property C14 quantifies over every
entry point): `FormulaParser.parse(formula, target=…)` with integer / string / enum targets
(`parser/types/formula_parser.py`), the convenience methods `get_tokens` / `get_ast` / `get_terms`,
the BASE class `FormulaParser(operator_resolver=…)` whose token stage is the lazy generator chain
`sanitize_tokens(tokenize(formula))` consumed by `tokens_to_ast` one token at a time, and the
feature-flag specifications `FeatureFlags.from_spec(set of names)` (`parser/parser.py`).

The finite tables (`Target` members, `FeatureFlags` members and aliases, context markers,
`Token.to_factor`'s kind map) are read from `Gen/ParseApi.lean`, regenerated from the live package. -/
namespace FormulaicVerif.Model.ParseApi
open FormulaicVerif.Model

/-- `str.upper()` on the ASCII names the API accepts -/
def asciiUpper (s : String) : String := String.ofList (s.toList.map Char.toUpper)

def lookupNat (tab : List (String × Nat)) (k : String) : Option Nat :=
  match tab.find? (fun p => p.1 == k) with
  | some p => some p.2
  | none => none

/-! ### feature flags -/

/-- `FeatureFlags.from_spec(flags: set[str])`: `result |= getattr(cls, flag.upper())`; an unknown
name is Python's `AttributeError` (a configuration error, not a parsing outcome) -/
def flagsFromNames : List String → Except ParseErr Nat
  | [] => .ok 0
  | n :: ns =>
    match lookupNat Gen.ParseApi.featureFlags (asciiUpper n) with
    | none => .error (.internal "AttributeError")
    | some m =>
      match flagsFromNames ns with
      | .error e => .error e
      | .ok r => .ok (m ||| r)

/-- `FeatureFlags.X in flags` for the member `X` of the live enum -/
def hasFlag (mask : Nat) (member : String) : Option Bool :=
  match lookupNat Gen.ParseApi.featureFlags member with
  | some bit => some (mask &&& bit == bit)
  | none => none

/-- the parser configuration a flag mask stands for (`disabled=FeatureFlags.X not in self.feature_flags`);
`none` if the live enum lost one of the three members the operator table consults -/
def cfgOfMask (includeIntercept : Bool) (mask : Nat) : Option ParseCfg :=
  match hasFlag mask "TWOSIDED", hasFlag mask "MULTIPART", hasFlag mask "MULTISTAGE" with
  | some tw, some mp, some ms =>
    some { includeIntercept := includeIntercept, twosided := tw, multipart := mp, multistage := ms }
  | _, _, _ => none

/-- `DefaultFormulaParser(include_intercept=…, feature_flags=<set of names>)` -/
def cfgOfNames (includeIntercept : Bool) (names : List String) : Except ParseErr ParseCfg :=
  match flagsFromNames names with
  | .error e => .error e
  | .ok mask =>
    match cfgOfMask includeIntercept mask with
    | some c => .ok c
    | none => .error (.internal "AttributeError")

/-! ### targets -/

/-- what the caller passes as `target=` -/
inductive TargetSpec
  | int (n : Int)          -- an `int` (or a `Target` member, which is an `int`)
  | name (s : String)      -- a string, looked up as `Target[s.upper()]`
deriving Repr, DecidableEq

/-- `self.Target(target)` / `self.Target[target.upper()]`: `ValueError` / `KeyError` for a target
that does not exist (configuration errors) -/
def levelOf : TargetSpec → Except ParseErr Nat
  | .int n =>
    if n < 0 then .error (.internal "ValueError")
    else if Gen.ParseApi.parseTargets.any (fun p => p.2 == n.toNat) then .ok n.toNat
    else .error (.internal "ValueError")
  | .name s =>
    match lookupNat Gen.ParseApi.parseTargets (asciiUpper s) with
    | some v => .ok v
    | none => .error (.internal "KeyError")

/-- the integer thresholds `parse` compares against (`target >= self.Target.TOKENS` …) -/
structure Levels where
  tokens : Nat
  ast : Nat
  terms : Nat
deriving Repr, DecidableEq

def levels : Option Levels :=
  match lookupNat Gen.ParseApi.parseTargets "TOKENS", lookupNat Gen.ParseApi.parseTargets "AST",
        lookupNat Gen.ParseApi.parseTargets "TERMS" with
  | some a, some b, some c => some ⟨a, b, c⟩
  | _, _, _ => none

/-- what `parse` returns, by target -/
inductive Out
  | formula                       -- the input string itself
  | tokens (ts : List Tok)
  | ast (a : Option Ast)
  | terms (v : Val)
deriving Repr

/-! ### the stages -/

/-- `FormulaParser.get_terms_from_ast` (base class): `Structured([])` for an empty tree, else the
evaluated tree wrapped into a `Structured` when it is not one -/
def baseTermsOfAst (dot : DotCtx) : Option Ast → Except ParseErr Val
  | none => .ok (mkStruct [] (some (.set [])))
  | some a =>
    match evalAst dot a with
    | .error e => .error e
    | .ok v => .ok (match v with | .struct _ => v | _ => mkStruct [] (some v))

/-- `DefaultFormulaParser.get_terms_from_ast`: the base class, then `terms._map(check_terms)` -/
def defaultTermsOfAst (dot : DotCtx) (oa : Option Ast) : Except ParseErr Val :=
  match baseTermsOfAst dot oa with
  | .error e => .error e
  | .ok s =>
    match checkVal s with
    | .error e => .error e
    | .ok _ => .ok s

/-- the tail of `tokens_to_ast` after the token loop: unwind the stack, demand a single tree -/
def finishAst (s : ShState) : Except ParseErr (Option Ast) :=
  match finish s.out s.stack with
  | .error e => .error e
  | .ok [] => .ok none
  | .ok [a] => .ok (some a)
  | .ok _ => .error (.syntax "missing operator")

/-- `DefaultFormulaParser.parse(formula, target=lvl)` for a resolved target level -/
def defaultParseTo (lv : Levels) (lvl : Nat) (cfg : ParseCfg) (env : PyEnv) (cs : List CharInfo) :
    Except ParseErr Out :=
  if lvl < lv.tokens then .ok .formula
  else
    match getTokens cfg env cs with
    | .error e => .error e
    | .ok (ts, lhs) =>
      if lvl < lv.ast then .ok (.tokens ts)
      else
        match tokensToAst cfg.table ts with
        | .error e => .error e
        | .ok oa =>
          if lvl < lv.terms then .ok (.ast oa)
          else
            match defaultTermsOfAst { available := env.available, usedLhs := lhsVariables env lhs } oa with
            | .error e => .error e
            | .ok v => .ok (.terms v)

/-! ### the base class: a lazy token stream -/

/-- one iteration of `sanitize_tokens` -/
def sanitizeOne (norm : List Char → Except PyErr (List Char)) (t : Tok) : Except PyErr Tok :=
  let t1 : Tok := if t.text == ['.'] && t.kind != some .name then { t with kind := some .operator } else t
  if t1.kind == some .python then (norm t1.text).map (fun x => { t1 with text := x }) else .ok t1

/-- `tokens_to_ast` pulling from `sanitize_tokens(tokenize(formula))`: every token is normalised
when it is pulled, immediately before the shunting-yard step that consumes it, so an error of the
shunting-yard on an earlier token precedes the `SyntaxError` of a later Python fragment -/
def baseShunt (tab : OpTable) (norm : List Char → Except PyErr (List Char)) :
    List Tok → ShState → Except ParseErr ShState
  | [], s => .ok s
  | t :: ts, s =>
    match sanitizeOne norm t with
    | .error e => .error (pyErrToParse e)
    | .ok t' =>
      match shuntStep tab s t' with
      | .error e => .error e
      | .ok s' => baseShunt tab norm ts s'

/-- `FormulaParser.get_ast_from_tokens(self.get_tokens_from_formula(formula))` of the base class: the
lexing error (raised when the generator is advanced past the last token it could yield) comes after
everything the shunting-yard did with the tokens yielded before it -/
def baseAst (tab : OpTable) (env : PyEnv) (cs : List CharInfo) : Except ParseErr (Option Ast) :=
  match baseShunt tab env.norm (tokenizeStream cs).1 {} with
  | .error e => .error e
  | .ok s =>
    match (tokenizeStream cs).2 with
    | some e => .error (lexErrToParse e)
    | none => finishAst s

/-- `list(FormulaParser.get_tokens_from_formula(formula))` of the base class -/
def baseTokens (env : PyEnv) (cs : List CharInfo) : Except ParseErr (List Tok) :=
  match sanitizeTokens env.norm (tokenizeStream cs).1 with
  | .error e => .error (pyErrToParse e)
  | .ok ts =>
    match (tokenizeStream cs).2 with
    | some e => .error (lexErrToParse e)
    | none => .ok ts

/-- the evaluation context of the base class: nothing records the left-hand-side variables, so the
`.` operator sees none of them as used (`context.get("__formulaic_variables_used_lhs__", ())`) -/
def baseDot (env : PyEnv) : DotCtx := { available := env.available, usedLhs := [] }

/-- `FormulaParser(operator_resolver=DefaultOperatorResolver(flags)).parse(formula, target=lvl)` -/
def baseParseTo (lv : Levels) (lvl : Nat) (tab : OpTable) (env : PyEnv) (cs : List CharInfo) :
    Except ParseErr Out :=
  if lvl < lv.tokens then .ok .formula
  else if lvl < lv.ast then
    match baseTokens env cs with
    | .error e => .error e
    | .ok ts => .ok (.tokens ts)
  else
    match baseAst tab env cs with
    | .error e => .error e
    | .ok oa =>
      if lvl < lv.terms then .ok (.ast oa)
      else
        match baseTermsOfAst (baseDot env) oa with
        | .error e => .error e
        | .ok v => .ok (.terms v)

/-! ### `Token.to_factor` with its failure modes -/

def kindName : Option TKind → String
  | some .context => "context" | some .operator => "operator" | some .value => "value"
  | some .name => "name" | some .python => "python" | none => "none"

/-- `Token.to_factor()` as the live package behaves for each kind (`Gen.ParseApi.tokenKindEval`):
`KeyError` for context/operator tokens, `RuntimeError` for an unset kind -/
def toFactorE (t : Tok) : Except ParseErr Factor :=
  match Gen.ParseApi.tokenKindEval.find? (fun p => p.1 == kindName t.kind) with
  | some (_, "ok:literal") => .ok ⟨String.ofList t.text, .literal⟩
  | some (_, "ok:lookup") => .ok ⟨String.ofList t.text, .lookup⟩
  | some (_, "ok:python") => .ok ⟨String.ofList t.text, .python⟩
  | some (_, r) => .error (.internal (String.ofList (r.toList.drop 7)))
  | none => .error (.internal "KeyError")

end FormulaicVerif.Model.ParseApi
