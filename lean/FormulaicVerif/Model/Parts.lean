import FormulaicVerif.Model.Structured
import FormulaicVerif.Model.Materialize
/-! `FormulaMaterializer.get_model_matrix` for STRUCTURED specs (`formulaic/materializers/base.py`,
steps 0–3), `_build_model_matrix` including the reuse of a recorded `structure`
(`_enforce_structure`), `ModelSpecs` / `ModelMatrices` as `Structured` containers.

What the code does, and what is mirrored here:

* `ModelSpec.from_spec` / `_prepare_model_specs` map over the structured formula; every `_map`
  re-runs the `Structured` constructor, so the specs are `St.norm` of the formula (root key last).
* step 0 `_prepare_factor_evaluation_model_spec`: ONE set of factors (`Factor` hashes by `expr`) and
  ONE transform-state dictionary (`dict.update` in `_map` order) pooled over all leaves; a structure
  without any leaf makes `len(output) != 1` and raises `RuntimeError`.
* step 1: `for factor in factors: self._evaluate_factor(factor, pooled_spec, drop_rows)`. The set has
  no order of its own: the iteration order is a parameter (`iterOrder`). `_evaluate_factor` consults
  the memo table `factor_cache` first; on a miss it evaluates, adds `find_nulls(values)` to the ONE
  mutable set `drop_rows` (caller supplied or fresh; `na_action='drop'`), and stores the result.
  Then `drop_rows = sorted(drop_rows)`.
* step 2: every leaf spec's `transform_state.update(pooled transform state)`.
* step 3: `model_specs._map(lambda ms: self._build_model_matrix(ms, drop_rows=drop_rows), as_type=ModelMatrices)`:
  every leaf is built from the SHARED factor cache with the SHARED sorted drop list.
* `_build_model_matrix`: C02's pipeline (`Model.buildStructure`) when `spec.structure` is unset,
  otherwise the recorded scoped terms are rehydrated from the factor cache, the columns rebuilt and
  `_enforce_structure` applied. The pandas index of the result is the data index without the
  dropped positions; every column must have one entry per remaining row.

Parameters of the model (`World`): one factor evaluation — a function of (expression, data, pooled
transform state) returning values, null positions and the transform state it writes — and the
encoders — a function of (expression, evaluated values, sorted drop list) returning C02's
`EvaledFactor` (kind, spans-intercept flag, encoder results for both rank settings).
MODELLING ASSUMPTION (checked per case by the harness): an evaluation does not depend on transform
state written by other factors during the same pass, so `eval` is applied to the pooled state as
it was before the pass. Only `na_action='drop'` is modelled; `encoder_state` is not. -/
namespace FormulaicVerif.Model.Parts
open FormulaicVerif.Model

/-! ### small list utilities -/

/-- `dict.fromkeys(xs)` on strings: first occurrence of every element, in order -/
def dedup : List String → List String
  | [] => []
  | x :: xs => x :: (dedup xs).filter (· ≠ x)

/-- insertion of `x` into a strictly increasing list (no duplicate is created) -/
def insertNat (x : Nat) : List Nat → List Nat
  | [] => [x]
  | y :: ys => if x < y then x :: y :: ys else if x = y then y :: ys else y :: insertNat x ys

/-- `sorted(s)` for a Python `set` of ints given as any list of its members -/
def sortSet (xs : List Nat) : List Nat := xs.foldr insertNat []

/-- the data positions that survive: `index.drop(index[drop_rows])` on a default index -/
def keptRows (n : Nat) (drop : List Nat) : List Nat := (List.range n).filter (fun i => !drop.contains i)

/-! ### specs, matrices -/

/-- a transform-state dictionary (insertion ordered; `St.dictUpdate` is `dict.update`) -/
abbrev TState (τ : Type) := List (String × τ)

/-- `EncodedTermStructure(term, scoped_terms, columns)` -/
structure TermStruct where
  term : MTerm
  sts : List ST
  columns : List String
deriving DecidableEq, Repr

/-- the part of a `ModelSpec` that matters here: the terms of its formula, the recorded structure
(unset before the first materialisation) and the transform state. A leaf of a structured FORMULA
is a spec with no structure and an empty state (`Fresh`). -/
structure Spec (τ : Type) where
  terms : List MTerm
  struct : Option (List TermStruct)
  state : TState τ

def Spec.Fresh {τ} (s : Spec τ) : Prop := s.struct = none ∧ s.state = []

/-- a leaf of a structured formula -/
def Spec.ofTerms {τ} (terms : List MTerm) : Spec τ := ⟨terms, none, []⟩

/-- one model matrix: the rows of the data it contains (their positions, in order) and its columns -/
structure Matrix where
  rows : List Nat
  cols : List Entry
deriving DecidableEq, Repr

/-- a `ModelMatrix`: the matrix and the `ModelSpec` attached to it -/
structure PartOut (τ : Type) where
  matrix : Matrix
  spec : Spec τ

inductive PErr
  | eval (cls : String)      -- `_evaluate_factor` raised (class name)
  | encode (cls : String)    -- an encoder raised
  | inconsistent             -- RuntimeError "Provided `ModelSpec` instances are not consistent."
  | build (e : ScopeErr)     -- the term → columns pipeline failed
  | shape                    -- `_combine_columns`: a column does not have one entry per kept row
  | structure                -- `_enforce_structure` refused the columns / `ModelMatrices._simplify` shape
deriving DecidableEq, Repr

structure Opts where
  efr : Bool
  cluster : Bool
  variant : Variant
  asDict : Bool              -- `output == "pandas"`: columns are collected in a dict

/-- what one cache miss of `_evaluate_factor` produces -/
structure Evald (ν : Type) where
  values : ν
  nulls : List Nat           -- `find_nulls(values)`: a set; only membership is used
deriving DecidableEq, Repr

/-- the parameters: the data set seen through factor evaluation and the encoders -/
structure World (ν τ : Type) where
  nrows : Nat
  /-- `_evaluate_factor` on a cache miss, as a function of (expression, data, pooled state):
  the evaluated values with their null positions and the transform state written; `error cls` when it raises -/
  eval : String → TState τ → Except String (Evald ν × TState τ)
  /-- the encoder results for an evaluated factor under a sorted drop list -/
  encode : String → ν → List Nat → Except String EvaledFactor

/-! ### step 0: pooling -/

/-- `itertools.chain(*(term.factors for term in model_spec.formula))` -/
def exprsOf (terms : List MTerm) : List String := terms.flatten

/-- the pooled factor set (in one fixed enumeration) -/
def pooledFactors {τ} (S : St.Val (Spec τ)) : List String :=
  dedup ((St.flatten S).flatMap (fun s => exprsOf s.terms))

/-- the pooled transform state: `transform_state.update(model_spec.transform_state)` per leaf -/
def pooledState {τ} (S : St.Val (Spec τ)) : TState τ :=
  (St.flatten S).foldl (fun acc s => St.dictUpdate acc s.state) []

/-- an iteration order of the set `pooled`: the members named by `perm` first (in that order),
then the remaining ones. Every enumeration of the set arises this way (`Props.C07.iter_order_any`). -/
def iterOrder (pooled perm : List String) : List String :=
  dedup (perm.filter (fun e => pooled.contains e) ++ pooled)

/-! ### step 1: memoised evaluation with one shared drop set -/

structure EvalState (ν τ : Type) where
  memo : List (String × Evald ν)     -- `factor_cache`, insertion ordered
  drop : List Nat                    -- the mutable set `drop_rows`
  state : TState τ                   -- the pooled `transform_state`

/-- `self._evaluate_factor(factor, pooled_spec, drop_rows)` -/
def evalStep {ν τ} (W : World ν τ) (st0 : TState τ) (s : EvalState ν τ) (e : String) :
    Except PErr (EvalState ν τ) :=
  if s.memo.any (fun kv => kv.1 == e) then .ok s
  else
    match W.eval e st0 with
    | .error cls => .error (.eval cls)
    | .ok (v, w) => .ok ⟨s.memo ++ [(e, v)], s.drop ++ v.nulls, St.dictUpdate s.state w⟩

def evalAll {ν τ} (W : World ν τ) (st0 : TState τ) (s : EvalState ν τ) (order : List String) :
    Except PErr (EvalState ν τ) :=
  foldE (evalStep W st0) s order

/-- the shared factor cache as C02's pipeline sees it: every evaluated factor with its encoder
results under the shared drop list -/
def cacheOf {ν τ} (W : World ν τ) (drop : List Nat) : List (String × Evald ν) → Except PErr Cache
  | [] => .ok []
  | (e, v) :: r =>
    match W.encode e v.values drop with
    | .error cls => .error (.encode cls)
    | .ok f =>
      match cacheOf W drop r with
      | .error x => .error x
      | .ok c => .ok ({ f with expr := e } :: c)

/-! ### `_enforce_structure` -/

/-- `set(scoped_cols) != set(target_cols)` -/
def sameNames (cols : List Entry) (target : List String) : Bool :=
  cols.all (fun e => target.contains e.name) && target.all (fun nm => cols.any (fun e => e.name == nm))

/-- `scoped_cols[col]` -/
def lookupEntry (sc : List Entry) (nm : String) : Except PErr Entry :=
  match sc.find? (fun e => e.name == nm) with
  | some e => .ok e
  | none => .error .structure

def pickStep (sc : List Entry) (acc : List Entry) (nm : String) : Except PErr (List Entry) :=
  match lookupEntry sc nm with
  | .error e => .error e
  | .ok e => .ok (dictSet acc e)

/-- `{col: scoped_cols[col] for col in target_cols}` -/
def pick (sc : List Entry) (target : List String) : Except PErr (List Entry) :=
  foldE (pickStep sc) [] target

/-- the loop body of `_enforce_structure` for one term (`n'` = number of kept rows) -/
def enforceOne (n' : Nat) (r : TermResult) (target : List String) : Except PErr TermResult :=
  if r.cols.length > target.length then .error .structure
  else
    let sc0 : Except PErr (List Entry) :=
      if r.cols.length < target.length then
        match r.cols with
        | [] => .ok (target.foldl (fun d nm => dictSet d ⟨nm, [], Col.smul 0 (Col.ones n')⟩) [])
        | [c] => .ok (target.foldl (fun d nm => dictSet d { c with name := nm }) [])
        | _ => .error .structure
      else if !sameNames r.cols target then .error .structure
      else .ok r.cols
    match sc0 with
    | .error e => .error e
    | .ok sc =>
      match pick sc target with
      | .error e => .error e
      | .ok cols => .ok { r with cols := cols }

def enforceLoop (n' : Nat) : List TermResult → List TermStruct → Except PErr (List TermResult)
  | [], [] => .ok []
  | r :: rs, s :: ss =>
    match enforceOne n' r s.columns with
    | .error e => .error e
    | .ok r' =>
      match enforceLoop n' rs ss with
      | .error e => .error e
      | .ok rest => .ok (r' :: rest)
  | _, _ => .error .structure      -- `len(cols) != len(structure)`

/-! ### `_build_model_matrix` -/

def termStructs (rs : List TermResult) : List TermStruct :=
  rs.map (fun r => ⟨r.term, r.sts, r.cols.map (·.name)⟩)

/-- the inputs of C02's pipeline for one part -/
def cfgOf (o : Opts) (n' : Nat) (cache : Cache) (terms : List MTerm) : Config :=
  { cache := cache, terms := terms, ensureFullRank := o.efr, clusterByNumerical := o.cluster,
    variant := o.variant, nrows := n' }

/-- steps 0–3 of `_build_model_matrix`: per-term columns, from scratch or from the recorded structure -/
def buildRows {τ} (o : Opts) (n' : Nat) (cache : Cache) (spec : Spec τ) : Except PErr (List TermResult) :=
  match spec.struct with
  | none =>
    match buildStructure (cfgOf o n' cache spec.terms) with
    | .error e => .error (.build e)
    | .ok rs => .ok rs
  | some str =>
    -- step 0 runs `_cluster_terms` on this branch too (its result is not used, its KeyError is)
    match clusterTerms cache o.cluster spec.terms with
    | .error x => .error (.build (.py x))
    | .ok _ =>
      match buildTerms cache o.variant n' (str.map (fun s => (s.term, s.sts))) with
      | .error x => .error (.build (.py x))
      | .ok rs => enforceLoop n' rs str

/-- step 3 of `_build_model_matrix`: a recorded structure is kept, otherwise it is recorded now -/
def recordedStruct {τ} (spec : Spec τ) (rs : List TermResult) : List TermStruct :=
  match spec.struct with
  | some s => s
  | none => termStructs rs

/-- `_build_model_matrix(spec, drop_rows)` after step 2 has merged the pooled transform state
into the spec. `n` = `len(data)`, `drop` = the shared sorted drop list. -/
def buildPart {τ} (o : Opts) (n : Nat) (cache : Cache) (drop : List Nat) (pooled : TState τ)
    (spec : Spec τ) : Except PErr (PartOut τ) :=
  let n' := n - drop.length
  match buildRows o n' cache spec with
  | .error e => .error e
  | .ok rs =>
    let cols := combineColumns o.asDict (allColumns rs)
    if cols.all (fun e => e.col.length == n') then
      .ok ⟨⟨keptRows n drop, cols⟩,
        ⟨spec.terms,
          some (recordedStruct spec rs),
          St.dictUpdate spec.state pooled⟩⟩
    else .error .shape

/-! ### `Structured._map` with a function that may raise -/

mutual
/-- `s._map(f)` where `f` may raise: leaves are visited in `_structure` order (tuples in index
order, depth first), the first exception propagates, and every `Structured` level is rebuilt by
the constructor (`St.rootLast`). On success this is `St.mapV` (`Proofs.C07.mapE_spec`). -/
def mapE {α β ε : Type} (f : α → Except ε β) : St.Val α → Except ε (St.Val β)
  | .leaf a =>
    match f a with
    | .error e => .error e
    | .ok b => .ok (.leaf b)
  | .tup vs =>
    match mapET f vs with
    | .error e => .error e
    | .ok r => .ok (.tup r)
  | .node kvs =>
    match mapEI f kvs with
    | .error e => .error e
    | .ok r => .ok (.node (St.rootLast r))
def mapET {α β ε : Type} (f : α → Except ε β) : List (St.Val α) → Except ε (List (St.Val β))
  | [] => .ok []
  | v :: vs =>
    match mapE f v with
    | .error e => .error e
    | .ok b =>
      match mapET f vs with
      | .error e => .error e
      | .ok r => .ok (b :: r)
def mapEI {α β ε : Type} (f : α → Except ε β) : St.Items α → Except ε (St.Items β)
  | [] => .ok []
  | (k, v) :: r =>
    match mapE f v with
    | .error e => .error e
    | .ok b =>
      match mapEI f r with
      | .error e => .error e
      | .ok r' => .ok ((k, b) :: r')
end

/-! ### `get_model_matrix` -/

/-- the result of the joint build together with what the run left behind -/
structure Joint (ν τ : Type) where
  parts : St.Val (PartOut τ)         -- the `ModelMatrices`
  drop : List Nat                    -- `sorted(drop_rows)`: the list every part was built with
  dropSet : List Nat                 -- the (caller-visible) set after step 1
  state : TState τ                   -- the pooled transform state after step 1
  memo : List (String × Evald ν)     -- `factor_cache`

/-- `materializer.get_model_matrix(F, drop_rows=caller)` for a structured spec `F`; `perm` fixes the
iteration order of the pooled factor set. -/
def materialize {ν τ} (W : World ν τ) (o : Opts) (F : St.Val (Spec τ)) (perm : List String)
    (caller : List Nat) : Except PErr (Joint ν τ) :=
  let S := St.norm F
  if (St.flatten S).isEmpty then .error .inconsistent
  else
    let st0 := pooledState S
    match evalAll W st0 ⟨[], caller, st0⟩ (iterOrder (pooledFactors S) perm) with
    | .error e => .error e
    | .ok s =>
      let drop := sortSet s.drop
      match cacheOf W drop s.memo with
      | .error e => .error e
      | .ok cache =>
        match mapE (buildPart o W.nrows cache drop s.state) S with
        | .error e => .error e
        | .ok parts => .ok ⟨parts, drop, s.drop, s.state, s.memo⟩

/-- `ModelMatrices.model_spec`: `self._map(lambda mm: mm.model_spec, as_type=ModelSpecs)` -/
def specsOf {τ} (parts : St.Val (PartOut τ)) : St.Val (Spec τ) :=
  St.mapV (fun p _ => p.spec) [] parts

/-- `ModelSpecs(spec)`: a single spec is wrapped under the key `root` -/
def single {τ} (spec : Spec τ) : St.Val (Spec τ) := .node [("root", .leaf spec)]

/-- the materialisation of ONE spec (a simple formula, or a `ModelSpec` that is replayed):
`get_model_matrix` wraps it, builds, and `_simplify()` unwraps the root -/
def materializeOne {ν τ} (W : World ν τ) (o : Opts) (spec : Spec τ) (perm : List String)
    (caller : List Nat) : Except PErr (PartOut τ × List Nat) :=
  match materialize W o (single spec) perm caller with
  | .error e => .error e
  | .ok j =>
    match j.parts with
    | .node [(_, .leaf p)] => .ok (p, j.drop)
    | _ => .error .structure

end FormulaicVerif.Model.Parts
