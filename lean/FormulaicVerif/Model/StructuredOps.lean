import FormulaicVerif.Model.Structured
/-! `formulaic/utils/structured.py` — the CONTAINER PROTOCOL of `Structured` (the part that
`Model/Structured.lean` does not cover): `__getitem__`, `__setitem__` (string keys and tuple paths),
`__getattr__`, `__setattr__`, `__iter__`, `__len__`, `__contains__`, `__eq__`, `_to_dict`, and the
default `merger` of `_merge`. Values are the trees of `Model.St` (`St.Val`).

Mirrored as written:
* `__getitem__(key)`: a tuple key is a path (`__lookup_path`); otherwise, if the ONLY key is `root`
  the lookup is delegated to the root object (`self.root[key]`, whatever the root is: another
  `Structured`, a tuple, a leaf object); otherwise `None`/`"root"` address the root, a string that
  does not start with `_` addresses that key, everything else is `KeyError`;
* `__lookup_path`: a step descends into a `Structured` when the path element is one of its keys and
  into a tuple when the element is an `int` (negative indices count from the end; an index out of
  range is `IndexError`, not `KeyError`); any other step is `KeyError`;
* `__setitem__(key, value)`: a tuple key must be non-empty, its prefix must lead to a `Structured`,
  on which the last element is assigned; a plain key must be a `str` that `isidentifier()` and does
  not start with `_`, else `KeyError`;
* `__setattr__` does NOT validate identifiers (only the leading underscore), `__getattr__` raises
  `AttributeError` for underscore names and missing keys;
* `__iter__`: if the only key is `root` and the root is `Iterable`, iterate the ROOT (so a nested
  root `Structured` is iterated recursively and a `str` leaf yields its characters); otherwise the
  root value first, then the other values in insertion order;
* `__len__` counts `__iter__`; `__contains__` is `key in _structure` (no delegation);
* `__eq__`: `dict` equality of the structures (order-insensitive), `False` for non-`Structured`;
* default merger: all lists → concatenation, all sets → union, all dicts → `dict(chain(items))`,
  anything else `NotImplementedError`.
`isidentifier()` is modelled for ASCII strings. Assigning `_structure` through `__setattr__` is not
modelled (`_metadata` is: no effect on the structure). Aliasing (the same `Structured` object stored
at two places) is not modelled: a path assignment updates the addressed place only. -/
namespace FormulaicVerif.Model.StOps
open FormulaicVerif.Model.St

/-- a non-tuple key handed to `[]`, or one element of a tuple path -/
inductive Key where
  | none
  | str (s : String)
  | int (i : Int)
deriving DecidableEq, Repr, Inhabited

inductive Err where
  | keyError | indexError | typeError | attributeError
deriving DecidableEq, Repr, Inhabited

variable {α : Type}

/-! ## Python index conventions -/

/-- `seq[i]` position for a sequence of length `n`; `none` = `IndexError` -/
def pyIdx (i : Int) (n : Nat) : Option Nat :=
  if 0 ≤ i then (if i.toNat < n then some i.toNat else none)
  else (if (-i).toNat ≤ n then some (n - (-i).toNat) else none)

/-- `str.isidentifier()` on ASCII strings -/
def isIdentStart (c : Char) : Bool := c.isAlpha || c == '_'
def isIdentChar (c : Char) : Bool := c.isAlphanum || c == '_'
def isIdent (s : String) : Bool :=
  match s.toList with
  | [] => false
  | c :: cs => isIdentStart c && cs.all isIdentChar

/-! ## `_has_root`, `_has_keys` -/

/-- `"root" in self._structure` -/
def hasRoot (kvs : Items α) : Bool := kvs.any (fun kv => isRootKey kv.1)

/-- `self._has_root and not self._has_keys`, i.e. `set(self._structure) == {"root"}` -/
def rootOnly (kvs : Items α) : Bool := !kvs.isEmpty && kvs.all (fun kv => isRootKey kv.1)

/-! ## `__getitem__` -/

/-- the non-delegating tail of `__getitem__` for a non-tuple key -/
def plainGet (kvs : Items α) : Key → Except Err (Val α)
  | .none =>
    match kvs.lookup "root" with
    | some r => .ok r
    | none => .error .keyError
  | .str s =>
    if badKey s then .error .keyError
    else match kvs.lookup s with
      | some v => .ok v
      | none => .error .keyError
  | .int _ => .error .keyError

/-- `tuple[key]` -/
def tupItem (vs : List (Val α)) : Key → Except Err (Val α)
  | .int i =>
    match pyIdx i vs.length with
    | some n =>
      match vs[n]? with
      | some v => .ok v
      | none => .error .indexError
    | none => .error .indexError
  | _ => .error .typeError

/-- `obj[key]` for a non-tuple `key`, where `obj` is a `Structured`, a tuple or a leaf object
(`leafItem` is the leaf type's own `__getitem__`) -/
def getItem (leafItem : α → Key → Except Err (Val α)) : Val α → Key → Except Err (Val α)
  | .leaf a, key => leafItem a key
  | .tup vs, key => tupItem vs key
  | .node [], key => plainGet [] key
  | .node ((k, r) :: rest), key =>
    if rootOnly ((k, r) :: rest) then getItem leafItem r key
    else plainGet ((k, r) :: rest) key

/-- `__lookup_path(path)` -/
def lookupPathK : List Key → Val α → Except Err (Val α)
  | [], v => .ok v
  | .str k :: p, .node kvs =>
    match kvs.lookup k with
    | some v => lookupPathK p v
    | none => .error .keyError
  | .int i :: p, .tup vs =>
    match pyIdx i vs.length with
    | some n =>
      match vs[n]? with
      | some v => lookupPathK p v
      | none => .error .indexError
    | none => .error .indexError
  | _ :: _, _ => .error .keyError

/-- a key of `[]`: a plain key or a tuple path -/
inductive AnyKey where
  | plain (k : Key)
  | path (p : List Key)
deriving DecidableEq, Repr, Inhabited

/-- `Structured(**kvs)[key]` -/
def getAny (leafItem : α → Key → Except Err (Val α)) (kvs : Items α) : AnyKey → Except Err (Val α)
  | .plain k => getItem leafItem (.node kvs) k
  | .path p => lookupPathK p (.node kvs)

/-! ## `__setitem__` -/

/-- `self[key] = value` for a non-tuple key -/
def setKey (kvs : Items α) (key : Key) (v : Val α) : Except Err (Items α) :=
  match key with
  | .str s =>
    if !isIdent s then .error .keyError
    else if badKey s then .error .keyError
    else .ok (dictSet kvs s v)
  | _ => .error .keyError

/-- `obj = self.__lookup_path(p); obj[last] = value` as a functional update of the whole tree -/
def setAt : List Key → Key → Val α → Val α → Except Err (Val α)
  | [], last, .node kvs, v => (setKey kvs last v).map .node
  | [], _, _, _ => .error .keyError
  | .str k :: p, last, .node kvs, v =>
    match kvs.lookup k with
    | some c => (setAt p last c v).map (fun c' => .node (dictSet kvs k c'))
    | none => .error .keyError
  | .int i :: p, last, .tup vs, v =>
    match pyIdx i vs.length with
    | some n =>
      match vs[n]? with
      | some c => (setAt p last c v).map (fun c' => .tup (vs.set n c'))
      | none => .error .indexError
    | none => .error .indexError
  | _ :: _, _, _, _ => .error .keyError

/-- `Structured(**kvs)[key] = value`; returns the new structure -/
def setAny (kvs : Items α) (key : AnyKey) (v : Val α) : Except Err (Items α) :=
  match key with
  | .plain k => setKey kvs k v
  | .path [] => .error .keyError
  | .path (k :: p) =>
    match setAt ((k :: p).dropLast) ((k :: p).getLast (List.cons_ne_nil k p)) (.node kvs) v with
    | .ok (.node kvs') => .ok kvs'
    | .ok _ => .error .keyError   -- unreachable: `setAt` on a node returns a node (`setAt_node`)
    | .error e => .error e

/-! ## `__getattr__`, `__setattr__` -/

/-- `getattr(self, attr)` for a name that is not a real attribute of the class -/
def getAttr (kvs : Items α) (attr : String) : Except Err (Val α) :=
  if badKey attr then .error .attributeError
  else match kvs.lookup attr with
    | some v => .ok v
    | none => .error .attributeError

/-- `setattr(self, attr, value)`; `_metadata` is the only assignable slot besides `_structure`
(not modelled) -/
def setAttr (kvs : Items α) (attr : String) (v : Val α) : Except Err (Items α) :=
  if badKey attr then (if attr == "_metadata" then .ok kvs else .error .attributeError)
  else .ok (dictSet kvs attr v)

/-! ## `__iter__`, `__len__`, `__contains__` -/

/-- root value first, then the other values in insertion order -/
def rootFirst (kvs : Items α) : List (Val α) :=
  (kvs.lookup "root").toList ++ (kvs.filter (fun kv => !isRootKey kv.1)).map (·.2)

/-- `list(obj)` for `obj` a `Structured` (`leafIter a = none`: the leaf is not `Iterable`). The
function recurses through nested root-only `Structured`s, which is why it is defined on values; it is
only ever applied to a `.node` (the other two cases are `iter(tuple)` and, for completeness, the
elements of an iterable leaf). -/
def iterV (leafIter : α → Option (List (Val α))) : Val α → List (Val α)
  | .leaf a =>
    match leafIter a with
    | some xs => xs
    | none => []
  | .tup vs => vs
  | .node [] => []
  | .node ((k, r) :: rest) =>
    if rootOnly ((k, r) :: rest) then
      match r with
      | .tup vs => vs
      | .node kvs' => iterV leafIter (.node kvs')
      | .leaf a =>
        match leafIter a with
        | some xs => xs
        | none => rootFirst ((k, r) :: rest)
    else rootFirst ((k, r) :: rest)

/-- `list(Structured(**kvs))` -/
def iter (leafIter : α → Option (List (Val α))) (kvs : Items α) : List (Val α) :=
  iterV leafIter (.node kvs)

/-- `len(self)`: `sum(1 for _ in self)` -/
def len (leafIter : α → Option (List (Val α))) (kvs : Items α) : Nat :=
  (iter leafIter kvs).foldl (fun n _ => n + 1) 0

/-- `key in self` -/
def contains (kvs : Items α) : Key → Bool
  | .str s => kvs.any (fun kv => kv.1 == s)
  | _ => false

/-! ## `__eq__` -/

mutual
/-- Python `==` between two stored values (`leq`: `==` of leaf objects) -/
def valEq (leq : α → α → Bool) : Val α → Val α → Bool
  | .leaf a, .leaf b => leq a b
  | .tup vs, .tup ws => tupEq leq vs ws
  | .node kvs, .node kvs' => kvs.length == kvs'.length && itemsSub leq kvs kvs'
  | _, _ => false
def tupEq (leq : α → α → Bool) : List (Val α) → List (Val α) → Bool
  | [], [] => true
  | v :: vs, w :: ws => valEq leq v w && tupEq leq vs ws
  | _, _ => false
/-- every key of the first dict is in the second with an equal value -/
def itemsSub (leq : α → α → Bool) : Items α → Items α → Bool
  | [], _ => true
  | (k, v) :: r, other =>
    (match other.lookup k with
     | some w => valEq leq v w
     | none => false) && itemsSub leq r other
end

/-- `Structured(**kvs) == other` -/
def eqTop (leq : α → α → Bool) (kvs : Items α) : Val α → Bool
  | .node kvs' => valEq leq (.node kvs) (.node kvs')
  | _ => false

/-! ## `_to_dict` -/

/-- the result of `_to_dict`: plain dicts, with `Structured` instances left in place when
`recurse=False` -/
inductive DVal (α : Type) where
  | leaf (a : α)
  | tup (vs : List (DVal α))
  | dict (kvs : List (String × DVal α))
  | st (v : Val α)

mutual
/-- `do_recursion(obj)` -/
def toDictV (recurse : Bool) : Val α → DVal α
  | .leaf a => .leaf a
  | .tup vs => .tup (toDictT recurse vs)
  | .node kvs => if recurse then .dict (toDictI kvs) else .st (.node kvs)
def toDictT (recurse : Bool) : List (Val α) → List (DVal α)
  | [] => []
  | v :: vs => toDictV recurse v :: toDictT recurse vs
/-- `obj._to_dict()` (nested calls use the default `recurse=True`) -/
def toDictI : Items α → List (String × DVal α)
  | [] => []
  | (k, v) :: r => (k, toDictV true v) :: toDictI r
end

/-- `Structured(**kvs)._to_dict(recurse=…)` -/
def toDict (recurse : Bool) : Items α → List (String × DVal α)
  | [] => []
  | (k, v) :: r => (k, toDictV recurse v) :: toDict recurse r

mutual
/-- reading a `_to_dict` result back as a tree -/
def DVal.toVal : DVal α → Val α
  | .leaf a => .leaf a
  | .tup vs => .tup (DVal.toValT vs)
  | .dict kvs => .node (DVal.toValI kvs)
  | .st v => v
def DVal.toValT : List (DVal α) → List (Val α)
  | [] => []
  | v :: vs => DVal.toVal v :: DVal.toValT vs
def DVal.toValI : List (String × DVal α) → Items α
  | [] => []
  | (k, v) :: r => (k, DVal.toVal v) :: DVal.toValI r
end

mutual
/-- no `Structured` instance is left anywhere -/
def DVal.plain : DVal α → Bool
  | .leaf _ => true
  | .tup vs => DVal.plainT vs
  | .dict kvs => DVal.plainI kvs
  | .st _ => false
def DVal.plainT : List (DVal α) → Bool
  | [] => true
  | v :: vs => DVal.plain v && DVal.plainT vs
def DVal.plainI : List (String × DVal α) → Bool
  | [] => true
  | (_, v) :: r => DVal.plain v && DVal.plainI r
end

/-! ## `_map(func, recurse=False)` -/

mutual
/-- `apply_func(obj, context)` when `recurse=False`: tuples are still mapped element-wise, but a nested
`Structured` is handed to `func` as one object -/
def mapNR {β : Type} (f : Val α → Path → β) : Path → Val α → Val β
  | ctx, .leaf a => .leaf (f (.leaf a) ctx)
  | ctx, .tup vs => .tup (mapNRT f ctx 0 vs)
  | ctx, .node kvs => .leaf (f (.node kvs) ctx)
def mapNRT {β : Type} (f : Val α → Path → β) : Path → Nat → List (Val α) → List (Val β)
  | _, _, [] => []
  | ctx, i, v :: vs => mapNR f (ctx ++ [.idx i]) v :: mapNRT f ctx (i + 1) vs
end

/-- `Structured(**kvs)._map(func, recurse=False)` -/
def mapTopNR {β : Type} (f : Val α → Path → β) (kvs : Items α) : Val β :=
  .node (rootLast (kvs.map (fun kv => (kv.1, mapNR f [.key kv.1] kv.2))))

/-! ## leaf objects of the correspondence and the default merger -/

/-- the Python objects the correspondence stores as leaves -/
inductive Leaf where
  | str (s : String)
  | int (i : Int)
  | list (xs : List Int)
  | set (xs : List Int)                 -- a `set` of ints, listed without duplicates
  | dict (kvs : List (String × Int))
deriving DecidableEq, Repr, Inhabited

def Leaf.isList : Leaf → Bool | .list _ => true | _ => false
def Leaf.isSet : Leaf → Bool | .set _ => true | _ => false
def Leaf.isDict : Leaf → Bool | .dict _ => true | _ => false
def Leaf.listElems : Leaf → List Int | .list xs => xs | _ => []
def Leaf.setElems : Leaf → List Int | .set xs => xs | _ => []
def Leaf.dictItems : Leaf → List (String × Int) | .dict kvs => kvs | _ => []

/-- insert into a set kept as a duplicate-free list -/
def setAdd (s : List Int) (x : Int) : List Int := if s.contains x then s else s ++ [x]

/-- `set.union(*items)` -/
def setUnion (items : List (List Int)) : List Int := items.foldl (fun s it => it.foldl setAdd s) []

/-- `dict(itertools.chain(*(d.items() for d in items)))` -/
def dictChain (items : List (List (String × Int))) : List (String × Int) :=
  items.foldl (fun d it => dictUpdate d it) []

/-- `Structured.__merger_default(*items)` -/
def mergerDefault (items : List Leaf) : Except St.Err Leaf :=
  if items.all Leaf.isList then .ok (.list (items.flatMap Leaf.listElems))
  else if items.all Leaf.isSet then .ok (.set (setUnion (items.map Leaf.setElems)))
  else if items.all Leaf.isDict then .ok (.dict (dictChain (items.map Leaf.dictItems)))
  else .error .merger

/-- `cls._merge(*objs)` with the default merger -/
def mergeDefault (objs : List (Val Leaf)) : Except St.Err (Val Leaf) := mergeTop mergerDefault objs

/-- `a == b` for leaf objects (sets and dicts compare without order) -/
def Leaf.eq : Leaf → Leaf → Bool
  | .str a, .str b => a == b
  | .int a, .int b => a == b
  | .list a, .list b => a == b
  | .set a, .set b => a.all b.contains && b.all a.contains
  | .dict a, .dict b => a.length == b.length && a.all (fun kv => b.lookup kv.1 == some kv.2)
  | _, _ => false

/-- `leaf[key]` -/
def Leaf.item : Leaf → Key → Except Err (Val Leaf)
  | .str s, .int i =>
    match pyIdx i s.toList.length with
    | some n =>
      match s.toList[n]? with
      | some c => .ok (.leaf (.str (String.singleton c)))
      | none => .error .indexError
    | none => .error .indexError
  | .str _, _ => .error .typeError
  | .int _, _ => .error .typeError
  | .list xs, .int i =>
    match pyIdx i xs.length with
    | some n =>
      match xs[n]? with
      | some x => .ok (.leaf (.int x))
      | none => .error .indexError
    | none => .error .indexError
  | .list _, _ => .error .typeError
  | .set _, _ => .error .typeError
  | .dict kvs, .str k =>
    match kvs.lookup k with
    | some x => .ok (.leaf (.int x))
    | none => .error .keyError
  | .dict _, _ => .error .keyError

/-- `list(leaf)` when the leaf is `Iterable` (a `set` is listed in ascending order by the harness) -/
def Leaf.iter : Leaf → Option (List (Val Leaf))
  | .str s => some (s.toList.map (fun c => .leaf (.str (String.singleton c))))
  | .int _ => none
  | .list xs => some (xs.map (fun x => .leaf (.int x)))
  | .set xs => some (xs.map (fun x => .leaf (.int x)))
  | .dict kvs => some (kvs.map (fun kv => .leaf (.str kv.1)))

/-! ## histories of container operations on one `Structured` -/

/-- what the leaf type contributes: its own `[]`, `iter` and `==` -/
structure LeafOps (α : Type) where
  item : α → Key → Except Err (Val α)
  iter : α → Option (List (Val α))
  eq : α → α → Bool

/-- the leaf objects of the correspondence -/
def Leaf.ops : LeafOps Leaf := ⟨Leaf.item, Leaf.iter, Leaf.eq⟩

inductive Op (α : Type) where
  | get (k : AnyKey)
  | set (k : AnyKey) (v : Val α)
  | getattr (a : String)
  | setattr (a : String) (v : Val α)
  | iter
  | len
  | contains (k : Key)
  | eq (other : Val α)
  | toDict (recurse : Bool)

/-- what an operation returns -/
inductive Res (α : Type) where
  | none
  | val (v : Val α)
  | vals (vs : List (Val α))
  | nat (n : Nat)
  | bool (b : Bool)
  | dict (d : List (String × DVal α))
  | err (e : Err)

def resOf : Except Err (Val α) → Res α
  | .ok v => .val v
  | .error e => .err e

/-- one operation on the object: the new structure (unchanged when the operation raises or only
reads) and the result -/
def step (L : LeafOps α) (kvs : Items α) : Op α → Items α × Res α
  | .get k => (kvs, resOf (getAny L.item kvs k))
  | .set k v =>
    match setAny kvs k v with
    | .ok kvs' => (kvs', .none)
    | .error e => (kvs, .err e)
  | .getattr a => (kvs, resOf (getAttr kvs a))
  | .setattr a v =>
    match setAttr kvs a v with
    | .ok kvs' => (kvs', .none)
    | .error e => (kvs, .err e)
  | .iter => (kvs, .vals (iter L.iter kvs))
  | .len => (kvs, .nat (len L.iter kvs))
  | .contains k => (kvs, .bool (contains kvs k))
  | .eq other => (kvs, .bool (eqTop L.eq kvs other))
  | .toDict r => (kvs, .dict (toDict r kvs))

def run (L : LeafOps α) (kvs : Items α) : List (Op α) → Items α
  | [] => kvs
  | op :: ops => run L (step L kvs op).1 ops

/-- the states and results after each operation -/
def trace (L : LeafOps α) (kvs : Items α) : List (Op α) → List (Items α × Res α)
  | [] => []
  | op :: ops => let r := step L kvs op; r :: trace L r.1 ops

end FormulaicVerif.Model.StOps
