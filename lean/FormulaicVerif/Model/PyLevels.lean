/-! # C08 — level inference over Python scalars (`encode_contrasts`, level discovery)

`encode_contrasts` (transforms/contrasts.py) obtains the levels of a column that has no declared
categories with `pandas.Series(data).astype("category").cat.categories`. For the values a data
column of a frame can hold (text, integers, booleans, floats, bytes; `None`/NaN = null) that is:

1. `factorize`: the distinct non-null values in order of FIRST appearance, where "distinct" is
   Python's `==` together with `hash` (so `True`, `1` and `1.0` are one value, represented by
   whichever came first)                                                  — `uniques`;
2. `safe_sort` of those: a plain comparison sort when all values compare with `<`
   (all text, all numbers, all bytes); when that raises `TypeError` (text mixed with anything else)
   `_sort_mixed`: the non-text values sorted among themselves, then the text values sorted
   (code-point order)                                                     — `sortMixed`;
3. when `_sort_mixed` raises `TypeError` as well (numbers mixed with bytes: Python cannot order
   them) `Categorical.__init__` falls back to `factorize(sort=False)`: order of first appearance
                                                                          — `inferLevels`.

The comparison sort is modelled as an insertion sort whose comparison can fail (`pyLt` returns
`none` for a pair Python refuses to order); `Props/C08.lean` proves that it fails exactly when the
list holds such a pair, and that its result is THE strictly increasing arrangement otherwise.

A categorical dtype / `levels=[…]` argument skips all this: the declared list is used as it is
(`pandas.Categorical(data, categories=levels)`; a value outside the list becomes a null; a declared
list with a repeated entry is a `ValueError`) — `recode`, `checkDeclared`.

Labels: a level is shown in column names through `str.format` (`"{name}[{field}]"`): `pyLabel`.
Core Lean only. -/
namespace FormulaicVerif.Model.PyLevels

/-- the Python scalars a data column holds (a null is `none : Option PyVal`) -/
inductive PyVal
  | str (s : String)
  | int (i : Int)
  | bool (b : Bool)
  /-- a finite float, by its exact value -/
  | flt (q : Rat)
  /-- a `bytes` object (ASCII content) -/
  | bytes (s : String)
deriving DecidableEq, Repr, Inhabited

def PyVal.isStr : PyVal → Bool
  | .str _ => true
  | _ => false

/-- what Python's `==`, `hash` and `<` look at: text, bytes, or the number an `int` / `bool` /
`float` stands for (`True == 1 == 1.0`, `False == 0`) -/
inductive Key
  | str (s : String)
  | bytes (s : String)
  | num (q : Rat)
deriving DecidableEq, Repr

def PyVal.key : PyVal → Key
  | .str s => .str s
  | .bytes s => .bytes s
  | .int i => .num (i : Rat)
  | .bool b => .num (if b then 1 else 0)
  | .flt q => .num q

/-- Python `a == b` (numbers compare by value across `bool`/`int`/`float`; text and bytes never
equal each other or a number) -/
def pyEq (a b : PyVal) : Bool := decide (a.key = b.key)

/-- `<` on keys; `none` = `TypeError: '<' not supported between instances of …` -/
def Key.lt? : Key → Key → Option Bool
  | .str s, .str t => some (decide (s < t))
  | .bytes s, .bytes t => some (decide (s < t))
  | .num x, .num y => some (decide (x < y))
  | _, _ => none

/-- Python `a < b` -/
def pyLt (a b : PyVal) : Option Bool := Key.lt? a.key b.key

/-! ### step 1: distinct values in order of first appearance -/

/-- first-seen representatives of the `==` classes -/
def uniq : List PyVal → List PyVal
  | [] => []
  | x :: r => x :: (uniq r).filter (fun y => !pyEq x y)

/-- `factorize(values)[1]`: nulls are not values -/
def uniques (vals : List (Option PyVal)) : List PyVal := uniq (vals.filterMap id)

/-! ### step 2: the comparison sort, with a comparison that can raise -/

/-- insert into a sorted list; `none` as soon as a comparison raises -/
def insertE (x : PyVal) : List PyVal → Option (List PyVal)
  | [] => some [x]
  | y :: r =>
    match pyLt x y with
    | none => none
    | some true => some (x :: y :: r)
    | some false =>
      match insertE x r with
      | none => none
      | some l => some (y :: l)

/-- insertion sort; `none` = `TypeError` -/
def isortE : List PyVal → Option (List PyVal)
  | [] => some []
  | x :: r =>
    match isortE r with
    | none => none
    | some l => insertE x l

/-- `safe_sort`: the plain sort, or — when that raises — `_sort_mixed` (non-text sorted, then text
sorted); `none` when `_sort_mixed` raises too -/
def sortMixed (u : List PyVal) : Option (List PyVal) :=
  match isortE u with
  | some l => some l
  | none =>
    match isortE (u.filter (fun v => !v.isStr)), isortE (u.filter (fun v => v.isStr)) with
    | some a, some b => some (a ++ b)
    | _, _ => none

/-- step 3: `astype("category").cat.categories` — sorted when Python can sort, else first-seen order -/
def inferLevels (vals : List (Option PyVal)) : List PyVal :=
  match sortMixed (uniques vals) with
  | some l => l
  | none => uniques vals

/-! ### declared categories -/

/-- `pandas.Categorical(values, categories=levels)` refuses a repeated category -/
def hasDup : List PyVal → Bool
  | [] => false
  | x :: r => r.any (pyEq x) || hasDup r

/-- position of the level a value is recoded to (`codes`; `none` = `-1`, the value is not a level) -/
def codeOf (lvls : List PyVal) (v : PyVal) : Option Nat :=
  match lvls with
  | [] => none
  | l :: r => if pyEq l v then some 0 else (codeOf r v).map (· + 1)

/-- the row values as the encoder sees them once the levels are fixed: a value outside the levels
is a null, any other value is replaced by the level it equals -/
def recode (lvls : List PyVal) (vals : List (Option PyVal)) : List (Option Nat) :=
  vals.map (fun v => v.bind (codeOf lvls))

/-- does the row hold a value equal (Python `==`) to the level `l` (a null holds no level) -/
def rowHolds (l : PyVal) : Option PyVal → Bool
  | some x => pyEq l x
  | none => false

/-- `categories`: the declared list (categorical dtype, `levels=` argument) or the inferred one -/
def levelsOf (vals : List (Option PyVal)) (declared : Option (List PyVal)) : List PyVal :=
  match declared with
  | some d => d
  | none => inferLevels vals

/-! ### labels -/

def digitChar (n : Nat) : Char := Char.ofNat (48 + n % 10)

/-- decimal digits of a natural number (`str(n)`) -/
def natDigits (n : Nat) : String := toString n

/-- digits of the fractional part `r/d` (`0 ≤ r < d`) when the expansion terminates within `fuel` digits -/
def fracDigits (d : Nat) : Nat → Nat → Option (List Char)
  | _, 0 => some []
  | 0, _ => none
  | fuel + 1, r =>
    match fracDigits d fuel ((r * 10) % d) with
    | none => none
    | some ds => some (digitChar ((r * 10) / d) :: ds)

/-- `repr(float)` for a float whose exact value has a short terminating decimal expansion
(`1.5`, `-0.25`, `2.0`); `none` otherwise (not modelled: shortest round-trip digits, exponents) -/
def floatLabel (q : Rat) : Option String :=
  let n := q.num.natAbs
  let d := q.den
  if n / d ≥ 10000000000000000 then none else
  match fracDigits d 12 (n % d) with
  | none => none
  | some ds =>
    let frac := if ds.isEmpty then "0" else String.ofList ds
    some ((if q.num < 0 then "-" else "") ++ natDigits (n / d) ++ "." ++ frac)

/-- `repr(bytes)` for printable ASCII content without quotes or backslashes -/
def bytesLabel (s : String) : String := "b'" ++ s ++ "'"

/-- `"{field}".format(field=level)` -/
def pyLabel : PyVal → Option String
  | .str s => some s
  | .int i => some (toString i)
  | .bool b => some (if b then "True" else "False")
  | .flt q => floatLabel q
  | .bytes s => some (bytesLabel s)

end FormulaicVerif.Model.PyLevels
