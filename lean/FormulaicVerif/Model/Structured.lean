/-! `formulaic/utils/structured.py` — `Structured` as a keyed/tuple tree.

A Python value stored in a `Structured` is one of
* a leaf (any object that is neither a `tuple` nor a `Structured`),
* a `tuple` of values,
* a `Structured` instance: its `_structure` dict, an insertion-ordered list of `(key, value)`.

Quirks that are mirrored on purpose:
* the constructor binds a `root=` keyword to its positional parameter and re-inserts it with
  `structure["root"] = root`, i.e. LAST; `_map`, `_update` and `_merge` all finish by calling the
  constructor with `**dict`, so they move the root key to the end (`rootLast`);
* `_simplify` never unwraps a tuple root (a one-element tuple stays a tuple);
* `_has_keys` is `set(keys) != {"root"}`;
* `_merge` upcasts bare leaves under the key `root`, refuses a mixture of tuples and non-tuples,
  returns a bare tuple below the top level and a wrapped one at the top level.
Only one `Structured` class is modelled (no subclass re-preparation in `__prepare_item`);
`_metadata` is not modelled. -/
namespace FormulaicVerif.Model.St

inductive PathElem where
  | key (k : String)
  | idx (i : Nat)
deriving DecidableEq, Repr, Inhabited

abbrev Path := List PathElem

inductive Val (α : Type) where
  | leaf (a : α)
  | tup (vs : List (Val α))
  | node (kvs : List (String × Val α))

instance {α : Type} : Inhabited (Val α) := ⟨.node []⟩

abbrev Items (α : Type) := List (String × Val α)

inductive Err where
  | valueError          -- constructor: key starts with "_" ; `_merge`: substructures not aligned
  | keyError            -- `__setitem__` with a non-identifier / underscore key; path lookups
  | runtimeError        -- `_simplify(inplace=True, unwrap=True)`
  | merger              -- the user supplied `merger` raised
  | outOfFuel           -- model artefact; excluded by `merge_fuel_sufficient`
deriving DecidableEq, Repr, Inhabited

variable {α β : Type}

def isRootKey (k : String) : Bool := k == "root"

def Val.isTup : Val α → Bool
  | .tup _ => true
  | _ => false

def Val.isNode : Val α → Bool
  | .node _ => true
  | _ => false

/-! ## dictionaries (insertion ordered, unique keys) -/

/-- `d[k] = v` on an insertion-ordered dict -/
def dictSet {γ} (d : List (String × γ)) (k : String) (v : γ) : List (String × γ) :=
  match d with
  | [] => [(k, v)]
  | (k', v') :: r => if k' == k then (k', v) :: r else (k', v') :: dictSet r k v

/-- `{**d, **u}` -/
def dictUpdate {γ} (d u : List (String × γ)) : List (String × γ) :=
  u.foldl (fun acc kv => dictSet acc kv.1 kv.2) d

/-- what `Structured(**kvs)` stores: `root` is popped into the positional parameter and
re-inserted last -/
def rootLast {γ} (kvs : List (String × γ)) : List (String × γ) :=
  kvs.filter (fun kv => !isRootKey kv.1) ++ kvs.filter (fun kv => isRootKey kv.1)

/-- `key.startswith("_")` -/
def badKey (k : String) : Bool :=
  match k.toList with
  | c :: _ => c == '_'
  | [] => false

/-- `Structured(**kvs)` -/
def ctor (kvs : Items α) : Except Err (Val α) :=
  if kvs.any (fun kv => badKey kv.1) then .error .valueError else .ok (.node (rootLast kvs))

/-! ## `_flatten`, `_map` -/

mutual
/-- `_flatten` (depth first, in `_structure` order, tuples in index order) -/
def flatten : Val α → List α
  | .leaf a => [a]
  | .tup vs => flattenT vs
  | .node kvs => flattenI kvs
def flattenT : List (Val α) → List α
  | [] => []
  | v :: vs => flatten v ++ flattenT vs
def flattenI : Items α → List α
  | [] => []
  | (_, v) :: r => flatten v ++ flattenI r
end

mutual
/-- the leaves in `_flatten` order together with the context `_map` hands to `func` -/
def flattenP : Path → Val α → List (α × Path)
  | ctx, .leaf a => [(a, ctx)]
  | ctx, .tup vs => flattenPT ctx 0 vs
  | ctx, .node kvs => flattenPI ctx kvs
def flattenPT : Path → Nat → List (Val α) → List (α × Path)
  | _, _, [] => []
  | ctx, i, v :: vs => flattenP (ctx ++ [.idx i]) v ++ flattenPT ctx (i + 1) vs
def flattenPI : Path → Items α → List (α × Path)
  | _, [] => []
  | ctx, (k, v) :: r => flattenP (ctx ++ [.key k]) v ++ flattenPI ctx r
end

mutual
/-- `_map(func)` with `recurse=True` (value only). `apply_func` and the nested `_map` are the
same function here: on a nested `Structured` the constructor is called again (so `rootLast`). -/
def mapV (f : α → Path → β) : Path → Val α → Val β
  | ctx, .leaf a => .leaf (f a ctx)
  | ctx, .tup vs => .tup (mapT f ctx 0 vs)
  | ctx, .node kvs => .node (rootLast (mapI f ctx kvs))
def mapT (f : α → Path → β) : Path → Nat → List (Val α) → List (Val β)
  | _, _, [] => []
  | ctx, i, v :: vs => mapV f (ctx ++ [.idx i]) v :: mapT f ctx (i + 1) vs
def mapI (f : α → Path → β) : Path → Items α → Items β
  | _, [] => []
  | ctx, (k, v) :: r => (k, mapV f (ctx ++ [.key k]) v) :: mapI f ctx r
end

mutual
/-- `_map(func)` together with the log of calls `func(obj, context)` in evaluation order
(dict comprehension over `_structure.items()`, generator over the tuple, depth first) -/
def mapLog (f : α → Path → β) : Path → Val α → Val β × List (α × Path)
  | ctx, .leaf a => (.leaf (f a ctx), [(a, ctx)])
  | ctx, .tup vs => let r := mapLogT f ctx 0 vs; (.tup r.1, r.2)
  | ctx, .node kvs => let r := mapLogI f ctx kvs; (.node (rootLast r.1), r.2)
def mapLogT (f : α → Path → β) : Path → Nat → List (Val α) → List (Val β) × List (α × Path)
  | _, _, [] => ([], [])
  | ctx, i, v :: vs =>
    let a := mapLog f (ctx ++ [.idx i]) v
    let b := mapLogT f ctx (i + 1) vs
    (a.1 :: b.1, a.2 ++ b.2)
def mapLogI (f : α → Path → β) : Path → Items α → Items β × List (α × Path)
  | _, [] => ([], [])
  | ctx, (k, v) :: r =>
    let a := mapLog f (ctx ++ [.key k]) v
    let b := mapLogI f ctx r
    ((k, a.1) :: b.1, a.2 ++ b.2)
end

mutual
/-- the plain functorial map that does not touch the key order (reference for "same shape") -/
def mapPure (f : α → Path → β) : Path → Val α → Val β
  | ctx, .leaf a => .leaf (f a ctx)
  | ctx, .tup vs => .tup (mapPureT f ctx 0 vs)
  | ctx, .node kvs => .node (mapPureI f ctx kvs)
def mapPureT (f : α → Path → β) : Path → Nat → List (Val α) → List (Val β)
  | _, _, [] => []
  | ctx, i, v :: vs => mapPure f (ctx ++ [.idx i]) v :: mapPureT f ctx (i + 1) vs
def mapPureI (f : α → Path → β) : Path → Items α → Items β
  | _, [] => []
  | ctx, (k, v) :: r => (k, mapPure f (ctx ++ [.key k]) v) :: mapPureI f ctx r
end

mutual
/-- what re-running every constructor does to a tree: root key last at every level -/
def norm : Val α → Val α
  | .leaf a => .leaf a
  | .tup vs => .tup (normT vs)
  | .node kvs => .node (rootLast (normI kvs))
def normT : List (Val α) → List (Val α)
  | [] => []
  | v :: vs => norm v :: normT vs
def normI : Items α → Items α
  | [] => []
  | (k, v) :: r => (k, norm v) :: normI r
end

mutual
/-- the shape of a value: the same tree with every leaf erased -/
def shape : Val α → Val Unit
  | .leaf _ => .leaf ()
  | .tup vs => .tup (shapeT vs)
  | .node kvs => .node (shapeI kvs)
def shapeT : List (Val α) → List (Val Unit)
  | [] => []
  | v :: vs => shape v :: shapeT vs
def shapeI : Items α → Items Unit
  | [] => []
  | (k, v) :: r => (k, shape v) :: shapeI r
end

/-! ## `_simplify` -/

/-- the result of `_simplify()` on a `Structured` with structure `kvs`, given the recursively
simplified items `s` of `kvs`: if the only key is `root` and the root is not a tuple
(`_has_structure` false) the `while` loop steps into the root, so the result is the simplified
root (a bare leaf, or whatever the nested `Structured` simplifies to); otherwise the wrapper is
kept and its values are replaced by their simplifications. -/
def collapse (kvs s : Items α) : Val α :=
  match kvs, s with
  | [(k, r)], [(_, r')] => if isRootKey k && !r.isTup then r' else .node s
  | _, _ => .node s

mutual
/-- `obj._simplify(recurse=True)` as called from `simplify_obj` (defaults `unwrap=True`,
`inplace=False`), extended to tuples and leaves exactly as `simplify_obj` does. -/
def simpObj : Val α → Val α
  | .leaf a => .leaf a
  | .tup vs => .tup (simpT vs)
  | .node kvs => collapse kvs (simpI kvs)
def simpT : List (Val α) → List (Val α)
  | [] => []
  | v :: vs => simpObj v :: simpT vs
def simpI : Items α → Items α
  | [] => []
  | (k, v) :: r => (k, simpObj v) :: simpI r
end

/-- the `while` loop of `_simplify` -/
def unwrapLoop (unwrap : Bool) : Val α → Val α
  | .node [(k, r)] =>
    if isRootKey k then
      match r with
      | .tup ws => .node [(k, .tup ws)]
      | .leaf a => if unwrap then .leaf a else .node [(k, .leaf a)]
      | .node kvs' => unwrapLoop unwrap (.node kvs')
    else .node [(k, r)]
  | v => v

/-- `Structured(**kvs)._simplify(recurse=, unwrap=, inplace=)` — the returned value -/
def simplify (recurse unwrap inplace : Bool) (kvs : Items α) : Except Err (Val α) :=
  if inplace && unwrap then .error .runtimeError
  else
    match unwrapLoop unwrap (.node kvs) with
    | .node s => .ok (.node (if recurse then simpI s else s))
    | v => .ok v

/-! ## `_update` -/

/-- `self._update(root, **kw)`: `kw["root"] = root`, then `cls(**{**self._structure, **kw})` -/
def update (s : Items α) (root : Option (Val α)) (kw : Items α) : Except Err (Val α) :=
  let u := match root with
    | some r => dictSet kw "root" r
    | none => kw
  ctor (dictUpdate s u)

/-- `self[key] = value` for a string key (`__setitem__`/`__setattr__`): in place -/
def setItem (s : Items α) (k : String) (v : Val α) : Except Err (Items α) :=
  if badKey k then .error .keyError else .ok (dictSet s k v)

/-! ## `_merge` -/

/-- `values_to_merge[key].append(value)` -/
def groupAdd (g : List (String × List (Val α))) (k : String) (v : Val α) :
    List (String × List (Val α)) :=
  match g with
  | [] => [(k, [v])]
  | (k', vs) :: r => if k' == k then (k', vs ++ [v]) :: r else (k', vs) :: groupAdd r k v

/-- the items an object contributes: its `_structure`, or `{"root": obj}` for a bare object -/
def itemsOf : Val α → Items α
  | .node kvs => kvs
  | v => [("root", v)]

/-- the `values_to_merge` dict after the loop over `objects` -/
def group (objs : List (Val α)) : List (String × List (Val α)) :=
  objs.foldl (fun g o => (itemsOf o).foldl (fun g kv => groupAdd g kv.1 kv.2) g) []

def tupElems : Val α → List (Val α)
  | .tup vs => vs
  | _ => []

def leafOf : Val α → List α
  | .leaf a => [a]
  | _ => []

mutual
def height : Val α → Nat
  | .leaf _ => 0
  | .tup vs => heightT vs
  | .node kvs => heightI kvs + 1
def heightT : List (Val α) → Nat
  | [] => 0
  | v :: vs => max (height v) (heightT vs)
def heightI : Items α → Nat
  | [] => 0
  | (_, v) :: r => max (height v) (heightI r)
end

/-- `cls._merge(*objs, merger=merger, _context=ctx)`; `fuel` bounds the recursion depth
(see `Props.C19.merge_fuel_sufficient`). -/
def merge (merger : List α → Except Err α) : Nat → List String → List (Val α) → Except Err (Val α)
  | 0, _, _ => .error .outOfFuel
  | fuel + 1, ctx, objs =>
    if objs.isEmpty then .ok (.node [])
    else if objs.any Val.isTup && !objs.all Val.isTup then .error .valueError
    else if objs.all Val.isTup then
      let merged : Val α := .tup (objs.flatMap tupElems)
      if ctx.isEmpty then ctor [("root", merged)] else .ok merged
    else if objs.all (fun o => !o.isNode) then
      (merger (objs.flatMap leafOf)).map .leaf
    else do
      let r ← (group objs).mapM (fun kvs =>
        match kvs.2 with
        | [v] => pure (kvs.1, v)
        | vs => do
          let m ← merge merger fuel (ctx ++ [kvs.1]) vs
          pure (kvs.1, m))
      ctor r

/-- enough fuel for `objs` -/
def mergeFuel (objs : List (Val α)) : Nat := heightT objs + 1

def mergeTop (merger : List α → Except Err α) (objs : List (Val α)) : Except Err (Val α) :=
  merge merger (mergeFuel objs) [] objs

/-! ## path lookup (`__getitem__` with a tuple key) -/

def lookupPath : Path → Val α → Except Err (Val α)
  | [], v => .ok v
  | .key k :: p, .node kvs =>
    match kvs.lookup k with
    | some v => lookupPath p v
    | none => .error .keyError
  | .idx i :: p, .tup vs =>
    match vs[i]? with
    | some v => lookupPath p v
    | none => .error .keyError   -- IndexError in Python (tuple index out of range)
  | _ :: _, _ => .error .keyError

mutual
/-- every `Structured` in the value has unique keys (it is a dict) -/
def WF : Val α → Prop
  | .leaf _ => True
  | .tup vs => WFT vs
  | .node kvs => (kvs.map (·.1)).Nodup ∧ WFI kvs
def WFT : List (Val α) → Prop
  | [] => True
  | v :: vs => WF v ∧ WFT vs
def WFI : Items α → Prop
  | [] => True
  | (_, v) :: r => WF v ∧ WFI r
end

end FormulaicVerif.Model.St
