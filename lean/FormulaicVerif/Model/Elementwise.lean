/-! The elementwise entries of `formulaic.transforms.TRANSFORMS`
(`log, log10, log2, exp, exp10, exp2`).

The model does not compute transcendental functions.  It records WHICH real function each preloaded
name denotes (`table`; its meaning over `ℝ` is `Spec.Real.denote`), and an executable table of the
exact values these functions take at exactly representable points (`exactAt`), which is what the
correspondence compares the real code with.  `Props.C13.exactAt_sound` proves the executable table
against the real functions. -/
namespace FormulaicVerif.Model.Elementwise

/-- names of real functions -/
inductive RealFn | log | log2 | log10 | exp | exp2 | exp10
deriving DecidableEq, Repr

/-- name in the formula namespace ↦ the function it must compute -/
def table : List (String × RealFn) :=
  [("log", .log), ("log10", .log10), ("log2", .log2), ("exp", .exp), ("exp10", .exp10), ("exp2", .exp2)]

def lookup (name : String) : Option RealFn := table.lookup name

/-- each function's inverse partner -/
def partner : RealFn → RealFn
  | .log => .exp | .exp => .log
  | .log2 => .exp2 | .exp2 => .log2
  | .log10 => .exp10 | .exp10 => .log10

/-- `b ^ k` for an integer exponent, exactly -/
def zpow (b : Nat) (k : Int) : Rat :=
  match k with
  | .ofNat n => ((b ^ n : Nat) : Rat)
  | .negSucc n => 1 / ((b ^ (n + 1) : Nat) : Rat)

/-- Exact value of `f` at the probe point indexed by the integer `k`, together with that point:
`exp2`/`exp10` are probed at `k`, `log2`/`log10` at `2^k`/`10^k`, `exp` only at `0`, `log` only at `1`.
Returns `(point, value)`. -/
def exactAt : RealFn → Int → Option (Rat × Rat)
  | .exp2, k => some ((k : Rat), zpow 2 k)
  | .exp10, k => some ((k : Rat), zpow 10 k)
  | .log2, k => some (zpow 2 k, (k : Rat))
  | .log10, k => some (zpow 10 k, (k : Rat))
  | .exp, 0 => some (0, 1)
  | .log, 0 => some (1, 0)
  | _, _ => none

end FormulaicVerif.Model.Elementwise
