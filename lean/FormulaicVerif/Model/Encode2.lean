import FormulaicVerif.Model.Encode
import FormulaicVerif.Model.PyLevels
/-! # C08 — one materializer object, several `get_model_matrix` calls, richer terms

Extends `Model/Encode.lean` (whose row-mask, cell, naming and kind-table definitions are used as
they are) in four directions:

* **values** are Python scalars (`PyLevels.PyVal`): text, integers, booleans, floats, bytes — an
  `object` column may mix them; levels are inferred by `PyLevels.inferLevels` (first-seen distinct
  values, comparison sort with a comparison that can raise, first-seen order when it does);
* **terms**: a plain column `x`; an explicit categorical `C(x)`, `C(x, contr.treatment(base=v))`,
  `C(x, levels=[…])` (`transforms/contrasts.py: C`, `encode_contrasts`, `Contrasts.apply`,
  `TreatmentContrasts`); a numeric literal scaling either (`2:x`, `2.5:C(x)` — a CONSTANT factor,
  `_get_scoped_terms_spanned_by_evaled_factors: scale *= factor.values`);
* **errors** of a call: a name that is not in the data (`FactorEvaluationError`), `na_action="raise"`
  with a null (`ValueError`), a treatment base that is not a level (`ValueError` from
  `_find_base_index`, raised while the term is ENCODED, i.e. after the earlier terms of the formula
  were encoded and cached), a repeated entry in `levels=` (`ValueError` from `pandas.Categorical`);
* **the object's caches**: `FormulaMaterializer` owns `factor_cache : expr ↦ evaluated factor` and
  `encoded_cache : (expr, reduced_rank) ↦ encoded columns`, filled while a call runs — also by a
  call that then fails. `get_model_matrix` starts with `self.factor_cache = {}; self.encoded_cache = {}`;
  the switch `reset` says whether it does (`true`: the tree under test). With `reset = false` a
  cached factor is neither re-evaluated nor re-checked for nulls and cached columns are handed out
  as they were built — for the rows and the output container of the call that built them.

`getModelMatrixOn` is the call on an object with given cache content (returns the caches the object
is left with, also when the call raises); `runHistory` a sequence of calls on one object.
`Props/C08.lean` proves: with `reset` every call of every history, from any cache content, returns
what a new object returns, and every cell of every returned matrix is a number.

Not modelled: `encoder_state_cache` (bookkeeping for the spec, C04/C09), interactions (C02),
contrasts other than treatment (C11), transform state. Core Lean only. -/
namespace FormulaicVerif.Model.Enc2
open FormulaicVerif.Model FormulaicVerif.Model.Encode FormulaicVerif.Model.PyLevels

inductive Err
  | unknownDtype      -- the dtype label is not in the probe table (harness-level)
  | probeFailed       -- `_is_categorical` raised on the probe series of this dtype
  | familyMismatch    -- the column's content does not belong to the dtype's family (harness-level)
  | unsupported       -- a level whose printed form is not modelled (harness-level)
  | valueError        -- null under `raise`; treatment base not among the levels; repeated level
  | factorEvaluation  -- `FactorEvaluationError`: the name is not in the data
  | keyError          -- `self.factor_cache[expr]` for an expression step 1 did not evaluate (unreachable)
  | shapeError        -- `reset = false` only: cached columns of another row count are combined
  | typeError         -- `output="narwhals"` and no column at all: `nw.from_native(<numpy array>)` (finding C08-F1)
deriving DecidableEq, Repr

def Err.name : Err → String
  | .unknownDtype => "unknown-dtype" | .probeFailed => "probe-failed" | .familyMismatch => "family-mismatch"
  | .unsupported => "unsupported" | .valueError => "ValueError" | .factorEvaluation => "FactorEvaluationError"
  | .keyError => "KeyError" | .shapeError => "ValueError" | .typeError => "TypeError"

inductive Output | pandas | numpy | sparse | narwhals
deriving DecidableEq, Repr

/-! ### the frame -/

/-- one data column: its dtype label (a row of the kind table), the declared categories of a
categorical dtype, the values (`none` = null) -/
structure In where
  name : String
  dtype : String
  declared : Option (List PyVal)
  vals : List (Option PyVal)
deriving DecidableEq, Repr

/-- may a column of this family (and dtype label) hold this value -/
def valOK (fam : DFamily) (dtype : String) (v : PyVal) : Bool :=
  match fam with
  | .text => v.isStr || dtype == "object" ||
      -- Arrow binary columns hold `bytes`
      ((dtype == "arrow:binary" || dtype == "arrow:large_binary") && (match v with | .bytes _ => true | _ => false))
  | .categorical => true
  | .numeric => match v with | .int _ => true | .flt _ => true | _ => false
  | .bool => match v with | .bool _ => true | _ => false

def In.familyOK (c : In) (r : KindRow) : Bool :=
  (decide (r.family = .categorical) == c.declared.isSome) &&
    c.vals.all (fun v => match v with | none => true | some x => valOK r.family c.dtype x)

def findCol (frame : List In) (name : String) : Option In := frame.find? (fun c => c.name == name)

/-! ### terms -/

/-- a numeric literal in front of a term (`2:x`, `2.5:x`) -/
inductive Scale | int (k : Int) | flt (q : Rat)
deriving DecidableEq, Repr

def Scale.val : Scale → Rat
  | .int k => (k : Rat)
  | .flt q => q

/-- contrasts given by the user instead of a coding class (`CustomContrasts`): a matrix with one row
per level and one column per contrast, `C(x, [[1, 0], [0, 1], [-1, -1]])`, or a dictionary
`contrast name ↦ weights over the levels`, `C(x, {"lo": [1, -1, 0], "hi": [0, 1, -1]})` -/
inductive Custom
  | matrix (rows : List (List Rat))
  | dict (entries : List (String × List Rat))
deriving DecidableEq, Repr

/-- what identifies a factor (the dictionary key `factor.expr` of the caches): the column and, for
`C(…)`, its arguments -/
structure FactorId where
  name : String
  isC : Bool
  /-- `contr.treatment(base=…)` -/
  base : Option PyVal
  /-- `levels=[…]` -/
  lvls : Option (List PyVal)
  /-- a contrast matrix / dictionary in place of the coding -/
  custom : Option Custom := none
deriving DecidableEq, Repr

/-- a main-effect term: `[k:]x` or `[k:]C(x, …)`; `expr` is the factor's text, from which column
names are formed -/
structure Term where
  expr : String
  scale : Option Scale
  fid : FactorId
deriving DecidableEq, Repr

/-! ### step 1: evaluation -/

/-- an evaluated factor (`EvaluatedFactor`): kind, the whole column -/
structure EvalF where
  categorical : Bool
  declared : Option (List PyVal)
  vals : List (Option PyVal)
deriving DecidableEq, Repr

/-- `_evaluate_factor` without the null check: look the name up, classify.
A plain column is CATEGORICAL when `_is_categorical` says so (kind table); `C(…)` always is. -/
def evalFactor (tbl : List KindRow) (m : Mat) (frame : List In) (f : FactorId) : Except Err EvalF :=
  match findCol frame f.name with
  | none => .error .factorEvaluation
  | some c =>
    match lookupRow tbl c.dtype with
    | none => .error .unknownDtype
    | some r =>
      if !c.familyOK r then .error .familyMismatch
      else if f.isC then .ok ⟨true, c.declared, c.vals⟩
      else
        match kindFor r m with
        | .error => .error .probeFailed
        | .categorical => .ok ⟨true, c.declared, c.vals⟩
        | .numerical => .ok ⟨false, c.declared, c.vals⟩

/-- `_check_for_nulls`: the null rows found so far (`drop_rows`, as a row mask `true` = has a null) -/
def checkNulls (na : NA) (vals : List (Option PyVal)) (nulls : List Bool) : Except Err (List Bool) :=
  match na with
  | .ignore => .ok nulls
  | .raise => if vals.any Option.isNone then .error .valueError else .ok nulls
  | .drop => .ok (List.zipWith (· || ·) nulls (vals.map Option.isNone))

def lookupBy {κ α : Type} [DecidableEq κ] (k : κ) : List (κ × α) → Option α
  | [] => none
  | (k', a) :: r => if k' = k then some a else lookupBy k r

/-- the two dictionaries of a materializer object -/
structure Enc where
  /-- the output container the columns were built for -/
  out : Output
  /-- a plain categorical column: ALL levels are kept in the cache, the first is deleted from a
  copy when the request is for reduced rank -/
  plainCat : Bool
  /-- field label (level, or `""` for a single column) ↦ cells -/
  fields : List (String × List Cell)
  /-- are reduced-rank columns named with the `T.` prefix (`TreatmentContrasts.FACTOR_FORMAT_REDUCED`;
  the base class — user-given contrasts — names them like full-rank ones) -/
  treat : Bool := true
deriving DecidableEq, Repr

structure Caches where
  factorCache : List (FactorId × EvalF)
  encodedCache : List ((FactorId × Bool) × Enc)
deriving Repr

def Caches.empty : Caches := ⟨[], []⟩

/-- step 1 for one factor: nothing at all happens for a cached expression -/
def evaluateOne (tbl : List KindRow) (m : Mat) (frame : List In) (na : NA) (f : FactorId)
    (fc : List (FactorId × EvalF)) (nulls : List Bool) :
    List (FactorId × EvalF) × Except Err (List Bool) :=
  match lookupBy f fc with
  | some _ => (fc, .ok nulls)
  | none =>
    match evalFactor tbl m frame f with
    | .error e => (fc, .error e)
    | .ok ef =>
      match checkNulls na ef.vals nulls with
      | .error e => (fc, .error e)
      | .ok nulls' => (fc ++ [(f, ef)], .ok nulls')

def evaluateAll (tbl : List KindRow) (m : Mat) (frame : List In) (na : NA) :
    List FactorId → List (FactorId × EvalF) → List Bool → List (FactorId × EvalF) × Except Err (List Bool)
  | [], fc, nulls => (fc, .ok nulls)
  | f :: r, fc, nulls =>
    match evaluateOne tbl m frame na f fc nulls with
    | (fc', .error e) => (fc', .error e)
    | (fc', .ok nulls') => evaluateAll tbl m frame na r fc' nulls'

/-! ### step 2: encoding -/

def numCell : Option PyVal → Cell
  | none => .nan
  | some (.int i) => .num (i : Rat)
  | some (.flt q) => .num q
  | some (.bool b) => .num (if b then 1 else 0)
  | some (.str s) => .str s
  | some (.bytes s) => .str s

/-- the indicator column of the level at position `j` (`get_dummies` /
`categorical_encode_series_to_sparse_csc_matrix`): a null row is all zeros -/
def indicatorAt (j : Nat) (codes : List (Option Nat)) : List Cell :=
  codes.map (fun c => if c = some j then Cell.num 1 else Cell.num 0)

def labelsOf (lvls : List PyVal) : Except Err (List String) :=
  match lvls with
  | [] => .ok []
  | l :: r =>
    match pyLabel l, labelsOf r with
    | some s, .ok ss => .ok (s :: ss)
    | none, _ => .error .unsupported
    | _, .error e => .error e

/-- the indicator columns of the levels at positions `j, j+1, …` -/
def dummiesFrom (j : Nat) : List String → List (Option Nat) → List (String × List Cell)
  | [], _ => []
  | lab :: r, codes => (lab, indicatorAt j codes) :: dummiesFrom (j + 1) r codes

/-- all indicator columns, in level order -/
def dummies (labels : List String) (codes : List (Option Nat)) : List (String × List Cell) :=
  dummiesFrom 0 labels codes

/-- `list.index(base)` (Python `==`) -/
def indexOf (b : PyVal) : List PyVal → Option Nat
  | [] => none
  | l :: r => if pyEq l b then some 0 else (indexOf b r).map (· + 1)

def dropAt {α : Type} : Nat → List α → List α
  | _, [] => []
  | 0, _ :: r => r
  | n + 1, x :: r => x :: dropAt n r

/-- the categories nominated for the encoder: `levels=[…]` of `C(…)`, else the declared categories
of a categorical dtype, else none (`levels if levels is not None else _state.get("categories")`, then
`pandas.Series(data).astype("category")` keeps the categories of a categorical dtype) -/
def declaredFor (f : FactorId) (ef : EvalF) : Option (List PyVal) :=
  match f.lvls with
  | some l => some l
  | none => ef.declared

def declaredDup : Option (List PyVal) → Bool
  | some d => hasDup d
  | none => false

/-- `TreatmentContrasts._find_base_index` -/
def baseIndex (base : Option PyVal) (lvls : List PyVal) : Option Nat :=
  match base with
  | none => some 0
  | some b => indexOf b lvls

/-- `Contrasts.apply` with treatment coding on the dummy columns `full` of the levels `lvls`:
nothing at all (and no look at the base) when there is no level, or one level and a reduced
request; otherwise the base must be a level; a reduced request loses the base column -/
def applyTreatment (out : Output) (base : Option PyVal) (reduced : Bool) (lvls : List PyVal)
    (full : List (String × List Cell)) : Except Err Enc :=
  if lvls.isEmpty || (lvls.length == 1 && reduced) then .ok ⟨out, false, [], true⟩
  else
    match baseIndex base lvls with
    | none => .error .valueError
    | some bi => .ok ⟨out, false, if reduced then dropAt bi full else full, true⟩

/-! user-given contrasts (`CustomContrasts`) -/

def allSameLength {α : Type} (n : Nat) (ls : List (List α)) : Bool := ls.all (fun l => l.length == n)

/-- number of levels the contrasts are written for / number of contrasts; `none`: the weights do not
form a rectangular array (`numpy.array` raises `ValueError`) -/
def Custom.shape : Custom → Option (Nat × Nat)
  | .matrix rows =>
    match rows with
    | [] => some (0, 0)
    | r :: _ => if allSameLength r.length rows then some (rows.length, r.length) else none
  | .dict entries =>
    match entries with
    | [] => none
    | e :: _ => if allSameLength e.2.length (entries.map (·.2)) then some (e.2.length, entries.length) else none

/-- weight of level `j` in contrast `c` -/
def Custom.weight : Custom → Nat → Nat → Option Rat
  | .matrix rows, j, c => match rows[j]? with | some r => r[c]? | none => none
  | .dict entries, j, c => match entries[c]? with | some e => e.2[j]? | none => none

/-- `get_coding_column_names`: the dictionary keys, else `1, 2, …` -/
def Custom.names : Custom → Nat → List String
  | .matrix _, n => (List.range n).map (fun i => toString (i + 1))
  | .dict entries, _ => entries.map (·.1)

/-- the entry of `dummies @ contrasts` for a row coded `code`: the weight of its level, 0 without level -/
def codeWeight (cu : Custom) (c : Nat) : Option Nat → Option Rat
  | none => some 0
  | some j => cu.weight j c

/-- column `c` of `dummies @ contrasts` -/
def customColumn (cu : Custom) (c : Nat) (codes : List (Option Nat)) : Option (List Cell) :=
  match codes with
  | [] => some []
  | code :: r =>
    match codeWeight cu c code, customColumn cu c r with
    | some q, some cells => some (Cell.num q :: cells)
    | _, _ => none

def customColumns (cu : Custom) (codes : List (Option Nat)) : Nat → List String → Option (List (String × List Cell))
  | _, [] => some []
  | c, nm :: r =>
    match customColumn cu c codes, customColumns cu codes (c + 1) r with
    | some cells, some more => some ((nm, cells) :: more)
    | _, _ => none

/-- `Contrasts.apply` with `CustomContrasts` (which ignore `reduced_rank`): nothing when there is no
level (or one level and a reduced request); a `ValueError` when the weights are not rectangular
or are written for another number of levels than the data has (`dummies @ contrasts`).
(An empty matrix `[]` is outside the model: numpy makes a 1-d array of it and the code then fails in
different places depending on the output type; it is treated like ragged weights.) -/
def applyCustom (out : Output) (cu : Custom) (reduced : Bool) (lvls : List PyVal) (codes : List (Option Nat)) :
    Except Err Enc :=
  match cu.shape with
  | none => .error .valueError
  | some (nl, nc) =>
    if lvls.isEmpty || (lvls.length == 1 && reduced) then .ok ⟨out, false, [], false⟩
    else if nl != lvls.length then .error .valueError
    else
      match customColumns cu codes 0 (cu.names nc) with
      | none => .error .valueError
      | some cols => .ok ⟨out, false, cols, false⟩

/-- `encode_contrasts(values, contrasts, levels=…, reduced_rank=…)` on the retained rows `rows`:
level discovery, dummy coding and — for `C(…)` — `Contrasts.apply`. A plain categorical column is
always encoded in full (`reduced_rank=False`); its first level is deleted later. -/
def encodeCategorical (out : Output) (f : FactorId) (declared : Option (List PyVal))
    (rows : List (Option PyVal)) (reduced : Bool) : Except Err Enc :=
  if declaredDup declared then .error .valueError
  else
    match labelsOf (levelsOf rows declared) with
    | .error e => .error e
    | .ok labels =>
      if f.isC then
        match f.custom with
        | some cu => applyCustom out cu reduced (levelsOf rows declared) (recode (levelsOf rows declared) rows)
        | none =>
          applyTreatment out f.base reduced (levelsOf rows declared) (dummies labels (recode (levelsOf rows declared) rows))
      else .ok ⟨out, true, dummies labels (recode (levelsOf rows declared) rows), true⟩

/-- `_encode_categorical` / the encoder of `C(…)` / `_encode_numerical` on the retained rows -/
def encodeFactor (out : Output) (f : FactorId) (ef : EvalF) (mask : List Bool) (reduced : Bool) :
    Except Err Enc :=
  if ef.categorical then encodeCategorical out f (declaredFor f ef) (applyMask mask ef.vals) reduced
  else .ok ⟨out, false, [("", (applyMask mask ef.vals).map numCell)], true⟩

/-- `_encode_evaled_factor`: the evaluated factor comes from `factor_cache`, the columns from
`encoded_cache` when the key `(expr, reduced_rank)` is there; otherwise they are built and stored -/
def encodeCached (out : Output) (mask : List Bool) (f : FactorId) (reduced : Bool) (c : Caches) :
    Caches × Except Err Enc :=
  match lookupBy f c.factorCache with
  | none => (c, .error .keyError)
  | some ef =>
    match lookupBy (f, reduced) c.encodedCache with
    | some enc => (c, .ok enc)
    | none =>
      match encodeFactor out f ef mask reduced with
      | .error e => (c, .error e)
      | .ok enc => ({ c with encodedCache := c.encodedCache ++ [((f, reduced), enc)] }, .ok enc)

def scaleCell (k : Rat) : Cell → Cell
  | .num q => .num (k * q)
  | c => c

/-- a cell of a column that was built for another output container (only possible without the
reset): the container object itself lands in the matrix, which is not a number -/
def foreignCell : Cell := .str "<column of another output type>"

/-- what the rest of `_encode_evaled_factor` and `_get_columns_for_term` make of the encoded
columns: delete the first level of a plain categorical on a reduced request, name the columns
(`FACTOR_FORMAT`, `FACTOR_FORMAT_REDUCED` of treatment coding), multiply by the term's scale -/
def finishTerm (out : Output) (t : Term) (reduced : Bool) (enc : Enc) : List OutCol :=
  let fields := if enc.plainCat && reduced then enc.fields.drop 1 else enc.fields
  fields.map (fun (lab, cells) =>
    let cells := if enc.out = out then cells else cells.map (fun _ => foreignCell)
    let cells := match t.scale with | none => cells | some s => cells.map (scaleCell s.val)
    (if lab = "" then t.expr else fmtName t.expr lab (reduced && enc.treat), cells))

/-- is the evaluated factor of this term categorical (spans the intercept) -/
def isCategorical (c : Caches) (f : FactorId) : Bool :=
  match lookupBy f c.factorCache with
  | some ef => ef.categorical
  | none => false

/-- the terms in formula order; `spanned`: has the intercept been spanned so far (rank rule of
`_get_scoped_terms` for main effects, as in `Encode.buildCols`) -/
def encodeTerms (out : Output) (mask : List Bool) (efr : Bool) :
    Bool → List Term → Caches → Caches × Except Err (List OutCol)
  | _, [], c => (c, .ok [])
  | spanned, t :: rest, c =>
    let cat := isCategorical c t.fid
    let reduced := cat && efr && spanned
    match encodeCached out mask t.fid reduced c with
    | (c', .error e) => (c', .error e)
    | (c', .ok enc) =>
      match encodeTerms out mask efr (spanned || cat) rest c' with
      | (c'', .error e) => (c'', .error e)
      | (c'', .ok more) => (c'', .ok (finishTerm out t reduced enc ++ more))

/-- one `materializer.get_model_matrix(formula, output=…, na_action=…, ensure_full_rank=…)` -/
structure Call where
  intercept : Bool
  efr : Bool
  na : NA
  out : Output
  terms : List Term
deriving DecidableEq, Repr

/-- `_combine_columns`: all columns must have the row count of this call. (Until repair 231efbe a matrix
without any column could not be returned as `output="narwhals"`: a bare numpy array was handed to
`narwhals.from_native`, which raised `TypeError`; it is now an empty frame like every other output.) -/
def combine (_out : Output) (n : Nat) (cols : List OutCol) : Except Err (List OutCol) :=
  if cols.all (fun c => c.2.length == n) then .ok cols else .error .shapeError

/-- `FormulaMaterializer.get_model_matrix` on an object whose caches hold `c0` -/
def getModelMatrixOn (reset : Bool) (tbl : List KindRow) (m : Mat) (nrows : Nat) (frame : List In)
    (k : Call) (c0 : Caches) : Caches × Except Err (List OutCol) :=
  let c := if reset then Caches.empty else c0
  match evaluateAll tbl m frame k.na (k.terms.map (·.fid)) c.factorCache (List.replicate nrows false) with
  | (fc, .error e) => ({ c with factorCache := fc }, .error e)
  | (fc, .ok nulls) =>
    let mask := nulls.map (!·)
    let n := mask.count true
    match encodeTerms k.out mask k.efr k.intercept k.terms { c with factorCache := fc } with
    | (c', .error e) => (c', .error e)
    | (c', .ok body) =>
      (c', combine k.out n ((if k.intercept then [("Intercept", List.replicate n (Cell.num 1))] else []) ++ body))

/-- a sequence of calls on one object: the result of every call -/
def runHistory (reset : Bool) (tbl : List KindRow) (m : Mat) (nrows : Nat) (frame : List In) :
    List Call → Caches → List (Except Err (List OutCol))
  | [], _ => []
  | k :: rest, c =>
    match getModelMatrixOn reset tbl m nrows frame k c with
    | (c', r) => r :: runHistory reset tbl m nrows frame rest c'

/-- the same call on a new object -/
def freshMatrix (tbl : List KindRow) (m : Mat) (nrows : Nat) (frame : List In) (k : Call) :
    Except Err (List OutCol) :=
  (getModelMatrixOn true tbl m nrows frame k Caches.empty).2

/-! ### the text of a factor

`Factor.expr` — the text from which column names are formed and under which the caches file a
factor — is the Python source of the factor as the formula tokenizer leaves it: the column name, or
`C(name[, contr.treatment(base=<repr>)][, <weights>][, levels=[<repr>, …]])`. The model writes it
itself from the structure of the factor (the harness only has to write a formula that parses to
this factor); `none`: a value whose `repr` is not modelled (text with quotes or backslashes, long floats). -/

def plainText (s : String) : Bool := s.toList.all (fun c => c != '\'' && c != '"' && c != '\\' && c.toNat ≥ 32)

/-- `repr(v)` -/
def pyRepr : PyVal → Option String
  | .str s => if plainText s then some ("'" ++ s ++ "'") else none
  | .int i => some (toString i)
  | .bool b => some (if b then "True" else "False")
  | .flt q => floatLabel q
  | .bytes s => if plainText s then some ("b'" ++ s ++ "'") else none

/-- an integer weight is written as an integer, any other as a float literal -/
def weightText (q : Rat) : Option String := if q.den == 1 then some (toString q.num) else floatLabel q

def joinOpt : List (Option String) → Option (List String)
  | [] => some []
  | none :: _ => none
  | some s :: r => match joinOpt r with | some l => some (s :: l) | none => none

def listText (items : List (Option String)) : Option String :=
  match joinOpt items with
  | some l => some ("[" ++ ", ".intercalate l ++ "]")
  | none => none

def customText : Custom → Option String
  | .matrix rows => listText (rows.map (fun r => listText (r.map weightText)))
  | .dict entries =>
    match joinOpt (entries.map (fun e =>
      match pyRepr (.str e.1), listText (e.2.map weightText) with
      | some k, some w => some (k ++ ": " ++ w)
      | _, _ => none)) with
    | some l => some ("{" ++ ", ".intercalate l ++ "}")
    | none => none

/-- `Factor.expr` of a factor -/
def exprOf (f : FactorId) : Option String :=
  if !f.isC then some f.name
  else
    let base := match f.base with
      | none => some []
      | some b => match pyRepr b with | some r => some ["contr.treatment(base=" ++ r ++ ")"] | none => none
    let cust := match f.custom with
      | none => some []
      | some cu => match customText cu with | some r => some [r] | none => none
    let lv := match f.lvls with
      | none => some []
      | some l => match listText (l.map pyRepr) with | some r => some ["levels=" ++ r] | none => none
    match base, cust, lv with
    | some b, some c, some l => some ("C(" ++ ", ".intercalate ([f.name] ++ b ++ c ++ l) ++ ")")
    | _, _, _ => none

/-! ### column-name templates -/

/-- `template.format(name=…, field=…)` for a template given as a list of characters: `{name}` and
`{field}` are replaced, every other character is copied (one pass, as `str.format` does; other
replacement fields / brace escapes do not occur in the library's templates and are copied) -/
def applyFormat : List Char → String → String → String
  | '{' :: 'n' :: 'a' :: 'm' :: 'e' :: '}' :: r, n, f => n ++ applyFormat r n f
  | '{' :: 'f' :: 'i' :: 'e' :: 'l' :: 'd' :: '}' :: r, n, f => f ++ applyFormat r n f
  | c :: r, n, f => String.singleton c ++ applyFormat r n f
  | [], _, _ => ""

/-! ### the call without caches (reference semantics)

What a call computes, written without the two dictionaries: every factor is evaluated and
null-checked in formula order, every term is encoded from its evaluated factor. `Props/C08.lean`
(`fresh_matrix_is_spec`) proves that a call on a new object IS this, whenever no two terms of the
formula share a factor (which the formula parser guarantees: a factor set occurs in one term only). -/

/-- step 1 without `factor_cache`: the null rows of all factors -/
def evalAllSpec (tbl : List KindRow) (m : Mat) (frame : List In) (na : NA) :
    List FactorId → List Bool → Except Err (List Bool)
  | [], nulls => .ok nulls
  | f :: r, nulls =>
    match evalFactor tbl m frame f with
    | .error e => .error e
    | .ok ef =>
      match checkNulls na ef.vals nulls with
      | .error e => .error e
      | .ok nulls' => evalAllSpec tbl m frame na r nulls'

/-- step 2 without caches -/
def encodeTermsSpec (tbl : List KindRow) (m : Mat) (frame : List In) (out : Output) (mask : List Bool)
    (efr : Bool) : Bool → List Term → Except Err (List OutCol)
  | _, [] => .ok []
  | spanned, t :: rest =>
    match evalFactor tbl m frame t.fid with
    | .error e => .error e
    | .ok ef =>
      match encodeFactor out t.fid ef mask (ef.categorical && efr && spanned) with
      | .error e => .error e
      | .ok enc =>
        match encodeTermsSpec tbl m frame out mask efr (spanned || ef.categorical) rest with
        | .error e => .error e
        | .ok more => .ok (finishTerm out t (ef.categorical && efr && spanned) enc ++ more)

/-- `get_model_matrix` without caches -/
def buildSpec (tbl : List KindRow) (m : Mat) (nrows : Nat) (frame : List In) (k : Call) : Except Err (List OutCol) :=
  match evalAllSpec tbl m frame k.na (k.terms.map (·.fid)) (List.replicate nrows false) with
  | .error e => .error e
  | .ok nulls =>
    match encodeTermsSpec tbl m frame k.out (nulls.map (!·)) k.efr k.intercept k.terms with
    | .error e => .error e
    | .ok body =>
      combine k.out ((nulls.map (!·)).count true)
        ((if k.intercept then [("Intercept", List.replicate ((nulls.map (!·)).count true) (Cell.num 1))] else []) ++ body)

end FormulaicVerif.Model.Enc2
