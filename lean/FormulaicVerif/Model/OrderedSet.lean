import FormulaicVerif.Model.Term
/-! `formulaic/parser/types/ordered_set.py` — `OrderedSet`: a `collections.abc.Set` whose storage is
`dict.fromkeys(values)`, i.e. the distinct values in first-occurrence order. Only `__init__`,
`__contains__`, `__iter__`, `__len__` are defined by the class; the set algebra and the comparisons are
the `collections.abc.Set` mixins, mirrored as written:
* `a | b`  = `OrderedSet(chain(a, b))`;  `b | a` for a non-`Set` `b` is `a.__ror__(b) = a.__or__(b)`
  (so the elements of `a` still come first);
* `a & b`  = `OrderedSet(v for v in b if v in a)` — the order is that of the OTHER operand;
* `a - b`  = `OrderedSet(v for v in a if v not in b')` with `b' = OrderedSet(b)` for a non-`Set` `b`;
  `b - a` for a non-`Set` `b` = `OrderedSet(v for v in b' if v not in a)`;
* `a ^ b`  = `(a - b') | (b' - a)` (also for the reflected call);
* `a <= b`: `len(a) <= len(b)` and every element of `a` is in `b`; `<`, `>=`, `>` likewise;
  `a == b`: equal lengths and `a <= b` — blind to the order; against a non-`Set` the comparisons are
  `NotImplemented` (`TypeError` for the orderings, `False` for `==`);
* `isdisjoint(b)`: no element of `b` is in `a`.
Elements are strings here (anything hashable in Python). -/
namespace FormulaicVerif.Model.OSet

/-- the state of an `OrderedSet`: the keys of its dict, in order -/
abbrev OS := List String

/-- `OrderedSet(values)` -/
def mk (xs : List String) : OS := dedupBy id xs

def contains (a : OS) (x : String) : Bool := List.contains a x
def len (a : OS) : Nat := a.length
def iter (a : OS) : List String := a

/-- the other operand: an `OrderedSet` or a plain list (an `Iterable` that is not a `Set`) -/
inductive Other where
  | set (b : OS)
  | list (xs : List String)

def Other.elems : Other → List String
  | .set b => b
  | .list xs => xs

/-- `self._from_iterable(other)` for a non-`Set` operand -/
def Other.asSet : Other → OS
  | .set b => b
  | .list xs => mk xs

def union (a : OS) (b : Other) : OS := mk (a ++ b.elems)
def inter (a : OS) (b : Other) : OS := mk (b.elems.filter (fun v => contains a v))
def diff (a : OS) (b : Other) : OS := mk (a.filter (fun v => !contains b.asSet v))
/-- `b - a` evaluated by `a.__rsub__(b)` -/
def rdiff (a : OS) (b : Other) : OS := mk (b.asSet.filter (fun v => !contains a v))
def xor (a : OS) (b : Other) : OS := union (diff a b) (.set (rdiff a b))
def isdisjoint (a : OS) (b : Other) : Bool := b.elems.all (fun v => !contains a v)

inductive Err | typeError
deriving DecidableEq, Repr, Inhabited

def le (a b : OS) : Bool := decide (a.length ≤ b.length) && a.all (fun v => contains b v)
def lt (a b : OS) : Bool := decide (a.length < b.length) && le a b
def eq (a b : OS) : Bool := decide (a.length = b.length) && le a b

inductive Cmp | le | lt | ge | gt | eq
deriving DecidableEq, Repr, Inhabited

/-- `a <op> b` -/
def cmp (a : OS) (op : Cmp) : Other → Except Err Bool
  | .set b =>
    .ok (match op with
      | .le => le a b
      | .lt => lt a b
      | .ge => le b a
      | .gt => lt b a
      | .eq => eq a b)
  | .list _ =>
    match op with
    | .eq => .ok false
    | _ => .error .typeError

/-- operations on a running set: the set-valued ones replace it by their result -/
inductive Op where
  | union (b : Other) | inter (b : Other) | diff (b : Other) | rdiff (b : Other) | xor (b : Other)
  | cmp (op : Cmp) (b : Other) | isdisjoint (b : Other) | contains (x : String)

inductive Res where
  | none
  | bool (b : Bool)
  | err (e : Err)

def step (a : OS) : Op → OS × Res
  | .union b => (union a b, .none)
  | .inter b => (inter a b, .none)
  | .diff b => (diff a b, .none)
  | .rdiff b => (rdiff a b, .none)
  | .xor b => (xor a b, .none)
  | .cmp op b =>
    match cmp a op b with
    | .ok r => (a, .bool r)
    | .error e => (a, .err e)
  | .isdisjoint b => (a, .bool (isdisjoint a b))
  | .contains x => (a, .bool (contains a x))

def run (a : OS) : List Op → OS
  | [] => a
  | op :: ops => run (step a op).1 ops

def trace (a : OS) : List Op → List (OS × Res)
  | [] => []
  | op :: ops => let r := step a op; r :: trace r.1 ops

end FormulaicVerif.Model.OSet
