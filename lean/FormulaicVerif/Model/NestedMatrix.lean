import FormulaicVerif.Model.FactorEncode
/-! # C02 — `_build_model_matrix` over factors of any shape

The term → scoped terms → columns pipeline of `FormulaMaterializer._build_model_matrix` with the
encoder stage of `Model/FactorEncode.lean` (nested dicts, data frames, 2-d arrays, metadata
propagation) in place of the flat encodings of `Model/Materialize.lean`. Clustering and scoping
(`_cluster_terms`, `_get_scoped_terms`, `_simplify_scoped_terms`) only look at a factor's kind,
presence and `spans_intercept`; they are the SAME functions as in `Model/Materialize.lean`, run on
the scoping view `toCache` of the factors. The two `_get_columns_for_term` implementations are
restated over items whose structural label is a key path (`NPart`). Core Lean only. -/
namespace FormulaicVerif.Model.Nest
open FormulaicVerif.Model

/-- a column of the model matrix: printed name, structural label, values -/
structure NEntry where
  name : String
  parts : List NPart
  col : Col
deriving DecidableEq, Repr

/-- `d[k] = v` on an insertion-ordered dict of columns -/
def ndictSet (d : List NEntry) (e : NEntry) : List NEntry :=
  match d with
  | [] => [e]
  | x :: r => if x.name = e.name then e :: r else x :: ndictSet r e

/-- `d.update(other)` -/
def ndictUpdate (d new : List NEntry) : List NEntry := new.foldl ndictSet d

/-! ### `FormulaMaterializer._get_columns_for_term` (base.py) -/

def nbaseStep (scale : Rat) (out : List NEntry) (rp : List NItem) : Except MErr (List NEntry) :=
  let p := rp.reverse
  match reduceMul (p.map (·.col)) with
  | .error e => .error e
  | .ok v => .ok (ndictSet out ⟨joinColon (p.map (·.name)), p.map (·.part), Col.smul scale v⟩)

def ncolumnsBase (factors : List (List NItem)) (scale : Rat) : Except MErr (List NEntry) :=
  foldE (nbaseStep scale) [] (iproduct factors.reverse)

/-! ### the pandas / narwhals fast path -/

def nfastNames (factors : List (List NItem)) : List (String × List NPart) :=
  (iproduct factors.reverse).map (fun p => (joinColon (p.reverse.map (·.name)), p.reverse.map (·.part)))

def nsoloItems (factors : List (List NItem)) : List NItem :=
  (factors.filter (fun f => f.length == 1)).flatten

def nfastFactors (factors : List (List NItem)) : Except MErr (List (List NItem)) :=
  let solo := nsoloItems factors
  if solo.isEmpty then .ok factors
  else
    match reduceMul (solo.map (·.col)) with
    | .error e => .error e
    | .ok v =>
      .ok (factors.filter (fun f => !(f.length == 1)) ++
        [[⟨joinColon (solo.map (·.name)), ⟨joinColon (solo.map (·.name)), [], false⟩, v⟩]])

def nfastStep (names : List (String × List NPart)) (scale : Rat)
    (acc : Nat × List NEntry) (rp : List NItem) : Except MErr (Nat × List NEntry) :=
  match names[acc.1]? with
  | none => .error .indexError
  | some (nm, parts) =>
    match reduceMul (rp.reverse.map (·.col)) with
    | .error e => .error e
    | .ok v => .ok (acc.1 + 1, ndictSet acc.2 ⟨nm, parts, Col.smul scale v⟩)

def ncolumnsFast (factors : List (List NItem)) (scale : Rat) : Except MErr (List NEntry) :=
  let names := nfastNames factors
  match nfastFactors factors with
  | .error e => .error e
  | .ok fs =>
    match foldE (nfastStep names scale) (0, []) (iproduct fs.reverse) with
    | .error e => .error e
    | .ok r => .ok r.2

def ncolumnsFor (v : Variant) (factors : List (List NItem)) (scale : Rat) : Except MErr (List NEntry) :=
  match v with
  | .base => ncolumnsBase factors scale
  | .fast => ncolumnsFast factors scale

/-! ### the factor cache -/

abbrev RCache := List RFactor

/-- `self.factor_cache[expr]` -/
def RCache.get (c : RCache) (expr : String) : Except EErr RFactor :=
  match c.find? (fun f => f.expr == expr) with
  | some f => .ok f
  | none => .error .keyError

/-- an encoding that is never looked at (clustering and scoping read kind / presence /
`spans_intercept` only) -/
def noEncoding : Encoded :=
  { val := .single [], spansIntercept := false, dropField := none, reducedMeta := false, fmt := [],
    fmtReduced := none }

/-- the scoping view of a factor -/
def toEvaled (f : RFactor) : EvaledFactor :=
  { expr := f.expr, present := f.present, kind := f.kind, spansIntercept := f.md.spansIntercept,
    encFull := noEncoding, encReduced := noEncoding }

def toCache (c : RCache) : Cache := c.map toEvaled

/-! ### `_build_model_matrix` -/

/-- `[self._encode_evaled_factor(sf.factor, …, reduced_rank=sf.reduced) for sf in st.factors]` -/
def nencodeFactors (c : RCache) : List SF → Except EErr (List (List NItem))
  | [] => .ok []
  | sf :: r =>
    match c.get sf.expr with
    | .error x => .error x
    | .ok f =>
      match encodeFactor f sf.reduced with
      | .error x => .error x
      | .ok items =>
        match nencodeFactors c r with
        | .error x => .error x
        | .ok rest => .ok (items :: rest)

/-- the columns one scoped term adds to `scoped_cols` -/
def nscopedTermColumns (c : RCache) (v : Variant) (nrows : Nat) (st : ST) : Except EErr (List NEntry) :=
  if st.factors.isEmpty then
    .ok [⟨"Intercept", [], Col.smul st.scale (Col.ones nrows)⟩]
  else
    match nencodeFactors c st.factors with
    | .error x => .error x
    | .ok fs =>
      match ncolumnsFor v fs st.scale with
      | .error x => .error (EErr.ofM x)
      | .ok es => .ok es

/-- `scoped_cols` of one term -/
def ntermColumns (c : RCache) (v : Variant) (nrows : Nat) : List NEntry → List ST → Except EErr (List NEntry)
  | acc, [] => .ok acc
  | acc, st :: r =>
    match nscopedTermColumns c v nrows st with
    | .error x => .error x
    | .ok es => ntermColumns c v nrows (ndictUpdate acc es) r

structure NTermResult where
  term : MTerm
  sts : List ST
  cols : List NEntry
deriving Repr

def nbuildTerms (c : RCache) (v : Variant) (nrows : Nat) : List (MTerm × List ST) → Except EErr (List NTermResult)
  | [] => .ok []
  | (t, sts) :: r =>
    match ntermColumns c v nrows [] sts with
    | .error x => .error x
    | .ok es =>
      match nbuildTerms c v nrows r with
      | .error x => .error x
      | .ok rs => .ok (⟨t, sts, es⟩ :: rs)

structure NConfig where
  cache : RCache
  terms : List MTerm
  ensureFullRank : Bool
  clusterByNumerical : Bool
  variant : Variant
  nrows : Nat

/-- steps 0–3 of `_build_model_matrix` -/
def nbuildStructure (cfg : NConfig) : Except EErr (List NTermResult) :=
  match clusterTerms (toCache cfg.cache) cfg.clusterByNumerical cfg.terms with
  | .error x => .error (EErr.ofM x)
  | .ok terms =>
    match getScopedTerms (toCache cfg.cache) cfg.ensureFullRank [] terms with
    | .error e => .error (EErr.ofScope e)
    | .ok scopedTerms => nbuildTerms cfg.cache cfg.variant cfg.nrows scopedTerms

/-- step 4: the `(name, values)` list handed to `_combine_columns` -/
def nallColumns (rs : List NTermResult) : List NEntry := rs.flatMap (·.cols)

/-- `_combine_columns`: through a `{name: column}` dict (narwhals, non-sparse) or by position -/
def ncombineColumns (asDict : Bool) (cols : List NEntry) : List NEntry :=
  if asDict then ndictUpdate [] cols else cols

def nbuildMatrix (cfg : NConfig) (asDict : Bool) : Except EErr (List NEntry) :=
  match nbuildStructure cfg with
  | .error e => .error e
  | .ok rs => .ok (ncombineColumns asDict (nallColumns rs))

end FormulaicVerif.Model.Nest
