import FormulaicVerif.Model.Parts
/-! Multi-step HISTORIES over structured specs (`formulaic/model_spec.py`, `formulaic/materializers/base.py`).

On top of `Model/Parts.lean` (one joint build of a structured FORMULA) this file models what happens
when structured specs are built, edited / composed and built again:

* a `ModelSpec` as the library stores it (`HSpec`): formula terms, recorded structure and transform
  state (`Parts.Spec`), the recorded `encoder_state`, the recorded materializer name and params, and
  the settings `output`, `ensure_full_rank`, `cluster_by`;
* `ModelSpec.from_spec(spec, **overrides)` (`applyOv`), `_prepare_model_specs` (`prepareLeaf`: the
  materializer writes its name and params into every spec, fills in the default output, refuses an
  output it does not offer), `_prepare_factor_evaluation_model_spec` (one set of factors, pooled
  transform AND encoder state, the consistency check that raises `RuntimeError`);
* `_evaluate_factor` with its memo table and the kind guard against the pooled encoder state;
* `_encode_evaled_factor` AS WRITTEN: the encoders run lazily, part by part in `_map` order, behind the
  two caches of the materializer object (`encoded_cache` keyed by `expr` or `(expr, reduced_rank)`,
  `encoder_state_cache`), and every part records in ITS spec the encoder state of every factor it
  encodes (`encodeStep`). The encoder itself is a parameter: a function of (expression, values,
  sorted drop list, rank, the encoder state handed in);
* the materializer OBJECT (`MatObj`): `get_model_matrix` starts by emptying the three caches
  (`MatObj.call`), the body (`core`) consults whatever caches it is started with;
* `ModelSpecs.get_model_matrix`: the scan that decides between joint and per-spec generation
  (`jointScan`, quirks included: a falsy materializer is skipped, empty params count as unset), the
  joint branch (`for_data` / `for_materializer`), the per-spec branch (one shared mutable drop set,
  every spec through `ModelSpec.get_model_matrix`, a second pass when the set grew);
* `ModelSpecs.subset`, `ModelSpecs.differentiate` (`_map` with the leaf operation as a parameter)
  and the path lookup `Structured.__getitem__(tuple)` with the exception classes it really raises.

Python aliasing that is NOT modelled: the state dictionaries inside `encoder_state` are shared by
reference between specs; the model copies values. The two coincide when encoders are idempotent on
their own state (checked per case by the correspondence: the recorded states are compared). -/
namespace FormulaicVerif.Model.PartsHist
open FormulaicVerif.Model FormulaicVerif.Model.Parts

/-! ### specs as the library stores them -/

/-- `materializer_params`: a dict of keyword arguments (values by their `str`) -/
abbrev Params := List (String × String)

/-- `dict.__eq__` (keys are unique; the insertion order is immaterial) -/
def paramsEq (a b : Params) : Bool :=
  a.length == b.length && a.all (fun kv => b.lookup kv.1 == some kv.2)

/-- an entry of `ModelSpec.encoder_state`: `(kind, state)` -/
structure EncRec (σ : Type) where
  kind : String
  state : σ
deriving DecidableEq, Repr

abbrev EncDict (σ : Type) := List (String × EncRec σ)

/-- a `ModelSpec` -/
structure HSpec (τ σ : Type) where
  core : Spec τ                       -- formula terms, `structure`, `transform_state`
  enc : EncDict σ                     -- `encoder_state`
  materializer : Option String
  params : Option Params              -- `materializer_params`
  output : Option String
  efr : Bool                          -- `ensure_full_rank`
  cluster : Bool                      -- `cluster_by is ClusterBy.NUMERICAL_FACTORS`

/-- `ModelSpec(formula=terms)`: every other field at its default -/
def HSpec.fresh {τ σ} (terms : List MTerm) : HSpec τ σ :=
  ⟨Spec.ofTerms terms, [], none, none, none, true, false⟩

def HSpec.IsFresh {τ σ} (h : HSpec τ σ) : Prop :=
  h.core.struct = none ∧ h.core.state = [] ∧ h.enc = [] ∧ h.materializer = none

/-- keyword overrides handed to `from_spec` / `get_model_matrix` (`None` = not given) -/
structure Overrides where
  efr : Option Bool
  cluster : Option Bool
  output : Option String

def Overrides.none : Overrides := ⟨.none, .none, .none⟩
def Overrides.isEmpty (o : Overrides) : Bool := o.efr.isNone && o.cluster.isNone && o.output.isNone

/-- `model_spec.update(**attrs)` -/
def applyOv {τ σ} (ov : Overrides) (h : HSpec τ σ) : HSpec τ σ :=
  { h with efr := (match ov.efr with | some b => b | .none => h.efr),
           cluster := (match ov.cluster with | some b => b | .none => h.cluster),
           output := (match ov.output with | some o => some o | .none => h.output) }

/-- a materializer class as far as this model looks at it -/
structure MatClass where
  name : String                -- `REGISTER_NAME`
  outputs : List String        -- `REGISTER_OUTPUTS` (the first one is the default)
  dictOutputs : List String    -- outputs for which `_combine_columns` collects the columns in a dict
  variant : Variant            -- which `_get_columns_for_term` the class has
deriving Repr

inductive HErr
  | part (e : PErr)            -- anything `Model/Parts.lean` can raise
  | notFound                   -- `FormulaMaterializerNotFoundError`
  | badOutput                  -- `FormulaMaterializationError`: output not offered by the materializer
  | index                      -- `IndexError` (`REGISTER_OUTPUTS[0]` of a class without outputs; tuple index)
  | value                      -- `ValueError` (`ModelSpecs.subset`: different structure / no structure; `ModelSpec.subset`)
  | attribute                  -- `AttributeError` (`tuple.subset`)
  | key                        -- `KeyError`
  | runtime                    -- `RuntimeError` (`ModelSpec.structure` not populated)
deriving DecidableEq, Repr

/-! ### the data set seen through one materializer class -/

/-- the metadata of an evaluated factor that drives the scoping -/
structure FMeta where
  present : Bool               -- `values.__wrapped__ is not None`
  kind : Kind
  spans : Bool                 -- `metadata.spans_intercept`
  shareRanks : Bool            -- `isinstance(encoded, dict) and factor.metadata.drop_field`: one cache entry serves both ranks
deriving Repr

def kindName : Kind → String
  | .constant _ => "constant"
  | .numerical => "numerical"
  | .categorical => "categorical"

structure HWorld (ν τ σ : Type) where
  nrows : Nat
  /-- `_evaluate_factor` on a cache miss: a function of (expression, data, pooled transform state) -/
  eval : String → TState τ → Except String (Evald ν × TState τ)
  fmeta : String → ν → FMeta
  /-- one run of the encoder of a factor: a function of (expression, values, sorted drop list,
  `reduced_rank`, the encoder state handed in) returning what `_encode_evaled_factor` holds right
  before the drop-field step and the encoder state afterwards -/
  encode : String → ν → List Nat → Bool → Option σ → Except String (Encoded × σ)

/-- the encoded object an encoder run delivers (the encoder state it leaves behind put aside) -/
def encObj {σ} (r : Except String (Encoded × σ)) : Except String Encoded :=
  match r with
  | .ok (x, _) => .ok x
  | .error c => .error c

/-- SPECIFICATION notion (a hypothesis of `Props.C07.hist_part_eq_standalone`, not part of the code model): the
encoded object does not depend on the encoder state handed in, nor on the rank when one cache entry serves both
ranks (the cache transparency property C11 proves for the built-in codings on the data they were fitted on) -/
def EncDet {ν τ σ} (W : HWorld ν τ σ) : Prop :=
  ∀ e v d r r' p p', (r = r' ∨ (W.fmeta e v).shareRanks = true) →
    encObj (W.encode e v d r p) = encObj (W.encode e v d r' p')

/-! ### `_prepare_model_specs` -/

/-- `prepare_model_spec(model_spec)` inside `_prepare_model_specs` -/
def prepareLeaf {τ σ} (mc : MatClass) (params : Params) (h : HSpec τ σ) : Except HErr (HSpec τ σ) :=
  match h.output with
  | none =>
    match mc.outputs with
    | o :: _ => .ok { h with materializer := some mc.name, params := some params, output := some o }
    | [] => .error .index
  | some o =>
    if mc.outputs.contains o then .ok { h with materializer := some mc.name, params := some params }
    else .error .badOutput

/-- a `for` loop / `_map` over the leaves in `_flatten` order whose body may raise -/
def mapL {α β ε} (f : α → Except ε β) : List α → Except ε (List β)
  | [] => .ok []
  | a :: r =>
    match f a with
    | .error e => .error e
    | .ok b =>
      match mapL f r with
      | .error e => .error e
      | .ok bs => .ok (b :: bs)

/-- `dict.fromkeys` on any type with decidable equality -/
def dedupD {α} [DecidableEq α] : List α → List α
  | [] => []
  | x :: xs => x :: (dedupD xs).filter (· ≠ x)

/-! ### step 0: pooling -/

def pooledFactorsL {τ σ} (L : List (HSpec τ σ)) : List String :=
  dedup (L.flatMap (fun h => exprsOf h.core.terms))

def pooledStateL {τ σ} (L : List (HSpec τ σ)) : TState τ :=
  L.foldl (fun acc h => St.dictUpdate acc h.core.state) []

/-- `encoder_state.update(model_spec.encoder_state)` per leaf -/
def pooledEncL {τ σ} (L : List (HSpec τ σ)) : EncDict σ :=
  L.foldl (fun acc h => St.dictUpdate acc h.enc) []

/-- `len(output) != 1 or len(na_action) != 1 or len(ensure_full_rank) != 1` (only `na_action='drop'` is modelled) -/
def consistent {τ σ} (L : List (HSpec τ σ)) : Bool :=
  (dedupD (L.map (·.output))).length == 1 && (dedupD (L.map (·.efr))).length == 1

/-! ### step 1: memoised evaluation, one shared drop set, kind guard -/

/-- factor evaluation on a cache miss followed by the kind guard against the pooled encoder state:
`factor.expr in spec.encoder_state and kind is not spec.encoder_state[factor.expr][0]` raises `FactorEncodingError` -/
def evalG {ν τ σ} (W : HWorld ν τ σ) (penc : EncDict σ) (e : String) (st : TState τ) : Except String (Evald ν × TState τ) :=
  match W.eval e st with
  | .error c => .error c
  | .ok (v, w) =>
    match penc.lookup e with
    | some r => if r.kind ≠ kindName (W.fmeta e v.values).kind then .error "FactorEncodingError" else .ok (v, w)
    | none => .ok (v, w)

/-- `self._evaluate_factor(factor, pooled_spec, drop_rows)` -/
def evalStepH {ν τ σ} (W : HWorld ν τ σ) (st0 : TState τ) (penc : EncDict σ) (s : EvalState ν τ) (e : String) :
    Except PErr (EvalState ν τ) :=
  if s.memo.any (fun kv => kv.1 == e) then .ok s
  else
    match evalG W penc e st0 with
    | .error cls => .error (.eval cls)
    | .ok (v, w) => .ok ⟨s.memo ++ [(e, v)], s.drop ++ v.nulls, St.dictUpdate s.state w⟩

def evalAllH {ν τ σ} (W : HWorld ν τ σ) (st0 : TState τ) (penc : EncDict σ) (s : EvalState ν τ)
    (order : List String) : Except PErr (EvalState ν τ) :=
  foldE (evalStepH W st0 penc) s order

/-! ### step 3: lazy encoding behind the two caches -/

/-- `encoded_cache` (key `expr` = rank `none`, or `(expr, reduced_rank)`) and `encoder_state_cache` -/
structure EncCaches (σ : Type) where
  encoded : List ((String × Option Bool) × Encoded)
  states : List (String × EncRec σ)

def EncCaches.empty {σ} : EncCaches σ := ⟨[], []⟩

def blankEnc : Encoded := ⟨.single [], false, none, false, [], none⟩

/-- the factor cache as the scoping code sees it (kinds and flags; no encodings yet) -/
def metaCache {ν τ σ} (W : HWorld ν τ σ) (memo : List (String × Evald ν)) : Cache :=
  memo.map (fun kv => let m := W.fmeta kv.1 kv.2.values
    ⟨kv.1, m.present, m.kind, m.spans, blankEnc, blankEnc⟩)

/-- `d.setdefault(k, v)` -/
def setDefault {γ} (d : List (String × γ)) (k : String) (v : γ) : List (String × γ) :=
  if d.any (fun kv => kv.1 == k) then d else d ++ [(k, v)]

/-- the state of the loop over the scoped factors of one part -/
structure EncAcc (σ : Type) where
  caches : EncCaches σ
  enc : EncDict σ                              -- `spec.encoder_state` of the part being built
  got : List (SF × Encoded)                    -- what each request returned

def cacheLookup {σ} (c : EncCaches σ) (e : String) (r : Bool) : Option Encoded :=
  match c.encoded.lookup (e, none) with
  | some x => some x
  | none => c.encoded.lookup (e, some r)

/-- `if expr in self.encoder_state_cache: spec.encoder_state.setdefault(expr, self.encoder_state_cache[expr])` -/
def encAfterSetdefault {σ} (c : EncCaches σ) (enc : EncDict σ) (e : String) : EncDict σ :=
  match c.states.lookup e with
  | some s => setDefault enc e s
  | none => enc

/-- `_encode_evaled_factor(factor, spec, drop_rows, reduced_rank)` up to the drop-field step -/
def encodeStep {ν τ σ} (W : HWorld ν τ σ) (drop : List Nat) (memo : List (String × Evald ν))
    (a : EncAcc σ) (sf : SF) : Except PErr (EncAcc σ) :=
  match memo.lookup sf.expr with
  | none => .error (.build (.py .keyError))
  | some v =>
    let enc1 := encAfterSetdefault a.caches a.enc sf.expr
    match cacheLookup a.caches sf.expr sf.reduced with
    | some x => .ok ⟨a.caches, enc1, a.got ++ [(sf, x)]⟩
    | none =>
      match W.encode sf.expr v.values drop sf.reduced ((enc1.lookup sf.expr).map (·.state)) with
      | .error cls => .error (.encode cls)
      | .ok (x, st') =>
        let m := W.fmeta sf.expr v.values
        let rec' : EncRec σ := ⟨kindName m.kind, st'⟩
        let key : String × Option Bool := if m.shareRanks then (sf.expr, none) else (sf.expr, some sf.reduced)
        .ok ⟨⟨a.caches.encoded ++ [(key, x)], St.dictSet a.caches.states sf.expr rec'⟩,
             St.dictSet enc1 sf.expr rec', a.got ++ [(sf, x)]⟩

/-- the scoped terms a part is built from: recorded, or computed from the kinds and flags -/
def scopedTermsOf {τ} (o : Opts) (c : Cache) (spec : Spec τ) : Except PErr (List (MTerm × List ST)) :=
  match spec.struct with
  | none =>
    match clusterTerms c o.cluster spec.terms with
    | .error x => .error (.build (.py x))
    | .ok ts =>
      match getScopedTerms c o.efr [] ts with
      | .error e => .error (.build e)
      | .ok r => .ok r
  | some str =>
    match clusterTerms c o.cluster spec.terms with
    | .error x => .error (.build (.py x))
    | .ok _ => .ok (str.map (fun s => (s.term, s.sts)))

/-- the requests `_build_model_matrix` makes to `_encode_evaled_factor`, in order -/
def encodeTrace (scp : List (MTerm × List ST)) : List SF :=
  scp.flatMap (fun p => p.2.flatMap (·.factors))

/-- an entry of the factor cache with the encodings this part obtained filled in (a rank the part never asked for
stays blank: the pipeline never looks at it) -/
def fillEnc (got : List (SF × Encoded)) (f : EvaledFactor) : EvaledFactor :=
  { f with
    encFull := (match got.lookup ⟨f.expr, false⟩ with | some x => x | none => blankEnc),
    encReduced := (match got.lookup ⟨f.expr, true⟩ with | some x => x | none => blankEnc) }

/-- the factor cache with the encodings this part obtained filled in -/
def partCache (mc : Cache) (got : List (SF × Encoded)) : Cache := mc.map (fillEnc got)

/-- a `ModelMatrix` with its attached `ModelSpec` -/
structure PartH (τ σ : Type) where
  matrix : Matrix
  spec : HSpec τ σ

def optsOfLeaf {τ σ} (mc : MatClass) (h : HSpec τ σ) : Opts :=
  ⟨h.efr, h.cluster, mc.variant, match h.output with | some o => mc.dictOutputs.contains o | none => false⟩

/-- `_build_model_matrix(spec, drop_rows)` for one prepared spec, with the caches of the materializer object -/
def buildPartH {ν τ σ} (W : HWorld ν τ σ) (mc : MatClass) (memo : List (String × Evald ν)) (drop : List Nat)
    (pooled : TState τ) (caches : EncCaches σ) (h : HSpec τ σ) : Except PErr (PartH τ σ × EncCaches σ) :=
  let o := optsOfLeaf mc h
  let c0 := metaCache W memo
  match scopedTermsOf o c0 h.core with
  | .error e => .error e
  | .ok scp =>
    match foldE (encodeStep W drop memo) ⟨caches, h.enc, []⟩ (encodeTrace scp) with
    | .error e => .error e
    | .ok a =>
      match buildPart o W.nrows (partCache c0 a.got) drop pooled h.core with
      | .error e => .error e
      | .ok p => .ok (⟨p.matrix, { h with core := p.spec, enc := a.enc }⟩, a.caches)

/-- step 3 over the leaves in `_map` order, the caches handed from part to part -/
def buildLeaves {ν τ σ} (W : HWorld ν τ σ) (mc : MatClass) (memo : List (String × Evald ν)) (drop : List Nat)
    (pooled : TState τ) : EncCaches σ → List (HSpec τ σ) → Except PErr (List (PartH τ σ) × EncCaches σ)
  | c, [] => .ok ([], c)
  | c, h :: r =>
    match buildPartH W mc memo drop pooled c h with
    | .error e => .error e
    | .ok (p, c') =>
      match buildLeaves W mc memo drop pooled c' r with
      | .error e => .error e
      | .ok (ps, c'') => .ok (p :: ps, c'')

/-! ### putting results back into the structure -/

mutual
/-- the tree `v` with its leaves replaced, in `_flatten` order, by the elements of a list (what
`_map` returns when its function answered these values); `Structured` levels are rebuilt by the
constructor (`rootLast`). Returns the unused rest of the list; `none` when the list is too short
(never the case for a list obtained by mapping over `flatten v`: `Proofs.C07Hist.refill_mapL`). -/
def refill {α β : Type} : St.Val α → List β → Option (St.Val β × List β)
  | .leaf _, [] => none
  | .leaf _, b :: l => some (.leaf b, l)
  | .tup vs, l =>
    match refillT vs l with
    | none => none
    | some r => some (.tup r.1, r.2)
  | .node kvs, l =>
    match refillI kvs l with
    | none => none
    | some r => some (.node (St.rootLast r.1), r.2)
def refillT {α β : Type} : List (St.Val α) → List β → Option (List (St.Val β) × List β)
  | [], l => some ([], l)
  | v :: vs, l =>
    match refill v l with
    | none => none
    | some a =>
      match refillT vs a.2 with
      | none => none
      | some b => some (a.1 :: b.1, b.2)
def refillI {α β : Type} : St.Items α → List β → Option (St.Items β × List β)
  | [], l => some ([], l)
  | (k, v) :: r, l =>
    match refill v l with
    | none => none
    | some a =>
      match refillI r a.2 with
      | none => none
      | some b => some ((k, a.1) :: b.1, b.2)
end

/-- `refill` as the last step of a `_map`: a list that does not fit the tree is an internal error -/
def rebuild {α β : Type} (v : St.Val α) (l : List β) : Except HErr (St.Val β) :=
  match refill v l with
  | some (r, []) => .ok r
  | _ => .error (.part .structure)

/-! ### the materializer object -/

/-- the three caches of a `FormulaMaterializer` instance -/
structure MatObj (ν σ : Type) where
  factorCache : List (String × Evald ν)
  caches : EncCaches σ

def MatObj.empty {ν σ} : MatObj ν σ := ⟨[], EncCaches.empty⟩

/-- the result of one `get_model_matrix` call on structured specs -/
structure JointH (ν τ σ : Type) where
  parts : St.Val (PartH τ σ)
  drop : List Nat                    -- `sorted(drop_rows)`
  dropSet : List Nat                 -- the caller-visible set after step 1
  state : TState τ                   -- the pooled transform state after step 1
  memo : List (String × Evald ν)

/-- the body of `get_model_matrix` after the caches have been emptied, started with the caches `m`:
`from_spec(**overrides)`, `_prepare_model_specs`, steps 0–3 -/
def core {ν τ σ} (W : HWorld ν τ σ) (mc : MatClass) (params : Params) (m : MatObj ν σ)
    (F : St.Val (HSpec τ σ)) (ov : Overrides) (perm : List String) (caller : List Nat) :
    Except HErr (JointH ν τ σ × MatObj ν σ) :=
  let S := St.norm F
  match mapL (fun h => prepareLeaf mc params (applyOv ov h)) (St.flatten S) with
  | .error e => .error e
  | .ok L =>
    if !consistent L then .error (.part .inconsistent)
    else
      let st0 := pooledStateL L
      match evalAllH W st0 (pooledEncL L) ⟨m.factorCache, caller, st0⟩ (iterOrder (pooledFactorsL L) perm) with
      | .error e => .error (.part e)
      | .ok s =>
        let drop := sortSet s.drop
        match buildLeaves W mc s.memo drop s.state m.caches L with
        | .error e => .error (.part e)
        | .ok (ps, c) =>
          match rebuild S ps with
          | .error e => .error e
          | .ok parts => .ok (⟨parts, drop, s.drop, s.state, s.memo⟩, ⟨s.memo, c⟩)

/-- `materializer.get_model_matrix(spec, drop_rows, **overrides)` on the object `m`: the caches are
emptied first; what the object holds afterwards is returned with the result -/
def MatObj.call {ν τ σ} (W : HWorld ν τ σ) (mc : MatClass) (params : Params) (_m : MatObj ν σ)
    (F : St.Val (HSpec τ σ)) (ov : Overrides) (perm : List String) (caller : List Nat) :
    Except HErr (JointH ν τ σ) × MatObj ν σ :=
  match core W mc params MatObj.empty F ov perm caller with
  | .error e => (.error e, MatObj.empty)
  | .ok (j, m') => (.ok j, m')

/-- a new materializer object -/
def materializeH {ν τ σ} (W : HWorld ν τ σ) (mc : MatClass) (params : Params)
    (F : St.Val (HSpec τ σ)) (ov : Overrides) (perm : List String) (caller : List Nat) :
    Except HErr (JointH ν τ σ) :=
  (MatObj.call W mc params MatObj.empty F ov perm caller).1

/-- `ModelMatrices.model_spec` -/
def specsOfH {τ σ} (parts : St.Val (PartH τ σ)) : St.Val (HSpec τ σ) :=
  St.mapV (fun p _ => p.spec) [] parts

/-! ### `ModelSpecs.get_model_matrix` -/

/-- the registry of materializer classes and what `for_data(data)` answers for the data at hand;
`world name` is the data seen through the class `name` -/
structure Env (ν τ σ : Type) where
  classes : List MatClass
  forData : Option String
  world : String → HWorld ν τ σ

def Env.byName {ν τ σ} (E : Env ν τ σ) (n : String) : Except HErr MatClass :=
  match E.classes.find? (fun c => c.name == n) with
  | some c => .ok c
  | none => .error .notFound

/-- `for_materializer(name)` when a materializer is recorded, `for_data(data)` otherwise -/
def Env.classFor {ν τ σ} (E : Env ν τ σ) (m : Option String) : Except HErr MatClass :=
  match m with
  | some n => E.byName n
  | none => match E.forData with | some n => E.byName n | none => .error .notFound

/-- `materializer_params or {}` -/
def paramsOr (p : Option Params) : Params :=
  match p with
  | some q => q
  | none => []

def truthyStr : Option String → Bool
  | some s => s ≠ ""
  | none => false

def truthyParams : Option Params → Bool
  | some p => !p.isEmpty
  | none => false

/-- the `for spec in self._flatten():` scan; `none` = the loop hit `break` (per-spec generation),
`some (materializer, materializer_params)` = the `else` branch ran (joint generation) -/
def jointScan {τ σ} : List (HSpec τ σ) → Option String × Option Params → Option (Option String × Option Params)
  | [], acc => some acc
  | s :: r, (m, p) =>
    if !truthyStr s.materializer then jointScan r (m, p)
    else
      let mOk := match m with | none => true | some _ => m == s.materializer
      let pOk := match p with
        | none => true
        | some d => match s.params with | some q => paramsEq d q | none => false
      if !(mOk && pOk) then none
      else jointScan r (s.materializer, if truthyParams s.params then s.params else none)

/-- `ModelSpec.get_model_matrix(data, drop_rows=…)` for ONE spec: its recorded materializer (or the
one for the data) with its recorded params, a new object, `_simplify()` of the result -/
def specGetModelMatrix {ν τ σ} (E : Env ν τ σ) (h : HSpec τ σ) (perm : List String) (caller : List Nat) :
    Except HErr (PartH τ σ × List Nat) :=
  match E.classFor h.materializer with
  | .error e => .error e
  | .ok mc =>
    match materializeH (E.world mc.name) mc (paramsOr h.params) (.node [("root", .leaf h)]) Overrides.none perm caller with
    | .error e => .error e
    | .ok j =>
      match j.parts with
      | .node [(_, .leaf p)] => .ok (p, j.dropSet)
      | _ => .error (.part .structure)

/-- one pass of the per-spec branch: every spec with the SAME mutable drop set -/
def perSpecPass {ν τ σ} (E : Env ν τ σ) (perm : List String) :
    List Nat → List (HSpec τ σ) → Except HErr (List (PartH τ σ) × List Nat)
  | d, [] => .ok ([], d)
  | d, h :: r =>
    match specGetModelMatrix E h perm d with
    | .error e => .error e
    | .ok (p, d') =>
      match perSpecPass E perm d' r with
      | .error e => .error e
      | .ok (ps, d'') => .ok (p :: ps, d'')

/-- `len(set)` of a set given as a list with repetitions -/
def setSize (d : List Nat) : Nat := (sortSet d).length

/-- what `ModelSpecs.get_model_matrix` returns together with the caller-visible drop set -/
structure SpecsOut (τ σ : Type) where
  parts : St.Val (PartH τ σ)
  dropSet : List Nat
  jointly : Bool
  passes : Nat

/-- `ModelSpecs.get_model_matrix(data, drop_rows=caller, **overrides)` -/
def specsGetModelMatrix {ν τ σ} (E : Env ν τ σ) (F : St.Val (HSpec τ σ)) (ov : Overrides) (perm : List String)
    (caller : List Nat) : Except HErr (SpecsOut τ σ) :=
  -- `ModelSpec.from_spec(self, **attr_overrides)`: `_map` re-runs the constructors
  let S := if ov.isEmpty then F else St.mapV (fun h _ => applyOv ov h) [] F
  match jointScan (St.flatten S) (none, none) with
  | some (m, p) =>
    match E.classFor m with
    | .error e => .error e
    | .ok mc =>
      match materializeH (E.world mc.name) mc (paramsOr p) S Overrides.none perm caller with
      | .error e => .error e
      | .ok j => .ok ⟨j.parts, j.dropSet, true, 1⟩
  | none =>
    -- `self._map(...)`: the specs are visited in the order the keys are stored in (`_flatten` order of the
    -- structure as it is), the constructors then move `root` keys to the end (`rebuild`)
    let L := St.flatten S
    match perSpecPass E perm caller L with
    | .error e => .error e
    | .ok (ps, d) =>
      if setSize d = setSize caller then
        match rebuild S ps with
        | .error e => .error e
        | .ok parts => .ok ⟨parts, d, false, 1⟩
      else
        match perSpecPass E perm d L with
        | .error e => .error e
        | .ok (ps', d') =>
          match rebuild S ps' with
          | .error e => .error e
          | .ok parts => .ok ⟨parts, d', false, 2⟩

/-! ### composing a structured spec from earlier results and fresh parts -/

/-- how a history puts a new structured spec together: parts of earlier results (their attached
specs — a built `ModelMatrix` contributes its `model_spec`), fresh specs / formulas, tuples, keyword
containers (`ModelSpecs(**kw)` / `Structured(**kw)`), or an earlier result's `model_spec` edited in
place (`result.model_spec.key = value`: `__setattr__` stores under the key WITHOUT re-running the
constructor, so a `root` key does not move to the end) -/
inductive CTree (τ σ : Type) where
  | refLeaf (b i : Nat)          -- the `i`-th leaf (modulo the number of leaves) of result `b`
  | refTop (b j : Nat)           -- the value under the `j`-th top-level key of result `b`
  | refWhole (b : Nat)           -- the whole of result `b`
  | fresh (v : St.Val (HSpec τ σ))
  | tup (l : List (CTree τ σ))
  | kw (l : List (String × CTree τ σ))
  | inplace (b : Nat) (adds : List (String × CTree τ σ))

/-- `xs[i % len(xs)]` -/
def pickMod {α} (xs : List α) (i : Nat) : Except HErr α :=
  match xs[i % xs.length]? with
  | some x => .ok x
  | none => .error .index

mutual
def composeC {τ σ} (res : List (St.Val (PartH τ σ))) : CTree τ σ → Except HErr (St.Val (HSpec τ σ))
  | .refLeaf b i =>
    match pickMod res b with
    | .error e => .error e
    | .ok r =>
      match pickMod (St.flatten r) i with
      | .error e => .error e
      | .ok p => .ok (.leaf p.spec)
  | .refTop b j =>
    match pickMod res b with
    | .error e => .error e
    | .ok (.node kvs) =>
      match pickMod kvs j with
      | .error e => .error e
      | .ok kv => .ok (specsOfH kv.2)
    | .ok v => .ok (specsOfH v)
  | .refWhole b =>
    match pickMod res b with
    | .error e => .error e
    | .ok r => .ok (specsOfH r)
  | .fresh v => .ok v
  | .tup l =>
    match composeT res l with
    | .error e => .error e
    | .ok vs => .ok (.tup vs)
  | .kw l =>
    match composeI res l with
    | .error e => .error e
    | .ok kvs => .ok (.node (St.rootLast kvs))
  | .inplace b adds =>
    match pickMod res b with
    | .error e => .error e
    | .ok r =>
      match specsOfH r, composeI res adds with
      | _, .error e => .error e
      | .node kvs, .ok new => .ok (.node (new.foldl (fun d kv => St.dictSet d kv.1 kv.2) kvs))
      | _, .ok _ => .error .attribute     -- a single `ModelSpec` is frozen
def composeT {τ σ} (res : List (St.Val (PartH τ σ))) : List (CTree τ σ) → Except HErr (List (St.Val (HSpec τ σ)))
  | [] => .ok []
  | t :: r =>
    match composeC res t with
    | .error e => .error e
    | .ok v =>
      match composeT res r with
      | .error e => .error e
      | .ok vs => .ok (v :: vs)
def composeI {τ σ} (res : List (St.Val (PartH τ σ))) : List (String × CTree τ σ) → Except HErr (St.Items (HSpec τ σ))
  | [] => .ok []
  | (k, t) :: r =>
    match composeC res t with
    | .error e => .error e
    | .ok v =>
      match composeI res r with
      | .error e => .error e
      | .ok kvs => .ok ((k, v) :: kvs)
end

/-! ### the nested shape of a formula: `Formula(...)` / `StructuredFormula(...)` / `Formula.from_spec`

How a structured formula gets its tree (`formulaic/formula.py`, on top of `Structured`): a string is parsed into
left/right sides and `|`-separated parts (property C01's subject — the split arrives here as data) and the parser's
result is `_simplify()`-ed; a tuple becomes `StructuredFormula(tuple)._simplify()`; keywords become
`StructuredFormula(**kw)`, whose constructor prepares every item (strings and tuples recursively, tuples element by
element) and then runs `_simplify(unwrap=False, inplace=True)`; an existing formula object is taken as it is; a
structure edited afterwards (`f.key = spec`) stores the prepared item without simplifying again. The
simplification itself is `Model/Structured.lean` (property C19). -/

/-- a formula specification as the harness writes them; leaves carry whatever stands for one part -/
inductive FSpec (α : Type) where
  | leaf (a : α)                                           -- a string without structure / a list of terms
  | str (lhs rhs : List α)                                 -- a string `l1 | l2 ~ r1 | r2 | …` (`lhs = []`: no `~`)
  | tup (l : List (FSpec α))
  | kw (kvs : List (String × FSpec α))                     -- `StructuredFormula(**kvs)`
  | edited (root : FSpec α) (adds : List (String × FSpec α))  -- `f = StructuredFormula(root); f.k = spec; …`

/-- one side of a parsed string: a single part, or a tuple of parts -/
def sideTree {α} (ps : List α) : St.Val α :=
  match ps with
  | [p] => .leaf p
  | _ => .tup (ps.map .leaf)

/-- `StructuredFormula(**kvs)` for prepared items: the `Structured` constructor, then `_simplify(unwrap=False, inplace=True)` -/
def structuredFormula {α} (kvs : St.Items α) : Except St.Err (St.Val α) :=
  match St.ctor kvs with
  | .error e => .error e
  | .ok (.node k) => St.simplify true false true k
  | .ok v => .ok v

/-- `x._simplify()` for a value that may or may not be a `Structured` -/
def simplifyVal {α} (v : St.Val α) : Except St.Err (St.Val α) :=
  match v with
  | .node k => St.simplify true true false k
  | v => .ok v

mutual
/-- `Formula.from_spec(spec)` / `Formula(spec)` for a top-level specification -/
def fromSpec {α} : FSpec α → Except St.Err (St.Val α)
  | .leaf a => .ok (.leaf a)
  | .str lhs rhs =>
    -- the parser's `Structured(lhs=…, rhs=…)` / `Structured(root=…)`, then `_simplify()`
    if lhs.isEmpty then St.simplify true true false [("root", sideTree rhs)]
    else St.simplify true true false [("lhs", sideTree lhs), ("rhs", sideTree rhs)]
  | .tup l =>
    -- `StructuredFormula(spec_tuple)._simplify()`
    match prepItemT l with
    | .error e => .error e
    | .ok items =>
      match structuredFormula [("root", .tup items)] with
      | .error e => .error e
      | .ok v => simplifyVal v
  | .kw kvs =>
    match prepItemI kvs with
    | .error e => .error e
    | .ok items => structuredFormula items
  | .edited root adds =>
    match prepItem root, prepItemI adds with
    | .error e, _ => .error e
    | _, .error e => .error e
    | .ok r, .ok items =>
      match structuredFormula [("root", r)] with
      | .error e => .error e
      | .ok (.node k) => .ok (.node (items.foldl (fun d kv => St.dictSet d kv.1 kv.2) k))
      | .ok v => .ok v
/-- `Structured.__prepare_item(key, item)` of a `StructuredFormula`: a tuple is prepared element by element and stays a
tuple, a formula object is taken as it is, anything else goes through `Formula.from_spec` -/
def prepItem {α} : FSpec α → Except St.Err (St.Val α)
  | .tup l =>
    match prepItemT l with
    | .error e => .error e
    | .ok items => .ok (.tup items)
  | .leaf a => .ok (.leaf a)
  | .str lhs rhs =>
    if lhs.isEmpty then St.simplify true true false [("root", sideTree rhs)]
    else St.simplify true true false [("lhs", sideTree lhs), ("rhs", sideTree rhs)]
  | .kw kvs =>
    match prepItemI kvs with
    | .error e => .error e
    | .ok items => structuredFormula items
  | .edited root adds =>
    match prepItem root, prepItemI adds with
    | .error e, _ => .error e
    | _, .error e => .error e
    | .ok r, .ok items =>
      match structuredFormula [("root", r)] with
      | .error e => .error e
      | .ok (.node k) => .ok (.node (items.foldl (fun d kv => St.dictSet d kv.1 kv.2) k))
      | .ok v => .ok v
def prepItemT {α} : List (FSpec α) → Except St.Err (List (St.Val α))
  | [] => .ok []
  | f :: r =>
    match prepItem f with
    | .error e => .error e
    | .ok v =>
      match prepItemT r with
      | .error e => .error e
      | .ok vs => .ok (v :: vs)
def prepItemI {α} : List (String × FSpec α) → Except St.Err (St.Items α)
  | [] => .ok []
  | (k, f) :: r =>
    match prepItem f with
    | .error e => .error e
    | .ok v =>
      match prepItemI r with
      | .error e => .error e
      | .ok kvs => .ok ((k, v) :: kvs)
end

/-! ### `ModelSpecs.subset`, `ModelSpecs.differentiate` -/

/-- `Structured.__getitem__` with a tuple key (`__lookup_path`): a key of a `Structured`, an index
of a tuple; anything else `KeyError`; a tuple index out of range is Python's `IndexError` -/
def lookupPathPy {α} : St.Path → St.Val α → Except HErr (St.Val α)
  | [], v => .ok v
  | .key k :: p, .node kvs =>
    match kvs.lookup k with
    | some v => lookupPathPy p v
    | none => .error .key
  | .idx i :: p, .tup vs =>
    match vs[i]? with
    | some v => lookupPathPy p v
    | none => .error .index
  | _ :: _, _ => .error .key

/-- insertion into a list of strings sorted by `<` (code-point order, as Python compares `str`) -/
def insertStr (x : String) : List String → List String
  | [] => [x]
  | y :: ys => if x < y then x :: y :: ys else y :: insertStr x ys

/-- `Term._factor_key`: the factor expressions, sorted; `Term.__eq__` / `__hash__` look at nothing else -/
def termKey (t : MTerm) : List String := t.foldr insertStr []

def termEq (a b : MTerm) : Bool := termKey a == termKey b

/-- `ModelSpec.subset(formula)`: the restricted formula must only hold terms of the spec
(`ValueError` otherwise); the structure rows of the chosen terms in the order of the formula
(`RuntimeError` when the structure is not populated); everything else is kept -/
def subsetLeaf {τ σ} (h : HSpec τ σ) (terms : List MTerm) : Except HErr (HSpec τ σ) :=
  if !terms.all (fun t => h.core.terms.any (termEq t)) then .error .value
  else
    match h.core.struct with
    | none => .error .runtime
    | some str =>
      match mapL (fun t => match str.find? (fun s => termEq s.term t) with
          | some s => Except.ok s | none => Except.error HErr.key) terms with
      | .error e => .error e
      | .ok rows => .ok { h with core := ⟨terms, some rows, h.core.state⟩ }

/-- the function `ModelSpecs.subset` maps over the structured FORMULA: `self[context].subset(formula)`
with `KeyError` turned into `ValueError`; a tuple found at the path has no `subset` attribute, a
nested `ModelSpecs` found there refuses an unstructured formula -/
def subsetAt {τ σ} (S : St.Val (HSpec τ σ)) (terms : List MTerm) (ctx : St.Path) : Except HErr (HSpec τ σ) :=
  match lookupPathPy ctx S with
  | .error .key => .error .value
  | .error e => .error e
  | .ok (.leaf h) => subsetLeaf h terms
  | .ok (.tup _) => .error .attribute
  | .ok (.node _) => .error .value

/-- `ModelSpecs.subset(terms_spec)`; `Fm = none`: the formula has no structure -/
def specsSubset {τ σ} (S : St.Val (HSpec τ σ)) (Fm : Option (St.Val (List MTerm))) : Except HErr (St.Val (HSpec τ σ)) :=
  match Fm with
  | none => .error .value
  | some fm =>
    let fmN := St.norm fm
    match mapL (fun tp => subsetAt S tp.1 tp.2) (St.flattenP [] fmN) with
    | .error e => .error e
    | .ok l => rebuild fmN l

/-- `ModelSpecs.differentiate(*wrt)`: every spec gets the differentiated formula (`D`, property C20's
subject) and an unset structure; transform and encoder state stay -/
def specsDifferentiate {τ σ} (D : List MTerm → List MTerm) (S : St.Val (HSpec τ σ)) : St.Val (HSpec τ σ) :=
  St.mapV (fun h _ => { h with core := ⟨D h.core.terms, none, h.core.state⟩ }) [] S

end FormulaicVerif.Model.PartsHist
