/-! # Model of `formulaic/transforms/contrasts.py` (+ the orthogonal branch of `transforms/poly.py`)

Core Lean only. Matrices are *entry functions* `Nat → Nat → Rat` (`Arr`) written from the code's
numpy index arithmetic (`eye`, fancy column selection, `triu_indices`/`tril_indices` masks, row
assignment `[-1, :] = -1`, per-column division, `repeat/arange`), together with the list-of-rows
form (`toRows`) that the engine prints and `apply` multiplies with. `rawCoding_reduced`, `toRows_entry`
and `polyTable_eq` (Proofs/C11Lists, surfaced as `Props.C11.model_rows_are_entries`) are
the bridge between both forms.

Python operations that can raise are modelled with `Except Err`.
-/

namespace FormulaicVerif.Model.Contrasts

/-! ## Labels -/

/-- A level label: the harness uses Python `str` and `int` labels. -/
inductive Label where
  | str (s : String)
  | int (i : Int)
  deriving DecidableEq, Repr, Inhabited

/-- Order in which pandas lists *inferred* categories (`Series.astype("category")` on an object
column): numbers first (ascending), then strings (by code point). -/
def Label.lt : Label → Label → Bool
  | .int a, .int b => decide (a < b)
  | .int _, .str _ => true
  | .str _, .int _ => false
  | .str a, .str b => decide (a < b)

inductive Err where
  | baseNotInLevels      -- ValueError: `TreatmentContrasts.base` is not among the provided levels
  | scoresCardinality    -- ValueError: `PolyContrasts.scores` must have the same cardinality …
  | duplicateLevels      -- ValueError: Categorical categories must be unique
  | unknownOutput        -- ValueError: Unknown output type
  | shapeMismatch        -- ValueError: matmul dimension mismatch
  | indexError           -- IndexError: `levels[0]` on an empty list (unreachable behind the short-circuit)
  deriving DecidableEq, Repr

/-- The built-in contrasts with their options (`contr.treatment(base=…)`, `contr.SAS(base=…)`,
`contr.sum()`, `contr.helmert(reverse, scale)`, `contr.diff(backward)`, `contr.poly(scores)`).
`base = none` is `UNSET`; `scores = none` is `None`. -/
inductive Contrast where
  | treatment (base : Option Label)
  | sas (base : Option Label)
  | sum
  | helmert (reverse scale : Bool)
  | diff (backward : Bool)
  | poly (scores : Option (List Rat))
  deriving Repr

/-! ## numpy-style array operations on entry functions -/

abbrev Arr := Nat → Nat → Rat

/-- `numpy.zeros(...)` -/
def zeros : Arr := fun _ _ => 0
/-- `numpy.eye(n)` / `numpy.eye(n, n - 1)` (the shape is carried separately) -/
def eye : Arr := fun i j => if i = j then 1 else 0
/-- the `j`-th element of `[i for i in range(n) if i != d]` -/
def skip (d j : Nat) : Nat := if j < d then j else j + 1
/-- `matrix[:, cols]` -/
def takeCols (a : Arr) (cols : Nat → Nat) : Arr := fun i j => a i (cols j)
/-- `a[r, :] = v` -/
def setRow (a : Arr) (r : Nat) (v : Rat) : Arr := fun i j => if i = r then v else a i j
/-- `a[mask] = v` -/
def setWhere (a : Arr) (mask : Nat → Nat → Bool) (v : Rat) : Arr :=
  fun i j => if mask i j then v else a i j
/-- `a[mask] -= v` -/
def subWhere (a : Arr) (mask : Nat → Nat → Bool) (v : Rat) : Arr :=
  fun i j => if mask i j then a i j - v else a i j
/-- `for i in range(cols): a[:, i] /= d(i)` -/
def divCols (a : Arr) (d : Nat → Rat) : Arr := fun i j => a i j / d j
/-- `a *= s` -/
def scaleAll (a : Arr) (s : Rat) : Arr := fun i j => a i j * s
/-- index set `numpy.triu_indices(rows, m=cols)` (k = 0): `i ≤ j` inside `rows × cols` -/
def triu (rows cols : Nat) : Nat → Nat → Bool := fun i j => decide (i < rows) && decide (j < cols) && decide (i ≤ j)
/-- index set `numpy.tril_indices(n, k=-1)`: `j < i` inside `n × n` -/
def trilStrict (n : Nat) : Nat → Nat → Bool := fun i j => decide (i < n) && decide (j < n) && decide (j < i)

/-! ## Orthogonal polynomials (`poly(scores, degree=n-1)`, training mode, no nulls) -/

/-- `numpy.sum` over `range n` -/
def sumTo : Nat → (Nat → Rat) → Rat
  | 0, _ => 0
  | n + 1, f => sumTo n f + f n

/-- `norms2[k] = numpy.sum(P[:, k] ** 2)` -/
def norm2 (n : Nat) (p : Nat → Rat) : Rat := sumTo n (fun i => p i * p i)
/-- `alpha[k] = numpy.sum(x * P[:, k] ** 2) / numpy.sum(P[:, k] ** 2)` -/
def alphaOf (n : Nat) (x p : Nat → Rat) : Rat := sumTo n (fun i => x i * (p i * p i)) / norm2 n p

/-- The unnormalised (monic) columns `P[:, k]` of `poly`: the three-term recurrence
`P_i = (x - alpha_{i-1}) P_{i-1} - (norms2_{i-1} / norms2_{i-2}) P_{i-2}`.
This is the *entry function* the theorems talk about; `polyTable` is its memoised list form. -/
def polyP (n : Nat) (x : Nat → Rat) : Nat → (Nat → Rat)
  | 0 => fun _ => 1
  | 1 => fun i => (x i - alphaOf n x (polyP n x 0)) * polyP n x 0 i
  | k + 2 => fun i =>
      (x i - alphaOf n x (polyP n x (k + 1))) * polyP n x (k + 1) i
        - (norm2 n (polyP n x (k + 1)) / norm2 n (polyP n x k)) * polyP n x k i

/-- `norms2[k]` of the columns above -/
def polyNorm2 (n : Nat) (x : Nat → Rat) (k : Nat) : Rat := norm2 n (polyP n x k)

/-! ### executable (memoised) form on lists -/

def lsum (l : List Rat) : Rat := l.foldr (· + ·) 0
def lnorm2 (p : List Rat) : Rat := lsum (p.map fun v => v * v)
def lalpha (x p : List Rat) : Rat := lsum (List.zipWith (fun xx v => xx * (v * v)) x p) / lnorm2 p

/-- one step of the loop `for i in range(1, degree + 1)` : given `P_{i-1}` and (for `i ≥ 2`) `P_{i-2}` -/
def polyStep (x : List Rat) (p1 : List Rat) (p2 : Option (List Rat)) : List Rat :=
  let a := lalpha x p1
  let q := List.zipWith (fun xx v => (xx - a) * v) x p1
  match p2 with
  | none => q
  | some p2 =>
    let b := lnorm2 p1 / lnorm2 p2
    List.zipWith (fun u w => u - b * w) q p2

/-- columns `P_0 … P_deg` (most recent first in `acc`) -/
def polyLoop (x : List Rat) : Nat → List (List Rat) → List (List Rat)
  | 0, acc => acc
  | d + 1, acc =>
    match acc with
    | p1 :: p2 :: rest => polyLoop x d (polyStep x p1 (some p2) :: p1 :: p2 :: rest)
    | [p1] => polyLoop x d (polyStep x p1 none :: [p1])
    | [] => []

/-- `[P_0, P_1, …, P_deg]` as columns (lists over the rows) -/
def polyTable (x : List Rat) (deg : Nat) : List (List Rat) :=
  (polyLoop x deg [x.map fun _ => 1]).reverse

/-! ## The coding matrices -/

/-- A contrast whose data-dependent options have been resolved against the level list:
the treatment base is an index, the polynomial scores are a function of the row. -/
inductive Kind where
  | treatment (dropIdx : Nat)
  | sum
  | helmert (reverse scale : Bool)
  | diff (backward : Bool)
  | poly (x : Nat → Rat)

/-- Reduced-rank coding matrix `n × (n-1)`, entry `(i, j)`; each line follows the statements of the
corresponding `_get_coding_matrix`. Polynomial columns are the *unnormalised* `P[:, j+1]`
(the code divides column `k` by `sqrt(norms2[k])`, see `polyNorm2`). -/
def coding (k : Kind) (n : Nat) : Arr :=
  match k with
  | .treatment d =>
      -- matrix = eye(n); matrix[:, [i for i in range(n) if i != drop_level]]
      takeCols eye (skip d)
  | .sum =>
      -- contr = eye(n, n - 1); contr[-1, :] = -1
      setRow eye (n - 1) (-1)
  | .helmert true scale =>
      -- contr = zeros; contr[i + 1, i] = i + 1; contr[triu_indices(n - 1)] = -1; contr[:, i] /= i + 2
      let c0 : Arr := fun i j => if j < n - 1 ∧ i = j + 1 then ((j : Rat) + 1) else zeros i j
      let c1 := setWhere c0 (triu (n - 1) (n - 1)) (-1)
      if scale then divCols c1 (fun j => (j : Rat) + 2) else c1
  | .helmert false scale =>
      -- contr = zeros; contr[i, i] = n - i - 1; contr[tril_indices(n, k=-1)] = -1; contr[:, i] /= n - i
      let c0 : Arr := fun i j => if j < n - 1 ∧ i = j then ((n : Rat) - j - 1) else zeros i j
      let c1 := setWhere c0 (trilStrict n) (-1)
      if scale then divCols c1 (fun j => (n : Rat) - j) else c1
  | .diff backward =>
      -- contr = repeat([arange(1, n)], n, axis=0) / n; contr[triu_indices(n, m=n-1)] -= 1; contr *= -1
      let c0 : Arr := fun _ j => ((j : Rat) + 1) / n
      let c1 := subWhere c0 (triu n (n - 1)) 1
      if backward then c1 else scaleAll c1 (-1)
  | .poly x => fun i j => polyP n x (j + 1) i

/-- `numpy.hstack([ones((n, 1)), coding_matrix])` -/
def aug (k : Kind) (n : Nat) : Arr := fun i c => if c = 0 then 1 else coding k n i (c - 1)

/-- list-of-rows form of an `r × c` array -/
def toRows (a : Arr) (r c : Nat) : List (List Rat) :=
  (List.range r).map fun i => (List.range c).map fun j => a i j

/-! ## API level: levels, names, metadata -/

def indexOf? (b : Label) : List Label → Option Nat
  | [] => none
  | l :: ls => if l = b then some 0 else (indexOf? b ls).map (· + 1)

/-- `_find_base_index` (Treatment: 0 when unset; SAS: `len(levels) - 1` when unset) -/
def findBaseIndex (sas : Bool) (base : Option Label) (levels : List Label) : Except Err Nat :=
  match base with
  | none => .ok (if sas then levels.length - 1 else 0)
  | some b =>
    match indexOf? b levels with
    | some i => .ok i
    | none => .error .baseNotInLevels

/-- arange(n) as a list -/
def arange (n : Nat) : List Rat := (List.range n).map fun (i : Nat) => (i : Rat)

/-- `scores = self.scores or numpy.arange(n)` after the cardinality check
(`if self.scores and not len(self.scores) == n: raise`). -/
def polyScores (scores : Option (List Rat)) (n : Nat) : Except Err (List Rat) :=
  match scores with
  | none => .ok (arange n)
  | some [] => .ok (arange n)
  | some s => if s.length = n then .ok s else .error .scoresCardinality

/-- entry function of a list (rows outside the list read 0; only used inside `range s.length`) -/
def listFn (s : List Rat) : Nat → Rat := fun i =>
  match s[i]? with
  | some v => v
  | none => 0

/-- resolve the options of a contrast against the level list (what the reduced-rank
`_get_coding_matrix` looks at before it builds the matrix) -/
def Contrast.kind (c : Contrast) (levels : List Label) : Except Err Kind :=
  match c with
  | .treatment b => (findBaseIndex false b levels).map Kind.treatment
  | .sas b => (findBaseIndex true b levels).map Kind.treatment
  | .sum => .ok .sum
  | .helmert r s => .ok (.helmert r s)
  | .diff b => .ok (.diff b)
  | .poly sc => (polyScores sc levels.length).map fun s => Kind.poly (listFn s)

def polyName (d : Nat) : Label :=
  .str (if d = 1 then ".L" else if d = 2 then ".Q" else if d = 3 then ".C" else "^" ++ toString d)

/-- `get_coding_column_names` -/
def codingColumnNames (c : Contrast) (levels : List Label) (reduced : Bool) : Except Err (List Label) :=
  match c with
  | .treatment b => do
      let bi ← findBaseIndex false b levels   -- evaluated even when not reduced
      pure (if reduced then levels.eraseIdx bi else levels)
  | .sas b => do
      let bi ← findBaseIndex true b levels
      pure (if reduced then levels.eraseIdx bi else levels)
  | .sum => .ok (if reduced then levels.dropLast else levels)
  | .helmert r _ => .ok (if reduced then (if r then levels.drop 1 else levels.dropLast) else levels)
  | .diff b => .ok (if reduced then (if b then levels.drop 1 else levels.dropLast) else levels)
  | .poly _ => .ok (if reduced then (List.range (levels.length - 1)).map (fun d => polyName (d + 1)) else levels)

/-- `_get_coding_matrix(levels, reduced_rank, sparse)`: the unnormalised rows. -/
def rawCodingMatrix (c : Contrast) (levels : List Label) (reduced : Bool) : Except Err (List (List Rat)) :=
  let n := levels.length
  if reduced then
    match c with
    | .poly sc => do
        -- executable path: the memoised table (bridge: `polyTable_eq`)
        let s ← polyScores sc n
        let cols := (polyTable s (n - 1)).drop 1
        pure ((List.range n).map fun i => cols.map fun col => listFn col i)
    | _ => do
        let k ← c.kind levels
        pure (toRows (coding k n) n (n - 1))
  else
    .ok (toRows eye n n)

/-- `get_coding_matrix(levels, reduced_rank, sparse)`. The dense form wraps the array in a
`DataFrame(columns=self.get_coding_column_names(...))`, which evaluates `_find_base_index` even for
the full-rank matrix; the sparse form returns the array as is. -/
def getCodingMatrix (c : Contrast) (levels : List Label) (reduced sparse : Bool) :
    Except Err (List (List Rat)) := do
  let m ← rawCodingMatrix c levels reduced
  if sparse then pure m
  else
    let _ ← codingColumnNames c levels reduced
    pure m

/-- `norms2[1..n-1]` of the polynomial coding (empty for the other contrasts): the code's column `j`
is the model's column `j` divided by `sqrt` of the `j`-th entry. -/
def codingNorms2 (c : Contrast) (levels : List Label) (reduced : Bool) : Except Err (List Rat) :=
  match c, reduced with
  | .poly sc, true => do
      let s ← polyScores sc levels.length
      pure (((polyTable s (levels.length - 1)).drop 1).map lnorm2)
  | _, _ => .ok []

/-- executable form of the closed-form inverse of `[1 | P_1 … P_{n-1}]` (row `k` is `P_k / norms2[k]`),
read off the memoised table; `Spec.Contrasts.coef (.poly x)` is the same thing on entry functions -/
def polyCoefRows (s : List Rat) (n : Nat) : List (List Rat) :=
  (polyTable s (n - 1)).map fun col => col.map (· / lnorm2 col)

/-- `get_spans_intercept` -/
def spansIntercept (levels : List Label) (reduced : Bool) : Bool := decide (levels.length > 0) && !reduced

/-- `get_drop_field` -/
def dropField (c : Contrast) (levels : List Label) (reduced : Bool) : Except Err (Option Label) :=
  if reduced then .ok none
  else
    match c with
    | .treatment (some b) | .sas (some b) => .ok (some b)
    | .treatment none =>
        match levels.head? with
        | some l => .ok (some l)
        | none => .error .indexError
    | .sas none =>
        match levels.getLast? with
        | some l => .ok (some l)
        | none => .error .indexError
    | _ => do
        let names ← codingColumnNames c levels false
        match names.head? with
        | some l => pure (some l)
        | none => .error .indexError

def reducedFormat : Contrast → String
  | .treatment _ | .sas _ => "{name}[T.{field}]"
  | .sum => "{name}[S.{field}]"
  | .helmert _ _ => "{name}[H.{field}]"
  | .diff _ => "{name}[D.{field}]"
  | .poly _ => "{name}[{field}]"

/-- `get_factor_format` -/
def factorFormat (c : Contrast) (reduced : Bool) : String :=
  if reduced then reducedFormat c else "{name}[{field}]"

/-! ## `apply` and `encode_contrasts` -/

def dot (a b : List Rat) : Rat := lsum (List.zipWith (· * ·) a b)

/-- column `j` of a list of rows (entries missing from short rows are skipped) -/
def column (m : List (List Rat)) (j : Nat) : List Rat := m.filterMap (·[j]?)

/-- `A @ B` for `A : r × n`, `B : n × w` given as lists of rows -/
def matMul (a b : List (List Rat)) (w : Nat) : List (List Rat) :=
  a.map fun row => (List.range w).map fun j => dot row (column b j)

structure Encoded where
  values : List (List Rat)
  columnNames : List Label
  spansIntercept : Bool
  dropField : Option Label
  format : String
  formatReduced : String
  deriving Repr

def isTreatment : Contrast → Option (Bool × Option Label)
  | .treatment b => some (false, b)
  | .sas b => some (true, b)
  | _ => none

/-- `_apply`: the generic `dummies @ coding_matrix`, and the treatment fast path
`dummies[:, mask]` / `dummies`. -/
def applyInner (c : Contrast) (dummies : List (List Rat)) (levels : List Label) (reduced sparse : Bool) :
    Except Err (List (List Rat)) :=
  match isTreatment c with
  | some (sas, b) =>
      if reduced then do
        let d ← findBaseIndex sas b levels
        pure (dummies.map fun row => row.eraseIdx d)
      else pure dummies
  | none => do
      let m ← getCodingMatrix c levels reduced sparse
      if dummies.all (fun row => row.length == levels.length) then
        pure (matMul dummies m (if reduced then levels.length - 1 else levels.length))
      else .error .shapeMismatch

/-- `Contrasts.apply(dummies, levels, reduced_rank, output)` -/
def apply (c : Contrast) (dummies : List (List Rat)) (levels : List Label) (reduced sparse : Bool) :
    Except Err Encoded :=
  -- Short-circuit when we know the output encoding will be empty
  if levels.isEmpty || (levels.length == 1 && reduced) then
    .ok { values := dummies.map fun _ => [], columnNames := [], spansIntercept := false,
          dropField := none, format := factorFormat c reduced, formatReduced := factorFormat c true }
  else do
    let values ← applyInner c dummies levels reduced sparse
    let names ← codingColumnNames c levels reduced
    let df ← dropField c levels reduced
    pure { values := values, columnNames := names, spansIntercept := spansIntercept levels reduced,
           dropField := df, format := factorFormat c reduced, formatReduced := factorFormat c true }

/-- insertion into a strictly sorted list without duplicates -/
def insertSorted (l : Label) : List Label → List Label
  | [] => [l]
  | h :: t => if l = h then h :: t else if Label.lt l h then l :: h :: t else h :: insertSorted l t

/-- categories pandas infers: sorted distinct non-null values -/
def inferLevels (data : List (Option Label)) : List Label :=
  data.foldl (fun acc d => match d with | some l => insertSorted l acc | none => acc) []

/-- one row of `pandas.get_dummies(Categorical(data, categories=levels))`: values outside the levels
and nulls give an all-zero row -/
def indicatorRow (levels : List Label) (d : Option Label) : List Rat :=
  levels.map fun l => if d = some l then 1 else 0

def indicator (levels : List Label) (data : List (Option Label)) : List (List Rat) :=
  data.map (indicatorRow levels)

def hasDup : List Label → Bool
  | [] => false
  | l :: ls => ls.contains l || hasDup ls

/-- `encode_contrasts(data, contrasts, levels=…, reduced_rank=…, output=…, _state=…)`.
`levels` is the explicit list or, failing that, `_state["categories"]`. Returns the encoding and
the categories written back to the state. -/
def encodeContrasts (data : List (Option Label)) (c : Contrast) (levels : Option (List Label))
    (reduced : Bool) (output : String) : Except Err (Encoded × List Label) := do
  let cats ← match levels with
    | some ls => if hasDup ls then Except.error Err.duplicateLevels else pure ls
    | none => pure (inferLevels data)
  if !(["narwhals", "pandas", "numpy", "sparse"].contains output) then Except.error Err.unknownOutput
  let enc ← apply c (indicator cats data) cats reduced (output == "sparse")
  pure (enc, cats)

end FormulaicVerif.Model.Contrasts
