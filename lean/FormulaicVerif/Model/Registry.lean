/-! # C05 — the materializer registry and its dispatch

Mirrors `FormulaMaterializerMeta` (formulaic/materializers/base.py):

* `__register_implementation__` — run by the metaclass for every new `FormulaMaterializer`
  subclass: a class that defines its OWN truthy `REGISTER_NAME` is entered into the dict
  `REGISTERED_NAMES` (a later class of the same name replaces the earlier one, the key keeps its
  place) and, when it also defines its own `REGISTER_INPUTS`, is added to the list of every input type
  it names: `REGISTERED_INPUTS[t] = sorted(REGISTERED_INPUTS[t] + [cls], key=REGISTER_PRECEDENCE, reverse=True)`
  (`sorted` is stable, also with `reverse=True`: descending precedence, ties in the order they had);
* `for_materializer(x)` — a name is looked up (`FormulaMaterializerNotFoundError`), an instance
  gives its class, a subclass of `FormulaMaterializer` is returned as it is, anything else is
  `FormulaMaterializerInvalidError`;
* `for_data(data, output=None)` — the classes registered for the type of `data` (looked up under
  `module.qualname`, and for builtin types also under the bare `qualname`, which is how `dict` is
  registered; sorted by descending precedence), then every class of `REGISTERED_NAMES` whose `SUPPORTS_INPUT(data)` holds, in
  descending precedence; the first of them, or the first that offers `output`; the two
  `FormulaMaterializerNotFoundError`s (their messages list the registered input types / the output
  types available for the input, both sorted).

Parameters (not modelled): `SUPPORTS_INPUT` is an arbitrary predicate of the data (narwhals'
`is_into_dataframe`): the data record says which classes accept it; `set(REGISTERED_NAMES.values())`
is iterated in an order CPython fixes by object addresses: the order is an argument (`setOrder`) and
the theorems hold for every order. Class objects are opaque identities (`cid`). Core Lean only. -/
namespace FormulaicVerif.Model.Registry

/-- what the registry reads of a `FormulaMaterializer` subclass -/
structure MatClass where
  cid : Nat
  /-- `cls.REGISTER_NAME` (own or inherited; the base class has `None`) -/
  name : Option String := none
  /-- `"REGISTER_NAME" in cls.__dict__` -/
  ownName : Bool := true
  /-- `cls.__dict__["REGISTER_INPUTS"]` when the class defines it itself -/
  ownInputs : Option (List String) := none
  /-- `cls.REGISTER_OUTPUTS` -/
  outputs : List String := []
  /-- `cls.REGISTER_PRECEDENCE` -/
  precedence : Rat := 100
deriving DecidableEq, Repr

/-! ### insertion-ordered dicts -/

def dictGet? {α} (d : List (String × α)) (k : String) : Option α :=
  match d with
  | [] => none
  | (k', v) :: r => if k' = k then some v else dictGet? r k

/-- `d[k] = v`: an existing key keeps its position -/
def dictSet {α} (d : List (String × α)) (k : String) (v : α) : List (String × α) :=
  match d with
  | [] => [(k, v)]
  | (k', v') :: r => if k' = k then (k, v) :: r else (k', v') :: dictSet r k v

/-! ### `sorted(…, key=REGISTER_PRECEDENCE, reverse=True)` -/

/-- put `c` behind every element whose precedence is at least its own -/
def insertDesc (c : MatClass) : List MatClass → List MatClass
  | [] => [c]
  | y :: ys => if y.precedence < c.precedence then c :: y :: ys else y :: insertDesc c ys

/-- stable sort by descending precedence (insertion sort from the left) -/
def sortDesc (xs : List MatClass) : List MatClass := xs.foldl (fun acc c => insertDesc c acc) []

/-! ### registration -/

structure Registry where
  /-- `REGISTERED_NAMES` -/
  names : List (String × MatClass) := []
  /-- `REGISTERED_INPUTS` (a `defaultdict(list)`: a missing key reads as `[]`) -/
  inputs : List (String × List MatClass) := []
deriving DecidableEq, Repr

/-- reading `REGISTERED_INPUTS[t]`: the dict is a `defaultdict(list)`, so a missing key reads as the
empty list (Python raises nothing here) -/
def ddGet (d : List (String × List MatClass)) (t : String) : List MatClass :=
  match dictGet? d t with
  | some l => l
  | none => []

def Registry.inputsFor (r : Registry) (t : String) : List MatClass := ddGet r.inputs t

/-- does `__register_implementation__` enter the class at all: `"REGISTER_NAME" in cls.__dict__ and cls.REGISTER_NAME` -/
def MatClass.registrable (c : MatClass) : Bool :=
  c.ownName && (match c.name with | some n => !n.isEmpty | none => false)

/-- one pass of the loop `for input_type in cls.REGISTER_INPUTS` -/
def addInput (c : MatClass) (d : List (String × List MatClass)) (t : String) : List (String × List MatClass) :=
  dictSet d t (sortDesc (ddGet d t ++ [c]))

/-- `__register_implementation__(cls)` -/
def register (r : Registry) (c : MatClass) : Registry :=
  match c.ownName, c.name with
  | true, some n =>
    if n.isEmpty then r
    else
      let names := dictSet r.names n c
      match c.ownInputs with
      | none => { r with names := names }
      | some ins => { names := names, inputs := ins.foldl (addInput c) r.inputs }
  | _, _ => r

/-- the registry after the classes were created in this order -/
def registerAll (r : Registry) (cs : List MatClass) : Registry := cs.foldl register r

/-! ### `for_materializer` -/

inductive Err
  /-- `FormulaMaterializerNotFoundError(name)` of `for_materializer` -/
  | unknownName (name : String)
  /-- `FormulaMaterializerInvalidError` -/
  | invalid
  /-- `for_data`: no class accepts the input; the message lists `tuple(sorted(REGISTERED_INPUTS))` -/
  | noInput (registered : List String)
  /-- `for_data`: classes accept the input but none offers the output; the message lists the output
  types they do offer, `sorted(set(…), key=str)` -/
  | noOutput (available : List String)
deriving DecidableEq, Repr

/-- the Python exception class -/
def Err.name : Err → String
  | .unknownName _ => "FormulaMaterializerNotFoundError"
  | .invalid => "FormulaMaterializerInvalidError"
  | .noInput _ => "FormulaMaterializerNotFoundError"
  | .noOutput _ => "FormulaMaterializerNotFoundError"

/-- the argument of `for_materializer` -/
inductive MatArg
  | name (s : String)          -- a `str`
  | inst (c : MatClass)        -- a `FormulaMaterializer` instance, of class `c`
  | cls (c : MatClass)         -- a subclass of `FormulaMaterializer`
  | other                      -- not a class, or a class that is no `FormulaMaterializer`
deriving DecidableEq, Repr

def forMaterializer (r : Registry) : MatArg → Except Err MatClass
  | .name s =>
    match dictGet? r.names s with
    | none => .error (.unknownName s)
    | some c => .ok c
  | .inst c => .ok c
  | .cls c => .ok c
  | .other => .error .invalid

/-! ### `for_data` -/

/-- what `for_data` reads of the data -/
structure Data where
  /-- `type(data).__module__` -/
  module : String
  /-- `type(data).__qualname__` -/
  qualname : String
  /-- PARAMETER: the `cid`s of the classes whose `SUPPORTS_INPUT(data)` is true -/
  supportedBy : List Nat := []
deriving DecidableEq, Repr

/-- a row of the GENERATED probe table (`Gen.dataProbes`): one object per kind of data, what
`for_data` reads of it, and the classes that DECLARE its type — one of their `REGISTER_INPUTS` names
resolves (by import, independently of how `for_data` spells type names) to exactly `type(data)` -/
structure DataProbe where
  kind : String
  data : Data
  declaredBy : List Nat
deriving DecidableEq, Repr

/-- `f"{datacls.__module__}.{datacls.__qualname__}"` -/
def Data.inputType (d : Data) : String := d.module ++ "." ++ d.qualname

/-- the keys of `REGISTERED_INPUTS` the type is looked up under: its qualified name, and — builtin
types being registered by their bare name (`"dict"`) — also the bare name of a builtin -/
def Data.lookupTypes (d : Data) : List String :=
  if d.module = "builtins" then [d.inputType, d.qualname] else [d.inputType]

/-- insertion of a string into an ascending duplicate-free list -/
def insertStr (s : String) : List String → List String
  | [] => [s]
  | t :: r => if s < t then s :: t :: r else if s = t then t :: r else t :: insertStr s r

/-- `sorted(set(xs))` for strings (code-point order) -/
def sortedSet (xs : List String) : List String := xs.foldl (fun acc s => insertStr s acc) []

/-- classes explicitly registered for the type of the data: `REGISTERED_INPUTS[t]` for every lookup
key present, re-sorted (stably) by descending precedence -/
def registeredFor (r : Registry) (d : Data) : List MatClass :=
  sortDesc (d.lookupTypes.flatMap r.inputsFor)

/-- the fallback loop: `sorted(set(REGISTERED_NAMES.values()), key=precedence, reverse=True)` filtered by `SUPPORTS_INPUT(data)` -/
def fallbackFor (setOrder : List MatClass) (d : Data) : List MatClass :=
  (sortDesc setOrder).filter (fun c => d.supportedBy.contains c.cid)

/-- every class `for_data` considers, in the order it considers them -/
def candidates (r : Registry) (setOrder : List MatClass) (d : Data) : List MatClass :=
  registeredFor r d ++ fallbackFor setOrder d

def offers (output : Option String) (c : MatClass) : Bool :=
  match output with
  | none => true
  | some o => c.outputs.contains o

/-- `FormulaMaterializerMeta.for_data(data, output)`; `setOrder`: the iteration order of `set(REGISTERED_NAMES.values())` -/
def forData (r : Registry) (setOrder : List MatClass) (d : Data) (output : Option String) : Except Err MatClass :=
  match output, registeredFor r d with
  | none, c :: _ => .ok c                      -- `if output is None and materializers_supporting_input: return …[0]`
  | _, _ =>
    match candidates r setOrder d with
    | [] => .error (.noInput (sortedSet (r.inputs.map (·.1))))
    | c :: cs =>
      match output with
      | none => .ok c
      | some o =>
        match (c :: cs).find? (fun m => m.outputs.contains o) with
        | some m => .ok m
        | none => .error (.noOutput (sortedSet ((c :: cs).flatMap (·.outputs))))

/-- the distinct values of `REGISTERED_NAMES`, in dict order (ONE possible iteration order of the set) -/
def Registry.classes (r : Registry) : List MatClass := (r.names.map (·.2)).eraseDups

end FormulaicVerif.Model.Registry
