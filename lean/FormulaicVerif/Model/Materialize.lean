import FormulaicVerif.Model.Columns
/-! The term → scoped terms → columns pipeline of `FormulaMaterializer._build_model_matrix`
(`formulaic/materializers/base.py`) with `materializers/types/{scoped_term,scoped_factor}.py`.

What enters as DATA (computed by the real code, forwarded by the harness): for every factor of the
formula its evaluated kind / `spans_intercept` flag and the result of its encoder for
`reduced_rank ∈ {False, True}` *before* the drop-field removal (the object stored in
`encoded_cache`) together with the metadata the code consults afterwards. Everything downstream of
that is modelled here as written. -/
namespace FormulaicVerif.Model

/-! ### evaluated and encoded factors -/

inductive Kind
  | constant (v : Rat)   -- `Factor.Kind.CONSTANT`; `values` is the number
  | numerical
  | categorical
deriving DecidableEq, Repr

/-- a `str.format` template over `{name}` and `{field}`, pre-parsed into segments -/
inductive Seg
  | lit (s : String)
  | name
  | field
deriving DecidableEq, Repr

abbrev Fmt := List Seg

/-- `fmt.format(name=name, field=field)` -/
def Fmt.format (f : Fmt) (name field : String) : String :=
  String.join (f.map (fun s => match s with | .lit t => t | .name => name | .field => field))

/-- the encoded values: a single column (anything that is not a `dict`) or a dict of columns -/
inductive EncVal
  | single (c : Col)
  | dict (cols : List (Field × Col))
deriving DecidableEq, Repr

/-- what `_encode_evaled_factor` holds in `encoded` right before the drop-field step -/
structure Encoded where
  val : EncVal
  spansIntercept : Bool          -- `encoded.__formulaic_metadata__.spans_intercept`
  dropField : Option Field       -- `….drop_field`
  reducedMeta : Bool             -- `….reduced` as delivered by the encoder
  fmt : Fmt                      -- `….format`
  fmtReduced : Option Fmt        -- `….format_reduced` (`none` when falsy)
deriving DecidableEq, Repr

/-- an entry of `factor_cache` -/
structure EvaledFactor where
  expr : String
  present : Bool                 -- `values.__wrapped__ is not None`
  kind : Kind
  spansIntercept : Bool          -- `factor.metadata.spans_intercept` (drives the scoping)
  encFull : Encoded              -- encoder result for `reduced_rank=False`
  encReduced : Encoded           -- encoder result for `reduced_rank=True`
deriving DecidableEq, Repr

abbrev Cache := List EvaledFactor

/-- `self.factor_cache[expr]` -/
def Cache.get (c : Cache) (expr : String) : Except MErr EvaledFactor :=
  match c.find? (fun f => f.expr == expr) with
  | some f => .ok f
  | none => .error .keyError

/-- a term as the materializer sees it: the factor expressions in order -/
abbrev MTerm := List String

/-! ### scoped factors and scoped terms -/

/-- `ScopedFactor`; equality and hash look at `(factor.expr, reduced)` only -/
structure SF where
  expr : String
  reduced : Bool
deriving DecidableEq, Repr

/-- `ScopedFactor.__lt__` -/
def SF.lt (a b : SF) : Bool :=
  if a.expr = b.expr then (a.reduced && !b.reduced) else decide (a.expr < b.expr)

/-- insertion of `x` into a list sorted by `SF.lt` (stable, as `sorted`) -/
def SF.insert (x : SF) : List SF → List SF
  | [] => [x]
  | y :: ys => if SF.lt y x then y :: SF.insert x ys else x :: y :: ys

/-- `sorted(factors)` -/
def SF.sort (xs : List SF) : List SF := xs.foldr SF.insert []

/-- `dict.fromkeys(xs)`: first occurrence of every element, in order -/
def dedupSF : List SF → List SF
  | [] => []
  | x :: xs => x :: (dedupSF xs).filter (· ≠ x)

/-- `ScopedTerm` -/
structure ST where
  factors : List SF
  scale : Rat
deriving DecidableEq, Repr

/-- `ScopedTerm.__init__`: `self.factors = tuple(dict.fromkeys(factors))` -/
def ST.new (factors : List SF) (scale : Rat) : ST := ⟨dedupSF factors, scale⟩

/-- `ScopedTerm.__eq__` (and the hash is consistent with it): sorted factor tuples agree; the
scale is ignored -/
def ST.eq (a b : ST) : Bool := SF.sort a.factors == SF.sort b.factors

/-! ### ordered sets of scoped terms (`OrderedSet`, and the plain `set` `spanned`) -/

/-- `x in s` -/
def osMem (s : List ST) (x : ST) : Bool := s.any (fun y => ST.eq y x)

/-- `OrderedSet(xs)` = `dict.fromkeys(xs)`: first occurrence of every equality class -/
def osOfList (xs : List ST) : List ST :=
  xs.foldl (fun acc x => if osMem acc x then acc else acc ++ [x]) []

/-- `a - b` (`Set.__sub__` → `_from_iterable(v for v in a if v not in b)`) -/
def osDiff (a b : List ST) : List ST := osOfList (a.filter (fun x => !osMem b x))

/-- `a | b` (`Set.__or__` → `_from_iterable(chain(a, b))`) -/
def osUnion (a b : List ST) : List ST := osOfList (a ++ b)

/-! ### `_get_scoped_terms_spanned_by_evaled_factors` -/

/-- the running `scale *= factor.values` over the constant factors (also
`functools.reduce(operator.mul, […], 1)` of the `ensure_full_rank=False` branch) -/
def scaleOf (efs : List EvaledFactor) : Rat :=
  efs.foldl (fun s f => match f.kind with | .constant v => s * v | _ => s) 1

/-- `itertools.product(*factors)` with the `1` placeholders removed: a factor that spans the
intercept contributes `(reduced, absent)`, any other non-constant factor `(full,)` -/
def spannedChoices : List EvaledFactor → List (List SF)
  | [] => [[]]
  | f :: r =>
    match f.kind with
    | .constant _ => spannedChoices r
    | _ =>
      if f.spansIntercept then
        (spannedChoices r).map (⟨f.expr, true⟩ :: ·) ++ spannedChoices r
      else (spannedChoices r).map (⟨f.expr, false⟩ :: ·)

def spannedBy (efs : List EvaledFactor) : List ST :=
  osOfList ((spannedChoices efs).map (fun fs => ST.new fs (scaleOf efs)))

/-! ### `_simplify_scoped_terms` -/

/-- stable insertion by `len(x.factors)` -/
def insertByLen (x : ST) : List ST → List ST
  | [] => [x]
  | y :: ys => if x.factors.length ≤ y.factors.length then x :: y :: ys else y :: insertByLen x ys

/-- `sorted(scoped_terms, key=lambda x: len(x.factors))` (Python's sort is stable) -/
def sortByLen (xs : List ST) : List ST := xs.foldr insertByLen []

/-- the test made for one `existing_term`: `some f` when the rule applies with `factor_new = f` -/
def mergeCandidate (st existing : ST) : Option SF :=
  let diff := dedupSF (st.factors.filter (fun f => !existing.factors.contains f))
  if (dedupSF st.factors).length ≠ (dedupSF existing.factors).length + 1 ∨ diff.length ≠ 1 then none
  else
    match diff with
    | [f] => if f.reduced then some f else none
    | _ => none

/-- `for existing_term in terms:` … first existing term to which the rule applies -/
def findMerge (st : ST) : List ST → Option (ST × SF)
  | [] => none
  | e :: r =>
    match mergeCandidate st e with
    | some f => some (e, f)
    | none => findMerge st r

/-- the recombined term: `factor_new` made full, in `scoped_term`'s factor order and with
`scoped_term`'s scale -/
def mkFull (f : SF) (st : ST) : ST :=
  ST.new (st.factors.map (fun g => if g = f then ⟨f.expr, false⟩ else g)) st.scale

/-- the `for scoped_term in sorted(…)` loop; `rec` is the recursive call -/
def simplifyLoop (rec : List ST → Option (List ST)) : List ST → List ST → Option (List ST)
  | [], terms => some terms
  | st :: rest, terms =>
    match findMerge st terms with
    | some (existing, f) =>
      match rec (osUnion (osDiff terms [existing]) [mkFull f st]) with
      | none => none
      | some terms' => simplifyLoop rec rest terms'
    | none => simplifyLoop rec rest (osUnion terms [st])

/-- `_simplify_scoped_terms` with fuel for the recursion depth (`none` = out of fuel; see
`Props.C03.simplify_fuel_sufficient`) -/
def simplify : Nat → List ST → Option (List ST)
  | 0, _ => none
  | n + 1, sts => simplifyLoop (simplify n) (sortByLen sts) []

/-- enough fuel for every input (proved sufficient) -/
def simplifyFuel (sts : List ST) : Nat := sts.length + 1

/-! ### `_get_scoped_terms` -/

/-- `[factor_cache[f.expr] for f in term.factors if factor_cache[f.expr].values.__wrapped__ is not None]` -/
def evaledFactors (c : Cache) (t : MTerm) : Except MErr (List EvaledFactor) :=
  match t with
  | [] => .ok []
  | e :: r =>
    match c.get e with
    | .error x => .error x
    | .ok f =>
      match evaledFactors c r with
      | .error x => .error x
      | .ok fs => .ok (if f.present then f :: fs else fs)

/-- the `ensure_full_rank=False` branch: one scoped term, every non-constant factor full -/
def fullScoped (efs : List EvaledFactor) : ST :=
  ST.new ((efs.filter (fun f => match f.kind with | .constant _ => false | _ => true)).map
    (fun f => ⟨f.expr, false⟩)) (scaleOf efs)

inductive ScopeErr
  | py (e : MErr)
  | fuel           -- the model ran out of fuel (never happens: `simplify_fuel_sufficient`)
deriving DecidableEq, Repr

/-- the generator body for one term; returns the scoped terms and the new `spanned` -/
def scopeTerm (c : Cache) (efr : Bool) (spanned : List ST) (t : MTerm) :
    Except ScopeErr (List ST × List ST) :=
  match evaledFactors c t with
  | .error e => .error (.py e)
  | .ok [] => .ok ([], spanned)
  | .ok efs =>
    if efr then
      let termSpan := osDiff (spannedBy efs) spanned
      match simplify (simplifyFuel termSpan) termSpan with
      | none => .error .fuel
      | some sts => .ok (sts, spanned ++ termSpan.filter (fun st => st.scale ≠ 0))
    else .ok ([fullScoped efs], spanned)

/-- `_get_scoped_terms`: `(term, scoped_terms)` for every term, threading `spanned` -/
def getScopedTerms (c : Cache) (efr : Bool) : List ST → List MTerm →
    Except ScopeErr (List (MTerm × List ST))
  | _, [] => .ok []
  | spanned, t :: ts =>
    match scopeTerm c efr spanned t with
    | .error e => .error e
    | .ok (sts, spanned') =>
      match getScopedTerms c efr spanned' ts with
      | .error e => .error e
      | .ok r => .ok ((t, sts) :: r)

/-! ### `_cluster_terms` -/

/-- the numerical factors of a term, in order (the `defaultdict` key) -/
def numericalKey (c : Cache) (t : MTerm) : Except MErr (List String) :=
  match t with
  | [] => .ok []
  | e :: r =>
    match c.get e with
    | .error x => .error x
    | .ok f =>
      match numericalKey c r with
      | .error x => .error x
      | .ok ks => .ok (if f.kind = .numerical then e :: ks else ks)

/-- insertion into the `defaultdict(list)` of clusters -/
def clusterAdd (cl : List (List String × List MTerm)) (k : List String) (t : MTerm) :
    List (List String × List MTerm) :=
  match cl with
  | [] => [(k, [t])]
  | (k', ts) :: r => if k' = k then (k', ts ++ [t]) :: r else (k', ts) :: clusterAdd r k t

def clusterLoop (c : Cache) : List (List String × List MTerm) → List MTerm →
    Except MErr (List (List String × List MTerm))
  | cl, [] => .ok cl
  | cl, t :: ts =>
    match numericalKey c t with
    | .error x => .error x
    | .ok k => clusterLoop c (clusterAdd cl k t) ts

/-- `_cluster_terms(terms, cluster_by)` (`byNumerical = cluster_by is ClusterBy.NUMERICAL_FACTORS`) -/
def clusterTerms (c : Cache) (byNumerical : Bool) (terms : List MTerm) : Except MErr (List MTerm) :=
  if !byNumerical then .ok terms
  else
    match clusterLoop c [] terms with
    | .error x => .error x
    | .ok cl => .ok (cl.flatMap (·.2))

/-! ### `_encode_evaled_factor` (drop-field removal) and `_flatten_encoded_evaled_factor` -/

/-- `del d[key]` -/
def delField (key : Field) : List (Field × Col) → Except MErr (List (Field × Col))
  | [] => .error .keyError
  | (k, v) :: r =>
    if k = key then .ok r
    else match delField key r with
      | .error e => .error e
      | .ok r' => .ok ((k, v) :: r')

/-- `isinstance(subfield, str) and subfield.startswith("__")` -/
def Field.hidden (f : Field) : Bool := f.isStr && f.text.startsWith "__"

/-- `_flatten_encoded_evaled_factor(name, values)` for a dict of plain columns. Every key yields a column: since the
repair "a category level whose name starts with `__` keeps its indicator column" the reserved `__` keys of a dict-valued
factor are dropped by `map_dict` BEFORE encoding (`Model/FactorEncode.lean`: `mapDict`), never from the encoded
columns, whose keys may be level labels. (`Field.hidden` stays for that earlier step.) -/
def flattenDict (expr : String) (reduced : Bool) (fmt : Fmt) (cols : List (Field × Col)) : List Item :=
  cols.foldl
    (fun d fc => itemSet d ⟨fmt.format expr fc.1.text, ⟨expr, some fc.1, reduced⟩, fc.2⟩) []

/-- `_encode_evaled_factor(factor, spec, drop_rows, reduced_rank)` downstream of the encoder -/
def encodeEvaledFactor (f : EvaledFactor) (reduced : Bool) : Except MErr (List Item) :=
  let e := if reduced then f.encReduced else f.encFull
  match e.val with
  | .single c => .ok [⟨f.expr, ⟨f.expr, none, reduced⟩, c⟩]
  | .dict cols =>
    if e.spansIntercept && reduced then
      -- `del encoded[encoded.__formulaic_metadata__.drop_field]` (a `None` key is absent)
      match e.dropField with
      | none => .error .keyError
      | some k =>
        match delField k cols with
        | .error x => .error x
        | .ok cols' =>
          -- metadata now has `reduced=True`: `format_reduced` is used when it is truthy
          .ok (flattenDict f.expr reduced (e.fmtReduced.getD e.fmt) cols')
    else
      .ok (flattenDict f.expr reduced
        (if e.reducedMeta then e.fmtReduced.getD e.fmt else e.fmt) cols)

/-! ### `_build_model_matrix` -/

inductive Variant | base | fast      -- which `_get_columns_for_term` the materializer class has
deriving DecidableEq, Repr

def columnsFor (v : Variant) (factors : List (List Item)) (scale : Rat) : Except MErr (List Entry) :=
  match v with
  | .base => columnsBase factors scale
  | .fast => columnsFast factors scale

/-- `[self._encode_evaled_factor(sf.factor, …, reduced_rank=sf.reduced) for sf in st.factors]` -/
def encodeFactors (c : Cache) : List SF → Except MErr (List (List Item))
  | [] => .ok []
  | sf :: r =>
    match c.get sf.expr with
    | .error x => .error x
    | .ok f =>
      match encodeEvaledFactor f sf.reduced with
      | .error x => .error x
      | .ok items =>
        match encodeFactors c r with
        | .error x => .error x
        | .ok rest => .ok (items :: rest)

/-- the columns one scoped term adds to `scoped_cols` -/
def scopedTermColumns (c : Cache) (v : Variant) (nrows : Nat) (st : ST) : Except MErr (List Entry) :=
  if st.factors.isEmpty then
    .ok [⟨"Intercept", [], Col.smul st.scale (Col.ones nrows)⟩]
  else
    match encodeFactors c st.factors with
    | .error x => .error x
    | .ok fs => columnsFor v fs st.scale

/-- `scoped_cols` of one term: `scoped_cols.update(...)` / `scoped_cols["Intercept"] = …` per scoped term -/
def termColumns (c : Cache) (v : Variant) (nrows : Nat) : List Entry → List ST → Except MErr (List Entry)
  | acc, [] => .ok acc
  | acc, st :: r =>
    match scopedTermColumns c v nrows st with
    | .error x => .error x
    | .ok es => termColumns c v nrows (dictUpdate acc es) r

structure TermResult where
  term : MTerm
  sts : List ST
  cols : List Entry
deriving Repr

def buildTerms (c : Cache) (v : Variant) (nrows : Nat) : List (MTerm × List ST) → Except MErr (List TermResult)
  | [] => .ok []
  | (t, sts) :: r =>
    match termColumns c v nrows [] sts with
    | .error x => .error x
    | .ok es =>
      match buildTerms c v nrows r with
      | .error x => .error x
      | .ok rs => .ok (⟨t, sts, es⟩ :: rs)

structure Config where
  cache : Cache
  terms : List MTerm
  ensureFullRank : Bool
  clusterByNumerical : Bool
  variant : Variant
  nrows : Nat

/-- steps 0–3 of `_build_model_matrix`: the per-term structure and columns, in emission order -/
def buildStructure (cfg : Config) : Except ScopeErr (List TermResult) :=
  match clusterTerms cfg.cache cfg.clusterByNumerical cfg.terms with
  | .error x => .error (.py x)
  | .ok terms =>
    match getScopedTerms cfg.cache cfg.ensureFullRank [] terms with
    | .error e => .error e
    | .ok scopedTerms =>
      match buildTerms cfg.cache cfg.variant cfg.nrows scopedTerms with
      | .error x => .error (.py x)
      | .ok rs => .ok rs

/-- step 4: the `(name, values)` list handed to `_combine_columns` -/
def allColumns (rs : List TermResult) : List Entry := rs.flatMap (·.cols)

/-- `_combine_columns` for `output="pandas"` builds `DataFrame({name: values …})`: a dict, so a
repeated name keeps its first position and its last values; numpy/sparse stack every column -/
def combineColumns (asDict : Bool) (cols : List Entry) : List Entry :=
  if asDict then dictUpdate [] cols else cols

def buildMatrix (cfg : Config) (asDict : Bool) : Except ScopeErr (List Entry) :=
  match buildStructure cfg with
  | .error e => .error e
  | .ok rs => .ok (combineColumns asDict (allColumns rs))

end FormulaicVerif.Model
