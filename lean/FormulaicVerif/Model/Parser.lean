import FormulaicVerif.Model.TokenOps
import FormulaicVerif.Model.Eval
import FormulaicVerif.Gen.OperatorTable
/-! `DefaultFormulaParser` end to end (`FormulaParser.parse` → tokens → AST → terms), and the
`Formula` constructor on top of it (`Structured._simplify`, degree ordering). -/
namespace FormulaicVerif.Model

structure ParseCfg where
  includeIntercept : Bool := true
  twosided : Bool := true
  multipart : Bool := true
  multistage : Bool := false
deriving Repr, Inhabited, DecidableEq

/-- external (CPython) behaviour the parser depends on, supplied per case by the harness -/
structure PyEnv where
  norm : List Char → Except PyErr (List Char)   -- `sanitize_python_code` (ast.parse / ast.unparse)
  pyvars : List Char → List String              -- data variables of a python token (`Token.required_variables`)
  available : Option (List String)              -- variables available to `.`

def ParseCfg.table (c : ParseCfg) : OpTable := Gen.defaultTable c.twosided c.multipart c.multistage

def lexErrToParse : LexErr → ParseErr
  | .unexpectedQuote _ => .syntax "unexpected quote"
  | .unexpectedKind _ => .syntax "unexpected token kind"
  | .unterminated => .syntax "unterminated quote"

def pyErrToParse : PyErr → ParseErr
  | .syntaxError => .pySyntax
  | .other n => .internal n

/-- `Token.required_variables` over the left-hand-side tokens -/
def lhsVariables (env : PyEnv) (ts : List Tok) : List String :=
  ts.flatMap (fun t => match t.kind with
    | some .name => [String.ofList t.text]
    | some .python => env.pyvars t.text
    | _ => [])

/-- `DefaultFormulaParser.get_tokens_from_formula`. `sanitize_tokens(tokenize(formula))` is a chain
of generators: a normalisation error on a token that was already yielded surfaces before a lexing
error further to the right. -/
def getTokens (cfg : ParseCfg) (env : PyEnv) (cs : List CharInfo) : Except ParseErr (List Tok × List Tok) :=
  let (emitted, lexErr) := tokenizeStream cs
  match sanitizeTokens env.norm emitted with
  | .error e => .error (pyErrToParse e)
  | .ok ts =>
    match lexErr with
    | some e => .error (lexErrToParse e)
    | none => .ok (interceptTokens cfg.includeIntercept ts)

/-- `DefaultFormulaParser.get_terms(formula)` -/
def parseTerms (cfg : ParseCfg) (env : PyEnv) (cs : List CharInfo) : Except ParseErr Val :=
  match getTokens cfg env cs with
  | .error e => .error e
  | .ok (ts, lhs) =>
    match tokensToAst cfg.table ts with
    | .error e => .error e
    | .ok none => .ok (mkStruct [] (some (.set [])))
    | .ok (some a) =>
      match evalAst { available := env.available, usedLhs := lhsVariables env lhs } a with
      | .error e => .error e
      | .ok v =>
        let s := match v with | .struct _ => v | _ => mkStruct [] (some v)
        match checkVal s with
        | .error e => .error e
        | .ok _ => .ok s

/-! ### `Structured._simplify` and `Formula(...)` -/

def structKeys : Val → List String
  | .struct fs => fs.map (·.1)
  | _ => []

/-- peel `Structured` wrappers that only have a non-tuple root (`unwrap=True`) -/
def unwrapRoot : Nat → Val → Val
  | 0, v => v
  | n + 1, v =>
    match v with
    | .struct [("root", r)] => if r.isTuple then v else unwrapRoot n r
    | _ => v

def valDepth : Val → Nat
  | .set _ => 0
  | .tuple vs => 1 + depthList vs
  | .struct fs => 1 + depthFields fs
where
  depthList : List Val → Nat
    | [] => 0
    | v :: vs => max (valDepth v) (depthList vs)
  depthFields : List (String × Val) → Nat
    | [] => 0
    | (_, v) :: fs => max (valDepth v) (depthFields fs)

/-- `Structured._simplify(recurse=True, unwrap=True)` -/
def simplifyVal : Nat → Val → Val
  | 0, v => v
  | fuel + 1, v =>
    match unwrapRoot (fuel + 1) v with
    | .struct fs => .struct (fs.map (fun p => (p.1, simplifyVal fuel p.2)))
    | .tuple vs => .tuple (vs.map (simplifyVal fuel))   -- only reached below a struct / at top for tuples
    | .set ts => .set ts

/-- stable sort by degree (`sorted(terms, key=degree)`) -/
def insertByDegree (t : Term) : List Term → List Term
  | [] => [t]
  | u :: us => if u.degree ≤ t.degree then u :: insertByDegree t us else t :: u :: us

def sortByDegree (ts : List Term) : List Term := ts.foldl (fun acc t => insertByDegree t acc) []

def mapLeaves (f : List Term → List Term) : Val → Val
  | .set ts => .set (f ts)
  | .tuple vs => .tuple (mapList f vs)
  | .struct fs => .struct (mapFields f fs)
where
  mapList (f : List Term → List Term) : List Val → List Val
    | [] => []
    | v :: vs => mapLeaves f v :: mapList f vs
  mapFields (f : List Term → List Term) : List (String × Val) → List (String × Val)
    | [] => []
    | (k, v) :: fs => (k, mapLeaves f v) :: mapFields f fs

/-- `Formula(<str>)`: parse, simplify, each leaf a `SimpleFormula` ordered by degree -/
def formulaOfString (cfg : ParseCfg) (env : PyEnv) (cs : List CharInfo) : Except ParseErr Val :=
  (parseTerms cfg env cs).map (fun v => mapLeaves sortByDegree (simplifyVal (valDepth v + 2) v))

end FormulaicVerif.Model
