import FormulaicVerif.Model.Replay
import FormulaicVerif.Gen.StatefulTable
/-! # Binding the arguments of a stateful call

`center(x)`, `scale(x, ddof=0)`, `poly(x, 2, raw=True)`, `bs(x, df=4, extrapolation='clip')` …: which
transform with which argument values a call denotes is decided by Python's argument binding against
the SIGNATURE of the transform (positional arguments in order, keywords by name, defaults for the
rest).  The signatures are not copied by hand: `Gen.statefulSignatures` is regenerated from
`inspect.signature` of the live `TRANSFORMS` on every run.  `bind` is the binding, `trOfCall` the
step from bound values to the transform descriptions `Tr` of `Model/Replay.lean`, including the two
delegations written in the code (`center(data)` = `scale(data, scale=False)`;
`standardize(x, center, rescale, ddof)` = `scale(x, center=center, scale=rescale, ddof=ddof)`). -/
namespace FormulaicVerif.Model.CallArgs
open FormulaicVerif.Model FormulaicVerif.Model.Replay

/-- the literal argument values the modelled calls use -/
inductive PyLit
  | none
  | bool (b : Bool)
  | num (q : Rat)
  | str (s : String)
deriving DecidableEq, Repr

/-- decimal digits → number -/
def natOfDigits (cs : List Char) : Option Nat :=
  if cs.isEmpty then Option.none
  else cs.foldl (fun acc c => match acc with
    | Option.none => Option.none
    | some n => if c.isDigit then some (n * 10 + (c.toNat - '0'.toNat)) else Option.none) (some 0)

/-- `repr` of a default value → literal (`None`, `True`, `False`, an integer, a quoted string) -/
def PyLit.ofRepr (s : String) : Option PyLit :=
  if s = "None" then some .none
  else if s = "True" then some (.bool true)
  else if s = "False" then some (.bool false)
  else
    match s.toList with
    | '\'' :: rest =>
      match rest.reverse with
      | '\'' :: mid => some (.str (String.ofList mid.reverse))
      | _ => Option.none
    | '-' :: ds => (natOfDigits ds).map (fun n => .num (-(n : Rat)))
    | ds => (natOfDigits ds).map (fun n => .num (n : Rat))

/-- a parameter after the data argument: name, keyword-only?, default (Python repr) -/
abbrev Param := String × Bool × Option String

inductive BindErr
  /-- `TypeError: f() takes N positional arguments but M were given` -/
  | tooManyPositional
  /-- `TypeError: f() got an unexpected keyword argument` -/
  | unexpectedKeyword (k : String)
  /-- `TypeError: f() got multiple values for argument` -/
  | multipleValues (k : String)
  /-- `TypeError: f() missing a required argument` -/
  | missing (k : String)
  /-- a default the model cannot read -/
  | badDefault (k : String)
  /-- not a stateful transform of `TRANSFORMS`, or argument values of the wrong type -/
  | unknown (what : String)
deriving DecidableEq, Repr

/-- positional arguments against the positional-or-keyword parameters, in order -/
def bindPos : List Param → List PyLit → Except BindErr (List (String × PyLit))
  | _, [] => .ok []
  | [], _ :: _ => .error .tooManyPositional
  | (n, _, _) :: ps, v :: vs =>
    match bindPos ps vs with
    | .error e => .error e
    | .ok r => .ok ((n, v) :: r)

/-- keyword arguments: the name must be a parameter that has no value yet -/
def bindKw (ps : List Param) : List (String × PyLit) → List (String × PyLit) → Except BindErr (List (String × PyLit))
  | bound, [] => .ok bound
  | bound, (k, v) :: rest =>
    if !(ps.any (fun p => p.1 == k)) then .error (.unexpectedKeyword k)
    else if bound.any (fun b => b.1 == k) then .error (.multipleValues k)
    else bindKw ps (bound ++ [(k, v)]) rest

/-- every parameter, in signature order, with its bound value or its default -/
def fillDefaults (bound : List (String × PyLit)) : List Param → Except BindErr (List (String × PyLit))
  | [] => .ok []
  | (n, _, d) :: ps =>
    match (match bound.lookup n with
      | some v => Except.ok v
      | Option.none =>
        match d with
        | Option.none => .error (BindErr.missing n)
        | some r =>
          match PyLit.ofRepr r with
          | some v => .ok v
          | Option.none => .error (BindErr.badDefault n)) with
    | .error e => .error e
    | .ok v =>
      match fillDefaults bound ps with
      | .error e => .error e
      | .ok r => .ok ((n, v) :: r)

/-- `inspect.Signature.bind(*pos, **kw)` + `apply_defaults()` for the parameters after the data
argument -/
def bind (ps : List Param) (pos : List PyLit) (kw : List (String × PyLit)) : Except BindErr (List (String × PyLit)) :=
  match bindPos (ps.filter (fun p => !p.2.1)) pos with
  | .error e => .error e
  | .ok b1 =>
    match bindKw ps b1 kw with
    | .error e => .error e
    | .ok b2 => fillDefaults b2 ps

/-! ## from bound values to `Tr` -/

def argOfLit : PyLit → Except BindErr (Scale.Arg Rat)
  | .bool b => .ok (.flag b)
  | .num q => .ok (.value q)
  | _ => .error (.unknown "center/scale must be a bool or a number")

def numOfLit : PyLit → Except BindErr Rat
  | .num q => .ok q
  | _ => .error (.unknown "number expected")

def optIntOfLit : PyLit → Except BindErr (Option Int)
  | .none => .ok Option.none
  | .num q => if q.den = 1 then .ok (some q.num) else .error (.unknown "integer expected")
  | _ => .error (.unknown "integer or None expected")

def natOfLit : PyLit → Except BindErr Nat
  | .num q => if q.den = 1 ∧ 0 ≤ q.num then .ok q.num.toNat else .error (.unknown "natural number expected")
  | _ => .error (.unknown "natural number expected")

def boolOfLit : PyLit → Except BindErr Bool
  | .bool b => .ok b
  | _ => .error (.unknown "bool expected")

def optRatOfLit : PyLit → Except BindErr (Option Rat)
  | .none => .ok Option.none
  | .num q => .ok (some q)
  | _ => .error (.unknown "number or None expected")

def modeOfLit : PyLit → Except BindErr BSpline.Mode
  | .str "raise" => .ok .raise
  | .str "clip" => .ok .clip
  | .str "na" => .ok .na
  | .str "zero" => .ok .zero
  | .str "extend" => .ok .extend
  | _ => .error (.unknown "extrapolation")

def noneOnly : PyLit → Except BindErr Unit
  | .none => .ok ()
  | _ => .error (.unknown "explicit knots / bounds are not produced by the generator")

def get (b : List (String × PyLit)) (k : String) : Except BindErr PyLit :=
  match b.lookup k with
  | some v => .ok v
  | Option.none => .error (.missing k)

/-- `scale(data, center, scale, ddof)` from its bound arguments -/
def scaleOf (b : List (String × PyLit)) : Except BindErr Tr := do
  let c ← get b "center" >>= argOfLit
  let s ← get b "scale" >>= argOfLit
  let d ← get b "ddof" >>= numOfLit
  pure (.scale c s d)

/-- which transform with which arguments the call `fn(data, *pos, **kw)` denotes, for the signature
table `sigs` -/
def trOfCall (sigs : List (String × List Param)) (fn : String) (pos : List PyLit) (kw : List (String × PyLit)) :
    Except BindErr Tr :=
  match sigs.lookup fn with
  | Option.none => .error (.unknown fn)
  | some ps =>
    match bind ps pos kw with
    | .error e => .error e
    | .ok b =>
      if fn = "scale" then scaleOf b
      else if fn = "center" then
        -- `return scale(data, scale=False, _state=_state)`
        match sigs.lookup "scale" with
        | Option.none => .error (.unknown "scale")
        | some sps =>
          match bind sps [] [("scale", .bool false)] with
          | .error e => .error e
          | .ok b' => scaleOf b'
      else if fn = "standardize" then do
        -- `return scale(x, center=center, scale=rescale, ddof=ddof, _state=_state)`
        let c ← get b "center"
        let r ← get b "rescale"
        let d ← get b "ddof"
        match sigs.lookup "scale" with
        | Option.none => .error (.unknown "scale")
        | some sps =>
          match bind sps [] [("center", c), ("scale", r), ("ddof", d)] with
          | .error e => .error e
          | .ok b' => scaleOf b'
      else if fn = "poly" then do
        let d ← get b "degree" >>= natOfLit
        let r ← get b "raw" >>= boolOfLit
        pure (.poly d r)
      else if fn = "bs" then do
        let df ← get b "df" >>= optIntOfLit
        let _ ← get b "knots" >>= noneOnly
        let dg ← get b "degree" >>= natOfLit
        let ii ← get b "include_intercept" >>= boolOfLit
        let lo ← get b "lower_bound" >>= optRatOfLit
        let up ← get b "upper_bound" >>= optRatOfLit
        let md ← get b "extrapolation" >>= modeOfLit
        pure (.bs { df := df, knots := Option.none, degree := dg, intercept := ii, lower := lo, upper := up, mode := md })
      else if fn = "cr" ∨ fn = "cs" ∨ fn = "cc" then do
        let df ← get b "df" >>= optIntOfLit
        let _ ← get b "knots" >>= noneOnly
        let lo ← get b "lower_bound" >>= optRatOfLit
        let up ← get b "upper_bound" >>= optRatOfLit
        let cons ← get b "constraints"
        let cy ← get b "cyclic" >>= boolOfLit
        let md ← get b "extrapolation" >>= modeOfLit
        let cons' ← (match cons with
          | .none => Except.ok CubicSpline.Constraints.none
          | .str "center" => .ok CubicSpline.Constraints.center
          | _ => .error (BindErr.unknown "constraints"))
        pure (.cs { df := df, knots := Option.none, lower := lo, upper := up, constraints := cons', cyclic := cy, mode := md })
      else .error (.unknown fn)

end FormulaicVerif.Model.CallArgs
