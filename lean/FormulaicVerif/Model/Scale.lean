/-! `formulaic/transforms/scale.py` (`scale`, `center`) and `patsy_compat.standardize`.

The model is written once, over any carrier `α` that has the arithmetic notation classes of core
Lean.  The engine runs it at `α = Rat`; the property theorems instantiate the SAME definitions at an
arbitrary field and at `ℝ`.  `numpy.sqrt` is a parameter `sqrt : α → α` (it is not a rational
function); its contract `sqrt v * sqrt v = v` is a hypothesis of the theorems and is checked
numerically per case by the harness.

numpy never raises on a division by zero: it yields `nan`/`inf` and carries on.  `α` has no such
values, so the model reports that outcome as `NumErr.nonFinite` instead of inventing a number. -/
namespace FormulaicVerif.Model.Scale

/-- the only non-value outcome: numpy would produce `nan`/`inf` (division by zero) -/
inductive NumErr | nonFinite
deriving DecidableEq, Repr

/-- the Python arguments `center` / `scale`: a `bool`, or anything else (→ `numpy.array(value)`) -/
inductive Arg (α : Type) | flag (b : Bool) | value (v : α)
deriving Repr

/-- the `_state` dict.  For each key: `none` = key absent; `center`/`scale` present hold Python
`None` (`some none`) or a number (`some (some c)`). -/
structure State (α : Type) where
  ddof : Option α := none
  center : Option (Option α) := none
  scale : Option (Option α) := none
deriving Repr, DecidableEq

variable {α : Type} [Add α] [Sub α] [Mul α] [Div α] [Zero α] [NatCast α]

/-- `numpy.mean(data, axis=0)` -/
def mean (xs : List α) : α := xs.sum / (xs.length : α)

/-- `numpy.sum(data**2, axis=0)` -/
def sumSq (xs : List α) : α := (xs.map (fun x => x * x)).sum

variable [DecidableEq α]

/-- `if "ddof" not in _state: _state["ddof"] = ddof  else: ddof = _state["ddof"]` -/
def resolveDdof (ddof : α) (st : State α) : α :=
  match st.ddof with
  | none => ddof
  | some d => d

/-- `if "center" not in _state: …` — the value of `_state["center"]` afterwards -/
def resolveCenter (data : List α) (center : Arg α) (st : State α) : Option α :=
  match st.center with
  | some c => c
  | none =>
    match center with
    | .flag true => some (mean data)      -- numpy.mean(data, axis=0)
    | .value v => some v                  -- numpy.array(center)
    | .flag false => none

/-- `if _state["center"] is not None: data = data - _state["center"]` -/
def applyCenter (c : Option α) (data : List α) : List α :=
  match c with
  | some c => data.map (fun x => x - c)
  | none => data

/-- `if "scale" not in _state: …` — the value of `_state["scale"]` afterwards (`data` is already centred) -/
def resolveScale (sqrt : α → α) (data : List α) (scale : Arg α) (ddof : α) (st : State α) :
    Except NumErr (Option α) :=
  match st.scale with
  | some s => .ok s
  | none =>
    match scale with
    | .flag true =>
      -- numpy.sqrt(numpy.sum(data**2, axis=0) / (data.shape[0] - ddof))
      if (data.length : α) - ddof = 0 then .error .nonFinite
      else .ok (some (sqrt (sumSq data / ((data.length : α) - ddof))))
    | .value v => .ok (some v)
    | .flag false => .ok none

/-- `if _state["scale"] is not None: data = data / _state["scale"]` -/
def applyScale (s : Option α) (data : List α) : Except NumErr (List α) :=
  match s with
  | none => .ok data
  | some s => if s = 0 then .error .nonFinite else .ok (data.map (fun x => x / s))

/-- `scale(data, center, scale, ddof, _state)`; returns the output and the mutated `_state`.
Every statistic is taken from `_state` when its key is present and fitted (and recorded) only when
the key is absent — the arguments are ignored for keys already recorded. -/
def run (sqrt : α → α) (data : List α) (center scale : Arg α) (ddof : α) (st : State α) :
    Except NumErr (List α × State α) :=
  let ddof := resolveDdof ddof st
  let c := resolveCenter data center st
  let data := applyCenter c data
  match resolveScale sqrt data scale ddof st with
  | .error e => .error e
  | .ok s =>
    match applyScale s data with
    | .error e => .error e
    | .ok out => .ok (out, { ddof := some ddof, center := some c, scale := some s })

/-- `center(data, _state)` = `scale(data, scale=False, _state=_state)` -/
def center [One α] (sqrt : α → α) (data : List α) (st : State α) : Except NumErr (List α × State α) :=
  run sqrt data (.flag true) (.flag false) 1 st

/-- `standardize(x, center, rescale, ddof=0, _state)` = `scale(x, center=center, scale=rescale, ddof=ddof, _state=_state)` -/
def standardize (sqrt : α → α) (data : List α) (center rescale : Arg α) (ddof : α) (st : State α) :
    Except NumErr (List α × State α) :=
  run sqrt data center rescale ddof st

end FormulaicVerif.Model.Scale
