import FormulaicVerif.Model.Elementwise
import FormulaicVerif.Gen.TransformTable
/-! The namespace preloaded into every formula, `formulaic.transforms.TRANSFORMS`: a stated contract
for EVERY key, to be compared with what the live object is (`Gen.transformTable`, regenerated from
the package on every run).

`Gen.transformTable` rows are `(key, kind, target, stateful)`:
`("log", "ufunc", "numpy.log", false)` says `TRANSFORMS["log"] is numpy.log`;
`("exp10", "probe", "pow10", false)` says the anonymous callable stored under `exp10` returned
exactly `10**k` on every probe of the translator (float, int, int64-array and float-array `k = 0..22`,
plus `-2` and `1/2`); `stateful = true` says the object carries `__is_stateful_transform__`, which is
what makes `stateful_eval` hand it its recorded `_state`. -/
namespace FormulaicVerif.Model.Preloaded
open FormulaicVerif FormulaicVerif.Model.Elementwise

/-- what a preloaded name is required to be -/
inductive Contract
  /-- the live object is exactly this named object (not stateful) -/
  | is (kind target : String)
  /-- a stateful transform: it must carry `__is_stateful_transform__`, so that the statistics it
  records on the fitting data are handed back to it on new data -/
  | stateful
  /-- a plain (stateless) callable of the library; its behaviour belongs to another property -/
  | callable
deriving DecidableEq, Repr

/-- the contract of every preloaded name -/
def contracts : List (String × Contract) := [
  ("np", .is "module" "numpy"),
  -- the elementwise functions: numpy's ufunc of the same name; `exp10` is not a numpy function
  ("log", .is "ufunc" "numpy.log"), ("log10", .is "ufunc" "numpy.log10"), ("log2", .is "ufunc" "numpy.log2"),
  ("exp", .is "ufunc" "numpy.exp"), ("exp10", .is "probe" "pow10"), ("exp2", .is "ufunc" "numpy.exp2"),
  -- transforms that record statistics of the data they are fitted on
  ("bs", .stateful), ("cc", .stateful), ("cr", .stateful), ("cs", .stateful),
  ("center", .stateful), ("poly", .stateful), ("scale", .stateful), ("standardize", .stateful),
  ("Q", .stateful),      -- no statistics; decorated so that it is handed `_context`
  ("lag", .callable), ("C", .callable), ("hashed", .callable),
  ("contr", .is "class" "ContrastsRegistry"),
  ("I", .is "probe" "identity"),
  ("Treatment", .is "probe" "treatment-base"),
  ("Poly", .is "class" "PolyContrasts"), ("Sum", .is "class" "SumContrasts"),
  ("Helmert", .is "class" "HelmertContrasts"), ("Diff", .is "class" "DiffContrasts")]

/-- does a row of the live table meet a contract -/
def meets : Contract → String × String × Bool → Bool
  | .is k t, (kind, target, st) => kind == k && target == t && !st
  | .stateful, (_, _, st) => st
  | .callable, (kind, _, st) => kind == "function" && !st

/-- the row of the live table for `name` -/
def live (name : String) : Option (String × String × Bool) := Gen.transformTable.lookup name

/-- the real function an identified live object computes: numpy's ufuncs by their name (that numpy's
`log` is the logarithm is the trusted part, probed on every run), the probed power by its base -/
def realFnOf : String × String → Option RealFn
  | ("ufunc", "numpy.log") => some .log
  | ("ufunc", "numpy.log2") => some .log2
  | ("ufunc", "numpy.log10") => some .log10
  | ("ufunc", "numpy.exp") => some .exp
  | ("ufunc", "numpy.exp2") => some .exp2
  | ("probe", "pow10") => some .exp10
  | _ => none

/-- the real function the LIVE entry `name` computes (through what the entry is, not through its key) -/
def liveRealFn (name : String) : Option RealFn :=
  match live name with
  | some (kind, target, _) => realFnOf (kind, target)
  | none => none

end FormulaicVerif.Model.Preloaded
