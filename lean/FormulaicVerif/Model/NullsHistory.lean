import FormulaicVerif.Model.Nulls
/-! # One materializer object, several `get_model_matrix` calls (C06, histories)

A `FormulaMaterializer` instance owns two dictionaries that outlive a call:

* `factor_cache : expr ↦ EvaluatedFactor` — `_evaluate_factor` evaluates an expression AND runs
  `_check_for_nulls` on it only `if factor.expr not in self.factor_cache`;
* `encoded_cache : expr ↦ encoded columns` — `_encode_evaled_factor` hands out the cached columns
  (whose rows were removed when they were first encoded) when the key is present.

Within one call they pool the factors of all parts of a structured spec (each expression is
evaluated, null-checked and encoded once). `get_model_matrix` begins with
`self.factor_cache = {}; self.encoded_cache = {}`; the switch `reset` says whether it does
(`true`: the tree under test; `false`: the tree before that repair, where a second call on the same
object skipped the null checks of every expression it shared with an earlier call and reused
columns that had lost the earlier call's rows).

This file mirrors the call WITH its caches, on top of the row-handling definitions of
`Model/Nulls.lean` (`checkForNulls`, `encodeFactor`, `outIndex`, `combine` are used as they are).
Factors carry their cache key (the expression text). `Props/C06.lean` proves that with `reset`
every call of every history, from any cache content, is the cache-free `Model.Nulls.getModelMatrix`.

Not modelled: the `(expr, reduced_rank)` refinement of the `encoded_cache` key (it only decides
whether a stale column is reused or rebuilt when `reset = false`) and the output type of a cached
column (a history that changes `output` mixed sparse / dense / pandas columns before the repair).
With `reset = false` the engine (`"reset": false`, `VERIF_C06_RESET=0`) was run against the tree
with the repair reverted: it agrees wherever those two things do not matter. Core Lean only. -/
namespace FormulaicVerif.Model.NullsHist
open FormulaicVerif.Model.Nulls

/-- an evaluated factor together with its cache key `factor.expr` -/
structure KFactor (ρ : Type) where
  key : String
  fac : Factor ρ

structure KPart (ρ : Type) where
  mat : Mat
  intercept : Bool
  factors : List (KFactor ρ)

/-- the part as `Model.Nulls` sees it (keys forgotten) -/
def KPart.part {ρ : Type} (p : KPart ρ) : Part ρ := ⟨p.mat, p.intercept, p.factors.map (·.fac)⟩

/-- errors of a call on a materializer object -/
inductive HErr where
  /-- the errors of `Model.Nulls` -/
  | rows (e : Err)
  /-- `self.factor_cache[expr]` for an expression that step 1 did not evaluate -/
  | keyError
deriving DecidableEq, Repr, Inhabited

def liftE {α : Type} : Except Err α → Except HErr α
  | .ok a => .ok a
  | .error e => .error (.rows e)

/-- `dict.get` on an insertion-ordered association list -/
def lookup {α : Type} (k : String) : List (String × α) → Option α
  | [] => none
  | (k', a) :: r => if k' = k then some a else lookup k r

/-- the two dictionaries of a materializer object -/
structure Caches (ρ : Type) where
  factorCache : List (String × Factor ρ)
  /-- per expression, the column objects its encoder produced -/
  encodedCache : List (String × List (Value ρ))

def Caches.empty {ρ : Type} : Caches ρ := ⟨[], []⟩

/-- `_evaluate_factor(factor, spec, drop_rows)`: nothing happens for a cached expression;
otherwise the values are null-checked (which may raise, leaving the cache as it was) and stored. -/
def evaluateFactor {ρ : Type} (v : Variant) (pol : Policy) (kf : KFactor ρ)
    (fc : List (String × Factor ρ)) (d : DropSet) : List (String × Factor ρ) × Except Err DropSet :=
  match lookup kf.key fc with
  | some _ => (fc, .ok d)
  | none =>
    match checkFactor v pol kf.fac d with
    | .error e => (fc, .error e)
    | .ok d' => (fc ++ [(kf.key, kf.fac)], .ok d')

/-- step 1: `for factor in factors: self._evaluate_factor(factor, …, drop_rows)` -/
def evaluateAll {ρ : Type} (v : Variant) (pol : Policy) :
    List (KFactor ρ) → List (String × Factor ρ) → DropSet →
    List (String × Factor ρ) × Except Err DropSet
  | [], fc, d => (fc, .ok d)
  | kf :: r, fc, d =>
    match evaluateFactor v pol kf fc d with
    | (fc', .error e) => (fc', .error e)
    | (fc', .ok d') => evaluateAll v pol r fc' d'

/-- `_encode_evaled_factor(self.factor_cache[expr], spec, drop_rows)`: the evaluated factor comes
from `factor_cache`; its columns come from `encoded_cache` when the key is there, and are encoded
with the rows `d` removed (and stored) otherwise. -/
def encodeCached {L ρ : Type} [DecidableEq L] (v : Variant) (labels : List L) (n : Nat)
    (sparseOut : Bool) (d : List Nat)
    (kf : KFactor ρ) (c : Caches ρ) : Caches ρ × Except HErr (List (Value ρ)) :=
  match lookup kf.key c.factorCache with
  | none => (c, .error .keyError)
  | some f =>
    match lookup kf.key c.encodedCache with
    | some col => (c, .ok col)
    | none =>
      match encodeFactor v labels n sparseOut f d with
      | .error e => (c, .error (.rows e))
      | .ok col => ({ c with encodedCache := c.encodedCache ++ [(kf.key, col)] }, .ok col)

/-- `mapE` with a state threaded through (the state survives an error) -/
def mapS {σ α β ε : Type} (f : α → σ → σ × Except ε β) : List α → σ → σ × Except ε (List β)
  | [], s => (s, .ok [])
  | a :: r, s =>
    match f a s with
    | (s', .error e) => (s', .error e)
    | (s', .ok b) =>
      match mapS f r s' with
      | (s'', .error e) => (s'', .error e)
      | (s'', .ok bs) => (s'', .ok (b :: bs))

/-- what `_build_model_matrix` does with the encoded columns of a part: the intercept column, the
output index, `_combine_columns` (the tail of `Model.Nulls.buildModelMatrix`) -/
def finishMatrix {L ρ : Type} [DecidableEq L] (v : Variant) (labels : List L) (n : Nat)
    (o : Output) (d : List Nat) (mat : Mat) (intercept : Bool) (cols : List (List (Value ρ))) :
    Except Err (Matrix L ρ) :=
  if intercept && o != .sparse && decide (n < d.length) then .error .negativeDimensions else
  let icpt := if intercept then some (n - d.length) else none
  match outIndex v labels n mat o d with
  | .error e => .error e
  | .ok idx => combine v n d icpt cols idx

/-- `_build_model_matrix(spec, drop_rows=d)` on the object's caches -/
def buildCached {L ρ : Type} [DecidableEq L] (v : Variant) (labels : List L) (n : Nat)
    (o : Output) (d : List Nat) (p : KPart ρ) (c : Caches ρ) :
    Caches ρ × Except HErr (Matrix L ρ) :=
  match mapS (encodeCached v labels n (o == .sparse) d) p.factors c with
  | (c', .error e) => (c', .error e)
  | (c', .ok cols) => (c', liftE (finishMatrix v labels n o d p.mat p.intercept cols))

/-- one `materializer.get_model_matrix(spec, drop_rows=…, na_action=…, output=…)` -/
structure Call (ρ : Type) where
  pol : Policy
  out : Output
  parts : List (KPart ρ)
  /-- the `drop_rows` argument (`none`: not given) -/
  dropIn : Option DropSet

/-- `FormulaMaterializer.get_model_matrix` on an object whose caches hold `c0`. Returns the caches
the object is left with (also when the call raises) and the result: the matrices of the parts and
the content of the caller's set object afterwards. -/
def getModelMatrixOn {L ρ : Type} [DecidableEq L] (reset : Bool) (v : Variant) (labels : List L)
    (n : Nat) (k : Call ρ) (c0 : Caches ρ) : Caches ρ × Except HErr (CallOut L ρ) :=
  let c := if reset then Caches.empty else c0
  match evaluateAll v k.pol (k.parts.flatMap (·.factors)) c.factorCache (initialSet k.dropIn) with
  | (fc, .error e) => ({ c with factorCache := fc }, .error (.rows e))
  | (fc, .ok d1) =>
    match mapS (buildCached v labels n k.out (sorted d1)) k.parts { c with factorCache := fc } with
    | (c', .error e) => (c', .error e)
    | (c', .ok ms) => (c', .ok ⟨ms, k.dropIn.map (fun _ => d1)⟩)

/-- a history of calls on ONE materializer object; the result of every call, in order -/
def runHistory {L ρ : Type} [DecidableEq L] (reset : Bool) (v : Variant) (labels : List L)
    (n : Nat) : List (Call ρ) → Caches ρ → List (Except HErr (CallOut L ρ))
  | [], _ => []
  | k :: r, c =>
    match getModelMatrixOn reset v labels n k c with
    | (c', res) => res :: runHistory reset v labels n r c'

/-- the same call on a materializer object made for it (`Model.Nulls.call`, entry point
`materializer.get_model_matrix`) -/
def freshCall {L ρ : Type} [DecidableEq L] (v : Variant) (labels : List L) (n : Nat)
    (k : Call ρ) : Except Err (CallOut L ρ) :=
  call v labels n k.pol k.out (k.parts.map KPart.part)
    ⟨.materializer, decide (1 < k.parts.length), false, true, k.dropIn⟩

/-- well-formedness of a call: the cache key determines the evaluated factor (one expression
evaluates to one value within a call) -/
def KeysConsistent {ρ : Type} (parts : List (KPart ρ)) : Prop :=
  ∀ a ∈ parts.flatMap (·.factors), ∀ b ∈ parts.flatMap (·.factors), a.key = b.key → a.fac = b.fac

end FormulaicVerif.Model.NullsHist
