import FormulaicVerif.Model.BSpline
import FormulaicVerif.Model.CubicSpline
import FormulaicVerif.Gen.SplineTable
/-! # Entry points of the spline transforms: argument validation, error branches, quantile knots

Executable model (core Lean only) of everything `basis_spline` / `cubic_spline` do BEFORE the
numerical work that `Model/BSpline.lean` and `Model/CubicSpline.lean` describe, in the order of the
code, with one `Reason` per `raise` statement:

* the arguments as the caller writes them: `x` with its array shape (0-d, 1-d, column, wider 2-d,
  ≥ 3-d), `extrapolation` as a string (looked up in the GENERATED table of `SplineExtrapolation`
  members), `constraints` as `None` / a string / an array of any rank, `degree` as a (possibly
  negative) integer, omitted arguments (defaults from the GENERATED signature tables), and the
  TRANSFORMS alias through which the function is reached (`bs`, `cr`, `cs`, `cc`; the `cyclic`
  preset of the `functools.partial` comes from the GENERATED alias table);
* `_get_all_sorted_knots` with every error exit, also those that `cubic_spline` can never reach
  (`Props/C12.lean` proves which);
* the quantile knots: `numpy.nanquantile(s, linspace(0, 1, m + 2))[1:-1]` and
  `numpy.nanpercentile(s, linspace(0, 100, m + 2)[1:-1])` with the default `method="linear"`,
  exactly, on rationals (`quantLin`): sort, position `k/(m+1)·(n−1)`, linear interpolation between
  the two neighbouring order statistics;
* `cubic_spline` on a hand-made `_state` (`transformState`), where `_map_cyclic` can fail.

After validation the functions below hand over to `BSpline.transform`, `CubicSpline.constraintsOf`
and `CubicSpline.transform`; `Proofs/C12Entry.lean` proves that forgetting the reasons gives
exactly `BSpline.fit` / `CubicSpline.fit` (the functions the older theorems are about). -/

namespace FormulaicVerif.Model.SplineEntry
open FormulaicVerif.Model.BSpline (Mode nonNull minOf maxOf outside inside)
open FormulaicVerif.Model

/-- one constructor per `raise` statement (or per raising library call) of the two modules -/
inductive Reason where
  /-- `if df is not None and knots is not None` (both functions) -/
  | bothDfKnots
  /-- cubic_spline: `if x.ndim > 1` -/
  | notOneDim
  /-- `numpy.nanmin` / `numpy.nanmax` of an empty array -/
  | emptyData
  /-- `SplineExtrapolation(extrapolation)` with a value that is not a member -/
  | badMode
  /-- basis_spline, `extrapolation="raise"`: a value outside the bounds (`ValueError`) -/
  | outOfBoundsBs
  /-- cubic_spline, `extrapolation="raise"`: a value outside the bounds (`ExtrapolationError`) -/
  | extrapolationCs
  /-- basis_spline: `if nknots < 0` -/
  | dfTooSmallBs
  /-- basis_spline: `if knots_x.shape[0] == 0` -/
  | emptySample
  /-- basis_spline: `numpy.pad(knots, degree, ...)` with a negative width -/
  | negDegree
  /-- cubic_spline: `if df is None and knots is None` -/
  | neitherDfKnots
  /-- cubic_spline: `elif isinstance(constraints, str)` (not `"center"`) -/
  | badConstraintStr
  /-- cubic_spline: `if constraints_arr.ndim != 2` -/
  | constraintNdim
  /-- cubic_spline: `if df < min_df` -/
  | dfTooSmallCs
  /-- `_get_all_sorted_knots`: `if upper_bound < lower_bound` -/
  | lowerGtUpper
  /-- `_get_all_sorted_knots`: `if n_inner_knots < 0` -/
  | negInner
  /-- `_get_all_sorted_knots`: no data between the bounds and `n_inner_knots > 0` -/
  | noDataForKnots
  /-- `_get_all_sorted_knots`: `n_inner_knots != inner_knots.size` -/
  | knotCount
  /-- `_get_all_sorted_knots`: some knot below the lower bound -/
  | knotsBelow
  /-- `_get_all_sorted_knots`: some knot above the upper bound -/
  | knotsAbove
  /-- `_get_all_sorted_knots`: neither `n_inner_knots` nor `inner_knots` -/
  | neitherInner
  /-- `_get_all_sorted_knots`: `all_knots.size != n_inner_knots + 2` -/
  | notDistinct
  /-- cubic_spline: `if constraints_arr.shape[1] != df_before_constraints` -/
  | constraintCols
  /-- `_map_cyclic`: `if lbound >= ubound` -/
  | mapCyclic
  /-- an error of the numerical part (`CubicSpline.freeRows` / `transform`) -/
  | inner (e : CubicSpline.Err)
  /-- no non-null value at all: `numpy.nanmin` returns `nan` with a warning; outside the model -/
  | noData
deriving DecidableEq, Repr

/-- the Python exception class -/
def Reason.cls : Reason → String
  | .extrapolationCs => "ExtrapolationError"
  | .inner .index => "IndexError"
  | .inner .noData => "not-modelled:no-data"
  | .noData => "not-modelled:no-data"
  | _ => "ValueError"

/-- forget the reason: the error type of `Model.CubicSpline` -/
def Reason.toCs : Reason → CubicSpline.Err
  | .inner e => e
  | .noData => .noData
  | _ => .valueError

/-- forget the reason: the error type of `Model.BSpline` -/
def Reason.toBs : Reason → BSpline.Err
  | .noData => .noData
  | .inner .noData => .noData
  | _ => .valueError

/-! ## `SplineExtrapolation(value)` -/

def modeOfName : String → Option Mode
  | "RAISE" => some .raise
  | "CLIP" => some .clip
  | "NA" => some .na
  | "ZERO" => some .zero
  | "EXTEND" => some .extend
  | _ => none

/-- look the value up in the generated member table -/
def parseMode (s : String) : Option Mode :=
  match Gen.Spline.extrapolation.find? (fun p => p.2 == s) with
  | some p => modeOfName p.1
  | none => none

/-! ## quantile knots (`method="linear"`) -/

/-- insert into a non-decreasing list -/
def insertSorted (a : Rat) : List Rat → List Rat
  | [] => [a]
  | b :: l => if a ≤ b then a :: b :: l else b :: insertSorted a l

/-- `numpy.sort` / `sorted` (insertion sort: structural recursion, so that closed instances
evaluate in the kernel; `Proofs/C12Quant.lean` shows it is THE sorted permutation) -/
def sort (l : List Rat) : List Rat := l.foldr insertSorted []

/-- the value at virtual index `pos` of the sorted sample `t`: `g = ⌊pos⌋`, `γ = pos − g`,
`t[g] + γ·(t[g+1] − t[g])` (`t[g]` when `g` is the last index).  The last branch is not reached
for `0 ≤ pos ≤ len(t) − 1` and a non-empty `t` (`Proofs/C12Quant.lean: interp_spec`). -/
def interp (t : List Rat) (pos : Rat) : Rat :=
  let g := pos.floor.toNat
  match t[g]?, t[g + 1]? with
  | some a, some b => a + (pos - (g : Rat)) * (b - a)
  | some a, none => a
  | none, _ => 0

/-- virtual index of the `k`-th (0-based) of `m` equally spaced interior quantiles of a sample of
size `n`: `(k+1)/(m+1) · (n−1)` -/
def qpos (n m k : Nat) : Rat := ((k : Rat) + 1) / ((m : Rat) + 1) * ((n : Rat) - 1)

/-- `numpy.nanquantile(s, numpy.linspace(0, 1, m + 2))[1:-1]` for a sample without nulls -/
def quantLin (s : List Rat) (m : Nat) : List Rat :=
  let t := sort s
  (List.range m).map (fun k => interp t (qpos t.length m k))

/-! ## the arguments as written -/

/-- the array shape of `x` (the values travel flattened) -/
inductive XShape where
  | scalar   -- 0-d
  | vec      -- 1-d
  | col      -- 2-d with one column
  | mat      -- 2-d with another number of columns
  | cube     -- 3-d or more
deriving DecidableEq, Repr

/-- `x = numpy.atleast_1d(x); if x.ndim == 2 and x.shape[1] == 1: x = x[:, 0]; if x.ndim > 1: raise` -/
def reformatX (sh : XShape) (x : List (Option Rat)) : Except Reason (List (Option Rat)) :=
  match sh with
  | .scalar | .vec | .col => .ok x
  | .mat | .cube => .error .notOneDim

/-- `constraints` as written: `None`, a string, or an array of rank `ndim` whose
`numpy.atleast_2d` view has the rows `rows` -/
inductive ConsArg where
  | none
  | str (s : String)
  | arr (ndim : Nat) (rows : List (List Rat))
deriving Repr

/-- lines 545–559 of cubic_spline.py -/
def parseCons : ConsArg → Except Reason CubicSpline.Constraints
  | .none => .ok .none
  | .str s => if s = "center" then .ok .center else .error .badConstraintStr
  | .arr ndim rows => if ndim > 2 then .error .constraintNdim else .ok (.matrix rows)

/-- `parse_bounds` / the bound logic of basis_spline for an empty `_state` -/
def resolveBound (given : Option Rat) (dflt : Option Rat) (empty : Bool) : Except Reason Rat :=
  match given with
  | some l => .ok l
  | none =>
    match dflt with
    | some m => .ok m
    | none => .error (if empty then .emptyData else .noData)

/-! ## `_get_all_sorted_knots` -/

def innerKnots (sample : List Rat) (lower upper : Rat) (nInner : Option Int)
    (inner : Option (List Rat)) (quant : List Rat → Nat → List Rat) :
    Except Reason (List Rat × Int) :=
  match inner, nInner with
  | none, some n =>
    if n < 0 then .error .negInner
    else if !sample.isEmpty then .ok (quant sample n.toNat, n)
    else if n = 0 then .ok ([], n)
    else .error .noDataForKnots
  | some ik, _ =>
    let u := CubicSpline.unique ik
    if (match nInner with | some n => decide (n ≠ (u.length : Int)) | none => false) then .error .knotCount
    else if u.any (fun k => decide (k < lower)) then .error .knotsBelow
    else if u.any (fun k => decide (k > upper)) then .error .knotsAbove
    else .ok (u, (u.length : Int))
  | none, none => .error .neitherInner

/-- `sample` is the unique in-range non-null data (`x[(lower <= x) & (x <= upper)]`, `numpy.unique`) -/
def sortedKnots (sample : List Rat) (lower upper : Rat) (nInner : Option Int)
    (inner : Option (List Rat)) (quant : List Rat → Nat → List Rat) : Except Reason (List Rat) :=
  if upper < lower then .error .lowerGtUpper
  else
    match innerKnots sample lower upper nInner inner quant with
    | .error e => .error e
    | .ok (ik, n) =>
      let all := CubicSpline.unique ([lower, upper] ++ ik)
      if (all.length : Int) ≠ n + 2 then .error .notDistinct else .ok all

/-! ## `cubic_spline`, first call -/

structure RawCs where
  xshape : XShape
  x : List (Option Rat)
  df : Option Int
  knots : Option (List Rat)
  lower : Option Rat
  upper : Option Rat
  cons : ConsArg
  cyclic : Bool
  mode : String
deriving Repr

/-- `n_inner_knots` from `df` (lines 561–572) -/
def nInnerOf (df : Option Int) (cyclic : Bool) (nc : Nat) : Except Reason (Option Int) :=
  match df with
  | none => .ok none
  | some d =>
    let minDf : Int := if !cyclic && nc == 0 then 2 else 1
    if d < minDf then .error .dfTooSmallCs
    else .ok (some (d - 2 + (nc : Int) + (if cyclic then 1 else 0)))

/-- the `CubicSpline.Args` of a call whose arguments passed the syntactic checks -/
def RawCs.args (r : RawCs) (cons : CubicSpline.Constraints) (mode : Mode) : CubicSpline.Args :=
  { df := r.df, knots := r.knots, lower := r.lower, upper := r.upper, constraints := cons,
    cyclic := r.cyclic, mode := mode }

/-- what the checks and the knot placement of a first call produce -/
structure PrepCs where
  xs : List (Option Rat)
  lower : Rat
  upper : Rat
  mode : Mode
  cons : CubicSpline.Constraints
  knots : List Rat
deriving Repr

/-- `cubic_spline(x, …, _state={})` up to and including `_get_all_sorted_knots`, every check in
the order of the code -/
def prepareCs (r : RawCs) (quant : List Rat → Nat → List Rat) : Except Reason PrepCs :=
  if r.df.isSome && r.knots.isSome then .error .bothDfKnots
  else
    match reformatX r.xshape r.x with
    | .error e => .error e
    | .ok xs =>
      let vals := nonNull xs
      match resolveBound r.lower (minOf vals) xs.isEmpty with
      | .error e => .error e
      | .ok lower =>
        match resolveBound r.upper (maxOf vals) xs.isEmpty with
        | .error e => .error e
        | .ok upper =>
          match parseMode r.mode with
          | none => .error .badMode
          | some mode =>
            if mode = .raise && vals.any (outside lower upper) then .error .extrapolationCs
            else if r.df.isNone && r.knots.isNone then .error .neitherDfKnots
            else
              match parseCons r.cons with
              | .error e => .error e
              | .ok cons =>
                match nInnerOf r.df r.cyclic (CubicSpline.nConstraints cons) with
                | .error e => .error e
                | .ok nInner =>
                  match sortedKnots (CubicSpline.knotsSample lower upper xs) lower upper nInner
                      r.knots quant with
                  | .error e => .error e
                  | .ok knots =>
                    .ok { xs := xs, lower := lower, upper := upper, mode := mode, cons := cons,
                          knots := knots }

/-- the rest of a first call: the constraint matrix that is recorded, then the values -/
def finishCs (r : RawCs) (p : PrepCs) (getF : List Rat → List (List Rat))
    (getQ2 : List (List Rat) → List (List Rat)) :
    Except Reason (CubicSpline.State × CubicSpline.Output) :=
  let a := r.args p.cons p.mode
  match CubicSpline.constraintsOf a p.lower p.upper p.knots (getF p.knots) p.xs with
  | .error e => .error (match p.cons with | .matrix _ => .constraintCols | _ => .inner e)
  | .ok cs =>
    let st : CubicSpline.State :=
      { lower := p.lower, upper := p.upper, knots := p.knots, cyclic := r.cyclic, constraints := cs }
    let Q2 := match cs with | none => [] | some c => getQ2 c
    match CubicSpline.transform st p.mode p.xs (getF p.knots) Q2 with
    | .error e => .error (.inner e)
    | .ok out => .ok (st, out)

/-- `cubic_spline(x, …, _state={})` -/
def cubicSpline (r : RawCs) (quant : List Rat → Nat → List Rat)
    (getF : List Rat → List (List Rat)) (getQ2 : List (List Rat) → List (List Rat)) :
    Except Reason (CubicSpline.State × CubicSpline.Output) :=
  match prepareCs r quant with
  | .error e => .error e
  | .ok p => finishCs r p getF getQ2

/-! ## `cubic_spline` on a given `_state` -/

/-- `cubic_spline(x, …, _state=st)` with a state that holds bounds, knots, cyclic and
constraints (restored from a saved spec, or written by hand): the shape and mode checks, the
`raise` check, `_map_cyclic`'s bound check (made once per call, whatever `x` holds), then the rows. -/
def transformState (st : CubicSpline.State) (sh : XShape) (x : List (Option Rat)) (mode : String)
    (F : List (List Rat)) (Q2cols : List (List Rat)) : Except Reason CubicSpline.Output :=
  match reformatX sh x with
  | .error e => .error e
  | .ok xs =>
    match parseMode mode with
    | none => .error .badMode
    | some m =>
      if m = .raise && (nonNull xs).any (outside st.lower st.upper) then .error .extrapolationCs
      else if st.cyclic &&
          (match minOf st.knots, maxOf st.knots with
           | some mn, some mx => decide (mn ≥ mx)
           | _, _ => false) then .error .mapCyclic
      else
        match CubicSpline.transform st m xs F Q2cols with
        | .error e => .error (.inner e)
        | .ok out => .ok out

/-- `_map_cyclic(x, lbound, ubound)` on an array without nulls: one bound check, then element-wise -/
def mapCyclicAll (xs : List Rat) (lb ub : Rat) : Except Reason (List Rat) :=
  if lb ≥ ub then .error .mapCyclic
  else xs.mapM (fun x => match CubicSpline.mapCyclic x lb ub with
    | .error e => .error (.inner e)
    | .ok v => .ok v)

/-! ## `basis_spline`, first call -/

structure RawBs where
  x : List (Option Rat)
  df : Option Int
  knots : Option (List Rat)
  degree : Int
  intercept : Bool
  lower : Option Rat
  upper : Option Rat
  mode : String
deriving Repr

/-- "Prepare knots", first part, with the degree as the integer the caller wrote; explicit knots
are sorted (`sorted(knots)`: the caller may list them in any order; repeats are kept) -/
def interiorKnots (r : RawBs) (mode : Mode) (lower upper : Rat)
    (quant : List Rat → Nat → List Rat) : Except Reason (List Rat) :=
  let given : List Rat := match r.knots with | none => [] | some k => sort k
  match r.df with
  | none => .ok given
  | some df =>
    let nknots : Int := df - r.degree - (if r.intercept then 1 else 0)
    if nknots < 0 then .error .dfTooSmallBs
    else
      let s := BSpline.knotsSample mode lower upper r.x
      if s.2 = 0 then .error .emptySample
      else if s.1.isEmpty then .error .noData
      else .ok (quant s.1 nknots.toNat)

def RawBs.args (r : RawBs) (mode : Mode) : BSpline.Args :=
  { df := r.df, knots := r.knots.map sort, degree := r.degree.toNat, intercept := r.intercept,
    lower := r.lower, upper := r.upper, mode := mode }

/-- `basis_spline(x, …, _state={})` up to the recorded state: every check in the order of the
code.  The result also carries the parsed mode. -/
def prepareBs (r : RawBs) (quant : List Rat → Nat → List Rat) : Except Reason (BSpline.State × Mode) :=
  if r.df.isSome && r.knots.isSome then .error .bothDfKnots
  else
    let vals := nonNull r.x
    match resolveBound r.lower (minOf vals) r.x.isEmpty with
    | .error e => .error e
    | .ok lower =>
      match resolveBound r.upper (maxOf vals) r.x.isEmpty with
      | .error e => .error e
      | .ok upper =>
        match parseMode r.mode with
        | none => .error .badMode
        | some mode =>
          if mode = .raise && vals.any (outside lower upper) then .error .outOfBoundsBs
          else
            match interiorKnots r mode lower upper quant with
            | .error e => .error e
            | .ok interior =>
              if r.degree < 0 then .error .negDegree
              else
                .ok ({ lower := lower, upper := upper,
                       knots := BSpline.padKnots lower interior upper r.degree.toNat }, mode)

/-- `basis_spline(x, …, _state={})` -/
def basisSpline (r : RawBs) (quant : List Rat → Nat → List Rat) :
    Except Reason (BSpline.State × BSpline.Output) :=
  match prepareBs r quant with
  | .error e => .error e
  | .ok (st, mode) =>
    match BSpline.transform st r.degree.toNat r.intercept mode r.x with
    | .error _ => .error .outOfBoundsBs
    | .ok out => .ok (st, out)

/-- `basis_spline(x, …, _state=st)` with a complete state -/
def transformBs (st : BSpline.State) (degree : Int) (intercept : Bool) (mode : String)
    (x : List (Option Rat)) : Except Reason BSpline.Output :=
  match parseMode mode with
  | none => .error .badMode
  | some m =>
    match BSpline.transform st degree.toNat intercept m x with
    | .error _ => .error .outOfBoundsBs
    | .ok out => .ok out

/-! ## omitted arguments and TRANSFORMS aliases -/

/-- which spline function an alias reaches and the `cyclic` preset of its `functools.partial` -/
def resolveAlias (alias : String) : Option (String × Option Bool) :=
  match Gen.Spline.aliases.find? (fun p => p.1 == alias) with
  | some p => some p.2
  | none => none

end FormulaicVerif.Model.SplineEntry
