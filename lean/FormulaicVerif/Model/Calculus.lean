import FormulaicVerif.Model.Term
/-! `formulaic/utils/calculus.py` (non-sympy path) and `SimpleFormula.differentiate`. -/
namespace FormulaicVerif.Model

inductive DiffErr | nonTrivialFactors   -- RuntimeError("Cannot differentiate non-trivial factors without `sympy`.")
deriving DecidableEq, Repr

/-- `_differentiate_factors(factors, var, use_sympy=False)`: insists on exactly one factor and
returns the empty set (`expr = 1`, `if expr == 1: return set()`) -/
def differentiateFactors (affected : List Factor) : Except DiffErr (List Factor) :=
  match affected with
  | [_] => .ok []
  | _ => .error .nonTrivialFactors

/-- one pass of the `for var in wrt` loop body on the current factor list.
`none` = the early `return Term({0})`; affected factors are those whose expr equals `var`
(`_factor_symbols` is `{factor.expr}`); the new factors are
`(factors - affected) | _differentiate_factors(affected, var)`. -/
def diffStep (fs : List Factor) (v : String) : Except DiffErr (Option (List Factor)) :=
  let affected := fs.filter (fun f => f.expr == v)
  if affected.isEmpty then .ok none
  else
    match differentiateFactors affected with
    | .error e => .error e
    | .ok new => .ok (some (fs.filter (fun f => !(f.expr == v)) ++ new))

def diffLoop : List Factor → List String → Except DiffErr (Option (List Factor))
  | fs, [] => .ok (some fs)
  | fs, v :: vs =>
    match diffStep fs v with
    | .error e => .error e
    | .ok none => .ok none
    | .ok (some fs') => diffLoop fs' vs

/-- `differentiate_term(term, wrt)` -/
def differentiateTerm (t : Term) (wrt : List String) : Except DiffErr Term :=
  match diffLoop t wrt with
  | .error e => .error e
  | .ok none => .ok [litZero]
  | .ok (some []) => .ok [litOne]
  | .ok (some fs) => .ok fs

/-- `SimpleFormula.differentiate(*wrt)`: term by term, ordering NONE (no re-sort) -/
def differentiateFormula (f : List Term) (wrt : List String) : Except DiffErr (List Term) :=
  f.mapM (fun t => differentiateTerm t wrt)

end FormulaicVerif.Model
