import FormulaicVerif.Model.BSpline
/-! # Model of `formulaic/transforms/cubic_spline.py` (`cubic_spline`, aliases `cr`/`cs`, `cc`)

Executable model over `Rat`, core Lean only.  Mirrors, as they are:
`_find_knots_lower_bounds`, `_compute_base_functions`, `_map_cyclic`,
`_get_free_cubic_spline_matrix`, `_get_all_sorted_knots`, `_get_centering_constraint_from_matrix`,
`_absorb_constraints`, `_get_cubic_spline_matrix`, `parse_bounds`, `cubic_spline`.

PARAMETERS (results of external numerical routines, supplied per case by the harness, with the
contract the model relies on checked numerically per case):
* `quant s m` = `numpy.nanpercentile(s, linspace(0, 100, m + 2)[1:-1])`   (quantile knots);
* `F` = the matrix returned by `_get_natural_f(knots)` / `_get_cyclic_f(knots)`
  (`scipy.linalg.solve_banded` / `numpy.linalg.solve`); contract `B · F = D` with the matrices
  `natB/natD`, `cycB/cycD` below (and zero first/last row for the natural spline);
* `Q2cols` = the columns of `q[:, m:]` from `numpy.linalg.qr(constraints.T, mode="complete")`;
  contract `Q₂ᵀ · cᵀ = 0` for every constraint row `c`.

A null (`NaN`) input value is `none` and yields a null row; the centering constraint is the mean
over the non-null rows (`numpy.nanmean`, after the `fix:` commit).
Not modelled: division by a zero knot spacing (knots are distinct by construction:
`numpy.unique` + the size check), float rounding. -/

namespace FormulaicVerif.Model.CubicSpline
open FormulaicVerif.Model.BSpline (Mode nonNull minOf maxOf outside inside resolveBound adjust)

inductive Err where
  | valueError
  /-- an out-of-range array index (unreachable for states produced by `cubic_spline`) -/
  | index
  | noData
deriving DecidableEq, Repr

def ofBs : BSpline.Err → Err
  | .valueError => .valueError
  | .noData => .noData

inductive Constraints where
  | none
  | center
  | matrix (m : List (List Rat))
deriving Repr

structure Args where
  df : Option Int
  knots : Option (List Rat)
  lower : Option Rat
  upper : Option Rat
  constraints : Constraints
  cyclic : Bool
  mode : Mode
deriving Repr

structure State where
  lower : Rat
  upper : Rat
  knots : List Rat
  cyclic : Bool
  constraints : Option (List (List Rat))
deriving Repr

/-! ## small linear algebra on lists -/

def dot (a b : List Rat) : Rat := (List.zipWith (· * ·) a b).sum
def vadd (a b : List Rat) : List Rat := List.zipWith (· + ·) a b
def colSums (n : Nat) (rows : List (List Rat)) : List Rat := rows.foldr vadd (List.replicate n 0)
/-- `matrix.mean(axis=0)` for a matrix with `n` columns -/
def colMeans (n : Nat) (rows : List (List Rat)) : List Rat :=
  (colSums n rows).map (· / (rows.length : Rat))
/-- `numpy.dot(row, Q2)` with `Q2` given by its columns -/
def absorbRow (Q2cols : List (List Rat)) (row : List Rat) : List Rat := Q2cols.map (dot row)
/-- `row · M` for a matrix given by its rows (`ncols` columns) -/
def vecMat (ncols : Nat) (row : List Rat) (M : List (List Rat)) : List Rat :=
  (row.zip M).foldl (fun acc p => vadd acc (p.2.map (p.1 * ·))) (List.replicate ncols 0)
def matMul (ncols : Nat) (A M : List (List Rat)) : List (List Rat) := A.map (fun r => vecMat ncols r M)
def matSub (A M : List (List Rat)) : List (List Rat) :=
  List.zipWith (fun a b => List.zipWith (· - ·) a b) A M

/-! ## `_find_knots_lower_bounds`, `_compute_base_functions` -/

/-- `numpy.searchsorted(knots, x)` (side = left) for an ascending `knots`: the number of knots `< x` -/
def searchsorted (knots : List Rat) (x : Rat) : Nat := (knots.filter (fun k => decide (k < x))).length

/-- `lb = searchsorted - 1; lb[lb == -1] = 0; lb[lb == size - 1] = size - 2` -/
def lowerBound (knots : List Rat) (x : Rat) : Nat :=
  let ss := searchsorted knots x
  if ss = 0 then 0 else if ss = knots.length then knots.length - 2 else ss - 1

structure Base where
  ajm : Rat
  ajp : Rat
  cjm : Rat
  cjp : Rat
  j : Nat
deriving Repr

def baseFunctions (knots : List Rat) (x : Rat) : Except Err Base :=
  let j := lowerBound knots x
  match knots[j]?, knots[j + 1]?, maxOf knots, minOf knots with
  | some kj, some kj1, some mx, some mn =>
    let hj := kj1 - kj
    let xj1_x := kj1 - x
    let x_xj := x - kj
    let cjm3 := if x > mx then 0 else xj1_x * xj1_x * xj1_x / (6 * hj)
    let cjp3 := if x < mn then 0 else x_xj * x_xj * x_xj / (6 * hj)
    .ok { ajm := xj1_x / hj, ajp := x_xj / hj,
          cjm := cjm3 - hj * xj1_x / 6, cjp := cjp3 - hj * x_xj / 6, j := j }
  | _, _, _, _ => .error .index

/-! ## `_map_cyclic` -/

/-- Python's `a % m` for `m > 0` -/
def pmod (a m : Rat) : Rat := a - m * Rat.ofInt (a / m).floor

def mapCyclic (x lb ub : Rat) : Except Err Rat :=
  if lb ≥ ub then .error .valueError
  else .ok (if x > ub then lb + pmod (x - ub) (ub - lb)
            else if x < lb then ub - pmod (lb - x) (ub - lb) else x)

/-! ## `_get_free_cubic_spline_matrix` (one row) -/

def delta (a b : Nat) : Rat := if a = b then 1 else 0

/-- `ajm * i[j, :] + ajp * i[j1, :] + cjm * f[j, :] + cjp * f[j1, :]` -/
def combine (n j j1 : Nat) (b : Base) (Fj Fj1 : List Rat) : List Rat :=
  ((List.range n).zip (Fj.zip Fj1)).map
    (fun p => b.ajm * delta j p.1 + b.ajp * delta j1 p.1 + b.cjm * p.2.1 + b.cjp * p.2.2)

def freeRowCore (knots : List Rat) (n : Nat) (wrap : Bool) (F : List (List Rat)) (x : Rat) :
    Except Err (List Rat) :=
  match baseFunctions knots x with
  | .error e => .error e
  | .ok b =>
    let j1 := if wrap && b.j + 1 == n then 0 else b.j + 1
    match F[b.j]?, F[j1]? with
    | some Fj, some Fj1 =>
      if Fj.length = n ∧ Fj1.length = n then .ok (combine n b.j j1 b Fj Fj1)
      else .error .valueError           -- NumPy broadcasting error
    | _, _ => .error .index

def freeRow (knots : List Rat) (cyclic : Bool) (F : List (List Rat)) (x : Rat) :
    Except Err (List Rat) :=
  if cyclic then
    match minOf knots, maxOf knots with
    | some mn, some mx =>
      match mapCyclic x mn mx with
      | .error e => .error e
      | .ok x' => freeRowCore knots (knots.length - 1) true F x'
    | _, _ => .error .valueError        -- `min([])`
  else freeRowCore knots knots.length false F x

/-! ## `_get_all_sorted_knots` -/

/-- `numpy.unique` -/
def unique (l : List Rat) : List Rat := (l.mergeSort (fun a b => decide (a ≤ b))).eraseDups

/-- the sample handed to the percentile routine: unique in-range non-null values -/
def knotsSample (lower upper : Rat) (xs : List (Option Rat)) : List Rat :=
  unique ((nonNull xs).filter (inside lower upper))

def innerKnots (sample : List Rat) (lower upper : Rat) (nInner : Option Int)
    (inner : Option (List Rat)) (quant : List Rat → Nat → List Rat) : Except Err (List Rat × Int) :=
  match inner, nInner with
  | none, some n =>
    if n < 0 then .error .valueError
    else if !sample.isEmpty then .ok (quant sample n.toNat, n)
    else if n = 0 then .ok ([], n)
    else .error .valueError
  | some ik, _ =>
    let u := unique ik
    if (match nInner with | some n => decide (n ≠ (u.length : Int)) | none => false) then .error .valueError
    else if u.any (fun k => decide (k < lower)) then .error .valueError
    else if u.any (fun k => decide (k > upper)) then .error .valueError
    else .ok (u, (u.length : Int))
  | none, none => .error .valueError

def allSortedKnots (sample : List Rat) (lower upper : Rat) (nInner : Option Int)
    (inner : Option (List Rat)) (quant : List Rat → Nat → List Rat) : Except Err (List Rat) :=
  if upper < lower then .error .valueError
  else
    match innerKnots sample lower upper nInner inner quant with
    | .error e => .error e
    | .ok (ik, n) =>
      let all := unique ([lower, upper] ++ ik)
      if (all.length : Int) ≠ n + 2 then .error .valueError else .ok all

/-! ## the transform -/

structure Output where
  ncols : Nat
  rows : List (Option (List Rat))
deriving Repr

/-- free design-matrix rows of the (mode-adjusted) input; a null value gives a null row -/
def freeRows (knots : List Rat) (cyclic : Bool) (F : List (List Rat)) (mode : Mode)
    (lower upper : Rat) (xs : List (Option Rat)) : Except Err (List (Option (List Rat))) :=
  xs.mapM (fun x =>
    match adjust mode lower upper x with
    | none => .ok none
    | some v => match freeRow knots cyclic F v with
      | .error e => .error e
      | .ok r => .ok (some r))

/-- `cs_mat[below_lower | above_upper] = 0.0` (mask from the ORIGINAL `x`; a null is not masked) -/
def zeroOutside (lower upper : Rat) (xs : List (Option Rat)) (rows : List (Option (List Rat))) :
    List (Option (List Rat)) :=
  List.zipWith (fun x r =>
    match x, r with
    | some v, some row => if outside lower upper v then some (row.map (fun _ => (0 : Rat))) else some row
    | _, r => r) xs rows

def nonNullRows (rows : List (Option (List Rat))) : List (List Rat) := rows.filterMap id

/-- `cubic_spline(x, …, _state=st)` with a complete state -/
def transform (st : State) (mode : Mode) (xs : List (Option Rat)) (F : List (List Rat))
    (Q2cols : List (List Rat)) : Except Err Output :=
  if mode = .raise && (nonNull xs).any (outside st.lower st.upper) then .error .valueError
  else
    let n := if st.cyclic then st.knots.length - 1 else st.knots.length
    match freeRows st.knots st.cyclic F mode st.lower st.upper xs with
    | .error e => .error e
    | .ok rows =>
      match st.constraints with
      | none =>
        .ok { ncols := n, rows := if mode = .zero then zeroOutside st.lower st.upper xs rows else rows }
      | some _ =>
        if Q2cols.any (fun q => q.length != n) then .error .valueError   -- shapes not aligned
        else
          let rows2 := rows.map (Option.map (absorbRow Q2cols))
          .ok { ncols := Q2cols.length,
                rows := if mode = .zero then zeroOutside st.lower st.upper xs rows2 else rows2 }

def nConstraints : Constraints → Nat
  | .none => 0
  | .center => 1
  | .matrix m => m.length

/-- `n_inner_knots` from `df` -/
def nInnerOf (df : Option Int) (cyclic : Bool) (nc : Nat) : Except Err (Option Int) :=
  match df with
  | none => .ok none
  | some d =>
    let minDf : Int := if !cyclic && nc == 0 then 2 else 1
    if d < minDf then .error .valueError
    else .ok (some (d - 2 + (nc : Int) + (if cyclic then 1 else 0)))

/-- the constraint matrix recorded in the state -/
def constraintsOf (a : Args) (lower upper : Rat) (knots : List Rat) (F : List (List Rat))
    (xs : List (Option Rat)) : Except Err (Option (List (List Rat))) :=
  let n := if a.cyclic then knots.length - 1 else knots.length
  match a.constraints with
  | .none => .ok none
  | .matrix m => if m.any (fun r => r.length != n) then .error .valueError else .ok (some m)
  | .center =>
    match freeRows knots a.cyclic F a.mode lower upper xs with
    | .error e => .error e
    | .ok rows =>
      let rows := if a.mode = .zero then zeroOutside lower upper xs rows else rows
      let nn := nonNullRows rows
      if nn.isEmpty then .error .noData else .ok (some [colMeans n nn])

/-- a first call (empty `_state`) -/
def fit (a : Args) (xs : List (Option Rat)) (quant : List Rat → Nat → List Rat)
    (getF : List Rat → List (List Rat)) (getQ2 : List (List Rat) → List (List Rat)) :
    Except Err (State × Output) :=
  if a.df.isSome && a.knots.isSome then .error .valueError
  else
    let vals := nonNull xs
    match resolveBound a.lower (minOf vals) xs.isEmpty with
    | .error e => .error (ofBs e)
    | .ok lower =>
      match resolveBound a.upper (maxOf vals) xs.isEmpty with
      | .error e => .error (ofBs e)
      | .ok upper =>
        if a.mode = .raise && vals.any (outside lower upper) then .error .valueError
        else if a.df.isNone && a.knots.isNone then .error .valueError
        else
          match nInnerOf a.df a.cyclic (nConstraints a.constraints) with
          | .error e => .error e
          | .ok nInner =>
            match allSortedKnots (knotsSample lower upper xs) lower upper nInner a.knots quant with
            | .error e => .error e
            | .ok knots =>
              match constraintsOf a lower upper knots (getF knots) xs with
              | .error e => .error e
              | .ok cons =>
                let st : State := { lower := lower, upper := upper, knots := knots,
                                    cyclic := a.cyclic, constraints := cons }
                let Q2 := match cons with | none => [] | some c => getQ2 c
                match transform st a.mode xs (getF knots) Q2 with
                | .error e => .error e
                | .ok out => .ok (st, out)

/-! ## the matrices of `_get_natural_f` / `_get_cyclic_f` (for the contract `B · F = D`) -/

/-- `h = knots[1:] - knots[:-1]` -/
def spacings (knots : List Rat) : List Rat := List.zipWith (· - ·) (knots.drop 1) knots

/-- tridiagonal `B` of the natural spline, `(n-2) × (n-2)`; `h` are the `n-1` spacings -/
def natB (h : List Rat) : List (List Rat) :=
  ((h.zip (h.drop 1)).zipIdx).map (fun p =>
    (List.range (h.length - 1)).map (fun c =>
      if c = p.2 then (p.1.1 + p.1.2) / 3
      else if c = p.2 + 1 then p.1.2 / 6
      else if c + 1 = p.2 then p.1.1 / 6 else 0))

/-- `D` of the natural spline, `(n-2) × n` -/
def natD (h : List Rat) : List (List Rat) :=
  ((h.zip (h.drop 1)).zipIdx).map (fun p =>
    (List.range (h.length + 1)).map (fun c =>
      if c = p.2 then 1 / p.1.1
      else if c = p.2 + 2 then 1 / p.1.2
      else if c = p.2 + 1 then -(1 / p.1.1) - 1 / p.1.2 else 0))

/-- `B` of the cyclic spline, `n × n` with `n = len(h)`: row `r` has `(h[r-1] + h[r])/3` on the
diagonal, `h[r-1]/6` ADDED at column `r-1` and `h[r]/6` ADDED at column `r+1` (indices mod `n`) -/
def cycB (h : List Rat) : List (List Rat) :=
  ((h.zip (h.rotateRight 1)).zipIdx).map (fun p =>
    let r := p.2
    let pr := if r = 0 then h.length - 1 else r - 1
    let sr := if r + 1 = h.length then 0 else r + 1
    (List.range h.length).map (fun c =>
      (if c = r then (p.1.2 + p.1.1) / 3 else 0) + (if c = pr then p.1.2 / 6 else 0)
        + (if c = sr then p.1.1 / 6 else 0)))

def cycD (h : List Rat) : List (List Rat) :=
  ((h.zip (h.rotateRight 1)).zipIdx).map (fun p =>
    let r := p.2
    let pr := if r = 0 then h.length - 1 else r - 1
    let sr := if r + 1 = h.length then 0 else r + 1
    (List.range h.length).map (fun c =>
      (if c = r then -(1 / p.1.2) - 1 / p.1.1 else 0) + (if c = pr then 1 / p.1.2 else 0)
        + (if c = sr then 1 / p.1.1 else 0)))

/-- exact residual of the contract on `F`: `B·F − D` (cyclic), or `B·F[1:-1] − D` followed by the
first and last row of `F` (natural; all of it must vanish) -/
def residualF (knots : List Rat) (cyclic : Bool) (F : List (List Rat)) : List (List Rat) :=
  let h := spacings knots
  if cyclic then matSub (matMul h.length (cycB h) F) (cycD h)
  else
    matSub (matMul knots.length (natB h) ((F.drop 1).dropLast)) (natD h)
      ++ F.take 1 ++ F.drop (F.length - 1)

/-- exact residual of the contract on `Q₂`: `c · Q₂` for every constraint row -/
def residualQ (cons : List (List Rat)) (Q2cols : List (List Rat)) : List (List Rat) :=
  cons.map (absorbRow Q2cols)

end FormulaicVerif.Model.CubicSpline
