import FormulaicVerif.Model.Parser
import FormulaicVerif.Model.SimpleFormula
import FormulaicVerif.Gen.FormulaDefaults
/-! `Formula.from_spec`, the `Formula(...)` metaclass call, `StructuredFormula.__init__` /
`_prepare_item`, `SimpleFormula.__init__` / `_reorder` (`formulaic/formula.py`) and the parts of
`Structured` they run through (`__init__`, `__prepare_item`, `_map(as_type=…)`, `_simplify`,
`__iter__`; `formulaic/utils/structured.py`) — every SPECIFICATION FORM of a formula:

* a string (parsed by the *parser*), a list / set / `OrderedSet` of strings and `Term`s (strings parsed
  by the *nested parser*), a `dict`, a `tuple`, a plain `Structured`, an existing `Formula`, anything else;
* keywords `Formula(root, **structure)`, `StructuredFormula(root, **structure)` (not simplified),
  `SimpleFormula(terms)`;
* `_ordering`/`ordering` ∈ none / degree / sort (or an invalid name), `_parser` / `_nested_parser` given or not.

The string parser is a PARAMETER (`Env.parse`): the engine instantiates it with `Model.parseTerms`
(the model of `DefaultFormulaParser.get_terms`), theorems hold for every parser. Values: a
`SimpleFormula` is `Val.set` (its term list), a `StructuredFormula` is `Val.struct`, tuples are
`Val.tuple`.

As written in the code, quirks included:
* `from_spec(dict)` is NOT simplified, `from_spec(tuple)`, `from_spec(Structured)` and
  `Formula(**structure)` are;
* `from_spec(Structured)` parses every string — the root too — with the NESTED parser, `from_spec(dict)`
  and `from_spec(tuple)` parse the root with the parser;
* `root` is always stored last (`structure["root"] = root` after the keywords);
* a list keeps repeated terms (no set semantics), a string's parse result is an ordered set;
* an invalid ordering name is a `ValueError` raised by `OrderingMethod(...)`: at once for
  dict/tuple/Structured specs, after parsing for strings and lists, never for `Formula()`;
* keys starting with `_` are a `ValueError` of `Structured.__init__` (before any item is prepared), the
  four reserved keyword names collide with the parameters (`TypeError`). -/
namespace FormulaicVerif.Model.FromSpec
open FormulaicVerif.Model

abbrev Ordering := SFm.Ordering

inductive Err
  | parse (e : ParseErr)     -- raised by the parser
  | invalid                  -- FormulaInvalidError
  | value                    -- ValueError
  | type                     -- TypeError
deriving DecidableEq, Repr

/-- an element of a list / set specification: a string, a `Term`, anything else -/
inductive Item (σ : Type)
  | str (s : σ)
  | term (t : Term)
  | bad

/-- a formula specification (`FormulaSpec`); `σ` is the type of formula strings -/
inductive Spec (σ : Type)
  | str (s : σ)
  | items (xs : List (Item σ))                    -- list / set / OrderedSet, in iteration order
  | dict (fs : List (String × Spec σ))            -- keys distinct, in insertion order
  | tuple (xs : List (Spec σ))
  | structured (fs : List (String × Spec σ))      -- a plain `Structured` (keys in `_structure` order)
  | built (root : Spec σ) (ord : Option Ordering) -- the Formula `Formula.from_spec(root, ordering=ord)` built earlier
  | other                                         -- None, a number, …

structure Parsers where
  parser : ParseCfg
  nested : ParseCfg
deriving Repr, DecidableEq

def cfgOfTuple (t : Bool × Bool × Bool × Bool) : ParseCfg :=
  { includeIntercept := t.1, twosided := t.2.1, multipart := t.2.2.1, multistage := t.2.2.2 }

/-- `DEFAULT_PARSER`, `DEFAULT_NESTED_PARSER` (regenerated from the live module) -/
def defaultParser : ParseCfg := cfgOfTuple Gen.defaultParserCfg
def defaultNested : ParseCfg := cfgOfTuple Gen.defaultNestedParserCfg

/-- `nested_parser = nested_parser or parser or DEFAULT_NESTED_PARSER; parser = parser or DEFAULT_PARSER` -/
def resolveParsers (parser nested : Option ParseCfg) : Parsers :=
  { parser := parser.getD defaultParser
    nested := match nested with
      | some n => n
      | none => parser.getD defaultNested }

/-- `OrderingMethod(value)`: `none` = not a member (`ValueError`) -/
def orderingOfString (s : String) : Option Ordering :=
  if !Gen.orderingValues.contains s then none
  else if s == "none" then some .none else if s == "degree" then some .degree
  else if s == "sort" then some .sort else none

/-- the string parser (`FormulaParser.get_terms`) -/
structure Env (σ : Type) where
  parse : ParseCfg → σ → Except ParseErr Val

/-- `SimpleFormula._reorder` -/
def orderTerms : Ordering → List Term → List Term
  | .none, l => l
  | .degree, l => sortByDegree l
  | .sort, l => SFm.sortTerms (l.map SFm.normTerm)

def allTerms : List (Option Term) → Option (List Term)
  | [] => some []
  | none :: _ => none
  | some t :: r => (allTerms r).map (t :: ·)

/-- `SimpleFormula(items, _ordering=ord)`; `none` items are values that are not `Term`s -/
def simpleFormula (ord : Option Ordering) (xs : List (Option Term)) : Except Err Val :=
  match ord with
  | none => .error .value
  | some o =>
    match allTerms xs with
    | none => .error .invalid
    | some ts => .ok (.set (orderTerms o ts))

/-- `Structured.__iter__` on a parse result: the root's elements when there is nothing but an
iterable root, else the root and then the other values; `none` = an element that is not a `Term` -/
def iterVal : Nat → Val → List (Option Term)
  | _, .set ts => ts.map some
  | _, .tuple vs => vs.map (fun _ => none)
  | 0, .struct fs => fs.map (fun _ => none)
  | n + 1, .struct fs =>
    match fs with
    | [("root", r)] => iterVal n r
    | _ => fs.map (fun _ => none)

/-! ### `_simplify` -/

/-- the loop of `_simplify(unwrap=False)`: peel wrappers that only have a `Structured` root -/
def peelInit : Nat → Val → Val
  | 0, v => v
  | n + 1, v =>
    match v with
    | .struct [("root", .struct gs)] => peelInit n (.struct gs)
    | _ => v

def simplifyFull (v : Val) : Val := simplifyVal (valDepth v + 2) v

/-- `self._simplify(unwrap=False, inplace=True)` (last line of `StructuredFormula.__init__`) -/
def simplifyInit (v : Val) : Val :=
  match peelInit (valDepth v) v with
  | .struct fs => .struct (fs.map (fun p => (p.1, simplifyFull p.2)))
  | w => w

def reservedKeys : List String := ["_parser", "_nested_parser", "_ordering", "_context"]

/-- the checks of `StructuredFormula(_ordering=…, **keys)` that precede the preparation of items -/
def checkKeys (ord : Option Ordering) (keys : List String) : Except Err Unit :=
  if keys.any reservedKeys.contains then .error .type
  else if ord.isNone then .error .value
  else if keys.any (fun k => k.startsWith "_") then .error .value
  else .ok ()

/-! ### already-parsed values (`parser.get_terms(...)._simplify()` and existing formulas) -/

/-- `Structured._map(func, as_type=StructuredFormula)` on a value whose leaves are existing
`SimpleFormula`s (`func` returns them unchanged): every level is rebuilt with the `StructuredFormula`
constructor (root last, `_simplify(unwrap=False, inplace=True)`) -/
def remapVal : Val → Val
  | .set ts => .set ts
  | .tuple vs => .tuple (remapList vs)
  | .struct fs =>
    let gs := remapFields fs
    simplifyInit (.struct (gs.filter (fun p => p.1 != "root") ++ gs.filter (fun p => p.1 == "root")))
where
  remapList : List Val → List Val
    | [] => []
    | v :: vs => remapVal v :: remapList vs
  remapFields : List (String × Val) → List (String × Val)
    | [] => []
    | (k, v) :: fs => (k, remapVal v) :: remapFields fs

/-- items of a parse result prepared by a `StructuredFormula` with ordering `ord`: an ordered set
becomes a `SimpleFormula`, tuples are prepared element-wise, a nested plain `Structured` is mapped -/
def prepParsed (ord : Option Ordering) : Val → Except Err Val
  | .set ts => simpleFormula ord (ts.map some)
  | .tuple vs => (prepList ord vs).map Val.tuple
  | .struct fs =>
    match prepFields ord fs with
    | .error e => .error e
    | .ok gs => .ok (simplifyInit (.struct (gs.filter (fun p => p.1 != "root") ++ gs.filter (fun p => p.1 == "root"))))
where
  prepList (ord : Option Ordering) : List Val → Except Err (List Val)
    | [] => .ok []
    | v :: vs =>
      match prepParsed ord v with
      | .error e => .error e
      | .ok w => match prepList ord vs with
        | .error e => .error e
        | .ok ws => .ok (w :: ws)
  prepFields (ord : Option Ordering) : List (String × Val) → Except Err (List (String × Val))
    | [] => .ok []
    | (k, v) :: fs =>
      match prepParsed ord v with
      | .error e => .error e
      | .ok w => match prepFields ord fs with
        | .error e => .error e
        | .ok ws => .ok ((k, w) :: ws)

/-- prepare the fields of a `Structured` parse result: non-root keys first, the root last -/
def prepParsedFields (ord : Option Ordering) (fs : List (String × Val)) : Except Err (List (String × Val)) :=
  prepParsed.prepFields ord (fs.filter (fun p => p.1 != "root") ++ fs.filter (fun p => p.1 == "root"))

/-- the tail of `from_spec(<str>)`: what happens to `parser.get_terms(s)._simplify()` -/
def ofParsed (ord : Option Ordering) (v : Val) : Except Err Val :=
  match v with
  | .set ts => simpleFormula ord (ts.map some)
  | .struct fs =>
    match checkKeys ord (fs.map (·.1)) with
    | .error e => .error e
    | .ok _ =>
      match prepParsedFields ord fs with
      | .error e => .error e
      | .ok gs => .ok (simplifyFull (simplifyInit (.struct gs)))
  | .tuple vs =>
    match checkKeys ord [] with
    | .error e => .error e
    | .ok _ =>
      match prepParsed.prepList ord vs with
      | .error e => .error e
      | .ok ws => .ok (simplifyFull (simplifyInit (.struct [("root", .tuple ws)])))

/-! ### the recursion over specifications -/

/-- how a specification is being looked at: by `Formula.from_spec` (`top`), by
`Structured.__prepare_item` of a `StructuredFormula` (`item`), or by `apply_func` inside
`Structured._map(..., as_type=StructuredFormula)` (`mapped`) -/
inductive Mode | top | item | mapped
deriving DecidableEq, Repr

/-- the parsers `_prepare_item(key, ·)` hands to `from_spec` -/
def Parsers.forKey (P : Parsers) (key : String) : Parsers :=
  { parser := if key == "root" then P.parser else P.nested, nested := P.nested }

def rootLast {α} (gs : List (String × α)) : List (String × α) :=
  gs.filter (fun p => p.1 != "root") ++ gs.filter (fun p => p.1 == "root")

mutual
/-- `Formula.from_spec(spec, ordering=ord, parser=P.parser, nested_parser=P.nested)` in mode `top`;
`__prepare_item(key, spec)` of a `StructuredFormula` whose parsers for this key are `P` in mode
`item`; `apply_func(spec)` of the `_map` in mode `mapped` -/
def build {σ : Type} (E : Env σ) (m : Mode) (ord : Option Ordering) (P : Parsers) : Spec σ → Except Err Val
  | .built r o =>
    match build E .top o (resolveParsers none none) r with
    | .error e => .error e
    | .ok v => .ok (if m == .mapped then remapVal v else v)
  | .str s =>
    match E.parse P.parser s with
    | .error e => .error (.parse e)
    | .ok v => ofParsed ord (simplifyFull v)
  | .items xs =>
    match buildItems E P xs with
    | .error e => .error e
    | .ok ts => simpleFormula ord ts
  | .other => .error .invalid
  | .dict fs =>
    match checkKeys ord (fs.map (·.1)) with
    | .error e => .error e
    | .ok _ =>
      match buildFields E .item ord P true false fs with
      | .error e => .error e
      | .ok kw =>
        match buildFields E .item ord P true true fs with
        | .error e => .error e
        | .ok rt => .ok (simplifyInit (.struct (kw ++ rt)))
  | .tuple xs =>
    match m with
    | .top =>
      match checkKeys ord [] with
      | .error e => .error e
      | .ok _ =>
        match buildList E .item ord (P.forKey "root") xs with
        | .error e => .error e
        | .ok ws => .ok (simplifyFull (simplifyInit (.struct [("root", .tuple ws)])))
    | _ => (buildList E m ord P xs).map Val.tuple
  | .structured fs =>
    match m with
    | .top =>
      match checkKeys ord (fs.map (·.1)) with
      | .error e => .error e
      | .ok _ =>
        let Q : Parsers := { parser := P.nested, nested := P.nested }
        match buildFields E .item ord Q true false fs with
        | .error e => .error e
        | .ok kw =>
          match buildFields E .item ord Q true true fs with
          | .error e => .error e
          | .ok rt => .ok (simplifyFull (simplifyInit (.struct (kw ++ rt))))
    | _ =>
      match buildFields E .mapped ord P false false fs with
      | .error e => .error e
      | .ok gs => .ok (simplifyInit (.struct (rootLast gs)))

/-- the elements of a list / set specification, flattened: a string contributes what iterating its
parse (nested parser) yields, a `Term` itself -/
def buildItems {σ : Type} (E : Env σ) (P : Parsers) : List (Item σ) → Except Err (List (Option Term))
  | [] => .ok []
  | .str s :: r =>
    match E.parse P.nested s with
    | .error e => .error (.parse e)
    | .ok v =>
      match buildItems E P r with
      | .error e => .error e
      | .ok ts => .ok (iterVal (valDepth v + 1) v ++ ts)
  | .term t :: r =>
    match buildItems E P r with
    | .error e => .error e
    | .ok ts => .ok (some t :: ts)
  | .bad :: r =>
    match buildItems E P r with
    | .error e => .error e
    | .ok ts => .ok (none :: ts)

def buildList {σ : Type} (E : Env σ) (m : Mode) (ord : Option Ordering) (P : Parsers) :
    List (Spec σ) → Except Err (List Val)
  | [] => .ok []
  | x :: xs =>
    match build E m ord P x with
    | .error e => .error e
    | .ok v =>
      match buildList E m ord P xs with
      | .error e => .error e
      | .ok vs => .ok (v :: vs)

/-- prepare fields in order. `perKey`: the parsers depend on the key (`_prepare_item`), and only the
fields whose key is / is not `root` (`rootPass`) are taken; otherwise all fields, same parsers -/
def buildFields {σ : Type} (E : Env σ) (m : Mode) (ord : Option Ordering) (P : Parsers) (perKey rootPass : Bool) :
    List (String × Spec σ) → Except Err (List (String × Val))
  | [] => .ok []
  | (k, x) :: fs =>
    if perKey && ((k == "root") != rootPass) then buildFields E m ord P perKey rootPass fs
    else
      match build E m ord (if perKey then P.forKey k else P) x with
      | .error e => .error e
      | .ok v =>
        match buildFields E m ord P perKey rootPass fs with
        | .error e => .error e
        | .ok vs => .ok ((k, v) :: vs)
end

/-! ### entry points -/

/-- `Formula.from_spec(spec, ordering=ord, parser=…, nested_parser=…)` -/
def fromSpec {σ : Type} (E : Env σ) (ord : Option Ordering) (parser nested : Option ParseCfg) (spec : Spec σ) :
    Except Err Val :=
  build E .top ord (resolveParsers parser nested) spec

/-- `StructuredFormula(root?, _ordering=ord, _parser=…, _nested_parser=…, **kw)` -/
def structuredFormula {σ : Type} (E : Env σ) (ord : Option Ordering) (parser nested : Option ParseCfg)
    (root : Option (Spec σ)) (kw : List (String × Spec σ)) : Except Err Val :=
  let P := resolveParsers parser nested
  match checkKeys ord (kw.map (·.1)) with
  | .error e => .error e
  | .ok _ =>
    match buildFields E .item ord P true false (kw.filter (fun p => p.1 != "root")) with
    | .error e => .error e
    | .ok gs =>
      match root with
      | none => .ok (simplifyInit (.struct gs))
      | some r =>
        match build E .item ord (P.forKey "root") r with
        | .error e => .error e
        | .ok v => .ok (simplifyInit (.struct (gs ++ [("root", v)])))

/-- `Formula(root?, _ordering=ord, _parser=…, _nested_parser=…, **kw)` (the metaclass call) -/
def formulaCall {σ : Type} (E : Env σ) (ord : Option Ordering) (parser nested : Option ParseCfg)
    (root : Option (Spec σ)) (kw : List (String × Spec σ)) : Except Err Val :=
  match root, kw with
  | none, [] => .ok (.set [])
  | some r, [] => fromSpec E ord parser nested r
  | _, _ => (structuredFormula E ord parser nested root kw).map simplifyFull

/-- what is passed as `root` to `SimpleFormula(...)` -/
inductive SimpleRoot (σ : Type)
  | missing
  | str                                  -- a string
  | notIterable                          -- a number, None, …
  | items (xs : List (Item σ))           -- a list: `Term`s, and anything else (strings are not parsed here)

/-- `SimpleFormula(root, _ordering=ord, **structure)`; `hasStructure` = keywords were given -/
def simpleCall {σ : Type} (ord : Option Ordering) (root : SimpleRoot σ) (hasStructure : Bool) : Except Err Val :=
  match root with
  | .str => .error .invalid
  | .notIterable => .error .invalid
  | .missing => if hasStructure then .error .invalid else simpleFormula ord []
  | .items xs =>
    if hasStructure then .error .invalid
    else simpleFormula ord (xs.map (fun x => match x with | .term t => some t | _ => none))

end FormulaicVerif.Model.FromSpec
