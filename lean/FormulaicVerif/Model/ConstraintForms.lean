import FormulaicVerif.Model.Constraints
/-! `formulaic/utils/constraints.py`, the layer ABOVE `LinearConstraintParser.get_matrix`:

* `LinearConstraints.from_spec` for EVERY kind of specification (the whole `isinstance` chain):
  a `LinearConstraints` instance (returned as it is), a string, a list whose elements are all
  strings (joined with commas), a mapping expression ↦ value, a 2-tuple `(matrix, values)`,
  and anything else (nested sequence / ndarray / tuple of another length / number / `None`),
  which is taken as a matrix with all values zero;
* `LinearConstraints.__init__`: `numpy.array` on both arguments (shape discovery, ragged nests
  raise), a 1-D matrix becomes one row, scalar values are broadcast over the rows, default
  variable names `x0, x1, …`, the four validations, and the final `variable_names or …` line;
* `n_constraints`.

The formula forms reuse `Model.Constraints.fromSpec` unchanged and pass its result through the
constructor, exactly as the code does (`cls(matrix, values, variable_names)`).

numpy is modelled only as far as the constructor uses it: the shape of a nested sequence, the
rows of a 2-D array and the entries of a 1-D array. Numbers are exact rationals; a string inside
an array-like is kept as a `text` cell (numpy turns the whole array into strings; the harness
compares numeric cells of such an array through their decimal text). -/
namespace FormulaicVerif.Model.ConstraintForms
open FormulaicVerif.Model.Constraints

/-- one entry of an array -/
inductive Cell
  | num (q : Rat)
  | text (s : String)
deriving DecidableEq, Repr

/-- what `numpy.array` is applied to: a number, a string, or a (nested) sequence (list, tuple and
ndarray are not distinguished below the top level: numpy treats them alike) -/
inductive Arr
  | num (q : Rat)
  | text (s : String)
  | seq (xs : List Arr)
deriving Repr

/-- the attributes of a `LinearConstraints` instance -/
structure LC where
  /-- `constraint_matrix`, row by row -/
  matrix : List (List Cell)
  /-- `constraint_matrix.shape[1]` (needed when there is no row) -/
  ncols : Nat
  /-- `constraint_values` -/
  values : List Cell
  /-- `variable_names` -/
  names : List String
deriving DecidableEq, Repr

/-- `LinearConstraints.n_constraints` = `constraint_matrix.shape[0]` -/
def LC.nConstraints (lc : LC) : Nat := lc.matrix.length

/-- `LinearConstraints.__repr__` -/
def LC.repr (lc : LC) : String := "<LinearConstraints: " ++ toString lc.nConstraints ++ " constraints>"

/-- the Python object passed as `spec` -/
inductive PyVal
  | none
  | num (q : Rat)
  | str (s : String)
  | dict (items : List (String × Rat))
  | inst (lc : LC)
  | list (xs : List Arr)
  | tuple (xs : List Arr)
  | nd (a : Arr)            -- a numpy array (content as nested sequences)
deriving Repr

/-- exceptions of this layer (constructor ↦ Python class in `FErr.cls`; `FErr.tag` identifies the
message, which the correspondence compares too) -/
inductive FErr
  | compile (e : Err)       -- raised by `get_matrix` / `vstack` for a formula form
  | namesRequired           -- ValueError  "`variable_names` must be provided when parsing constraints from a formula."
  | inhomogeneous           -- ValueError  numpy.array on a ragged nest
  | indexError              -- IndexError  `constraint_matrix.shape[0]` / `.shape[1]` of a 0-d array
  | ufuncType               -- UFuncTypeError  `constraint_values * numpy.ones(…)` for a string scalar
  | matrixNot2D             -- ValueError  "`constraint_matrix` must be a 2D array."
  | valuesNot1D             -- ValueError  "`constraint_values` must be a 1D array."
  | rowsMismatch            -- ValueError  "Number of rows in constraint matrix does not equal …"
  | namesMismatch           -- ValueError  "Number of column names does not match …"
deriving DecidableEq, Repr

def FErr.cls : FErr → String
  | .compile e => e.cls
  | .indexError => "IndexError"
  | .ufuncType => "UFuncTypeError"
  | _ => "ValueError"

def FErr.tag : FErr → String
  | .compile .emptyDict => "emptyDict"
  | .compile _ => ""
  | .namesRequired => "namesRequired"
  | .inhomogeneous => "inhomogeneous"
  | .indexError => "indexError"
  | .ufuncType => "ufuncType"
  | .matrixNot2D => "matrixNot2D"
  | .valuesNot1D => "valuesNot1D"
  | .rowsMismatch => "rowsMismatch"
  | .namesMismatch => "namesMismatch"

/-- the literal message the source raises with (`none`: the exception comes from numpy / CPython / the parser).
`Props/C16.lean` proves these are exactly the messages in the live source (`Gen/ConstraintMessages.lean`); the
correspondence compares the message of every raised error with this one. -/
def errMsg : Err → Option String
  | .runtimeMul => some "Only one non-scalar factor can be involved in a linear constraint multiplication."
  | .runtimeDiv => some "The right-hand operand must be a scalar in linear constraint division operations."
  | .literalNotNumeric => some "Only numeric literal values are permitted in constraint formulae."   -- followed by the marked source
  | _ => none

def FErr.msg : FErr → Option String
  | .compile e => errMsg e
  | .namesRequired => some "`variable_names` must be provided when parsing constraints from a formula."
  | .matrixNot2D => some "`constraint_matrix` must be a 2D array."
  | .valuesNot1D => some "`constraint_values` must be a 1D array."
  | .rowsMismatch => some "Number of rows in constraint matrix does not equal the number of values in the values array."
  | .namesMismatch => some "Number of column names does not match the number of columns in the linear constraint matrix."
  | _ => none

/-- the errors with a literal message, as the source lists them: (exception constructor, message) -/
def messageTable : List (String × String) :=
  [FErr.namesRequired, .matrixNot2D, .valuesNot1D, .rowsMismatch, .namesMismatch,
   .compile .literalNotNumeric, .compile .runtimeMul, .compile .runtimeDiv].filterMap
    (fun e => e.msg.map (fun m => (match e with
      | .compile .literalNotNumeric => "exc_for_token"     -- the helper that builds the FormulaSyntaxError
      | _ => e.cls, m)))

/-! ## `numpy.array` on a nested sequence -/

mutual
/-- the entries in row-major order -/
def Arr.leaves : Arr → List Cell
  | .num q => [.num q]
  | .text s => [.text s]
  | .seq xs => leavesL xs
def leavesL : List Arr → List Cell
  | [] => []
  | x :: xs => x.leaves ++ leavesL xs
end

/-- the elements along the first axis -/
def Arr.children : Arr → List Arr
  | .seq xs => xs
  | _ => []

mutual
/-- shape discovery: every element of a sequence must have the same shape ("inhomogeneous shape"
otherwise); an empty sequence has shape `(0,)` -/
def Arr.shape : Arr → Except FErr (List Nat)
  | .num _ => .ok []
  | .text _ => .ok []
  | .seq [] => .ok [0]
  | .seq (x :: xs) => match x.shape with
    | .error e => .error e
    | .ok s => match sameShape s xs with
      | .error e => .error e
      | .ok _ => .ok ((xs.length + 1) :: s)
def sameShape (s : List Nat) : List Arr → Except FErr Unit
  | [] => .ok ()
  | y :: ys => match y.shape with
    | .error e => .error e
    | .ok t => if t = s then sameShape s ys else .error .inhomogeneous
end

/-- an array: its shape and its content (as the nest it was made from) -/
structure ND where
  shape : List Nat
  tree : Arr
deriving Repr

/-- `numpy.array(a)` -/
def npArray (a : Arr) : Except FErr ND :=
  match a.shape with
  | .error e => .error e
  | .ok s => .ok ⟨s, a⟩

/-! ## `LinearConstraints.__init__` -/

/-- `[f"x{i}" for i in range(n)]` -/
def defaultNames (n : Nat) : List String := (List.range n).map (fun i => "x" ++ toString i)

/-- `if len(constraint_matrix.shape) == 1: constraint_matrix = constraint_matrix.reshape(1, *shape)` -/
def rowIfFlat (m : ND) : ND :=
  match m.shape with
  | [n] => ⟨[1, n], .seq [m.tree]⟩
  | _ => m

/-- `if len(constraint_values.shape) == 0: constraint_values = constraint_values * numpy.ones(matrix.shape[0])` -/
def broadcastValues (m v : ND) : Except FErr ND :=
  match v.shape with
  | [] => match m.shape with
    | [] => .error .indexError                    -- `().shape[0]`
    | k :: _ => match v.tree.leaves with
      | [.num q] => .ok ⟨[k], .seq (List.replicate k (.num q))⟩
      | _ => .error .ufuncType                    -- a string times a float array
  | _ => .ok v

/-- `variable_names or [f"x{i}" for i in range(constraint_matrix.shape[1])]`
(`None` and the empty sequence are both false) -/
def resolveNames (names : Option (List String)) (mshape : List Nat) : Except FErr (List String) :=
  match names with
  | some (n :: ns) => .ok (n :: ns)
  | _ => match mshape with
    | _ :: n :: _ => .ok (defaultNames n)
    | _ => .error .indexError                     -- `shape[1]` of a 0-d array (a 1-d one was reshaped)

/-- the last line of the constructor,
`self.variable_names = variable_names or [f"x{i}" for i in range(len(constraint_matrix))]`:
when there is no column the names are `x0 … x(rows-1)` (code as it is) -/
def finalNames (names : List String) (rows : Nat) : List String :=
  match names with
  | [] => defaultNames rows
  | _ :: _ => names

/-- the four validations and the attribute assignments -/
def validate (m v : ND) (names : List String) : Except FErr LC :=
  match m.shape with
  | [k, n] => match v.shape with
    | [k'] =>
      if k' ≠ k then .error .rowsMismatch
      else if names.length ≠ n then .error .namesMismatch
      else .ok { matrix := m.tree.children.map Arr.leaves, ncols := n, values := v.tree.leaves,
                 names := finalNames names k }
    | _ => .error .valuesNot1D
  | _ => .error .matrixNot2D

/-- `LinearConstraints(constraint_matrix, constraint_values, variable_names)` on arrays -/
def initND (m v : ND) (names : Option (List String)) : Except FErr LC :=
  let m := rowIfFlat m
  match broadcastValues m v with
  | .error e => .error e
  | .ok v => match resolveNames names m.shape with
    | .error e => .error e
    | .ok ns => validate m v ns

/-- the constructor on array-likes: `numpy.array` on the matrix first, then on the values -/
def initLC (m v : Arr) (names : Option (List String)) : Except FErr LC :=
  match npArray m with
  | .error e => .error e
  | .ok m => match npArray v with
    | .error e => .error e
    | .ok v => initND m v names

/-! ## `LinearConstraints.from_spec` -/

/-- the arrays `get_matrix` / `vstack`, `hstack` hand to the constructor: shape `(rows, len(names))`
also when there is no row (`numpy.empty((0, n))`) -/
def matrixND (A : List (List Rat)) (ncols : Nat) : ND :=
  ⟨[A.length, ncols], .seq (A.map (fun r => .seq (r.map .num)))⟩

def vectorND (b : List Rat) : ND := ⟨[b.length], .seq (b.map .num)⟩

/-- the three formula forms: `variable_names` is required; the compiled `(A, b)` goes through the constructor -/
def formula (sh : Shuffle) (parse : String → Parsed) (names : Option (List String)) (spec : Spec) : Except FErr LC :=
  match names with
  | none => .error .namesRequired
  | some ns => match fromSpec sh ns parse spec with
    | .error e => .error (.compile e)
    | .ok (A, b) => initND (matrixND A ns.length) (vectorND b) (some ns)

/-- `all(isinstance(s, str) for s in spec)`, with the strings -/
def allText : List Arr → Option (List String)
  | [] => some []
  | .text s :: xs => match allText xs with
    | some ss => some (s :: ss)
    | none => none
  | _ :: _ => none

/-- `LinearConstraints.from_spec(spec, variable_names)` -/
def fromSpecAny (sh : Shuffle) (parse : String → Parsed) (names : Option (List String)) : PyVal → Except FErr LC
  | .inst lc => .ok lc                                    -- returned as it is; `variable_names` is ignored
  | .str s => formula sh parse names (.str s)
  | .dict items => formula sh parse names (.dict items)
  | .list xs => match allText xs with
    | some ss => formula sh parse names (.list ss)        -- also the empty list
    | none => initLC (.seq xs) (.num 0) names
  | .tuple [m, v] => initLC m v names
  | .tuple xs => initLC (.seq xs) (.num 0) names
  | .nd a => initLC a (.num 0) names
  | .num q => initLC (.num q) (.num 0) names
  | .none => .error .indexError                           -- `numpy.array(None)` is 0-d: `shape[0]` fails

end FormulaicVerif.Model.ConstraintForms
