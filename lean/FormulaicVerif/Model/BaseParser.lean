import FormulaicVerif.Model.Parser
/-! The BASE class `FormulaParser` (`parser/types/formula_parser.py`) used directly with a
`DefaultOperatorResolver`: `get_tokens_from_formula` is `sanitize_tokens(tokenize(formula))` — a chain
of GENERATORS that `tokens_to_ast` consumes token by token — there is no intercept handling and no
`check_terms`. Because the chain is lazy, errors surface in the order in which the shunting-yard asks
for tokens: a shunting-yard error at token `k` precedes a normalisation error of a later Python token,
which precedes a tokenizer error further to the right (for `DefaultFormulaParser` the whole token
list is built first: `Model.getTokens`). -/
namespace FormulaicVerif.Model.BaseParser
open FormulaicVerif.Model

/-- the `for token in tokens` loop of `tokens_to_ast` over the lazily sanitised tokens -/
def lazyShunt (tab : OpTable) (norm : List Char → Except PyErr (List Char)) :
    List Tok → ShState → Except ParseErr ShState
  | [], s => .ok s
  | t :: ts, s =>
    match sanitizeTokens norm [t] with
    | .error e => .error (pyErrToParse e)
    | .ok ts2 =>
      match shuntRun tab ts2 s with
      | .error e => .error e
      | .ok s' => lazyShunt tab norm ts s'

/-- `FormulaParser(operator_resolver=DefaultOperatorResolver(flags)).get_ast(formula)` -/
def baseAst (cfg : ParseCfg) (env : PyEnv) (cs : List CharInfo) : Except ParseErr (Option Ast) :=
  let (emitted, lexErr) := tokenizeStream cs
  match lazyShunt cfg.table env.norm emitted {} with
  | .error e => .error e
  | .ok s =>
    match lexErr with
    | some e => .error (lexErrToParse e)
    | none =>
      match finish s.out s.stack with
      | .error e => .error e
      | .ok [] => .ok none
      | .ok [a] => .ok (some a)
      | .ok _ => .error (.syntax "missing operator")

/-- `….get_terms(formula)`: `Structured([])` for an empty tree, else `ast.to_terms()` wrapped in a
`Structured` unless it already is one; no term check. (`dot` is the context of the `.` operator;
the base class does not record the left-hand-side variables.) -/
def baseTerms (cfg : ParseCfg) (env : PyEnv) (cs : List CharInfo) : Except ParseErr Val :=
  match baseAst cfg env cs with
  | .error e => .error e
  | .ok none => .ok (mkStruct [] (some (.set [])))
  | .ok (some a) =>
    match evalAst { available := env.available, usedLhs := [] } a with
    | .error e => .error e
    | .ok v => .ok (match v with | .struct _ => v | _ => mkStruct [] (some v))

end FormulaicVerif.Model.BaseParser
