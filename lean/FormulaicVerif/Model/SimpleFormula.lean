import FormulaicVerif.Model.Term
/-! `SimpleFormula` (`formulaic/formula.py`) as a `MutableSequence[Term]`.

State: the private list `__terms` plus the `ordering` attribute. Mirrored as written:
* the constructor and `insert`/`__setitem__` call `_reorder()`; `__delitem__` does NOT;
* `_reorder` for `DEGREE` is Python's stable `sorted(terms, key=degree)` (modelled as a stable
  insertion sort), for `NONE` it does nothing, for `SORT` it is
  `sorted([Term(factors=sorted(term.factors)) for term in terms])` with `Term.__lt__`
  (degree first, then the sorted factor expressions lexicographically) and `Factor.__lt__`
  (expression order);
* `append`, `extend`, `pop`, `reverse`, `+=` are the `collections.abc.MutableSequence` mixins, i.e.
  compositions of `insert`/`__getitem__`/`__setitem__`/`__delitem__` (so `reverse` re-sorts after
  every single assignment, and a failing `extend` keeps the elements appended so far);
* list index conventions: `insert` clamps, `[i]`/`del [i]` raise `IndexError` out of range,
  slices clamp;
* a value that is not a `Term` fails `__validate_terms` (`FormulaInvalidError`) before anything
  is changed.
-/
namespace FormulaicVerif.Model.SFm

inductive Ordering | none | degree | sort
deriving DecidableEq, Repr, Inhabited

inductive Err | indexError | invalid
deriving DecidableEq, Repr, Inhabited

/-- insert `x` into a degree-sorted list in front of the first element that is not smaller:
folding this from the right is a stable sort (earlier elements stay in front of equal ones) -/
def insertByDegree (x : Term) : List Term → List Term
  | [] => [x]
  | y :: ys => if Term.degree y < Term.degree x then y :: insertByDegree x ys else x :: y :: ys

/-- `sorted(terms, key=lambda term: term.degree)` -/
def sortByDegree (l : List Term) : List Term := l.foldr insertByDegree []

/-- `sorted(term.factors)`: stable, by `Factor.__lt__` (`expr` order) -/
def insertFactor (x : Factor) : List Factor → List Factor
  | [] => [x]
  | y :: ys => if y.expr < x.expr then y :: insertFactor x ys else x :: y :: ys

def sortFactors (t : List Factor) : List Factor := t.foldr insertFactor []

/-- `Term(factors=sorted(term.factors))` -/
def normTerm (t : Term) : Term := Term.ofFactors (sortFactors t)

/-- `Term.__lt__`: equal degree → `sorted(self.factors) < sorted(other.factors)` (Python list
comparison = lexicographic on the expressions), otherwise by degree -/
def termLt (a b : Term) : Bool :=
  if Term.degree a == Term.degree b then
    decide ((sortFactors a).map (·.expr) < (sortFactors b).map (·.expr))
  else decide (Term.degree a < Term.degree b)

/-- stable insertion by `Term.__lt__` -/
def insertTerm (x : Term) : List Term → List Term
  | [] => [x]
  | y :: ys => if termLt y x then y :: insertTerm x ys else x :: y :: ys

/-- `sorted(terms)` -/
def sortTerms (l : List Term) : List Term := l.foldr insertTerm []

/-- `_reorder()` -/
def reorder : Ordering → List Term → List Term
  | .degree, l => sortByDegree l
  | .none, l => l
  | .sort, l => sortTerms (l.map normTerm)

/-- `SimpleFormula(terms, _ordering=o)` -/
def init (o : Ordering) (l : List Term) : List Term := reorder o l

/-- a valid index for `seq[i]`, `seq[i] = x`, `del seq[i]`; `none` = `IndexError` -/
def normIdx (i : Int) (n : Nat) : Option Nat :=
  if 0 ≤ i then (if i.toNat < n then some i.toNat else none)
  else (if (-i).toNat ≤ n then some (n - (-i).toNat) else none)

/-- index clamping of `list.insert` and of slice bounds -/
def clampIdx (i : Int) (n : Nat) : Nat :=
  if 0 ≤ i then min i.toNat n else n - min (-i).toNat n

def insertAt {α} (n : Nat) (x : α) (l : List α) : List α := l.take n ++ x :: l.drop n

/-- `f.insert(i, t)` -/
def insert (o : Ordering) (l : List Term) (i : Int) (t : Option Term) : Except Err (List Term) :=
  match t with
  | none => .error .invalid
  | some t => .ok (reorder o (insertAt (clampIdx i l.length) t l))

/-- `f[i] = t` -/
def setItem (o : Ordering) (l : List Term) (i : Int) (t : Option Term) : Except Err (List Term) :=
  match t with
  | none => .error .invalid
  | some t =>
    match normIdx i l.length with
    | none => .error .indexError
    | some n => .ok (reorder o (l.set n t))

/-- `del f[i]` -/
def delItem (l : List Term) (i : Int) : Except Err (List Term) :=
  match normIdx i l.length with
  | none => .error .indexError
  | some n => .ok (l.eraseIdx n)

/-- `del f[a:b]` -/
def delSlice (l : List Term) (a b : Int) : List Term :=
  let a' := clampIdx a l.length
  let b' := clampIdx b l.length
  l.take a' ++ l.drop (max a' b')

/-- `f[i]` -/
def getItem (l : List Term) (i : Int) : Except Err Term :=
  match normIdx i l.length with
  | none => .error .indexError
  | some n =>
    match l[n]? with
    | some t => .ok t
    | none => .error .indexError

/-- `MutableSequence.extend`: `for v in values: self.append(v)`; returns the state reached and the
error that stopped it, if any -/
def extend (o : Ordering) : List Term → List (Option Term) → List Term × Option Err
  | l, [] => (l, none)
  | l, t :: ts =>
    match insert o l l.length t with
    | .ok l' => extend o l' ts
    | .error e => (l, some e)

/-- one round of `MutableSequence.reverse`: `self[i], self[n-i-1] = self[n-i-1], self[i]` -/
def swapStep (o : Ordering) (n : Nat) (l : List Term) (i : Nat) : List Term × Option Err :=
  match getItem l (n - i - 1 : Nat), getItem l i with
  | .ok x, .ok y =>
    match setItem o l i (some x) with
    | .ok l1 =>
      match setItem o l1 (n - i - 1 : Nat) (some y) with
      | .ok l2 => (l2, none)
      | .error e => (l1, some e)
    | .error e => (l, some e)
  | .error e, _ => (l, some e)
  | _, .error e => (l, some e)

def reverseLoop (o : Ordering) (n : Nat) : List Nat → List Term → List Term × Option Err
  | [], l => (l, none)
  | i :: is, l =>
    match swapStep o n l i with
    | (l', none) => reverseLoop o n is l'
    | (l', some e) => (l', some e)

inductive Op where
  | insert (i : Int) (t : Option Term)
  | set (i : Int) (t : Option Term)
  | del (i : Int)
  | delSlice (a b : Int)
  | append (t : Option Term)
  | extend (ts : List (Option Term))
  | pop (i : Int)
  | reverse

def ofExcept (l : List Term) : Except Err (List Term) → List Term × Option Err
  | .ok l' => (l', none)
  | .error e => (l, some e)

/-- one sequence operation: the new `__terms` and the exception raised (if any) -/
def step (o : Ordering) (l : List Term) : Op → List Term × Option Err
  | .insert i t => ofExcept l (insert o l i t)
  | .set i t => ofExcept l (setItem o l i t)
  | .del i => ofExcept l (delItem l i)
  | .delSlice a b => (delSlice l a b, none)
  | .append t => ofExcept l (insert o l l.length t)
  | .extend ts => extend o l ts
  | .pop i =>
    match getItem l i with
    | .ok _ => ofExcept l (delItem l i)
    | .error e => (l, some e)
  | .reverse => reverseLoop o l.length (List.range (l.length / 2)) l

/-- a whole sequence of operations (exceptions caught by the caller) -/
def run (o : Ordering) (l : List Term) : List Op → List Term
  | [] => l
  | op :: ops => run o (step o l op).1 ops

/-- the states after each operation, with the error raised -/
def trace (o : Ordering) (l : List Term) : List Op → List (List Term × Option Err)
  | [] => []
  | op :: ops => let r := step o l op; r :: trace o r.1 ops

end FormulaicVerif.Model.SFm
