import FormulaicVerif.Model.Term
/-! `SimpleFormula` (`formulaic/formula.py`) as a `MutableSequence[Term]`.

State: the private list `__terms` plus the `ordering` attribute. Mirrored as written:
* the constructor and `insert`/`__setitem__` call `_reorder()`; `__delitem__` does NOT;
* `_reorder` for `DEGREE` is Python's stable `sorted(terms, key=degree)` (modelled as a stable
  insertion sort), for `NONE` it does nothing, for `SORT` it is
  `sorted([Term(factors=sorted(term.factors)) for term in terms])` with `Term.__lt__`
  (degree first, then the sorted factor expressions lexicographically) and `Factor.__lt__`
  (expression order);
* `append`, `extend`, `pop`, `reverse`, `+=` are the `collections.abc.MutableSequence` mixins, i.e.
  compositions of `insert`/`__getitem__`/`__setitem__`/`__delitem__` (so `reverse` re-sorts after
  every single assignment, and a failing `extend` keeps the elements appended so far);
* list index conventions: `insert` clamps, `[i]`/`del [i]` raise `IndexError` out of range,
  slices clamp;
* a value that is not a `Term` fails `__validate_terms` (`FormulaInvalidError`) before anything
  is changed;
* SLICE ASSIGNMENT never succeeds: `__setitem__` validates `[value]`, so a list of terms is rejected
  (`FormulaInvalidError`) and a single `Term` passes validation only to fail in `list.__setitem__`
  (`TypeError`: a `Term` is not iterable); the terms are unchanged either way;
* `f[a:b:c]` builds a NEW `SimpleFormula` with the same ordering from the selected terms (so it is
  re-ordered); `del f[a:b:c]` removes the selected positions and does not re-order;
* `clear`, `remove`, `+=`, `index`, `count`, `in`, `reversed` are the `collections.abc` mixins
  (`remove`/`index`/`count`/`in` compare with `Term.__eq__`, i.e. the sorted factor expressions);
* `==` against a list or another `SimpleFormula` is list equality of the terms; against anything
  else it is `NotImplemented`, i.e. `False`;
* the constructor refuses (`FormulaInvalidError`) a string or non-iterable `root`, any `**structure`,
  and any element that is not a `Term`; no `root` means no terms.
-/
namespace FormulaicVerif.Model.SFm

inductive Ordering | none | degree | sort
deriving DecidableEq, Repr, Inhabited

inductive Err | indexError | invalid | typeError | valueError
deriving DecidableEq, Repr, Inhabited

/-- insert `x` into a degree-sorted list in front of the first element that is not smaller:
folding this from the right is a stable sort (earlier elements stay in front of equal ones) -/
def insertByDegree (x : Term) : List Term → List Term
  | [] => [x]
  | y :: ys => if Term.degree y < Term.degree x then y :: insertByDegree x ys else x :: y :: ys

/-- `sorted(terms, key=lambda term: term.degree)` -/
def sortByDegree (l : List Term) : List Term := l.foldr insertByDegree []

/-- `sorted(term.factors)`: stable, by `Factor.__lt__` (`expr` order) -/
def insertFactor (x : Factor) : List Factor → List Factor
  | [] => [x]
  | y :: ys => if y.expr < x.expr then y :: insertFactor x ys else x :: y :: ys

def sortFactors (t : List Factor) : List Factor := t.foldr insertFactor []

/-- `Term(factors=sorted(term.factors))` -/
def normTerm (t : Term) : Term := Term.ofFactors (sortFactors t)

/-- `Term.__lt__`: equal degree → `sorted(self.factors) < sorted(other.factors)` (Python list
comparison = lexicographic on the expressions), otherwise by degree -/
def termLt (a b : Term) : Bool :=
  if Term.degree a == Term.degree b then
    decide ((sortFactors a).map (·.expr) < (sortFactors b).map (·.expr))
  else decide (Term.degree a < Term.degree b)

/-- stable insertion by `Term.__lt__` -/
def insertTerm (x : Term) : List Term → List Term
  | [] => [x]
  | y :: ys => if termLt y x then y :: insertTerm x ys else x :: y :: ys

/-- `sorted(terms)` -/
def sortTerms (l : List Term) : List Term := l.foldr insertTerm []

/-- `_reorder()` -/
def reorder : Ordering → List Term → List Term
  | .degree, l => sortByDegree l
  | .none, l => l
  | .sort, l => sortTerms (l.map normTerm)

/-- `SimpleFormula(terms, _ordering=o)` -/
def init (o : Ordering) (l : List Term) : List Term := reorder o l

/-- what is handed to the constructor as `root` -/
inductive CtorArg where
  | missing                              -- no `root` at all: `()`
  | notTerms                             -- a `str` or something that is not iterable
  | terms (ts : List (Option Term))      -- an iterable; `none` = an element that is not a `Term`

/-- the terms an accepted argument supplies -/
def CtorArg.given : CtorArg → List Term
  | .terms ts => ts.filterMap id
  | _ => []

/-- `SimpleFormula(root, _ordering=o, **structure)`: every refusal is `FormulaInvalidError` -/
def construct (o : Ordering) (arg : CtorArg) (hasStructure : Bool) : Except Err (List Term) :=
  match arg with
  | .notTerms => .error .invalid
  | .missing => if hasStructure then .error .invalid else .ok (init o [])
  | .terms ts =>
    if hasStructure then .error .invalid
    else if ts.any Option.isNone then .error .invalid
    else .ok (init o (ts.filterMap id))

/-- a valid index for `seq[i]`, `seq[i] = x`, `del seq[i]`; `none` = `IndexError` -/
def normIdx (i : Int) (n : Nat) : Option Nat :=
  if 0 ≤ i then (if i.toNat < n then some i.toNat else none)
  else (if (-i).toNat ≤ n then some (n - (-i).toNat) else none)

/-- index clamping of `list.insert` and of slice bounds -/
def clampIdx (i : Int) (n : Nat) : Nat :=
  if 0 ≤ i then min i.toNat n else n - min (-i).toNat n

def insertAt {α} (n : Nat) (x : α) (l : List α) : List α := l.take n ++ x :: l.drop n

/-- `f.insert(i, t)` -/
def insert (o : Ordering) (l : List Term) (i : Int) (t : Option Term) : Except Err (List Term) :=
  match t with
  | none => .error .invalid
  | some t => .ok (reorder o (insertAt (clampIdx i l.length) t l))

/-- `f[i] = t` -/
def setItem (o : Ordering) (l : List Term) (i : Int) (t : Option Term) : Except Err (List Term) :=
  match t with
  | none => .error .invalid
  | some t =>
    match normIdx i l.length with
    | none => .error .indexError
    | some n => .ok (reorder o (l.set n t))

/-- `del f[i]` -/
def delItem (l : List Term) (i : Int) : Except Err (List Term) :=
  match normIdx i l.length with
  | none => .error .indexError
  | some n => .ok (l.eraseIdx n)

/-- `del f[a:b]` -/
def delSlice (l : List Term) (a b : Int) : List Term :=
  let a' := clampIdx a l.length
  let b' := clampIdx b l.length
  l.take a' ++ l.drop (max a' b')

/-- `f[i]` -/
def getItem (l : List Term) (i : Int) : Except Err Term :=
  match normIdx i l.length with
  | none => .error .indexError
  | some n =>
    match l[n]? with
    | some t => .ok t
    | none => .error .indexError

/-- `MutableSequence.extend`: `for v in values: self.append(v)`; returns the state reached and the
error that stopped it, if any -/
def extend (o : Ordering) : List Term → List (Option Term) → List Term × Option Err
  | l, [] => (l, none)
  | l, t :: ts =>
    match insert o l l.length t with
    | .ok l' => extend o l' ts
    | .error e => (l, some e)

/-- one round of `MutableSequence.reverse`: `self[i], self[n-i-1] = self[n-i-1], self[i]` -/
def swapStep (o : Ordering) (n : Nat) (l : List Term) (i : Nat) : List Term × Option Err :=
  match getItem l (n - i - 1 : Nat), getItem l i with
  | .ok x, .ok y =>
    match setItem o l i (some x) with
    | .ok l1 =>
      match setItem o l1 (n - i - 1 : Nat) (some y) with
      | .ok l2 => (l2, none)
      | .error e => (l1, some e)
    | .error e => (l, some e)
  | .error e, _ => (l, some e)
  | _, .error e => (l, some e)

def reverseLoop (o : Ordering) (n : Nat) : List Nat → List Term → List Term × Option Err
  | [], l => (l, none)
  | i :: is, l =>
    match swapStep o n l i with
    | (l', none) => reverseLoop o n is l'
    | (l', some e) => (l', some e)

/-! ### slices -/

/-- `PySlice_AdjustIndices` for a negative step: a bound clamped into `[-1, n-1]` -/
def adjNeg (i : Int) (n : Nat) : Int :=
  let i' := if i < 0 then i + n else i
  if i' < 0 then -1 else if i' ≥ n then (n : Int) - 1 else i'

/-- the positions `range(*slice(a, b, c).indices(n))`, in that order; `c ≠ 0` -/
def sliceIndices (a b : Option Int) (c : Int) (n : Nat) : List Nat :=
  if 0 < c then
    let start := match a with | some i => clampIdx i n | none => 0
    let stop := match b with | some i => clampIdx i n | none => n
    let step := c.toNat
    List.range' start ((stop - start + step - 1) / step) step
  else
    let start : Int := match a with | some i => adjNeg i n | none => (n : Int) - 1
    let stop : Int := match b with | some i => adjNeg i n | none => -1
    let step := (-c).toNat
    let count := ((start - stop).toNat + step - 1) / step
    (List.range count).map (fun j => (start - (j * step : Nat)).toNat)

/-- remove the given positions -/
def removeIdxs {α} (l : List α) (idxs : List Nat) : List α :=
  (l.zipIdx.filter (fun xi => !idxs.contains xi.2)).map (·.1)

/-- `del f[a:b:c]` (`c = 0`: `ValueError`) -/
def delSliceX (l : List Term) (a b : Option Int) (c : Int) : Except Err (List Term) :=
  if c == 0 then .error .valueError else .ok (removeIdxs l (sliceIndices a b c l.length))

/-- `list(f[a:b:c])`: a new formula with the same ordering -/
def getSlice (o : Ordering) (l : List Term) (a b : Option Int) (c : Int) : Except Err (List Term) :=
  if c == 0 then .error .valueError
  else .ok (reorder o ((sliceIndices a b c l.length).filterMap (fun i => l[i]?)))

/-- the value of a slice assignment: a list (of would-be terms) or a single term -/
inductive SliceVal where
  | list (ts : List (Option Term))
  | term (t : Term)

/-- `f[a:b:c] = value`: always raises, nothing changes -/
def setSlice (_l : List Term) (_a _b : Option Int) (_c : Int) : SliceVal → Except Err (List Term)
  | .list _ => .error .invalid
  | .term _ => .error .typeError

/-! ### `Term.__eq__` and the searching mixins -/

/-- `a == b` for terms: same sorted factor expressions -/
def termEq (a b : Term) : Bool := Term.key a == Term.key b

/-- `f.index(t)` (`none` when the value is not a `Term` equal to an element: `ValueError`) -/
def indexOf (l : List Term) (t : Option Term) : Option Nat :=
  match t with
  | none => none
  | some t => l.findIdx? (fun x => termEq x t)

/-- `f.remove(t)`: `del f[f.index(t)]` -/
def remove (l : List Term) (t : Option Term) : Except Err (List Term) :=
  match indexOf l t with
  | some n => .ok (l.eraseIdx n)
  | none => .error .valueError

/-- `f.count(t)` -/
def count (l : List Term) (t : Option Term) : Nat :=
  match t with
  | none => 0
  | some t => (l.filter (fun x => termEq x t)).length

/-- the `while True: self.pop()` loop of `MutableSequence.clear` -/
def clearLoop : Nat → List Term → Option (List Term)
  | 0, _ => none
  | fuel + 1, l =>
    match getItem l (-1) with
    | .error _ => some l
    | .ok _ =>
      match delItem l (-1) with
      | .ok l' => clearLoop fuel l'
      | .error _ => some l

/-- `f == other` for a list of terms / another formula -/
def eqTerms : List Term → List Term → Bool
  | [], [] => true
  | x :: xs, y :: ys => termEq x y && eqTerms xs ys
  | _, _ => false

/-- what a read-only operation returns -/
inductive Res where
  | none
  | terms (ts : List Term)
  | nat (n : Nat)
  | bool (b : Bool)
deriving DecidableEq, Repr, Inhabited

inductive Op where
  | insert (i : Int) (t : Option Term)
  | set (i : Int) (t : Option Term)
  | del (i : Int)
  | delSlice (a b : Int)
  | append (t : Option Term)
  | extend (ts : List (Option Term))
  | pop (i : Int)
  | reverse
  | iadd (ts : List (Option Term))
  | setSlice (a b : Option Int) (c : Int) (v : SliceVal)
  | delSliceX (a b : Option Int) (c : Int)
  | clear
  | remove (t : Option Term)
  | getSlice (a b : Option Int) (c : Int)
  | index (t : Option Term)
  | count (t : Option Term)
  | contains (t : Option Term)
  | reversed
  | eq (other : List Term)
  | eqForeign                            -- `f == x` for `x` neither a list nor a formula

def ofExcept (l : List Term) : Except Err (List Term) → List Term × Option Err
  | .ok l' => (l', none)
  | .error e => (l, some e)

/-- one sequence operation: the new `__terms` and the exception raised (if any) -/
def step (o : Ordering) (l : List Term) : Op → List Term × Option Err
  | .insert i t => ofExcept l (insert o l i t)
  | .set i t => ofExcept l (setItem o l i t)
  | .del i => ofExcept l (delItem l i)
  | .delSlice a b => (delSlice l a b, none)
  | .append t => ofExcept l (insert o l l.length t)
  | .extend ts => extend o l ts
  | .pop i =>
    match getItem l i with
    | .ok _ => ofExcept l (delItem l i)
    | .error e => (l, some e)
  | .reverse => reverseLoop o l.length (List.range (l.length / 2)) l
  | .iadd ts => extend o l ts
  | .setSlice a b c v => ofExcept l (setSlice l a b c v)
  | .delSliceX a b c => ofExcept l (delSliceX l a b c)
  | .clear =>
    match clearLoop (l.length + 1) l with
    | some l' => (l', none)
    | none => (l, none)   -- unreachable (`Props.C19.formula_clear_remove`)
  | .remove t => ofExcept l (remove l t)
  | .getSlice _ _ c => (l, if c == 0 then some .valueError else none)
  | .index t => (l, if (indexOf l t).isNone then some .valueError else none)
  | .count _ => (l, none)
  | .contains _ => (l, none)
  | .reversed => (l, none)
  | .eq _ => (l, none)
  | .eqForeign => (l, none)

/-- the value a read-only operation returns (`Res.none` for the mutating ones and for failures) -/
def result (o : Ordering) (l : List Term) : Op → Res
  | .getSlice a b c =>
    match getSlice o l a b c with
    | .ok ts => .terms ts
    | .error _ => .none
  | .index t =>
    match indexOf l t with
    | some n => .nat n
    | none => .none
  | .count t => .nat (count l t)
  | .contains t => .bool (decide (0 < count l t))
  | .reversed => .terms l.reverse
  | .eq other => .bool (eqTerms l other)
  | .eqForeign => .bool false            -- `NotImplemented` from both sides: identity comparison
  | _ => .none

/-- a whole sequence of operations (exceptions caught by the caller) -/
def run (o : Ordering) (l : List Term) : List Op → List Term
  | [] => l
  | op :: ops => run o (step o l op).1 ops

/-- the states after each operation, with the error raised -/
def trace (o : Ordering) (l : List Term) : List Op → List (List Term × Option Err)
  | [] => []
  | op :: ops => let r := step o l op; r :: trace o r.1 ops

end FormulaicVerif.Model.SFm
