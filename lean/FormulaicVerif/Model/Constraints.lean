/-! `formulaic/utils/constraints.py`: `ConstraintToken.to_terms`, `ScaledFactor`, the operators of
`ConstraintOperatorResolver` (`join_tuples`, `add/sub/negate/mul/div_terms`), `ASTNode.to_terms`
with `Structured._merge` as far as tuples reach it, `LinearConstraintParser.get_matrix`,
`LinearConstraints.from_spec` (str / list of str / dict).

The model starts at the abstract syntax tree: tokenizer + shunting-yard are a *parameter*
(`parse : String → Parsed`, supplied per case by the harness from the real parser; they are the
subject of C01/C14/C15). Numbers are exact rationals (`Rat`); IEEE rounding is not modelled.

Python `set`s of `ScaledFactor` (hash/eq by factor only) are lists of `SF`. Wherever the code
iterates over a set the model first applies `sh : TermSet → TermSet`, an arbitrary re-ordering
(the theorems quantify over every `sh` that permutes its argument; the engine runs `sh = id`). -/
namespace FormulaicVerif.Model.Constraints

/-- exceptions the modelled code can raise (constructor ↦ Python class in `Err.cls`) -/
inductive Err
  | runtimeMul          -- RuntimeError  "Only one non-scalar factor can be involved …"
  | runtimeDiv          -- RuntimeError  "The right-hand operand must be a scalar …"
  | zeroDiv             -- ZeroDivisionError (`term_left.scale / term_right.scale`)
  | literalNotNumeric   -- FormulaSyntaxError "Only numeric literal values are permitted …"
  | literalSyntax       -- SyntaxError from `ast.literal_eval` (`1.2.3`, `.`, `007`)
  | notAligned          -- ValueError from `Structured._merge` (tuple mixed with non-tuple)
  | structRow           -- AttributeError in `get_matrix` (`'set' object has no attribute 'factor'`)
  | unknownVar (name : String)   -- KeyError `col_vectors[expr]`
  | emptyDict           -- ValueError `numpy.vstack([])`
  | parse (cls : String)         -- whatever the (unmodelled) parser raised for this string
deriving DecidableEq, Repr

def Err.cls : Err → String
  | .runtimeMul | .runtimeDiv => "RuntimeError"
  | .zeroDiv => "ZeroDivisionError"
  | .literalNotNumeric => "FormulaSyntaxError"
  | .literalSyntax => "SyntaxError"
  | .notAligned | .emptyDict => "ValueError"
  | .structRow => "AttributeError"
  | .unknownVar _ => "KeyError"
  | .parse c => c

/-! ## Abstract syntax tree (what `tokens_to_ast` returns for the constraint operator table) -/

inductive Kind | name | python | value
deriving DecidableEq, Repr

inductive Op1 | pos | neg
deriving DecidableEq, Repr

inductive Op2 | comma | eq | add | sub | mul | div
deriving DecidableEq, Repr

inductive Node
  | leaf (k : Kind) (text : String)
  | un (op : Op1) (a : Node)
  | bin (op : Op2) (l r : Node)
deriving DecidableEq, Repr

/-- result of the real parser on one string -/
inductive Parsed
  | empty                  -- `get_ast` returned `None` (no tokens)
  | ast (n : Node)
  | error (cls : String)   -- the parser raised
deriving Repr

/-! ## Numeric literals: `ast.literal_eval` on a VALUE token

The tokenizer makes VALUE tokens from `[0-9.]+` or from quoted strings. -/

def digitVal (c : Char) : Nat := c.toNat - '0'.toNat

def digitsVal (cs : List Char) : Nat := cs.foldl (fun acc c => 10 * acc + digitVal c) 0

def isNumChar (c : Char) : Bool := c.isDigit || c == '.'

/-- Python's grammar on `[0-9.]+`: decimal integer (no leading zeros unless all zero) or
`digits? . digits?` with at least one digit. -/
def parseNumber (cs : List Char) : Except Err Rat :=
  match cs.filter (· == '.') with
  | [] =>
    if cs = [] then .error .literalSyntax
    else if cs.length > 1 && cs.head? == some '0' && cs.any (· != '0') then .error .literalSyntax
    else .ok (digitsVal cs : Nat)
  | [_] =>
    let ip := cs.takeWhile (· != '.')
    let fp := (cs.dropWhile (· != '.')).drop 1
    if ip = [] && fp = [] then .error .literalSyntax
    else .ok ((digitsVal ip : Nat) + (digitsVal fp : Nat) / ((10 ^ fp.length : Nat) : Rat))
  | _ => .error .literalSyntax

/-- `ast.literal_eval(token)` followed by the `isinstance(factor, (int, float))` test.
A VALUE token that starts with a quote is `quote … quote [0-9.]*` (tokenizer); without trailing
characters it is a string literal (→ "only numeric literals"), with them it is not Python at all.
Backslash escapes inside the quotes are not modelled. -/
def literalEval (text : String) : Except Err Rat :=
  let cs := text.toList
  match cs with
  | [] => .error .literalSyntax
  | c :: rest =>
    if c == '"' || c == '\'' then
      match rest.dropWhile (· != c) with
      | [_] => .error .literalNotNumeric
      | _ => .error .literalSyntax
    else if cs = ['.', '.', '.'] then .error .literalNotNumeric   -- `...` is Python's Ellipsis literal
    else if cs.all isNumChar then parseNumber cs
    else .error .literalSyntax

/-! ## `ScaledFactor` and sets of them -/

/-- `factor = none` is the literal `1` (a constant term); `some e` is `Factor(expr=e)`.
`Factor.__eq__`/`__hash__` use `expr` only, so NAME and PYTHON tokens with equal text coincide. -/
structure SF where
  factor : Option String
  scale : Rat
deriving DecidableEq, Repr

abbrev TermSet := List SF
abbrev Shuffle := TermSet → TermSet

def lookup (s : TermSet) (k : Option String) : Option SF := s.find? (fun t => t.factor == k)
def hasKey (s : TermSet) (k : Option String) : Bool := s.any (fun t => t.factor == k)

/-- `ConstraintToken.to_terms` -/
def leafTerms (k : Kind) (text : String) : Except Err TermSet :=
  match k with
  | .value => match literalEval text with
    | .ok q => .ok [⟨none, q⟩]
    | .error e => .error e
  | _ => .ok [⟨some text, 1⟩]

/-- `add_terms` -/
def addTerms (sh : Shuffle) (l r : TermSet) : TermSet :=
  let l := sh l
  let r := sh r
  let added := l.map (fun t => match lookup r t.factor with
    | some u => ⟨t.factor, t.scale + u.scale⟩
    | none => t)
  added ++ r.filter (fun u => !hasKey added u.factor)

/-- `negate_terms` -/
def negateTerms (sh : Shuffle) (s : TermSet) : TermSet := (sh s).map (fun t => ⟨t.factor, -t.scale⟩)

/-- `sub_terms` -/
def subTerms (sh : Shuffle) (l r : TermSet) : TermSet :=
  let l := sh l
  let r := sh r
  let added := l.map (fun t => match lookup r t.factor with
    | some u => ⟨t.factor, t.scale - u.scale⟩
    | none => t)
  added ++ negateTerms sh (r.filter (fun u => !hasKey added u.factor))

/-- `mul_term` -/
def mulTerm (tl tr : SF) : Except Err SF :=
  match tl.factor, tr.factor with
  | none, _ => .ok ⟨tr.factor, tl.scale * tr.scale⟩
  | some f, none => .ok ⟨some f, tl.scale * tr.scale⟩
  | some _, some _ => .error .runtimeMul

/-- `div_term` (Python's `/` raises on a zero divisor, int or float) -/
def divTerm (tl tr : SF) : Except Err SF :=
  match tr.factor with
  | none => if tr.scale = 0 then .error .zeroDiv else .ok ⟨tl.factor, tl.scale / tr.scale⟩
  | some _ => .error .runtimeDiv

/-- `itertools.product(terms_left, terms_right)` -/
def pairs (l r : TermSet) : List (SF × SF) := l.flatMap (fun a => r.map (fun b => (a, b)))

/-- the accumulation loop shared by `mul_terms` and `div_terms`:
`for tl, tr in product(...): terms = add_terms(terms, {f(tl, tr)})` -/
def accumulate (sh : Shuffle) (f : SF → SF → Except Err SF) :
    List (SF × SF) → TermSet → Except Err TermSet
  | [], acc => .ok acc
  | (a, b) :: ps, acc =>
    match f a b with
    | .error e => .error e
    | .ok t => accumulate sh f ps (addTerms sh acc [t])

def mulTerms (sh : Shuffle) (l r : TermSet) : Except Err TermSet :=
  accumulate sh mulTerm (pairs (sh l) (sh r)) []

def divTerms (sh : Shuffle) (l r : TermSet) : Except Err TermSet :=
  accumulate sh divTerm (pairs (sh l) (sh r)) []

/-! ## Values flowing through `ASTNode.to_terms`

A node's result is a set, a tuple (from `,`) or — when a non-structural operator receives only
tuples — a `Structured` wrapper around the concatenated tuple (`Structured._merge` returns it
without ever calling the operator). Nothing can be done with the wrapper except pass it on;
`get_matrix` raises AttributeError on it. -/

inductive Item
  | set (s : TermSet)
  | struct
deriving Repr

inductive Value
  | one (s : TermSet)
  | tup (items : List Item)
  | struct
deriving Repr

/-- `join_tuples` -/
def Value.items : Value → List Item
  | .one s => [.set s]
  | .tup is => is
  | .struct => [.struct]

def applyUn (sh : Shuffle) (op : Op1) : Value → Value
  | .one s => match op with
    | .pos => .one s                      -- `lambda arg: arg`
    | .neg => .one (negateTerms sh s)
  | .tup _ => .struct
  | .struct => .struct

def applySets (sh : Shuffle) (op : Op2) (a b : TermSet) : Except Err TermSet :=
  match op with
  | .comma => .ok a   -- unreachable: `,` is structural (handled in `applyBin`)
  | .eq => .ok (addTerms sh a (negateTerms sh b))
  | .add => .ok (addTerms sh a b)          -- `functools.reduce(add_terms, args)`, two args
  | .sub => .ok (subTerms sh a b)
  | .mul => mulTerms sh a b
  | .div => divTerms sh a b

def applyBin (sh : Shuffle) (op : Op2) (a b : Value) : Except Err Value :=
  match op with
  | .comma => .ok (.tup (a.items ++ b.items))
  | _ =>
    match a, b with
    | .one s, .one t => match applySets sh op s t with
      | .ok u => .ok (.one u)
      | .error e => .error e
    | .tup _, .tup _ => .ok .struct
    | .struct, .struct => .ok .struct
    | _, _ => .error .notAligned

/-- `ASTNode.to_terms` / `ConstraintToken.to_terms`. The code evaluates nodes in
`graphlib.TopologicalSorter` order; for a successful evaluation the order is irrelevant, and on
failure this function reports the left-most failing subtree (see `toTermsAll` for the set of
errors another schedule could report). -/
def toTerms (sh : Shuffle) : Node → Except Err Value
  | .leaf k text => match leafTerms k text with
    | .ok s => .ok (.one s)
    | .error e => .error e
  | .un op a => match toTerms sh a with
    | .ok v => .ok (applyUn sh op v)
    | .error e => .error e
  | .bin op l r => match toTerms sh l with
    | .error e => .error e
    | .ok a => match toTerms sh r with
      | .error e => .error e
      | .ok b => applyBin sh op a b

/-! ## `LinearConstraintParser.get_matrix` -/

/-- `numpy.eye(n)[j]` -/
def unitRow (n j : Nat) : List Rat := (List.range n).map (fun i => if i = j then 1 else 0)

/-- `dict(zip(variable_names, numpy.eye(n)))[expr]`: the LAST column of that name wins -/
def colIndexFrom : List String → Nat → String → Option Nat
  | [], _, _ => none
  | v :: vs, i, e =>
    match colIndexFrom vs (i + 1) e with
    | some j => some j
    | none => if v = e then some i else none

def colIndex (names : List String) (e : String) : Option Nat := colIndexFrom names 0 e

def addScaled (v : List Rat) (c : Rat) (u : List Rat) : List Rat := List.zipWith (fun a b => a + c * b) v u

/-- the inner `for scaled_factor in constraint` loop: returns (vector, constant) -/
def rowLoop (names : List String) : TermSet → List Rat → Rat → Except Err (List Rat × Rat)
  | [], v, c => .ok (v, c)
  | t :: ts, v, c =>
    match t.factor with
    | none => rowLoop names ts v (c + t.scale)
    | some e => match colIndex names e with
      | none => .error (.unknownVar e)
      | some j => rowLoop names ts (addScaled v t.scale (unitRow names.length j)) c

def rowOf (sh : Shuffle) (names : List String) : Item → Except Err (List Rat × Rat)
  | .struct => .error .structRow
  | .set s => match rowLoop names (sh s) (List.replicate names.length 0) 0 with
    | .error e => .error e
    | .ok (v, c) => .ok (v, -c)

def rowsOf (sh : Shuffle) (names : List String) : List Item → Except Err (List (List Rat) × List Rat)
  | [] => .ok ([], [])
  | it :: its => match rowOf sh names it with
    | .error e => .error e
    | .ok (v, c) => match rowsOf sh names its with
      | .error e => .error e
      | .ok (A, b) => .ok (v :: A, c :: b)

/-- `get_matrix(formula)` given what the parser returned for `formula` -/
def getMatrix (sh : Shuffle) (names : List String) : Parsed → Except Err (List (List Rat) × List Rat)
  | .error c => .error (.parse c)
  | .empty => .ok ([], [])
  | .ast n => match toTerms sh n with
    | .error e => .error e
    | .ok v => rowsOf sh names v.items

/-! ## `LinearConstraints.from_spec` -/

inductive Spec
  | str (s : String)
  | list (ss : List String)
  | dict (items : List (String × Rat))
deriving Repr

def dictRows (sh : Shuffle) (names : List String) (parse : String → Parsed) :
    List (String × Rat) → Except Err (List (List Rat) × List Rat)
  | [] => .ok ([], [])
  | (k, c) :: rest => match getMatrix sh names (parse k) with
    | .error e => .error e
    | .ok (A, b) => match dictRows sh names parse rest with
      | .error e => .error e
      | .ok (A', b') => .ok (A ++ A', b.map (· + c) ++ b')

def fromSpec (sh : Shuffle) (names : List String) (parse : String → Parsed) :
    Spec → Except Err (List (List Rat) × List Rat)
  | .str s => getMatrix sh names (parse s)
  | .list ss => getMatrix sh names (parse (",".intercalate ss))
  | .dict items => match dictRows sh names parse items with
    | .error e => .error e
    | .ok (A, b) => if items = [] then .error .emptyDict else .ok (A, b)

/-! ## All errors another evaluation schedule / set order could raise

`ASTNode.to_terms` schedules independent subtrees with `graphlib`, and `div_terms` meets the
elements of the divisor in set order; when several things are wrong, which exception surfaces
first is not determined by the source text. `toTermsAll` evaluates like `toTerms id` but
collects the errors of every minimal failing node. Used by the correspondence only to compare
error classes; `Proofs.C16.toTermsAll_ok` / `toTerms_error_mem` link it to `toTerms`. -/

def divErrs (r : TermSet) : List Err :=
  r.filterMap (fun t => match divTerm ⟨none, 0⟩ t with | .error e => some e | .ok _ => none)

def applyBinAll (op : Op2) (a b : Value) : Except (List Err) Value :=
  match applyBin id op a b with
  | .ok v => .ok v
  | .error e => match op, a, b with
    | .div, .one _, .one t => .error (divErrs t)
    | _, _, _ => .error [e]

def toTermsAll : Node → Except (List Err) Value
  | .leaf k text => match leafTerms k text with
    | .ok s => .ok (.one s)
    | .error e => .error [e]
  | .un op a => match toTermsAll a with
    | .ok v => .ok (applyUn id op v)
    | .error e => .error e
  | .bin op l r => match toTermsAll l, toTermsAll r with
    | .ok a, .ok b => applyBinAll op a b
    | .error e, .ok _ => .error e
    | .ok _, .error e => .error e
    | .error e₁, .error e₂ => .error (e₁ ++ e₂)

end FormulaicVerif.Model.Constraints
