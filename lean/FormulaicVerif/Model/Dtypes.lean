/-! # C08 — the dtype of the returned matrix

What `model_matrix` hands back is a container with a dtype: a pandas frame (one dtype per column), a
numpy array or a scipy sparse matrix (one dtype for all cells), a native frame behind narwhals.
"Every cell is a number for every output type and materializer" shows there as: every column dtype
/ the array dtype is an integer or floating-point dtype — not `object`, not `bool`.

The dtypes themselves are decided by numpy, pandas, scipy, narwhals and pyarrow (type promotion,
conversions). They enter the model as FOUR FINITE TABLES that `harness/translate.py` regenerates
from the live package (`Gen/DtypeTable.lean`): the dtype of a one-column matrix per dtype label x
route x output; the effect of a literal scale; the dtype of the intercept column; the dtype of two
columns stacked in a single-dtype container. The model computes the dtype(s) of any matrix from
them: per column for frame outputs, a left fold of the stacking table for array outputs.
Core Lean only. -/
namespace FormulaicVerif.Model.Dtypes

inductive NDt
  | bool | int8 | int16 | int32 | int64 | uint8 | uint16 | uint32 | uint64 | float16 | float32 | float64
  | object
  /-- anything else (also: the probe failed) -/
  | other
deriving DecidableEq, Repr, Inhabited

/-- an integer or floating-point dtype -/
def NDt.isNumeric : NDt → Bool
  | .bool => false
  | .object => false
  | .other => false
  | _ => true

def NDt.name : NDt → String
  | .bool => "bool" | .int8 => "int8" | .int16 => "int16" | .int32 => "int32" | .int64 => "int64"
  | .uint8 => "uint8" | .uint16 => "uint16" | .uint32 => "uint32" | .uint64 => "uint64"
  | .float16 => "float16" | .float32 => "float32" | .float64 => "float64" | .object => "object" | .other => "other"

/-- the generated tables -/
structure Tables where
  /-- (dtype label, route, output, dtype of the matrix of `0 + A`) -/
  solo : List (String × String × String × NDt)
  /-- (route, output, dummy column?, unscaled dtype, dtype under an integer literal, under a float literal) -/
  scaled : List (String × String × Bool × NDt × NDt × NDt)
  /-- (route, output, dtype of the matrix of `1`) -/
  intercept : List (String × String × NDt)
  /-- (route, output, dtype 1, dtype 2, dtype of the two columns combined) -/
  stack : List (String × String × NDt × NDt × NDt)

def soloDt (T : Tables) (label route out : String) : Option NDt :=
  match T.solo.find? (fun r => r.1 == label && r.2.1 == route && r.2.2.1 == out) with
  | some r => some r.2.2.2
  | none => none

def interceptDt (T : Tables) (route out : String) : Option NDt :=
  match T.intercept.find? (fun r => r.1 == route && r.2.1 == out) with
  | some r => some r.2.2
  | none => none

inductive ScaleKind | none | int | flt
deriving DecidableEq, Repr

/-- the dtype of a dummy column (`get_dummies` / the sparse encoder, times the scale) -/
def dummyDt (T : Tables) (route out : String) (sc : ScaleKind) : Option NDt :=
  match T.scaled.find? (fun r => r.1 == route && r.2.1 == out && r.2.2.1) with
  | some r => some (match sc with | .none => r.2.2.2.1 | .int => r.2.2.2.2.1 | .flt => r.2.2.2.2.2)
  | none => none

/-- the dtype of a numeric column of unscaled dtype `d` under the scale -/
def scaleDt (T : Tables) (route out : String) (d : NDt) (sc : ScaleKind) : Option NDt :=
  match sc with
  | .none => some d
  | sc =>
    match T.scaled.find? (fun r => r.1 == route && r.2.1 == out && !r.2.2.1 && r.2.2.2.1 == d) with
    | some r => some (match sc with | .int => r.2.2.2.2.1 | _ => r.2.2.2.2.2)
    | none => none

def stack2 (T : Tables) (route out : String) (a b : NDt) : Option NDt :=
  match T.stack.find? (fun r => r.1 == route && r.2.1 == out && r.2.2.1 == a && r.2.2.2.1 == b) with
  | some r => some r.2.2.2.2
  | none => none

def stackFrom (T : Tables) (route out : String) : NDt → List NDt → Option NDt
  | d, [] => some d
  | d, e :: r =>
    match stack2 T route out d e with
    | none => none
    | some f => stackFrom T route out f r

/-- the dtype of a numpy array / sparse matrix assembled from columns of these dtypes
(`numpy.stack`, `scipy.sparse.hstack`, `DataFrame.to_numpy`); no column at all: `numpy.empty((n, 0))` -/
def stackAll (T : Tables) (route out : String) : List NDt → Option NDt
  | [] => some .float64
  | d :: r => stackFrom T route out d r

end FormulaicVerif.Model.Dtypes
