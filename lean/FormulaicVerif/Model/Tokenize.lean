/-! `formulaic/parser/algos/tokenize.py` and `Token` (`parser/types/token.py`), as written.

Character classes `\w` and `\s` are Unicode-aware in Python's `re`; they enter the model as data
(`CharInfo.word`, `CharInfo.space`, computed by the harness with the very regexes the code uses).
`[0-9\.]` is ASCII and is modelled directly. -/
namespace FormulaicVerif.Model

inductive TKind | context | operator | value | name | python
deriving DecidableEq, Repr, Inhabited

/-- a character with the result of `word_chars.match` (`[\.\_\w]`) and `whitespace_chars.match` (`\s`) -/
structure CharInfo where
  c : Char
  word : Bool
  space : Bool
deriving DecidableEq, Repr, Inhabited

/-- `Token`: text, kind (may be unset), source span (may be unset) -/
structure Tok where
  text : List Char := []
  kind : Option TKind := none
  start : Option Nat := none
  stop : Option Nat := none
deriving DecidableEq, Repr, Inhabited

/-- `Token.update(char, i, kind=None)` -/
def Tok.update (t : Tok) (c : Char) (i : Nat) (k : Option TKind := none) : Tok :=
  { text := t.text ++ [c]
    kind := match k with | some k => some k | none => t.kind
    start := match t.start with | some s => some s | none => some i
    stop := some i }

/-- `bool(token)` -/
def Tok.nonempty (t : Tok) : Bool := !t.text.isEmpty

/-- `Token(source=formula, kind=k, source_start=i)`: `source_end = source_end or source_start` -/
def Tok.opened (k : TKind) (i : Nat) : Tok := { text := [], kind := some k, start := some i, stop := some i }

def Tok.fresh : Tok := {}

inductive LexErr
  | unexpectedQuote (i : Nat)        -- "Unexpected character ... following token"
  | unexpectedKind (i : Nat)         -- "Unexpected token kind ... for character" (pragma: no cover)
  | unterminated                     -- "Formula ended before quote context was closed"
deriving DecidableEq, Repr

structure LexState where
  qc : List Char := []       -- quote_context, top of stack first
  take : Nat := 0
  tok : Tok := {}
  out : List Tok := []       -- emitted tokens, most recent first
deriving Repr, Inhabited

def isNumericChar (c : Char) : Bool := (c.isDigit) || c == '.'

def closerOf (c : Char) : Char := if c == '(' then ')' else if c == '[' then ']' else if c == '{' then '}' else c

/-- emit the pending token if non-empty and start a fresh one (the recurring `if token: yield token; token = Token()`) -/
def LexState.flush (s : LexState) : LexState :=
  if s.tok.nonempty then { s with out := s.tok :: s.out, tok := Tok.fresh } else s

/-- loop body, inside a quote context whose innermost closer is `top` -/
def lexQuoted (s : LexState) (i : Nat) (ci : CharInfo) (top : Char) (rest : List Char) : Except LexErr LexState :=
  if ci.c == '\\' then
    .ok { s with tok := s.tok.update ci.c i, take := 1 }
  else if (top == '}' || top == '`' || top == '%') && ci.c == top then
    -- closing a brace / backtick / percent quote
    if s.tok.nonempty then
      if !rest.isEmpty then .ok { s with qc := rest, tok := s.tok.update ci.c i }
      else .ok { s with qc := rest, out := s.tok :: s.out, tok := Tok.fresh }
    else if rest.isEmpty then .ok { s with qc := rest, tok := Tok.fresh }
    else .ok { s with qc := rest }
  else if ci.c == top then
    .ok { s with qc := rest, tok := s.tok.update ci.c i }
  else
    let qc' := if (ci.c == '`' || ci.c == '(' || ci.c == '[' || ci.c == '{' || ci.c == '"' || ci.c == '\'')
                    && (top == '}' || top == ')' || top == ']')
               then closerOf ci.c :: s.qc else s.qc
    .ok { s with qc := qc', tok := s.tok.update ci.c i }

/-- loop body at top level, for characters that are not quote openers or brackets -/
def lexPlain (s : LexState) (i : Nat) (ci : CharInfo) : Except LexErr LexState :=
  if ci.space then
    if s.tok.nonempty && s.tok.kind != some .operator then .ok s.flush else .ok s
  else if ci.c == '"' || ci.c == '\'' then
    let s' := if s.tok.nonempty && s.tok.kind == some .operator then s.flush else s
    if !s'.tok.nonempty then
      .ok { s' with tok := s'.tok.update ci.c i (some .value), qc := [ci.c] }
    else .error (.unexpectedQuote i)
  else if ci.word then
    let s' := if s.tok.nonempty && (s.tok.kind == some .operator || s.tok.kind == some .python)
              then s.flush else s
    if !(s'.tok.kind == none || s'.tok.kind == some .value || s'.tok.kind == some .name) then
      .error (.unexpectedKind i)
    else
      let k := if isNumericChar ci.c && (s'.tok.kind == none || s'.tok.kind == some .value)
               then TKind.value else TKind.name
      .ok { s' with tok := s'.tok.update ci.c i (some k) }
  else
    let s' := if s.tok.nonempty && s.tok.kind != some .operator then s.flush else s
    .ok { s' with tok := s'.tok.update ci.c i (some .operator) }

/-- loop body at top level (no quote context open) -/
def lexTop (s : LexState) (i : Nat) (ci : CharInfo) : Except LexErr LexState :=
  if ci.c == '%' then
    let s' := if s.tok.nonempty then { s with out := s.tok :: s.out } else s
    .ok { s' with tok := Tok.opened .operator i, qc := ['%'] }
  else if ci.c == '{' then
    let s' := if s.tok.nonempty then { s with out := s.tok :: s.out } else s
    .ok { s' with tok := Tok.opened .python i, qc := ['}'] }
  else if ci.c == '`' then
    let s' := if s.tok.nonempty then { s with out := s.tok :: s.out } else s
    .ok { s' with tok := Tok.opened .name i, qc := ['`'] }
  else if ci.c == '(' || ci.c == '[' then
    if s.tok.kind == some .name || s.tok.kind == some .python then
      .ok { s with tok := s.tok.update ci.c i (some .python), qc := [closerOf ci.c] }
    else
      let s' := s.flush
      .ok { s' with out := (Tok.fresh.update ci.c i (some .context)) :: s'.out }
  else if ci.c == ')' || ci.c == ']' then
    let s' := s.flush
    .ok { s' with out := (Tok.fresh.update ci.c i (some .context)) :: s'.out }
  else lexPlain s i ci

/-- one iteration of the `for i, char in enumerate(formula)` loop -/
def lexStep (s : LexState) (i : Nat) (ci : CharInfo) : Except LexErr LexState :=
  if s.take > 0 then
    .ok { s with tok := s.tok.update ci.c i, take := s.take - 1 }
  else match s.qc with
  | top :: rest => lexQuoted s i ci top rest
  | [] => lexTop s i ci

/-- run the loop; on an error also return the state reached (its `out` holds the tokens that the
generator had already yielded, which downstream consumers have already seen) -/
def lexLoop : List CharInfo → Nat → LexState → LexState × Option LexErr
  | [], _, s => (s, none)
  | ci :: cs, i, s =>
    match lexStep s i ci with
    | .error e => (s, some e)
    | .ok s' => lexLoop cs (i + 1) s'

/-- `tokenize(formula)` as a generator: the tokens yielded (in source order) and the error that
ends the iteration, if any -/
def tokenizeStream (cs : List CharInfo) : List Tok × Option LexErr :=
  match lexLoop cs 0 {} with
  | (s, some e) => (s.out.reverse, some e)
  | (s, none) =>
    if !s.qc.isEmpty then (s.out.reverse, some .unterminated)
    else ((if s.tok.nonempty then (s.tok :: s.out).reverse else s.out.reverse), none)

/-- `list(tokenize(formula))` -/
def tokenize (cs : List CharInfo) : Except LexErr (List Tok) :=
  match tokenizeStream cs with
  | (_, some e) => .error e
  | (ts, none) => .ok ts

end FormulaicVerif.Model
