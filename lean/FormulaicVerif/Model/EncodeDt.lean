import FormulaicVerif.Model.Encode2
import FormulaicVerif.Model.Dtypes
/-! # C08 — dtype(s) of the matrix of a call (`Model/Encode2.lean` + `Model/Dtypes.lean`)

`callDtypes` recomputes, without caches, which columns the call emits (the same `evalFactor`,
`encodeFactor`, `finishTerm` as the call itself) and gives each its dtype from the generated tables:
a dummy column has the dummy dtype of the route/output, a numeric column the dtype recorded for its
dtype label, both under the term's literal scale; frame outputs report one dtype per column, array
outputs the stacked dtype. Core Lean only. -/
namespace FormulaicVerif.Model.Enc2
open FormulaicVerif.Model FormulaicVerif.Model.Encode FormulaicVerif.Model.PyLevels FormulaicVerif.Model.Dtypes

def routeName : Mat → String
  | .pandas => "pandas"
  | .narwhals => "narwhals"
  | .arrow => "arrow"

def Output.name : Output → String
  | .pandas => "pandas"
  | .numpy => "numpy"
  | .sparse => "sparse"
  | .narwhals => "narwhals"

def scaleKind : Option Scale → ScaleKind
  | none => .none
  | some (.int _) => .int
  | some (.flt _) => .flt

/-- dtype of the columns of one term -/
def termDt (T : Tables) (m : Mat) (out : Output) (frame : List In) (t : Term) (categorical : Bool) : Option NDt :=
  if categorical then dummyDt T (routeName m) out.name (scaleKind t.scale)
  else
    match findCol frame t.fid.name with
    | none => none
    | some c =>
      match soloDt T c.dtype (routeName m) out.name with
      | none => none
      | some d => scaleDt T (routeName m) out.name d (scaleKind t.scale)

/-- the dtypes of the columns the terms emit, in order (one entry per emitted column) -/
def termsDts (T : Tables) (tbl : List KindRow) (m : Mat) (frame : List In) (out : Output) (efr : Bool)
    (mask : List Bool) : Bool → List Term → Except Err (List NDt)
  | _, [] => .ok []
  | spanned, t :: rest =>
    match evalFactor tbl m frame t.fid with
    | .error e => .error e
    | .ok ef =>
      match encodeFactor out t.fid ef mask (ef.categorical && efr && spanned) with
      | .error e => .error e
      | .ok enc =>
        match termDt T m out frame t ef.categorical with
        | none => .error .unsupported
        | some d =>
          match termsDts T tbl m frame out efr mask (spanned || ef.categorical) rest with
          | .error e => .error e
          | .ok more =>
            .ok (List.replicate (finishTerm out t (ef.categorical && efr && spanned) enc).length d ++ more)

/-- the dtypes of the matrix a (successful) call returns: one per column for `pandas` / `narwhals`
output, the single array dtype for `numpy` / `sparse` output -/
def callDtypes (T : Tables) (tbl : List KindRow) (m : Mat) (nrows : Nat) (frame : List In) (k : Call) :
    Except Err (List NDt) :=
  match (evaluateAll tbl m frame k.na (k.terms.map (·.fid)) [] (List.replicate nrows false)).2 with
  | .error e => .error e
  | .ok nulls =>
    match termsDts T tbl m frame k.out k.efr (nulls.map (!·)) k.intercept k.terms with
    | .error e => .error e
    | .ok body =>
      match (if k.intercept then (interceptDt T (routeName m) k.out.name).map (fun d => [d]) else some []) with
      | none => .error .unsupported
      | some ic =>
        match k.out with
        | .pandas => .ok (ic ++ body)
        | .narwhals => .ok (ic ++ body)
        | out =>
          match stackAll T (routeName m) out.name (ic ++ body) with
          | none => .error .unsupported
          | some d => .ok [d]

end FormulaicVerif.Model.Enc2
