import FormulaicVerif.Model.Scale
import FormulaicVerif.Model.PyCall
/-! The three ENTRY POINTS of `formulaic/transforms/scale.py` and `patsy_compat.py` as a caller
reaches them — `scale(data, *pos, **kw)`, `center(data)`, `standardize(x, *pos, **kw)` — on top of
the body `Model.Scale.run`:

* argument binding against the live signatures (`Model/PyCall.lean`, `Gen.transformParams`): the
  defaults (`ddof = 1` for `scale`, `ddof = 0` and the keyword `rescale` for `standardize`) are read
  from the package, not written here;
* `center(data, _state)` is `scale(data, scale=False, _state=_state)`;
  `standardize(x, center, rescale, ddof, _state)` is
  `scale(x, center=center, scale=rescale, ddof=ddof, _state=_state)`;
* `scale` is a `functools.singledispatch` function with a second implementation for
  `scipy.sparse.spmatrix` (scale.py lines 62–66):

      if data.shape[1] != 1: raise ValueError("Cannot scale a sparse matrix with more than one column.")
      return scale(data.toarray()[:, 0], *args, **kwargs)

  A sparse matrix is given by the list of its columns.  The dispatch happens when `scale` itself is
  called, i.e. AFTER `center` / `standardize` have bound their own arguments and BEFORE `scale`
  binds its own — the order in which `TypeError` and `ValueError` win is the code's.

Every other container the library hands over (ndarray, list, pandas / narwhals Series, of any
numeric dtype) is `numpy.array(data)`: a vector of numbers, `Data.dense`. -/
namespace FormulaicVerif.Model.ScaleEntry
open FormulaicVerif FormulaicVerif.Model

inductive Err
  | valueError                  -- sparse matrix whose number of columns is not 1
  | bind (e : PyCall.BindErr)   -- TypeError of the argument binding / signature outside the model
  | num (e : Scale.NumErr)      -- numpy produced nan/inf
deriving DecidableEq, Repr

/-- what is passed as `data` -/
inductive Data (α : Type)
  | dense (xs : List α)
  | sparse (cols : List (List α))
deriving Repr

variable {α : Type} [Add α] [Sub α] [Mul α] [Div α] [Zero α] [NatCast α] [IntCast α] [DecidableEq α]

/-- a default of the live signature read as a `center` / `scale` / `ddof` argument -/
def ofLit : Gen.PyLit → Option (Scale.Arg α)
  | .bool b => some (.flag b)
  | .int i => some (.value (i : α))
  | .other _ => none

/-- `ddof` as the number it is used as (`True`/`False` are the integers 1/0 in Python arithmetic) -/
def ddofOf : Scale.Arg α → α
  | .value v => v
  | .flag true => ((1 : Nat) : α)
  | .flag false => ((0 : Nat) : α)

def liftNum {γ : Type} : Except Scale.NumErr γ → Except Err γ
  | .ok v => .ok v
  | .error e => .error (.num e)

def liftBind {γ : Type} : Except PyCall.BindErr γ → Except Err γ
  | .ok v => .ok v
  | .error e => .error (.bind e)

/-- the three values the body of `scale` works with -/
structure Resolved (α : Type) where
  center : Scale.Arg α
  scale : Scale.Arg α
  ddof : Scale.Arg α

/-- bind the written arguments of `fn` and fill in the defaults of its live signature; `sname` is the
name the scale flag has in that signature (`scale` / `rescale`) -/
def resolve (fn sname : String) (pos : List (Scale.Arg α)) (kw : List (String × Scale.Arg α)) :
    Except PyCall.BindErr (Resolved α) :=
  match PyCall.signature fn with
  | .error e => .error e
  | .ok sig =>
    match PyCall.bind (sig.map (·.1)) pos kw with
    | .error e => .error e
    | .ok b =>
      match PyCall.valueOf ofLit sig b "center", PyCall.valueOf ofLit sig b sname,
          PyCall.valueOf ofLit sig b "ddof" with
      | .ok c, .ok s, .ok d => .ok ⟨c, s, d⟩
      | .error e, _, _ => .error e
      | _, .error e, _ => .error e
      | _, _, .error e => .error e

/-- `scale(xs, *pos, **kw, _state=st)` on a vector: the generic implementation (scale.py lines 9–59) -/
def scaleDense (sqrt : α → α) (xs : List α) (pos : List (Scale.Arg α)) (kw : List (String × Scale.Arg α))
    (st : Scale.State α) : Except Err (List α × Scale.State α) :=
  match resolve "scale" "scale" pos kw with
  | .error e => .error (.bind e)
  | .ok r => liftNum (Scale.run sqrt xs r.center r.scale (ddofOf r.ddof) st)

/-- `scale(data, *pos, **kw, _state=st)`: single dispatch on the type of `data` -/
def scaleCall (sqrt : α → α) (data : Data α) (pos : List (Scale.Arg α)) (kw : List (String × Scale.Arg α))
    (st : Scale.State α) : Except Err (List α × Scale.State α) :=
  match data with
  | .dense xs => scaleDense sqrt xs pos kw st
  | .sparse [col] => scaleDense sqrt col pos kw st     -- data.toarray()[:, 0]
  | .sparse _ => .error .valueError                     -- data.shape[1] != 1

/-- `center(data, *pos, **kw, _state=st)` -/
def centerCall (sqrt : α → α) (data : Data α) (pos : List (Scale.Arg α)) (kw : List (String × Scale.Arg α))
    (st : Scale.State α) : Except Err (List α × Scale.State α) :=
  match PyCall.signature "center" with
  | .error e => .error (.bind e)
  | .ok sig =>
    match PyCall.bind (sig.map (·.1)) pos kw with
    | .error e => .error (.bind e)
    | .ok _ => scaleCall sqrt data [] [("scale", .flag false)] st

/-- `standardize(x, *pos, **kw, _state=st)` -/
def standardizeCall (sqrt : α → α) (data : Data α) (pos : List (Scale.Arg α))
    (kw : List (String × Scale.Arg α)) (st : Scale.State α) : Except Err (List α × Scale.State α) :=
  match resolve "standardize" "rescale" pos kw with
  | .error e => .error (.bind e)
  | .ok r => scaleCall sqrt data [] [("center", r.center), ("scale", r.scale), ("ddof", r.ddof)] st

/-- the preloaded names of this family -/
inductive Fn | scale | center | standardize
deriving DecidableEq, Repr

def call (sqrt : α → α) (fn : Fn) (data : Data α) (pos : List (Scale.Arg α))
    (kw : List (String × Scale.Arg α)) (st : Scale.State α) : Except Err (List α × Scale.State α) :=
  match fn with
  | .scale => scaleCall sqrt data pos kw st
  | .center => centerCall sqrt data pos kw st
  | .standardize => standardizeCall sqrt data pos kw st

/-! ### the type that carries a written argument

`scale` decides between "flag" and "number" by the TYPE of the argument.  A boolean arrives as a Python
`bool`, or as a numpy boolean (`numpy.bool_` scalar — what `numpy.any(...)`, a comparison of numpy scalars …
return — or a 0-d boolean array); scale.py normalises the latter to a Python `bool` before the test
(`_as_flag`), so both are flags.  Everything else (Python `int` / `float`, numpy integer / floating scalar,
0-d numeric array) is a number: `numpy.array(value)`. -/

/-- an argument as it is handed over -/
inductive Written (α : Type)
  | pyBool (b : Bool)     -- Python `True` / `False`
  | npBool (b : Bool)     -- `numpy.bool_(b)` or `numpy.array(b)` (0-d, boolean)
  | number (v : α)        -- any numeric type holding the number `v`
deriving Repr

/-- scale.py `_as_flag` followed by the `isinstance(·, bool)` tests of the body -/
def Written.toArg : Written α → Scale.Arg α
  | .pyBool b => .flag b
  | .npBool b => .flag b
  | .number v => .value v

/-- the entry points on arguments as they are handed over -/
def callWritten (sqrt : α → α) (fn : Fn) (data : Data α) (pos : List (Written α))
    (kw : List (String × Written α)) (st : Scale.State α) : Except Err (List α × Scale.State α) :=
  call sqrt fn data (pos.map Written.toArg) (kw.map fun (k, a) => (k, a.toArg)) st

end FormulaicVerif.Model.ScaleEntry
