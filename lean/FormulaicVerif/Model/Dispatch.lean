import FormulaicVerif.Model.EntryPoints
import FormulaicVerif.Model.Registry
/-! # C05 — the plumbing model on top of the registry model

`Model/EntryPoints.lean` reads two things of the registry: which outputs the class registered under a
name offers (`Env.registry`), and the name of the class `for_data(data)` picks (`Call.dataMat`, a
parameter there). Both are COMPUTED here from `Model/Registry.lean`, so that the engine — and the
theorems of `Props/C05.lean` that mention `callFor` — no longer take the result of `for_data` from
the harness: they take what `for_data` itself reads of the data (`type(data).__module__`,
`.__qualname__`, which classes' `SUPPORTS_INPUT` accept it). Core Lean only. -/
namespace FormulaicVerif.Model.Dispatch
open FormulaicVerif.Model FormulaicVerif.Model.Registry

/-- `REGISTER_NAME ↦ REGISTER_OUTPUTS` of `REGISTERED_NAMES` -/
def envRegistry (r : Registry) : List (String × List String) := r.names.map (fun p => (p.1, p.2.outputs))

/-- `FormulaMaterializer.for_data(data).REGISTER_NAME` (`none`: `for_data` raises, or the class has no name) -/
def dataMatOf (r : Registry) (setOrder : List MatClass) (d : Data) : Option String :=
  match forData r setOrder d none with
  | .ok c => c.name
  | .error _ => none

/-- the call record of the plumbing model for data described by what `for_data` reads of it -/
def callFor (r : Registry) (setOrder : List MatClass) (spec : EntryPoints.SpecArg) (dataId : Nat) (d : Data)
    (context dropRows : Option Nat) (overrides : List EntryPoints.Attr) : EntryPoints.Call :=
  { spec := spec, data := dataId, dataMat := dataMatOf r setOrder d, context := context, dropRows := dropRows,
    overrides := overrides }

end FormulaicVerif.Model.Dispatch
